"""C05 — merge is commutative, associative, has {} as unit and is idempotent on data."""
from vlib import core
from checks import mergegen as g
from checks import mergelib as m
from checks import mergemech
from checks import richmerge

META = {
    "harness_bins": ["nkeval"],
    "extract": "C05.v",
    "technique": "Coq proof of commutativity/associativity/unit/idempotence of the data-merge algebra (priorities, optional/not_exported, contracts, nested records, variants, arrays, pending conflicts) for all well-formed trees; algebra tied to merge.rs by differential evaluation (extracted model vs interpreter) and the laws re-checked directly on the interpreter",
    "level_text": "coq/Props/C05.v: for ALL well-formed data trees (any depth/width) merge is closed, commutative, associative, idempotent and has {} as unit, as equalities of denotations, hence of exports (C05_export_*). The algebra (coq/Merge/Algebra.v) is a hand-written reading of merge.rs/merge_fields/MergePriority/iter_serializable; it is tied to the code by running every generated merge expression through the extracted model and through the real interpreter (harness nkeval) and comparing exported trees / error kinds, and each law is also evaluated directly on the interpreter (both operand orders, both bracketings, a & {}, a & a). PARTIAL: recursive fields referring to siblings are outside the algebra; for them the laws are only checked on the interpreter (direct oracle), not proved: checks/richmerge.py generates triples of record literals with recursive fields (references to siblings under lambdas / lets / patterns that reuse the field names, nested and piecewise definitions whose sibling-dependency sets are equal / disjoint / included / overlapping, fields declared in one operand and defined in another, overriding by priority, operands under local contract aliases of the same name, arrays of records with field metadata) and requires that the 6 operand orders x 2 bracketings export the same JSON or all fail, that x & {} and {} & x equal x and that x & x equals x. " + mergemech.MECH_TEXT_C05,
    "level_note": "Trusted: Coq kernel; extraction (ExtrOcamlBasic); the algebra's reading of the code (validated by correspondence only); generator/printer in checks/mergegen.py; contracts are modelled as predicates on exported data (validating contracts only). The well-formedness hypothesis of the theorems (sorted keys, canonical priorities, plain data inside arrays) is checked by the extracted `wf` on every generated case.",
}


def run(ck):
    ck.coq("Props.C05", clean=(ck.tier == "thorough"))
    if not ck.harness(["nkeval"]):
        return
    exe = m.model_exe(ck)
    if not exe:
        return
    rng = core.SplitMix64(ck.seed * 7919 + 5)
    n = 300 if ck.tier == "quick" else 8000
    triples = []
    for i in range(n):
        wild = 10 if i % 8 == 7 else rng.choice([1, 2, 3])      # every 8th triple: malformed stream
        r = rng.fork()
        triples.append((g.gen_expr(r, 2, 3, wild), g.gen_expr(r, 2, 3, wild), g.gen_expr(r, 2, 3, wild), wild))
    # priority chains on one field (three operands with every kind of priority annotation / missing value)
    nchain = 160 if ck.tier == "quick" else 0
    for i in range(nchain):
        a, b, c = g.gen_chain_triple(rng.fork())
        triples.append((a, b, c, "chain"))
    if ck.tier == "thorough":
        for (a, b, c) in g.all_chain_triples():
            triples.append((a, b, c, "chain"))
        ck.coverage["exhaustive_single_field_chains"] = len(g.all_chain_triples())
    EMPTY = ("r", [])
    exprs, index = [], []
    for (a, b, c, wild) in triples:
        progs = [("m", a, b), ("m", b, a), ("m", ("m", a, b), c), ("m", a, ("m", b, c)), ("m", a, EMPTY), a, ("m", a, a),
                 ("m", EMPTY, a)]
        index.append(len(exprs))
        exprs += progs
    impl, mod = m.run_both(ck, exe, exprs)
    ndis = 0
    for t, (a, b, c, wild) in enumerate(triples):
        i = index[t]
        I, M = impl[i:i + 8], mod[i:i + 8]
        ck.case(key=g.sexp(("a", [a, b, c])), nontrivial=(g.size(a) + g.size(b) + g.size(c) >= 8 or wild == "chain"))
        ck.hist("stream", "malformed" if wild == 10 else ("priority-chain" if wild == "chain" else "mostly-valid"))
        ck.hist("outcome a&b", m.outcome_class(I[0]))
        ck.hist("size", min(g.size(a) + g.size(b) + g.size(c), 60) // 10 * 10)
        if t < 3:
            ck.sample({"a": g.nickel(a), "b": g.nickel(b), "c": g.nickel(c), "a&b": I[0], "(a&b)&c": I[2]})
        names = ["a&b", "b&a", "(a&b)&c", "a&(b&c)", "a&{}", "a", "a&a", "{}&a"]
        srcs = dict(zip(names, [g.nickel(e) for e in exprs[i:i + 8]]))
        rep = {"a": g.nickel(a), "b": g.nickel(b), "c": g.nickel(c), "impl": dict(zip(names, I)), "model": dict(zip(names, M)),
               "prelude": g.PRELUDE, "how_to_replay": "feed `<TAB><prelude + expression>` to .build/target/debug/nkeval"}
        # direct oracle: the laws on the implementation
        for x in I:
            if m.crashed(x):
                ck.violation("crash", "interpreter crashed on a merge expression", rep)
        if not m.same_config(I[0], I[1]):
            ck.violation("comm", "a & b and b & a differ: %s vs %s" % (I[0][:80], I[1][:80]), rep)
        if not m.same_config(I[2], I[3]):
            ck.violation("assoc", "(a & b) & c and a & (b & c) differ: %s vs %s" % (I[2][:80], I[3][:80]), rep)
        if I[4] != I[5] and not (I[4].startswith("ERR") and I[5].startswith("ERR")):
            ck.violation("unit", "a & {} differs from a: %s vs %s" % (I[4][:80], I[5][:80]), rep)
        if I[7] != I[5] and not (I[7].startswith("ERR") and I[5].startswith("ERR")):
            ck.violation("unit-left", "{} & a differs from a: %s vs %s" % (I[7][:80], I[5][:80]), rep)
        if not m.same_config(I[6], I[5]):
            ck.violation("idem", "a & a differs from a: %s vs %s" % (I[6][:80], I[5][:80]), rep)
        # correspondence
        for nm, x, y in zip(names, I, M):
            if "!WF" in y or y.startswith("BAD"):
                ck.obligation("generator-in-domain", "internal", False, "model rejects %s: %s" % (srcs[nm], y))
            elif not m.agree(x, y):
                ndis += 1
                if ndis <= 5:
                    ck.obligation("correspondence:algebra-vs-merge.rs", "correspondence", False,
                                  "program %s\nimpl  %s\nmodel %s" % (srcs[nm], x, y))
    ck.coverage["correspondence_programs"] = len(exprs)
    ck.coverage["correspondence_disagreements"] = ndis
    ck.coverage["rule"] = "triples (a,b,c) of record expressions (literals with priorities default/none/numeric/force, optional, not_exported, contracts Number/String/Bool/Pos/Even/NonEmpty, nested records, piecewise duplicates, variants, arrays, inner merges); 7 of 8 triples from the mostly-valid stream, 1 of 8 fully random; plus priority chains: three operands defining the same field with every priority form, with/without value, optional, not_exported (exhaustive 21^3 in the thorough tier); 8 programs per triple; non-trivial = total size >= 8"
    ck.coverage["partial"] = "recursive sibling references are not in the algebra (laws checked on the interpreter only: rich_rule; see also C07)"
    ck.trusted += ["extraction: ExtrOcamlBasic only", "harness bin nkeval (canonical outcome printer)", "generator checks/mergegen.py"]
    ck.assumptions += ["validating contracts are predicates on the exported value"]
    mergemech.run(ck, "C05")      # mechanism level: Props.C05_mech + map-order tie (checks/mergemech.py)
    richmerge.run_laws(ck, core.harness_bin("nkeval"))      # recursive records: the laws on the interpreter only


def setup():
    return mergemech.setup()


def replay(ck, path):
    import json
    obj = json.load(open(path))
    if obj.get("mech"):
        return mergemech.replay(ck, obj)
    if not ck.harness(["nkeval"]):
        return
    if obj.get("rich"):
        return richmerge.replay(ck, obj)
    lines = []
    for k in ("a&b", "b&a", "(a&b)&c", "a&(b&c)", "a&{}", "a", "a&a"):
        pass
    A, B, C = obj["a"], obj["b"], obj["c"]
    progs = ["(%s & %s)" % (A, B), "(%s & %s)" % (B, A), "((%s & %s) & %s)" % (A, B, C), "(%s & (%s & %s))" % (A, B, C),
             "(%s & {})" % A, A, "(%s & %s)" % (A, A), "({} & %s)" % A]
    rc, I, err = core.run_sharded(core.harness_bin("nkeval"), [], ["\t" + m.esc(g.PRELUDE + p) for p in progs])
    rep = {"a": A, "b": B, "c": C, "impl": I}
    if not m.same_config(I[0], I[1]):
        ck.violation("comm", "a & b and b & a differ", rep)
    if not m.same_config(I[2], I[3]):
        ck.violation("assoc", "(a & b) & c and a & (b & c) differ", rep)
    if I[4] != I[5] and not (I[4].startswith("ERR") and I[5].startswith("ERR")):
        ck.violation("unit", "a & {} differs from a", rep)
    if not m.same_config(I[6], I[5]):
        ck.violation("idem", "a & a differs from a", rep)
    ck.case(key=str(rep))
