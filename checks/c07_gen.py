"""Generators and printers of the C07 check.

Three independent generators, all driven by vlib.core.SplitMix64:

* `gen_history`   part B: override histories over flat recursive records of integer expressions
                  (literals + merges, re-merging results, operands used several times); printed as
                  an s-expression for the extracted model and as Nickel source for nkeval.
* `gen_fv_program` part A: syntactically rich Nickel programs over a tiny pool of names (so that field
                  names, let/fun/pattern binders and type variables collide all the time); only
                  parsed, never evaluated.
* `gen_override`  the broad generator of the direct oracles: structured records (static, nested,
                  piecewise, dynamically named and included fields; dependencies through arithmetic,
                  interpolation, if, arrays, functions, match, inline records, contracts that depend
                  on fields) and override sequences; it computes the record obtained by textually
                  substituting the winning definitions itself.
"""

import re

LET = "abcdefgh"


# ====================================================================== part B: histories
def gen_body(rng, names, idx, depth):
    """a term over the field names of one literal.  References go to lower-numbered names (in every
    literal, so that merged records are mostly acyclic as well), except for one in 16."""
    def ref():
        lower = [n for n in names if n < idx]
        if rng.chance(1, 16) and names:
            return ("var", rng.choice(names))
        if lower:
            return ("var", rng.choice(lower))
        return ("num", rng.range(-3, 6))
    c = rng.below(10)
    if depth <= 0 or c < 2:
        return ref() if rng.chance(2, 3) else ("num", rng.range(-3, 6))
    if c < 5:
        return ("add", gen_body(rng, names, idx, depth - 1), gen_body(rng, names, idx, depth - 1))
    if c < 7:
        return ("mul", gen_body(rng, names, idx, depth - 1), gen_body(rng, names, idx, depth - 1))
    if c < 9:
        return ("ifle", gen_body(rng, names, idx, depth - 1), gen_body(rng, names, idx, depth - 1),
                gen_body(rng, names, idx, depth - 1), gen_body(rng, names, idx, depth - 1))
    return ref()


def gen_prio(rng):
    return rng.weighted([("n", 6), ("b", 4), ("t", 2), (("p", -1), 1), (("p", 0), 2), (("p", 1), 2), (("p", 2), 1)])


def gen_inner_literal(rng, pool, outer):
    k = rng.range(1, min(3, len(pool)))
    names = sorted(rng.shuffle(pool)[:k])
    fields = []
    for n in names:
        if rng.chance(1, 14):
            body = None
        else:
            visible = sorted(set([x for x in names if x < n] + [x for x in outer if x not in names or rng.chance(1, 3)]))
            body = gen_body(rng, visible, max(visible + [n]) + 1 if visible else n, rng.range(0, 2))
        ctrs = []
        if rng.chance(1, 6):
            ctrs.append(("ge", ("add", gen_body(rng, [x for x in names if x < n], n, 0), ("num", -rng.range(0, 30)))))
        fields.append((n, gen_prio(rng), body, "stat", ctrs))
    return fields


def gen_literal(rng, pool, nested=True):
    k = rng.range(1, len(pool))
    names = sorted(rng.shuffle(pool)[:k])
    if rng.chance(1, 3):
        names = rng.shuffle(names)
    fields = []
    # one literal in five has a dynamically named field: its body sees the other (static) names only,
    # and no body may mention it
    dyn = (max(names) if rng.chance(2, 3) else rng.choice(names)) if rng.chance(1, 5) and len(names) > 1 else None
    static = [n for n in names if n != dyn]
    subs = set()
    for n in names:
        if rng.chance(1, 12):
            body = None
        elif nested and rng.chance(1, 6):
            # a nested record literal: its bodies mention its own (lower-numbered) fields and the
            # lower-numbered fields of the enclosing literal; inner names may shadow outer ones
            body = ("sub", gen_inner_literal(rng, pool, [x for x in static if x < n and x not in subs]))
            subs.add(n)
        else:
            # a reference to a record-valued sibling is a type error in arithmetic (or an alias, which is
            # outside the modelled fragment): mostly avoided
            vis = [x for x in static if x not in subs] if rng.chance(5, 6) else static
            body = gen_body(rng, vis, n, rng.range(0, 3))
        # contracts that depend on (lower-numbered) sibling fields: v >= bound (mostly satisfied), v != bound
        ctrs = []
        if rng.chance(1, 4) and not (body is not None and body[0] == "sub" and rng.chance(9, 10)):
            for _ in range(rng.range(1, 2)):
                bound = gen_body(rng, [x for x in static if x not in subs], n, rng.range(0, 1))
                if rng.chance(3, 5):
                    ctrs.append(("ge", ("add", bound, ("num", -rng.range(0, 30)))))
                else:
                    ctrs.append(("ne", bound))
        fields.append((n, gen_prio(rng), body, "dyn" if n == dyn else "stat", ctrs))
    return fields


def tm_vars(t):
    if t[0] == "var":
        return {t[1]}
    if t[0] == "num":
        return set()
    if t[0] == "sub":
        out = set()
        for f in t[1]:
            for b in ([f[2]] if f[2] is not None else []) + [c[1] for c in fctrs(tuple(f))]:
                out |= tm_vars(b)
        return out
    out = set()
    for x in t[1:]:
        out |= tm_vars(x)
    return out


def tm_occ(t):
    if t[0] == "var":
        return 1
    if t[0] == "num":
        return 0
    if t[0] == "sub":
        return sum(tm_occ(b) for f in t[1] for b in ([f[2]] if f[2] is not None else []) + [c[1] for c in fctrs(tuple(f))])
    return sum(tm_occ(x) for x in t[1:])


def history_cost(steps):
    """The extracted evaluators do not memoise: reading a field costs about (variable occurrences
    per field)^(fuel) in the worst case (cyclic records, repeated self-merges double the bodies).
    Returns that bound so that the generator can discard the few histories that would take minutes."""
    recs, worst, names = [], 1, set()
    for s in steps:
        if s[0] == "lit":
            r = {}
            for f in s[1]:
                names.add(f[0])
                v = tm_occ(f[2]) if f[2] is not None else None
                c = sum(tm_occ(t) for (_, t) in fctrs(f))
                r[f[0]] = (f[1], v, c)
            recs.append(r)
        else:
            r1, r2 = recs[s[1]], recs[s[2]]
            r = dict(r1)
            for k, (p2, v2, c2) in r2.items():
                if k not in r:
                    r[k] = (p2, v2, c2)
                    continue
                p1, v1, c1 = r[k]
                if v1 is not None and v2 is not None:
                    a, b = prio_rank(p1), prio_rank(p2)
                    p, v = (p1, v1 + v2) if a == b else ((p1, v1) if a > b else (p2, v2))
                elif v1 is not None:
                    p, v = p1, v1
                else:
                    p, v = p2, v2
                r[k] = (p, v, c1 + c2)
            recs.append(r)
        for (_, v, c) in recs[-1].values():
            worst = max(worst, (v or 0) + c)
    # the depth of the chains of references: over the union of all literals, name k -> the names its
    # definitions and contracts mention; a cycle means that the fuel (names + 3) can be used up
    edges = {}
    for s in steps:
        if s[0] == "lit":
            for f in s[1]:
                e = edges.setdefault(f[0], set())
                for t in ([f[2]] if f[2] is not None else []) + [t for (_, t) in fctrs(f)]:
                    e.update(tm_vars(t))
    depth, state = {}, {}

    def longest(k):
        if state.get(k) == 1:
            return None                      # cycle
        if k in depth:
            return depth[k]
        state[k] = 1
        best = 0
        for x in edges.get(k, ()):
            d = longest(x)
            if d is None:
                return None
            best = max(best, d + 1)
        state[k] = 2
        depth[k] = best
        return best
    ds = [longest(k) for k in list(edges)]
    exponent = len(names) + 3 if any(d is None for d in ds) else max(ds + [0]) + 2
    return worst ** exponent


def gen_history(rng):
    while True:
        h = gen_history_raw(rng)
        if history_cost(h) <= 5000000:
            return h


def gen_history_raw(rng):
    pool = list(range(rng.range(2, 5)))
    steps = []
    for _ in range(rng.range(2, 3)):
        steps.append(("lit", gen_literal(rng, pool)))
    if rng.chance(1, 10):
        steps.append(("lit", []))
    for _ in range(rng.range(1, 4)):
        if rng.chance(1, 8):
            steps.append(("lit", gen_literal(rng, pool)))
        i, j = rng.below(len(steps)), rng.below(len(steps))
        if rng.chance(2, 3) and len(steps) > 2:
            # prefer re-merging the latest result
            i = len(steps) - 1 if rng.chance(1, 2) else i
        if rng.chance(1, 2):
            i, j = j, i
        steps.append(("merge", i, j))
    return steps


def fkind(f):
    """fields are (name, prio, body) | (name, prio, body, "dyn"|"stat") | (name, prio, body, kind, [(ge|ne, tm)...])"""
    return f[3] if len(f) > 3 else "stat"


def fctrs(f):
    return [tuple(c) for c in f[4]] if len(f) > 4 else []


def field_sexp(f):
    return "(%s%d %s %s%s)" % ("dyn " if fkind(f) == "dyn" else "", f[0], prio_sexp(f[1]),
                               tm_sexp(f[2]) if f[2] is not None else "_",
                               "".join(" (%s %s)" % (k, tm_sexp(t)) for (k, t) in fctrs(f)))


def tm_sexp(t):
    if t[0] == "sub":
        return "(sub%s)" % "".join(" " + field_sexp(tuple(f)) for f in t[1])
    if t[0] == "num":
        return "(num %d)" % t[1]
    if t[0] == "var":
        return "(var %d)" % t[1]
    return "(%s %s)" % (t[0], " ".join(tm_sexp(x) for x in t[1:]))


def prio_sexp(p):
    return p if isinstance(p, str) else "(p %d)" % p[1]


def history_sexp(steps):
    out = []
    for s in steps:
        if s[0] == "lit":
            out.append("(lit%s)" % "".join(" " + field_sexp(f) for f in s[1]))
        else:
            out.append("(merge %d %d)" % (s[1], s[2]))
    names = set(f[0] for s in steps if s[0] == "lit" for f in s[1])
    return "(%d " % (len(names) + 3) + " ".join(out) + ")"


def tm_nickel(t):
    if t[0] == "sub":
        return literal_nickel([tuple(f) for f in t[1]])
    if t[0] == "num":
        return str(t[1]) if t[1] >= 0 else "(%d)" % t[1]
    if t[0] == "var":
        return LET[t[1]]
    if t[0] == "add":
        return "(%s + %s)" % (tm_nickel(t[1]), tm_nickel(t[2]))
    if t[0] == "mul":
        return "(%s * %s)" % (tm_nickel(t[1]), tm_nickel(t[2]))
    return "(if %s <= %s then %s else %s)" % tuple(tm_nickel(x) for x in t[1:])


def prio_nickel(p):
    if p == "n":
        return ""
    if p == "b":
        return " | default"
    if p == "t":
        return " | force"
    return " | priority %d" % p[1]


def literal_nickel(fields):
    if not fields:
        return "{}"
    return "{ " + ", ".join("%s%s%s%s" % (LET[f[0]] if fkind(f) != "dyn" else "\"%%{dn_%s}\"" % LET[f[0]], prio_nickel(f[1]),
                                          "".join(" | %s %s" % ("Ge" if k == "ge" else "Ne", tm_nickel(t)) for (k, t) in fctrs(f)),
                                          " = " + tm_nickel(f[2]) if f[2] is not None else "")
                            for f in fields) + " }"


def history_prefix(steps):
    out = ["let dn_%s = \"%s\" in" % (c, c) for c in LET]
    out.append("let Ge = fun lo => std.contract.from_predicate (fun v => v >= lo) in")
    out.append("let Ne = fun lo => std.contract.from_predicate (fun v => v != lo) in")
    for i, s in enumerate(steps):
        if s[0] == "lit":
            out.append("let s%d = %s in" % (i, literal_nickel(s[1])))
        else:
            out.append("let s%d = s%d & s%d in" % (i, s[1], s[2]))
    return "\n".join(out) + "\n"


# ====================================================================== part A: syntax
class FvGen:
    """Nickel source that exercises every syntactic position free_vars.rs traverses.  Names come
    from a pool of five so that binders of all kinds shadow field names and each other."""
    POOL = ["a", "b", "c", "d", "e"]

    def __init__(self, rng):
        self.r = rng

    def name(self):
        return self.r.choice(self.POOL)

    def typ(self, d):
        r = self.r
        c = r.below(17) if d > 0 else r.below(5)
        if c == 0:
            return "Number"
        if c == 1:
            return "String"
        if c == 2:
            return "Dyn"
        if c == 3:
            return self.name()                      # a contract given by a variable
        if c == 4:
            return "Bool"
        if c == 5:
            return "Array (%s)" % self.typ(d - 1)
        if c == 6:
            return "(%s) -> (%s)" % (self.typ(d - 1), self.typ(d - 1))
        if c == 7:
            return "{_ : %s}" % self.typ(d - 1)
        if c == 8:
            return "{_ | %s}" % self.typ(d - 1)
        if c == 9:
            fs = ["%s : %s" % (n, self.typ(d - 1)) for n in r.shuffle(self.POOL)[:r.range(1, 2)]]
            tail = r.choice(["", "; Dyn"])
            return "{%s%s}" % (", ".join(fs), tail)
        if c == 10:
            v = self.name()
            return "forall %s. (%s) -> %s" % (v, self.typ(d - 1), v)
        if c == 11:
            rows = []
            for t in r.shuffle(["A", "B", "C"])[:r.range(1, 3)]:
                rows.append("'%s %s" % (t, "(%s)" % self.typ(d - 1)) if r.chance(2, 3) else "'%s" % t)
            return "[| %s |]" % ", ".join(rows)
        if c == 12:
            v = self.name()
            return "forall %s. [| 'A (%s), 'B ; %s |] -> Dyn" % (v, self.typ(d - 1), v)
        if c == 13:
            v = self.name()
            return "forall %s. {%s : %s ; %s} -> Dyn" % (v, self.name(), self.typ(d - 1), v)
        if c == 14:
            return "(%s %s)" % (self.name(), self.atom(d - 1))          # applied contract
        if c == 15:
            return "{%s | %s, %s | %s}" % (self.POOL[r.below(2)], self.typ(d - 1), self.POOL[2 + r.below(3)], self.typ(d - 1))
        return "(std.contract.from_predicate (fun %s => %s))" % (self.name(), self.expr(d - 1))

    def atom(self, d):
        r = self.r
        c = r.below(6)
        if c < 3 or d <= 0:
            return self.name()
        if c == 3:
            return str(r.below(9))
        return "(%s)" % self.expr(d - 1)

    def pattern(self, d):
        r = self.r
        c = r.below(8)
        if c < 2 or d <= 0:
            return self.name()
        if c == 2:
            return "_"
        if c == 3:
            return "'A %s" % self.name()
        if c == 4:
            fs = []
            for n in r.shuffle(self.POOL)[:r.range(1, 2)]:
                k = r.below(4)
                if k == 0:
                    fs.append(n)
                elif k == 1:
                    fs.append("%s = %s" % (n, self.pattern(d - 1)))
                elif k == 2:
                    fs.append("%s ? %s" % (n, self.atom(d - 1)))
                else:
                    fs.append("%s | %s" % (n, self.typ(0)))
            if r.chance(1, 3):
                fs.append(r.choice(["..", "..%s" % self.name()]))
            return "{%s}" % ", ".join(fs)
        if c == 5:
            return "[%s, ..%s]" % (self.name(), self.name()) if r.chance(1, 2) else "[%s, %s]" % (self.name(), self.name())
        if c == 6:
            return "%s @ %s" % (self.name(), "{%s}" % self.name())
        return str(r.below(3))

    def field(self, d):
        r = self.r
        n = self.name()
        c = r.below(14)
        meta = ""
        if r.chance(1, 3):
            meta += " | %s" % self.typ(min(d, 2))
        if r.chance(1, 6):
            meta += " : %s" % self.typ(1) if not meta else " | %s" % self.typ(1)
        if r.chance(1, 6):
            meta += r.choice([" | default", " | force", " | optional", " | not_exported", " | priority 2", " | doc \"x\""])
        if c < 6:
            return "%s%s = %s" % (n, meta, self.expr(d - 1))
        if c == 6:
            return "%s%s" % (n, meta or " | Number")
        if c == 7:
            return "%s.%s%s = %s" % (n, self.name(), meta, self.expr(d - 1))
        if c == 8:
            return "\"%%{%s}\"%s = %s" % (self.expr(d - 1), meta, self.expr(d - 1))
        if c == 9:
            return "\"k%%{%s}\".%s = %s" % (self.atom(d - 1), self.name(), self.expr(d - 1))
        if c == 10:
            return "include %s%s" % (n, meta if ":" not in meta else "")
        if c == 11:
            return "include [%s]" % ", ".join(r.shuffle(self.POOL)[:r.range(1, 2)])
        if c == 12:
            return "%s.\"%%{%s}\" = %s" % (n, self.atom(d - 1), self.expr(d - 1))
        return "%s%s = %s" % (n, meta, self.record(d - 1))

    def record(self, d):
        r = self.r
        seen_inc, out = set(), []
        for _ in range(r.range(0, 4) if d > 0 else r.range(0, 2)):
            f = self.field(max(d, 1))
            out.append(f)
        # the parser rejects a name that is both included and defined: drop offending includes
        defined = set()
        for f in out:
            if not f.startswith("include") and not f.startswith("\""):
                defined.add(f[0])
        keep = []
        for f in out:
            if f.startswith("include ["):
                ns = [x for x in f[9:-1].split(", ") if x not in defined and x not in seen_inc]
                seen_inc.update(ns)
                if ns:
                    keep.append("include [%s]" % ", ".join(ns))
            elif f.startswith("include "):
                x = f[8]
                if x not in defined and x not in seen_inc:
                    seen_inc.add(x)
                    keep.append(f)
            else:
                keep.append(f)
        if r.chance(1, 10):
            keep.append("..")
        return "{%s}" % ", ".join(keep)

    def expr(self, d):
        r = self.r
        if d <= 0:
            return self.atom(0)
        c = r.below(26)
        e = lambda: self.expr(d - 1)
        if c < 3:
            return self.atom(d)
        if c == 3:
            return "fun %s => %s" % (self.name(), e())
        if c == 4:
            return "fun %s %s => %s" % (self.name(), self.pattern(2), e())
        if c == 5:
            return "let %s = %s in %s" % (self.name(), e(), e())
        if c == 6:
            return "let rec %s = %s in %s" % (self.name(), e(), e())
        if c == 7:
            ns = r.shuffle(self.POOL)[:2]
            kw = r.choice(["let", "let rec"])
            return "%s %s = %s, %s = %s in %s" % (kw, ns[0], e(), ns[1], e(), e())
        if c == 8:
            return "let %s = %s in %s" % (self.pattern(2), e(), e())
        if c == 9:
            return "let %s : %s = %s in %s" % (self.name(), self.typ(1), e(), e())
        if c == 10:
            return "(%s) (%s)" % (e(), e())
        if c == 11:
            return "(%s) %s (%s)" % (e(), r.choice(["+", "*", "&&", "++", "&", "==", "|>", "@"]), e())
        if c == 12:
            return "if %s then %s else %s" % (e(), e(), e())
        if c == 13:
            return "[%s]" % ", ".join(e() for _ in range(r.range(0, 3)))
        if c == 14:
            return "'Tag (%s)" % e()
        if c == 15:
            return "\"s%%{%s}t%%{%s}\"" % (e(), self.atom(0))
        if c == 16:
            return "(%s).%s" % (e(), self.name())
        if c == 17:
            return "(%s).\"%%{%s}\"" % (e(), self.atom(0))
        if c == 18:
            arms = []
            for _ in range(r.range(1, 3)):
                guard = " if %s" % self.atom(1) if r.chance(1, 5) else ""
                arms.append("%s%s => %s" % (self.pattern(2), guard, e()))
            return "(%s) |> match { %s }" % (self.atom(0), ", ".join(arms))
        if c == 19:
            return "((%s) | %s)" % (e(), self.typ(2))
        if c == 20:
            return "((%s) : %s)" % (e(), self.typ(2))
        if c == 21:
            return "%%array/length%% (%s)" % e()
        if c == 22:
            return "m%%\"\n  x%%{%s}\n  y\n\"%%" % e()
        if c == 23:
            return "std.array.map (fun %s => %s) [%s]" % (self.name(), e(), e())
        return self.record(d)

    def program(self):
        d = self.r.range(2, 4)
        return self.record(d) if self.r.chance(2, 3) else self.expr(d)


def gen_fv_program(rng):
    return FvGen(rng).program()


FV_CORPUS = [
    # the defect fixed by a9a5295 and neighbours: record fields used inside enum / record / dict / array / arrow types
    "{ Ctr = Number, x | [| 'A Ctr |] = 'A 1 }",
    "{ Ctr = Number, x | [| 'B, 'A Ctr |] = 'A 1 }",
    "{ Ctr = Number, x | [| 'A [| 'B Ctr |] |] = 'A ('B 1) }",
    "{ Ctr = Number, x | forall r. [| 'A Ctr ; r |] -> Dyn = fun v => v }",
    "{ Ctr = Number, x | {f : Ctr} = {f = 1} }",
    "{ Ctr = Number, x | {f : Ctr ; Dyn} = {f = 1} }",
    "{ Ctr = Number, x | {_ : Ctr} = {f = 1} }",
    "{ Ctr = Number, x | {_ | Ctr} = {f = 1} }",
    "{ Ctr = Number, x | Array Ctr = [1] }",
    "{ Ctr = Number, x | Ctr -> Ctr = fun v => v }",
    "{ Ctr = Number, x | forall a. a -> Ctr = fun v => 1 }",
    "{ Ctr = Number, x : Ctr = 1 }",
    "{ Ctr = Number, x = (1 | [| 'A Ctr |]) }",
    "{ lo = 1, x | std.contract.from_predicate (fun v => v > lo) = 2 }",
    "{ lo = 1, x | {p | std.contract.from_predicate (fun v => v > lo)} = {p = 2} }",
    # binders
    "{ a = 1, b = fun a => a, c = fun x => a }",
    "{ a = 1, b = let a = 2 in a, c = let x = a in x, d = let rec a = a in a, e = let x = a, a = 1 in x }",
    "{ a = 1, b = {a = 2, c = a}, c = {c = a} }",
    "{ a = 1, \"%{a}\" = a, b = 1 }",
    "let a = 1 in { \"%{a}\" = a, a = 2 }",
    "let a = 1 in { include a, b = a }",
    "let a = 1 in { include a | std.contract.from_predicate (fun v => v > b), b = 0 }",
    "let a = 1, b = 2 in { include [a, b], c = a + b }",
    "{ a = 1, b = match { {a} => a, x => a } }",
    "{ a = 1, b = fun {a, c} => a + c, d = fun {c ? a} => c }",
    "{ a = 1, b = \"x%{a}y\", c = m%\"\n %{a}\n\"% }",
    "{ a = 1, b = [a, 'T a, {q = a}] }",
    "{ a.b = 1, a.c = b, d = a.b }",
    "{ a = 1, b | default = a, c | force = b, d | priority 3 = c, e | optional, f | not_exported = e }",
    "{ a = 1, b = (import \"x.ncl\") a }",
    "{ a | doc \"d\" = 1, b = %record/insert% \"x\" {} a }",
]


# ====================================================================== broad override generator
PRELUDE = ('let u0 = 3 in\nlet u1 = 10 in\nlet u0_ = u0 in\nlet dn0 = "z" in\nlet dn1 = "y" in\n')
L0 = ["a", "b", "c", "d", "e"]            # number-valued fields of the top-level records
REC0 = ["m", "n"]                         # record-valued fields of the top-level records
L1 = ["p", "q", "r"]                      # (number-valued) fields of nested records
DYN = {"z": "dn0", "y": "dn1"}            # dynamically named fields and the let that holds their name
B0, B1, S0, S1 = "\x01", "\x02", "\x03", "\x04"


def render(text, binders, mode):
    """Replace the binder markers.  mode "written": every binder has its written name (the name of a
    field, mostly) and record patterns use the shorthand `{a}`; "renamed": every binder is renamed
    apart (bv<id>, `{a = bv<id>}`); "guards-renamed": only the pattern variables of guarded match arms."""
    def ren(k):
        return mode == "renamed" or (mode == "guards-renamed" and binders[k][1] == "guard")

    def occ(m):
        k = int(m.group(1))
        return "bv%d" % k if ren(k) else binders[k][0]

    def short(m):
        k = int(m.group(1))
        return "%s = bv%d" % (binders[k][0], k) if ren(k) else binders[k][0]
    text = re.sub(B0 + r"(\d+)" + B1, occ, text)
    return re.sub(S0 + r"(\d+)" + S1, short, text)
ORDER = {n: i for i, n in enumerate(["a", "b", "m", "c", "d", "n", "e", "z", "y", "w"])}
PRIOS = [("n", 6), ("b", 4), ("t", 2), (("p", 1), 2), (("p", 0), 1), (("p", -1), 1)]
# the base record mostly gives defaults, later operands mostly override with growing priorities
PRIOS_BY_OPERAND = [
    [("b", 9), ("n", 1), (("p", -1), 1)],
    [("n", 6), (("p", 0), 1), (("p", 1), 2), ("b", 1), ("t", 1)],
    [(("p", 1), 3), (("p", 2), 3), ("t", 2), ("n", 1), ("b", 1)],
    [("t", 4), (("p", 2), 2), (("p", 3), 2), ("n", 1)],
]


def prio_rank(p):
    """MergePriority order: Bottom < Numeral/Neutral(=0) < Top"""
    if p == "b":
        return (0, 0)
    if p == "t":
        return (2, 0)
    if p == "n":
        return (1, 0)
    return (1, p[1])


class OvGen:
    """References follow one global order on the top-level names (and p < q < r inside nested
    records), in every operand, so that merged records are acyclic except for one reference in 25;
    names are typed (a..e, z, y, w numbers; m, n records with number fields p, q, r)."""

    def __init__(self, rng, focus=False):
        self.r = rng
        self.features = set()
        self.operand = 0
        # focus: the sub-stream around binders that collide with field names (every binder form x
        # every kind of field, small overriding operands)
        self.focus = focus
        self.binders = {}          # binder id -> (name as written, "guard" | "other")
        self.recent = []           # the fields referenced so far by the definition being generated

    def feat(self, f):
        self.features.add(f)

    def binder(self, cands, taken=(), kind="other"):
        """A fresh local binder (let / fun / pattern variable).  Its occurrences are printed as markers:
        the programs `as written` give it the name of a visible field (2 in 3; preferably one the same
        definition has already referred to), the reference program (the substituted record) renames
        every binder apart, so that no binder can capture a field there.
        Returns (id, written name, occurrence marker)."""
        r = self.r
        nums = [n for n in cands if n not in REC0 and n not in taken]
        hot = [n for n in self.recent if n in nums]
        if hot and r.chance(3, 4 if self.focus else 2):
            w = r.choice(hot)
        elif nums and r.chance(2, 3):
            w = r.choice(nums)
        else:
            w = "v" if "v" not in taken else "vv" if "vv" not in taken else "vvv"
        k = len(self.binders) + 1
        self.binders[k] = (w, kind)
        if w not in ("v", "vv", "vvv"):
            self.feat("binder-named-like-a-field")
        return k, w, "%s%d%s" % (B0, k, B1)

    def prio(self):
        return self.r.weighted(PRIOS_BY_OPERAND[min(self.operand, 3)] if self.r.chance(5, 6) else PRIOS)

    def num(self):
        n = self.r.range(-2, 9)
        return str(n) if n >= 0 else "(%d)" % n

    def ref(self, sib, outer):
        """a number-valued reference: a sibling, a field of the enclosing record, a field of a nested
        sibling record, an outer let, or a literal"""
        r = self.r
        c = r.below(12)
        if sib and c < 6:
            x = r.choice(sib)
            if x in REC0:
                self.feat("ref-into-nested")
                return "%s.%s" % (x, r.weighted([("p", 5), ("q", 1), ("r", 1)]))
            self.recent.append(x)
            return x
        if outer and c < 9:
            x = r.choice(outer)
            if x in REC0:
                self.feat("ref-into-nested")
                return "%s.%s" % (x, r.weighted([("p", 5), ("q", 1), ("r", 1)]))
            self.feat("outer-field-ref")
            self.recent.append(x)
            return x
        if c == 9:
            return r.choice(["u0", "u1"])
        return self.num()

    def expr(self, sib, outer, d):
        r = self.r
        x = lambda: self.ref(sib, outer)
        if d <= 0:
            return x()
        c = r.below(18)
        if self.focus and r.chance(1, 2):
            c = r.choice([10, 15, 17, 17])
        e = lambda: self.expr(sib, outer, d - 1)
        if c < 2:
            return x()
        if c == 2:
            return "(%s + %s)" % (e(), e())
        if c == 3:
            return "(%s * %s - %s)" % (x(), r.choice(["2", "1", x()]), e())
        if c == 4:
            self.feat("if")
            return "(if %s <= %s then %s else %s)" % (e(), x(), e(), e())
        if c == 5:
            self.feat("interpolation")
            return "(std.string.length \"k%%{std.to_string %s}\" + %s)" % (e(), x())
        if c == 6:
            self.feat("array")
            return "(std.array.at %d [%s, %s])" % (r.below(2), e(), e())
        if c == 7:
            self.feat("array-map")
            return "(std.array.fold_left (fun acc v => acc + v) 0 (std.array.map (fun v => v + %s) [%s, 1]))" % (x(), e())
        if c == 8:
            self.feat("function")
            return "((fun v => v + %s) %s)" % (x(), e())
        if c == 9:
            self.feat("let")
            return "(let v = %s in v * %s)" % (e(), x())
        if c == 10 or c in (15, 16) or (c == 11 and r.chance(1, 2)):
            return self.binder_expr(sib, outer, d)
        if c == 17 or (c == 12 and r.chance(1, 2)):
            return self.guarded_match(sib, outer, d)
        if c == 11:
            self.feat("inline-record")
            return "({p = %s, q = p + %s}.q)" % (e(), x())
        if c == 12:
            self.feat("match")
            return "(%s |> match { 0 => %s, _ => %s })" % (x(), e(), e())
        if c == 13:
            self.feat("inline-contract")
            return "(%s | std.contract.from_predicate (fun v => v + 1000 >= %s))" % (e(), x())
        self.feat("function")
        return "(let g = fun v w => v + w * %s in g %s %s)" % (x(), e(), x())

    def binder_expr(self, sib, outer, d):
        """every binder form of the language around a body; the binder may be named like a visible
        field.  What is written outside the scope of the binder (bound expression of a plain let,
        argument, scrutinee) may mention that field; what is inside may not (there the name is the
        binder), so that the program as written and the program with binders renamed apart mean the same."""
        r = self.r
        cands = [n for n in sib + outer if n not in REC0]
        e = lambda: self.expr(sib, outer, d - 1)                 # outside the scope
        k, w, b = self.binder(cands)
        s2, o2 = [n for n in sib if n != w], [n for n in outer if n != w]
        ei = lambda: self.expr(s2, o2, d - 1)                    # inside the scope of b
        form = r.below(12)
        self.feat("binder:" + ["let", "let-rec", "let-multi", "fun", "fun", "fun-curried", "let-record-pattern",
                               "fun-record-pattern", "fun-array-pattern", "match-any", "let-array-pattern", "let-enum-pattern"][form])
        if form == 0:
            return "(let %s = %s in %s + %s)" % (b, e(), b, ei())
        if form == 1:
            return "(let rec %s = %s in %s * 2 - %s)" % (b, ei(), b, ei())
        if form == 2:
            k2, w2, b2 = self.binder(cands, taken=[w])
            s3, o3 = [n for n in s2 if n != w2], [n for n in o2 if n != w2]
            return "(let %s = %s, %s = %s in %s + %s - %s)" % (b, self.num(), b2, e(), b2, b, self.expr(s3, o3, d - 1))
        if form in (3, 4):
            return "((fun %s => %s + %s) %s)" % (b, b, ei(), e())
        if form == 5:
            k2, w2, b2 = self.binder(cands, taken=[w])
            s3, o3 = [n for n in s2 if n != w2], [n for n in o2 if n != w2]
            return "((fun %s %s => %s * 2 + %s + %s) %s %s)" % (b, b2, b, b2, self.expr(s3, o3, d - 1), e(), e())
        sh = "%s%d%s" % (S0, k, S1) if r.chance(1, 2) else "%s = %s" % (w, b)
        # (the matched record literal is recursive: its field value is bound outside of it)
        if form == 6:
            return "(let sv%d = %s in let {%s} = {%s = sv%d} in %s + %s)" % (k, e(), sh, w, k, b, ei())
        if form == 7:
            return "(let sv%d = %s in (fun {%s, ..} => %s + %s) {%s = sv%d, other_ = 0})" % (k, e(), sh, b, ei(), w, k)
        if form == 8:
            return "((fun [%s, ..] => %s + %s) [%s, 0])" % (b, b, ei(), e())
        if form == 9:
            return "(%s |> match { %s => %s + %s })" % (e(), b, b, ei())
        if form == 10:
            return "(let [_, %s] = [0, %s] in %s + %s)" % (b, e(), b, ei())
        return "(let 'T %s = 'T %s in %s + %s)" % (b, e(), b, ei())

    def guarded_match(self, sib, outer, d):
        """a match with 1-3 arms that bind pattern variables (possibly named like visible fields) and
        carry guards, and a default arm; the guards and bodies of LATER arms are outside the scope of
        the earlier arms' variables, so there a name means the field"""
        r = self.r
        self.feat("guarded-match")
        cands = [n for n in sib + outer if n not in REC0]
        e = lambda: self.expr(sib, outer, d - 1)
        shape = r.choice(["any", "rec", "rec", "arr", "enum"])
        narms = r.weighted([(1, 3), (2, 3), (3, 1)])
        arms, fieldnames, first = [], [], None
        for i in range(narms):
            k, w, b = self.binder(cands, kind="guard")
            if first is None:
                first = w
            s2, o2 = [n for n in sib if n != w], [n for n in outer if n != w]
            if shape == "any":
                pat = b
            elif shape == "rec":
                pat = "{%s%s}" % ("%s%d%s" % (S0, k, S1) if r.chance(1, 2) else "%s = %s" % (w, b), ", .." )
                fieldnames.append(w)
            elif shape == "arr":
                pat = r.choice(["[%s, ..]" % b, "[_, %s]" % b])
            else:
                pat = "'%s %s" % (r.choice(["T", "T", "U"]), b)
            guard = ""
            if r.chance(4, 5):
                guard = " if " + r.choice(["%s > %s" % (b, self.num()), "%s <= %s" % (b, self.ref(s2, o2)),
                                           "%s + %s == %s" % (b, self.ref(s2, o2), self.num()),
                                           "%s <= %s" % (self.ref(s2, o2), self.num())])
            body = r.choice(["%s + %s" % (b, self.expr(s2, o2, d - 1)), self.expr(s2, o2, d - 1), "%s * 2" % b])
            arms.append("%s%s => %s" % (pat, guard, body))
        # the default arm mentions the field the first arm's variable is named after (1 in 2)
        if first in sib + outer and r.chance(1, 2):
            self.feat("default-arm-mentions-the-field-an-earlier-arm-rebinds")
            default = "(%s + %s)" % (first, self.num())
        else:
            default = e()
        arms.append("_ => %s" % default)
        if shape == "any":
            scrut = e()
        elif shape == "rec":
            names = []
            for n in fieldnames:
                if n not in names:
                    names.append(n)
            # (a record literal is recursive: the field values are bound outside of it)
            k0 = len(self.binders)
            scrut = "(%s{%s})" % ("".join("let sv%d_%d = %s in " % (k0, i, e()) for i in range(len(names))),
                                  ", ".join("%s = sv%d_%d" % (n, k0, i) for i, n in enumerate(names)))
        elif shape == "arr":
            scrut = "[%s, %s]" % (e(), e())
        else:
            scrut = "('T %s)" % e()
        return "(%s |> match { %s })" % (scrut, ", ".join(arms))

    def rest_operand(self, j, fields):
        """An operand that is the `..rest` of a record pattern applied to the recursive record literal
        [fields], in a match / let / fun: 1-2 fields with a definition are extracted, the remaining
        fields may depend on them.  The rest is what std.record.remove gives: the remaining fields
        FROZEN at the value they have in the literal (their priority is kept, they are not recomputed
        by later merges and carry no pending contract).  Returns the field list of the reference
        (each remaining field f is `rr<j>_.f`), the text as written, the reference let, and the same
        operand built with std.record.remove."""
        r = self.r
        cand = [f["name"] for f in fields if f["kind"] == "stat" and f["val"] is not None and f["val"][0] == "e"]
        if not cand or len(fields) < 2:
            return None
        self.feat("rest-of-a-record-pattern")
        ext = r.shuffle(cand)[:r.weighted([(1, 3), (2, 1)])]
        allnames = [f["name"] for f in fields]
        taken, pats = [], []
        for x in ext:
            c = r.below(3)
            if c == 0:
                pats.append("%s = _" % x)
            else:
                k, w, b = self.binder(allnames, taken=taken)
                taken.append(w)
                # (the shorthand binds a variable named like the field)
                if c == 1 and w == x:
                    pats.append("%s%d%s" % (S0, k, S1))
                else:
                    pats.append("%s = %s" % (x, b))
        k, w, b = self.binder(allnames, taken=taken)
        lit = ov_record_text(fields)
        pat = "{%s, ..%s}" % (", ".join(pats), b)
        form = r.below(3)
        self.feat("rest-pattern:" + ["match", "let", "fun"][form])
        if form == 0:
            written = "(%s |> match { %s => %s })" % (lit, pat, b)
        elif form == 1:
            written = "(let %s = %s in %s)" % (pat, lit, b)
        else:
            written = "((fun %s => %s) %s)" % (pat, b, lit)
        by_std = lit
        for x in ext:
            by_std = "(std.record.remove \"%s\" %s)" % (x, by_std)
        rn = "rr%d_" % j
        ref = []
        for f in fields:
            if f["name"] in ext:
                continue
            ref.append({"name": f["name"], "kind": "stat", "prio": f["prio"] if f["val"] is not None else "n", "ctrs": [], "piece": False,
                        "val": None if f["val"] is None else ("e", "%s.%s" % (rn, f["name"]))})
        return {"fields": ref, "written": written, "by_std": by_std, "ref_let": "let %s = %s in\n" % (rn, lit), "extracted": ext}

    def ctrs(self, sib, outer):
        r = self.r
        out = []
        if r.chance(1, 4):
            self.feat("contract-on-field")
            lo = self.ref(sib, outer)
            out.append(r.weighted([("std.contract.from_predicate (fun v => v + 1000 >= %s)" % lo, 5),
                                   ("std.contract.from_predicate (fun v => v == v + 0 * %s)" % lo, 3),
                                   ("std.contract.from_predicate (fun v => v >= %s)" % lo, 2)]))
        if r.chance(1, 10):
            out.append("Number")
        return out

    def visible(self, n, chosen):
        """the siblings a definition of [n] may mention: those before [n] in the global order"""
        if self.r.chance(1, 60):
            self.feat("possibly-cyclic")
            return list(chosen)
        return [x for x in chosen if ORDER.get(x, 99) < ORDER.get(n, 99)]

    def inner_record(self, owner, outer_chosen):
        r = self.r
        k = r.range(1, 2)
        chosen = sorted(["p"] + r.shuffle(L1[1:])[:k])
        outer = self.visible(owner, outer_chosen)
        fields = []
        for n in chosen:
            f = {"name": n, "kind": "stat", "prio": self.prio(), "ctrs": [], "val": None, "piece": False}
            sib = [x for x in chosen if x < n] if not r.chance(1, 60) else list(chosen)
            if r.chance(1, 60):
                self.feat("valueless")
            else:
                f["val"] = ("e", self.expr(sib, outer, r.range(0, 2)))
            f["ctrs"] = self.ctrs(sib, outer)
            fields.append(f)
        if r.chance(1, 4 if self.focus else 10):
            # a dynamically named field of a nested record that depends on its siblings / the enclosing record
            self.feat("dynamic-nested")
            dn = r.choice(sorted(DYN))
            fields.append({"name": dn, "kind": "dyn", "prio": self.prio(), "ctrs": [],
                           "val": ("e", self.expr(list(chosen), outer, r.range(0, 2))), "piece": False})
        return fields

    def record(self, allow_special=True):
        """a structured top-level record: list of field dicts"""
        r = self.r
        pool = L0 + (REC0 if r.chance(2, 3) else [])
        k = r.range(1, min(len(pool), 5))
        chosen = [n for n in sorted(r.shuffle(pool)[:k], key=lambda n: ORDER[n])]
        if r.chance(1, 3):
            chosen = r.shuffle(chosen)
        fields = []
        for n in chosen:
            f = {"name": n, "kind": "stat", "prio": self.prio(), "ctrs": [], "val": None, "piece": False}
            sib = self.visible(n, [x for x in chosen if x != n])
            self.recent = []
            if n in REC0:
                self.feat("nested")
                if r.chance(1, 2 if self.focus else 3):
                    # piecewise definition `n.p = e`: the inner level is not a recursive record there,
                    # so [e] refers to fields of the enclosing record only
                    # (the annotations written after the path belong to the last field of the path)
                    self.feat("piecewise")
                    # one or two pieces `n.p = e1, n.q = e2`, written in this order
                    first = r.weighted([("p", 4), ("q", 1), ("r", 1)])
                    pieces = [first] + ([r.choice([x for x in L1 if x != first])] if r.chance(1, 2) else [])
                    if len(pieces) == 2:
                        self.feat("piecewise-two-pieces")
                    inner = [{"name": nm, "kind": "stat", "prio": self.prio(), "ctrs": [], "piece": False,
                              "val": ("e", self.expr([], sib, r.range(0, 2)))} for nm in pieces]
                    f["piece"] = True
                    f["prio"] = "n"
                else:
                    inner = self.inner_record(n, [x for x in chosen if x != n])
                f["val"] = ("r", inner)
            elif r.chance(1, 12 if self.operand == 0 else 80):
                self.feat("valueless")
                f["ctrs"] = self.ctrs(sib, [])
            else:
                f["val"] = ("e", self.expr(sib, [], r.range(0, 2)))
                f["ctrs"] = self.ctrs(sib, [])
            fields.append(f)
        self.recent = []
        if allow_special:
            if r.chance(1, 2 if self.focus else 4):
                self.feat("dynamic")
                dn = r.choice(sorted(DYN))
                fields.append({"name": dn, "kind": "dyn", "prio": self.prio(), "ctrs": [],
                               "val": ("e", self.expr(self.visible(dn, list(chosen)), [], r.range(0, 2))), "piece": False})
            if r.chance(1, 8):
                self.feat("include")
                fields.append({"name": "u0", "kind": "incl", "prio": self.prio(), "ctrs": [],
                               "val": ("e", "u0_"), "piece": False})
                # somebody should look at it
                fields.append({"name": "w", "kind": "stat", "prio": "n", "ctrs": [],
                               "val": ("e", "(u0 + %s)" % self.ref([x for x in chosen if x not in REC0], [])), "piece": False})
        return fields


def ov_prio(p):
    return prio_nickel(p)


def ov_field_text(f, as_written):
    """as_written: print dynamic names / includes / piecewise paths as the operand was generated;
    otherwise (the substituted record) every field is a plain static field"""
    meta = ov_prio(f["prio"]) + "".join(" | %s" % c for c in f["ctrs"])
    if as_written and f["kind"] == "incl":
        return "include %s%s" % (f["name"], meta)
    name = f["name"]
    if as_written and f["kind"] == "dyn":
        name = "\"%%{%s}\"" % DYN[f["name"]]
    if f["val"] is None:
        return "%s%s" % (name, meta)
    if f["val"][0] == "e":
        return "%s%s = %s" % (name, meta, f["val"][1])
    if as_written and f["piece"]:
        return ", ".join("%s.%s%s = %s" % (name, inner["name"], ov_prio(inner["prio"]), inner["val"][1]) for inner in f["val"][1])
    return "%s%s = %s" % (name, meta, ov_record_text(f["val"][1], as_written))


def ov_record_text(fields, as_written=True):
    if not fields:
        return "{}"
    return "{ " + ", ".join(ov_field_text(f, as_written) for f in fields) + " }"


def val_text(v):
    return v[1] if v[0] == "e" else ov_record_text(v[1], as_written=False)


def ov_merge_field(f1, f2):
    """merging.md: higher priority wins, equal priorities merge the values (records recursively),
    a field without definition loses; contracts of both sides are kept"""
    out = {"name": f1["name"], "kind": "stat", "ctrs": f1["ctrs"] + f2["ctrs"], "piece": False}
    v1, v2 = f1["val"], f2["val"]
    if v1 is not None and v2 is not None:
        r1, r2 = prio_rank(f1["prio"]), prio_rank(f2["prio"])
        if r1 == r2:
            out["prio"] = f1["prio"]
            if v1[0] == "r" and v2[0] == "r":
                out["val"] = ("r", ov_merge(v1[1], v2[1]))
            else:
                out["val"] = ("e", "(%s & %s)" % (val_text(v1), val_text(v2)))
        elif r1 > r2:
            out["prio"], out["val"] = f1["prio"], v1
        else:
            out["prio"], out["val"] = f2["prio"], v2
    elif v1 is not None:
        out["prio"], out["val"] = f1["prio"], v1
    elif v2 is not None:
        out["prio"], out["val"] = f2["prio"], v2
    else:
        # merge_fields gives Default::default() here; without a value the priority is unobservable
        out["prio"], out["val"] = "n", None
    return out


def ov_merge(r1, r2):
    out, seen = [], {}
    for f in r1:
        seen[f["name"]] = len(out)
        out.append(dict(f, kind="stat", piece=False))
    for f in r2:
        if f["name"] in seen:
            i = seen[f["name"]]
            out[i] = ov_merge_field(out[i], f)
        else:
            seen[f["name"]] = len(out)
            out.append(dict(f, kind="stat", piece=False))
    return out


def ov_leaf_paths(fields, prefix=""):
    out = []
    for f in fields:
        p = prefix + f["name"]
        if f["val"] is not None and f["val"][0] == "r":
            out += ov_leaf_paths(f["val"][1], p + ".")
        else:
            out.append(p)
    return out


SHAPES = ["chain", "right", "let-m", "m-twice", "diamond", "m&m", "force-first"]


def gen_override(rng, focus=None):
    """returns a dict with the operand records, the merge shape and every program text"""
    focus = rng.chance(1, 3) if focus is None else focus
    g = OvGen(rng, focus=focus)
    if focus:
        g.feat("focus:binders-colliding-with-fields")
    nops = rng.weighted([(1, 4), (2, 4), (3, 2)])
    R = g.record()
    Ps = []
    for j in range(nops):
        g.operand = j + 1
        Ps.append(g.record(allow_special=rng.chance(1, 3)))
    shape = rng.choice(SHAPES if nops >= 2 else ["chain", "let-m", "m&m", "force-first", "chain"])
    ops = [R] + Ps
    names = ["o%d" % i for i in range(len(ops))]
    # some operands are the `..rest` of a record pattern applied to the generated literal
    restops = {}
    for j in range(len(ops)):
        if rng.chance(1, (3 if focus else 6) * (1 if j == 0 else 2)):
            info = g.rest_operand(j, ops[j])
            if info:
                restops[j] = info
                ops[j] = info["fields"]
    optext = [restops[j]["written"] if j in restops else ov_record_text(o) for j, o in enumerate(ops)]
    lets = "".join("let %s = %s in\n" % (n, t) for n, t in zip(names, optext))
    lets_std = "".join("let %s = %s in\n" % (n, restops[j]["by_std"] if j in restops else t) for j, (n, t) in enumerate(zip(names, optext)))
    ref_lets = "".join(restops[j]["ref_let"] for j in sorted(restops))
    # merge expression over o0..ok and the structurally merged record, following the same tree
    if shape in ("chain", "force-first"):
        expr = " & ".join(names)
        merged = ops[0]
        for o in ops[1:]:
            merged = ov_merge(merged, o)
    elif shape == "right":
        expr = "o0 & (%s)" % " & ".join(names[1:])
        rest = ops[1]
        for o in ops[2:]:
            rest = ov_merge(rest, o)
        merged = ov_merge(ops[0], rest)
    elif shape == "let-m":
        expr = "(let m = o0 & o1 in m%s)" % "".join(" & " + n for n in names[2:])
        merged = ov_merge(ops[0], ops[1])
        for o in ops[2:]:
            merged = ov_merge(merged, o)
    elif shape == "m-twice":
        expr = "(let m = o0 & o1 in (m & o2) & m)"
        m = ov_merge(ops[0], ops[1])
        merged = ov_merge(ov_merge(m, ops[2]), m)
        for n, o in zip(names[3:], ops[3:]):
            expr = "(%s & %s)" % (expr, n)
            merged = ov_merge(merged, o)
    elif shape == "diamond":
        expr = "((o0 & o1) & (o0 & o2))"
        merged = ov_merge(ov_merge(ops[0], ops[1]), ov_merge(ops[0], ops[2]))
        for n, o in zip(names[3:], ops[3:]):
            expr = "(%s & %s)" % (expr, n)
            merged = ov_merge(merged, o)
    else:  # m&m
        expr = "(let m = %s in m & m)" % " & ".join(names)
        m = ops[0]
        for o in ops[1:]:
            m = ov_merge(m, o)
        merged = ov_merge(m, m)
    # the programs as written give local binders the names of fields; the reference (substituted)
    # program renames every binder apart
    lets = render(lets, g.binders, "written")
    subst_raw = PRELUDE + ref_lets + ov_record_text(merged, as_written=False)
    progs = {
        "merged": PRELUDE + lets + expr,
        "subst": render(subst_raw, g.binders, "renamed"),
    }
    for n, t in zip(names, optext):
        progs["alone:" + n] = PRELUDE + render(t, g.binders, "written")
    # for the classification of a difference: the substituted record with the binders as written /
    # with only the pattern variables of guarded match arms renamed; the merge with the rests of record
    # patterns built by std.record.remove instead
    variants = {"subst-as-written": render(subst_raw, g.binders, "written"),
                "subst-guards-renamed": render(subst_raw, g.binders, "guards-renamed")}
    if restops:
        variants["merged-with-the-rest-built-by-std.record.remove"] = PRELUDE + render(lets_std, g.binders, "written") + expr
    # the operand records once more with binders renamed apart (same dependency tables expected)
    renamed_ops = {n: PRELUDE + render(t, g.binders, "renamed") for n, t in zip(names, optext)}
    guards_ops = {n: PRELUDE + render(t, g.binders, "guards-renamed") for n, t in zip(names, optext)}
    return {"shape": shape, "nops": nops, "features": sorted(g.features), "progs": progs,
            "lets": PRELUDE + lets, "expr": expr, "names": names, "paths": ov_leaf_paths(merged),
            "variants": variants, "renamed_operands": renamed_ops, "guards_renamed_operands": guards_ops, "operands": ops,
            "rest_operands": sorted(restops),
            "binders": {str(k): v for k, v in g.binders.items()}}


def synth_override(case, opi, x, value=1000):
    """The override history that exposes a wrong dependency table (DESIGN 1.4): operand [opi] of a
    generated case merged with a record that overrides exactly the field [x] (a top-level field, or
    a field of the nested records), against the substituted record with binders renamed apart."""
    if opi in case.get("rest_operands", []):
        return None               # (its field list is the reference construction, not the literal)
    op = case["operands"][opi]
    binders = {int(k): tuple(v) for k, v in case["binders"].items()}
    fx = {"name": x, "kind": "stat", "prio": "t", "ctrs": [], "val": ("e", str(value)), "piece": False}
    if x in L1:
        over = [{"name": f["name"], "kind": "stat", "prio": "n", "ctrs": [], "val": ("r", [fx]), "piece": False}
                for f in op if f["val"] is not None and f["val"][0] == "r"]
        if not over:
            return None
    else:
        over = [fx]
    merged = ov_merge(op, over)
    progs = {"merged": PRELUDE + "(%s) & %s" % (render(ov_record_text(op), binders, "written"), ov_record_text(over)),
             "subst": PRELUDE + render(ov_record_text(merged, as_written=False), binders, "renamed")}
    raw = PRELUDE + ov_record_text(merged, as_written=False)
    return {"shape": "deps-table", "nops": 1, "features": ["synthesised-from-a-dependency-table"], "progs": progs, "lets": None,
            "paths": ov_leaf_paths(merged), "overridden": x,
            "variants": {"subst-as-written": render(raw, binders, "written"),
                         "subst-guards-renamed": render(raw, binders, "guards-renamed")}}


def operands_after(case, ok_names):
    """the operands that evaluate on their own, read again after the merge result has been forced"""
    return case["lets"] + "let m_ = %s in\nstd.deep_seq m_ { %s }" % (
        case["expr"], ", ".join("r%s = %s" % (n, n) for n in ok_names))


def merged_after_operands(case, ok_names):
    """the merge result when those operands have been forced completely before"""
    return case["lets"] + "".join("std.deep_seq %s (" % n for n in ok_names) + case["expr"] + ")" * len(ok_names)


OV_CORPUS = [
    # (merged program, substituted program)
    ("{a | default = 1, b = let a = a + 1 in a * 2} & {a = 5}", "{a = 5, b = let a = a + 1 in a * 2}"),
    ("{a | default = 1, b = (fun a => a + 1) a, c = let a = 2, v = a in v + a} & {a = 5}", "{a = 5, b = (fun a => a + 1) a, c = let a = 2, v = a in v + a}"),
    ("{a | default = 1, b | default = 10, c = {diff = a - b, lbl = \"%{std.to_string a}/%{std.to_string b}\"}} & {c = {extra = true}} & {a | force = 100}",
     "{a | force = 100, b | default = 10, c = {diff = a - b, lbl = \"%{std.to_string a}/%{std.to_string b}\", extra = true}}"),
    ("{a | default = 1, b | default = 10, c = a - b} & {a | default = 1, b | default = 10, c = a - b} & {a | force = 100}", "{a | force = 100, b | default = 10 & 10, c = (a - b) & (a - b)}"),
    ("let n = \"y\" in {a | default = 1, \"%{n}\" = a + 1} & {a = 7}", "{a = 7, y = a + 1}"),
    ("{a = 1, b = a + 1} & {a | force = 5}", "{a | force = 5, b = a + 1}"),
    ("{a | default = 1, b = a + 1, c = b * 2} & {a = 5}", "{a = 5, b = a + 1, c = b * 2}"),
    ("let r = {a | default = 1, b = a + 1} in (r & {a = 2}) & (r & {c | force = 7, b | force = c * 10})", "{a = 2, b | force = c * 10, c | force = 7}"),
    ("{ Ctr | not_exported = std.contract.from_predicate (fun v => v > lo), lo | default = 0, x | [| 'A Ctr |] | not_exported = 'A 1, y = x |> match {'A v => v} } & {lo = 5}",
     "{ Ctr | not_exported = std.contract.from_predicate (fun v => v > lo), lo = 5, x | [| 'A Ctr |] | not_exported = 'A 1, y = x |> match {'A v => v} }"),
    ("{ lo | default = 0, x | std.contract.from_predicate (fun v => v > lo) = 3 } & {lo = 5}",
     "{ lo = 5, x | std.contract.from_predicate (fun v => v > lo) = 3 }"),
    ("{ lo | default = 0, x | {p | std.contract.from_predicate (fun v => v > lo)} = {p = 3} } & {lo = 1}",
     "{ lo = 1, x | {p | std.contract.from_predicate (fun v => v > lo)} = {p = 3} }"),
    ("{a | default = 1, n = {p = a + 1, q = p * 2}} & {a = 3, n = {p | force = 10}}", "{a = 3, n = {p | force = 10, q = p * 2}}"),
    ("{a | default = 1, n.p = a + 1} & {a = 3} & {a | default = 0, n.q = a}", "{a = 3, n = {p = a + 1, q = a}}"),
    ("let x = 1 in {include x, d = x + 1} & {x | force = 2}", "{x | force = 2, d = x + 1}"),
    ("let u = {v = 1, depd = v + 1} in {include u} & {u.v | force = 2}", "{u = {v | force = 2, depd = v + 1}}"),
    ("{a | default = 1, b = \"v%{std.to_string a}\"} & {a = 2}", "{a = 2, b = \"v%{std.to_string a}\"}"),
    ("{a | default = 1, b = std.array.map (fun v => v + a) [1, 2]} & {a = 2}", "{a = 2, b = std.array.map (fun v => v + a) [1, 2]}"),
    ("{a | default = 1, f | not_exported = fun v => v + a, b = f 1} & {a = 2}", "{a = 2, f | not_exported = fun v => v + a, b = f 1}"),
    ("{a | default = 1, b = if a <= 1 then 10 else 20} & {a = 2}", "{a = 2, b = if a <= 1 then 10 else 20}"),
]
