"""Sanity test of the C08 check's power (not part of the check): each mutant is a copy of
coq/Delayed/Model.v with one primitive broken the way a realistic edit of operation.rs /
internals.ncl would break it; the extracted mutant stands in for nickel and the quick-tier cases are
run through checks/c08.py:run_cases.  Usage: python3 checks/c08_sanity.py [mutant ...]
(builds under .build/scratch_c08/, about 20 s per mutant)."""
import os, sys, shutil, subprocess
sys.path.insert(0, '/verif')
from vlib import core
from checks import c08

MUT = {
 "at-drops-pending": ("  | Some e => Ok (tctrs p e)\n  | None => Err EOther", "  | Some e => Ok e\n  | None => Err EOther"),
 "map-drops-pending": ("VArr (map (fun e => TObs f (tctrs p e)) es) []", "VArr (map (fun e => TObs f e) es) []"),
 "slice-drops-pending": ("else Ok (VArr (firstn (e - s) (skipn s es)) p).", "else Ok (VArr (firstn (e - s) (skipn s es)) [])."),
 "concat-drops-right": ("  else VArr (arr_elems es1 p1 ++ arr_elems es2 p2) [].", "  else VArr (arr_elems es1 p1 ++ es2) []."),
 "concat-always-lazy": ("  else if pend_eqb p1 p2 then VArr (es1 ++ es2) p1", "  else if true then VArr (es1 ++ es2) p1"),
 "concat-ignores-polarity": ("  else if pend_eqb p1 p2 then VArr (es1 ++ es2) p1", "  else if pend_eqb_nolabel p1 p2 then VArr (es1 ++ es2) p1"),
 "recenv-constants-raw": ("  match v with VRec fs => Ok (close_rec fs) | _ => Err e end.", "  match v with VRec fs => Ok (close_rec_constraw fs) | _ => Err e end."),
 "values-ignore-pending": ("  VArr (map fld_thunk (sort_fields fs)) [].\n\nDefinition prim_record_values_broken", "  VArr (map (fun f => fst (snd f)) (sort_fields fs)) [].\n\nDefinition prim_record_values_broken"),
 "access-drops-pending": ("  | Some (x, p) => Ok (tctrs p x)\n  | None => Err EFieldMissing", "  | Some (x, p) => Ok x\n  | None => Err EFieldMissing"),
 "recordmap-drops-pending": ("VRec (map (fun fl => (fst fl, (f (fst fl) (fld_thunk fl), []))) fs).", "VRec (map (fun fl => (fst fl, (f (fst fl) (fst (snd fl)), []))) fs)."),
 "freeze-drops-pending": ("  map (fun fl => (fst fl, (fld_thunk fl, []))) fs.", "  map (fun fl => (fst fl, (fst (snd fl), []))) fs."),
 "eq-ignores-pending": ("eq_pairs (rev (combine (arr_elems es1 p1) (arr_elems es2 p2)))", "eq_pairs (rev (combine es1 es2))"),
 "force-array-ignores-pending": ("    | VArr es p => bind (force_list (arr_elems es p)) (fun xs => Ok (TrArr xs))", "    | VArr es p => bind (force_list es) (fun xs => Ok (TrArr xs))"),
 "force-record-ignores-pending": ("        bind (force_list (map fld_thunk (close_rec fs))) (fun xs =>", "        bind (force_list (map (fun f => fst (snd f)) (close_rec fs))) (fun xs =>"),
 "array-contract-eager": ("      | VArr es p => Ok (prim_array_lazy_app (pol, c') es p)", "      | VArr es p => if existsb (fun e => match e with TVal (Ok (VStr _)) => true | TVal (Err _) => true | _ => false end) es then Err (blame pol) else Ok (prim_array_lazy_app (pol, c') es p)"),
 "dict-contract-dropped": ("      | VRec fs => Ok (prim_record_lazy_app (pol, c') fs)", "      | VRec fs => Ok (VRec fs)"),
 "func-no-domain-check": ("apply_ctr pol c (app f' (TCtr (negb pol, d) arg))", "apply_ctr pol c (app f' arg)"),
 "func-no-codomain-check": ("    | FWrap pol d c f' => apply_ctr pol c (app f' (TCtr (negb pol, d) arg))", "    | FWrap pol d c f' => app f' (TCtr (negb pol, d) arg)"),
 "fold-raw-elements": ("        foldl_go f (arr_elems es p) (VNum init)))", "        foldl_go f es (VNum init)))"),
 "filter-raw-elements": ("        filter_go q (arr_elems es p) []))", "        filter_go q es []))"),
 "reverse-raw-elements": ("        Ok (VArr (rev (arr_elems es p)) [])))", "        Ok (VArr (rev es) [])))"),
 "record-eq-raw": ("          | Some (x2, p2) => [(fld_thunk f1, tctrs p2 x2)]", "          | Some (x2, p2) => [(fst (snd f1), tctrs p2 x2)]"),
 "recordtype-no-check": ("                                  | Some (x, p) => [(n, (TCtr (pol, c') (tctrs p x), []))]", "                                  | Some (x, p) => [(n, (tctrs p x, []))]"),
 "recordcontract-no-check": ("                      ++ map (fun fl => (fst fl, (fst (snd fl), snd (snd fl) ++ [(true, c')])))\n                           ctrf))", "                      ++ ctrf))"),
 "deepseq-shallow": ("    | ODeepSeq => bind (fo t) (fun _ => ev t)", "    | ODeepSeq => ev t"),
 "toarray-raw": ('("value", TObs (OAccess (fst fl)) (TVal (Ok (VRec fs))))])', '("value", fst (snd fl))])'),
}

def build(name, old, new):
    d = '/verif/.build/scratch_c08/mut_' + name
    shutil.rmtree(d, ignore_errors=True)
    os.makedirs(d + '/NVm/Delayed')
    src = open('/verif/coq/Delayed/Model.v').read()
    assert src.count(old) >= 1, (name, src.count(old))      # the first occurrence is the live definition
    open(d + '/NVm/Delayed/Model.v', 'w').write(src.replace(old, new, 1))
    shutil.copy('/verif/coq/Delayed/Spec.v', d + '/NVm/Delayed/Spec.v')
    for f in ('Model', 'Spec'):
        r = subprocess.run(['coqc', '-Q', d + '/NVm', 'NV', '-w', '-all', d + '/NVm/Delayed/%s.v' % f], capture_output=True, text=True)
        if r.returncode: raise RuntimeError(name + r.stderr[-800:])
    shutil.copy('/verif/coq/Extract/C08.v', d + '/C08.v')
    r = subprocess.run(['coqc', '-Q', d + '/NVm', 'NV', '-w', '-all', 'C08.v'], cwd=d, capture_output=True, text=True)
    if r.returncode: raise RuntimeError(name + r.stderr[-800:])
    shutil.copy('/verif/ocaml/c08/driver.ml', d + '/driver.ml')
    r = subprocess.run(['ocamlfind', 'ocamlopt', '-w', '-a', '-package', 'str', '-linkpkg', '-o', 'modelrun', 'c08_model.mli', 'c08_model.ml', 'driver.ml'], cwd=d, capture_output=True, text=True)
    if r.returncode: raise RuntimeError(name + r.stderr[-800:])
    return d + '/modelrun'

def main():
    names = sys.argv[1:] or list(MUT)
    good = core.ocaml_build('c08', 'C08.v', 'driver.ml')[2]
    rng = core.SplitMix64(1 * 1000003 + 8)
    cases = [c08.gen_case(rng.fork()) for _ in range(1500)] + [c08.gen_recrec_case(rng.fork()) for _ in range(400)] + [c08.gen_stack_case(rng.fork()) for _ in range(300)]
    for name in names:
        exe = build(name, *MUT[name])
        ck = core.Check('C08', 'quick', 1)
        ck.log = lambda *a: None
        c08.run_cases(ck, cases, good, impl_model_exe=exe)
        corr = len([o for o in ck.obligations if o['name'].startswith('correspondence:model')])
        print('%-30s oracle violations: %3d (+known %d)   model-vs-impl disagreements: %3d' % (name, len(ck.violations), len(ck.known_hits), corr), flush=True)
        for v in ck.violations[:2]:
            print('      e.g.', v['text'][:160])
main()
