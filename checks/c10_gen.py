"""C10 input generators (all randomness from one SplitMix64 state).

  (a) grammar-generated Nickel programs in three classes: well-formed + well-typed (a small typed
      grammar: numbers, strings with interpolation and multiline strings, booleans, arrays,
      records with metadata, functions, let, if, match, enum tags, annotations, std calls),
      ill-typed (a well-typed skeleton with sub-terms of the wrong type, typed blocks with wrong
      annotations, primops / std functions applied to arbitrary values), ill-formed (token-level
      damage of generated programs);
  (b) token- and byte-level mutations of every .ncl/.json/.yaml/.yml/.toml file under /repo (and of
      the ```nickel blocks of doc/manual/*.md);
  (c) random bytes (incl. invalid UTF-8), random ASCII, random token soup.

A case is a tuple (fmt_with_options, bytes, class, origin)."""
import os
import re

from vlib import core

# ----------------------------------------------------------------------------- corpus

SKIP_DIRS = {"target", ".git", "node_modules", ".github"}
EXT = {".ncl": "ncl", ".json": "json", ".yaml": "yaml", ".yml": "yaml", ".toml": "toml"}
MAX_SEED_FILE = 24_000        # larger files are only used for light (parse-level) cases


def corpus_files():
    """[(fmt, relative path, bytes)] sorted by path."""
    out = []
    for root, dirs, files in os.walk(core.REPO):
        dirs[:] = sorted(d for d in dirs if d not in SKIP_DIRS)
        for f in sorted(files):
            ext = os.path.splitext(f)[1]
            p = os.path.join(root, f)
            rel = os.path.relpath(p, core.REPO)
            if ext in EXT:
                try:
                    data = open(p, "rb").read()
                except OSError:
                    continue
                out.append((EXT[ext], rel, data))
            elif ext == ".md" and (rel.startswith("doc/") or rel.startswith("doc" + os.sep)):
                try:
                    text = open(p, "r", errors="replace").read()
                except OSError:
                    continue
                for i, m in enumerate(re.finditer(r"```nickel[^\n]*\n(.*?)```", text, flags=re.S)):
                    out.append(("ncl", "%s#%d" % (rel, i), m.group(1).encode()))
    return out


# ----------------------------------------------------------------------------- tokens

TOKEN_RE = re.compile(
    r"""(?P<ws>\s+|\#[^\n]*)
      |(?P<mstart>[a-zA-Z][_a-zA-Z0-9\-']*-s%+"|m%+")
      |(?P<mend>"%+)
      |(?P<interp>%+\{)
      |(?P<prim>%[a-z_/]+%)
      |(?P<num>0x[0-9A-Fa-f]+|0b[01]+|0o[0-7]+|[0-9]*\.?[0-9]+(?:[eE][+\-]?[0-9]+)?)
      |(?P<id>'?_*[a-zA-Z][_a-zA-Z0-9\-']*)
      |(?P<op>\|\]|\[\||\|>|->|=>|==|!=|<=|>=|&&|\|\||\+\+|\.\.)
      |(?P<esc>\\.)
      |(?P<other>.)""",
    re.X | re.S)

OPEN = "([{"
CLOSE = ")]}"
POOL = ["let", "in", "if", "then", "else", "fun", "=>", "match", "{", "}", "[", "]", "(", ")", "|", ":", "=", ",", ";", ".", "..",
        "&", "&&", "||", "!", "+", "-", "*", "/", "%", "++", "@", "==", "!=", "<", "<=", "|>", "->", "forall", "import", "as",
        "rec", "default", "optional", "doc", "priority", "force", "not_exported", "null", "true", "false", "Number", "String",
        "Bool", "Dyn", "Array", "_", "?", "$", "'Foo", "'\"", "\"", "m%\"", "\"%", "%{", "[|", "|]", "or", "include", "x", "std",
        "0", "1", "-1", "1e400", "0.5", "0x10", "%typeof%", "%array/at%", "%string/substr%", "%pow%", "\\", "\r", "\u00e9", "#"]
NUMS = ["0", "1", "2", "3", "10", "255", "1e3", "0.5", "1.5e-3", "1e400", "1e-400", "9007199254740993", "18446744073709551616",
        "9223372036854775807", "9223372036854775808", "4294967296", "0x7fffffff", "0b101", "0o17", "123456789012345678901234567890",
        "0.000001", "100000", "65536"]


def tokenize(text):
    return [m.group(0) for m in TOKEN_RE.finditer(text)]


def is_ws(t):
    return t[:1].isspace() or t.startswith("#")


def mutate_tokens(rng, text, ncl=True):
    """One to three token-level edits; returns (new text, list of edit names)."""
    toks = tokenize(text)
    idx = [i for i, t in enumerate(toks) if not is_ws(t)]
    if not idx:
        return text + rng.choice(POOL), ["append"]
    names = []
    for _ in range(rng.range(1, 3)):
        idx = [i for i, t in enumerate(toks) if not is_ws(t)]
        if not idx:
            break
        i = rng.choice(idx)
        kind = rng.weighted([("delete", 5), ("dup", 4), ("swap", 4), ("replace", 5), ("unbalance", 5), ("delim", 5),
                             ("interp", 4), ("number", 3), ("insert", 4), ("chars", 3), ("delrange", 2)])
        names.append(kind)
        if kind == "delete":
            del toks[i]
        elif kind == "dup":
            toks.insert(i, toks[i])
        elif kind == "swap":
            j = rng.choice(idx)
            toks[i], toks[j] = toks[j], toks[i]
        elif kind == "replace":
            toks[i] = rng.choice(POOL)
        elif kind == "insert":
            toks.insert(i, " " + rng.choice(POOL) + " ")
        elif kind == "unbalance":
            br = [k for k in idx if toks[k] in ("(", ")", "[", "]", "{", "}", "[|", "|]")]
            if br and rng.chance(2, 3):
                del toks[rng.choice(br)]
            else:
                toks.insert(i, rng.choice(["(", ")", "[", "]", "{", "}", "[|", "|]"]))
        elif kind == "delim":
            qs = [k for k in idx if toks[k] in ('"',) or toks[k].startswith('m%') or toks[k].startswith('"%') or toks[k].endswith('-s%"')]
            if qs:
                k = rng.choice(qs)
                toks[k] = rng.choice(['"', 'm%"', 'm%%"', '"%', '"%%', "'", "'\"", 'foo-s%"', '""', 'm%%%"', '"%%%'])
            else:
                toks.insert(i, rng.choice(['"', 'm%"', '"%']))
        elif kind == "interp":
            toks.insert(i, rng.choice(["%{", "%%{", "%{ ", "}", "%", "%{x}", "%{\"", "\"%{"]))
        elif kind == "number":
            ns = [k for k in idx if re.match(r"^[0-9]", toks[k])]
            if ns:
                toks[rng.choice(ns)] = rng.choice(NUMS)
            else:
                toks.insert(i, rng.choice(NUMS))
        elif kind == "chars":
            toks.insert(i, rng.choice(["\r", "\r\n", "\u00e9", "\u65e5\u672c", "\U0001F44D\U0001F3FD", "\\", "\\x", "\\xff", "\\q", "\\\u00e9", "\t", "\x00", "\x7f", "\u2028", "\ufeff"]))
        elif kind == "delrange":
            j = min(len(toks), i + rng.range(1, 12))
            del toks[i:j]
    return "".join(toks), names


NEST = [
    ("paren", lambda d, e: "(" * d + e + ")" * d),
    ("array", lambda d, e: "[" * d + e + "]" * d),
    ("record", lambda d, e: "{a = " * d + e + "}" * d),
    ("fun", lambda d, e: "fun x => " * d + e),
    ("let", lambda d, e: "let x = 1 in " * d + e),
    ("if", lambda d, e: "if true then " * d + e + " else 2" * d),
    ("plus", lambda d, e: "1 + " * d + "(" + e + ")"),
    ("app", lambda d, e: "(" + e + ")" + " x" * d),
    ("interp", lambda d, e: '"%{' * d + e + '}"' * d),
    ("annot", lambda d, e: "(" + e + ")" + " | Dyn" * d),
    ("arrow", lambda d, e: "(" + e + ") | " + "Dyn -> " * d + "Dyn"),
    ("neg", lambda d, e: "-" * d + "(" + e + ")"),
    ("dot", lambda d, e: "(" + e + ")" + ".a" * d),
    ("merge", lambda d, e: "{} & " * d + "(" + e + ")"),
    ("match", lambda d, e: "'A |> match { _ => " * d + e + "}" * d),
    ("enum", lambda d, e: "('A " * d + "(" + e + ")" + ")" * d),
    ("typarr", lambda d, e: "(" + e + ") | " + "Array (" * d + "Dyn" + ")" * d),
    ("tyrec", lambda d, e: "(" + e + ") | " + "{a : " * d + "Dyn" + "}" * d),
    ("mstr", lambda d, e: 'm%"%{' * d + e + '}"%' * d),
    ("pat", lambda d, e: "fun " + "{a = " * d + "x" + "}" * d + " => " + e),
    ("unclosed", lambda d, e: "(" * d + e),
    ("unopened", lambda d, e: e + ")" * d),
    ("braces", lambda d, e: "{" * d + e),
]
NEST_DATA = {
    "json": [("arr", lambda d: "[" * d + "]" * d), ("obj", lambda d: '{"a":' * d + "1" + "}" * d), ("unclosed", lambda d: "[" * d)],
    "yaml": [("arr", lambda d: "[" * d + "]" * d), ("obj", lambda d: "{a: " * d + "1" + "}" * d), ("unclosed", lambda d: "[" * d),
             ("block", lambda d: "".join(" " * i + "a:\n" for i in range(d)) + " " * d + "1\n"),
             ("seq", lambda d: "- " * d + "1\n"), ("anchor", lambda d: "a: &x 1\n" + "b: *x\n" * d)],
    "toml": [("arr", lambda d: "a = " + "[" * d + "]" * d), ("tbl", lambda d: "a = " + "{b = " * d + "1" + "}" * d),
             ("dotted", lambda d: ".".join(["a"] * d) + " = 1"), ("unclosed", lambda d: "a = " + "[" * d)],
}


def mutate_bytes(rng, data):
    b = bytearray(data)
    names = []
    for _ in range(rng.range(1, 4)):
        kind = rng.weighted([("flip", 4), ("set", 4), ("insert", 5), ("delete", 4), ("dup", 3), ("truncate", 3), ("utf8", 4), ("ctrl", 3)])
        names.append(kind)
        n = len(b)
        pos = rng.below(n + 1)
        if kind == "flip" and n:
            b[pos % n] ^= 1 << rng.below(8)
        elif kind == "set" and n:
            b[pos % n] = rng.below(256)
        elif kind == "insert":
            b[pos:pos] = bytes(rng.below(256) for _ in range(rng.range(1, 4)))
        elif kind == "delete" and n:
            del b[pos % n:(pos % n) + rng.range(1, 8)]
        elif kind == "dup" and n:
            a = pos % n
            seg = b[a:a + rng.range(1, 40)]
            b[a:a] = seg
        elif kind == "truncate" and n:
            del b[pos % n:]
        elif kind == "utf8":
            b[pos:pos] = rng.choice([b"\xc3", b"\xe6\x97", b"\xf0\x9f\x91", b"\xff", b"\xfe\xff", b"\xc0\xaf", b"\xed\xa0\x80", b"\xc3\xa9", b"\xe2\x80\xa8", b"\xef\xbb\xbf", b"\xf4\x90\x80\x80"])
        elif kind == "ctrl":
            b[pos:pos] = rng.choice([b"\r", b"\x00", b"\x1b", b"\x7f", b"\r\n", b"\x0b", b"\x0c", b"\x85"])
    return bytes(b), names


# ----------------------------------------------------------------------------- grammar

STRS = ["", "a", "abc", "hello world", "\u00e9", "\u65e5\u672c\u8a9e", "a b", "x-y_z", "A", "0", "1.5", "true", "\U0001F44D\U0001F3FD",
        "\u00e9" * 45, "multi\\nline", "tab\\there", "quote\\\"q", "back\\\\slash", "pct\\%{x}", "%", "% {", "{}", "\\x41", "'", "$"]
IDENTS = ["x", "y", "z", "foo", "bar", "acc", "n", "s", "f", "g", "r", "val", "it's", "a-b", "_u", "x1"]
FIELDS = ["a", "b", "c", "foo", "bar", "name", "value", "x", "data", "cfg"]
QFIELDS = ['"a b"', '"\u00e9"', '"0"', '"if"', '"a.b"', '"%"', '""']


class G:
    """Typed generator.  Types: 'N' number, 'S' string, 'B' bool, ('A', t) array, ('R', [(name, t)]) record, 'E' enum tag."""

    def __init__(self, rng, bad=0):
        self.r = rng
        self.bad = bad          # per-node probability (in 1/100) of generating at the wrong type
        self.env = []           # [(name, type)]
        self.n_bad = 0
        self.ctr = 0

    def fresh(self):
        self.ctr += 1
        return "%s%d" % (self.r.choice(["v", "w", "k", "t"]), self.ctr)

    def rand_type(self, d):
        r = self.r
        c = r.below(10 if d > 0 else 6)
        if c < 2:
            return "N"
        if c < 4:
            return "S"
        if c < 5:
            return "B"
        if c < 6:
            return "E"
        if c < 8:
            return ("A", self.rand_type(d - 1))
        names = r.shuffle(FIELDS)[:r.range(0, 3)]
        return ("R", [(n, self.rand_type(d - 1)) for n in names])

    def ty_str(self, t):
        if t == "N":
            return "Number"
        if t == "S":
            return "String"
        if t == "B":
            return "Bool"
        if t == "E":
            return "[| 'A, 'B, 'C Number |]"
        if t[0] == "A":
            return "Array (%s)" % self.ty_str(t[1])
        if t[0] == "R":
            return "{ " + ", ".join("%s : %s" % (n, self.ty_str(x)) for n, x in t[1]) + " }"
        return "Dyn"

    def vars_of(self, t):
        return [n for n, x in self.env if x == t]

    def num_lit(self):
        r = self.r
        c = r.below(12)
        if c < 5:
            return str(r.below(10))
        if c < 7:
            return str(r.below(1000))
        if c < 8:
            return "%d.%d" % (r.below(100), r.below(100))
        if c < 9:
            return "(-%d)" % r.below(50)
        if c < 10:
            return r.choice(["1e3", "2.5e-2", "0x1F", "0b101", "0o17", "1e10"])
        return r.choice(NUMS)

    def str_lit(self, d):
        r = self.r
        s = r.choice(STRS)
        c = r.below(10)
        if c < 5 or d <= 0:
            return '"%s"' % s
        if c < 7:
            return '"%s%%{%s}%s"' % (r.choice(STRS), self.gen("S", d - 1), r.choice(STRS))
        if c < 8:
            return '"n=%%{std.to_string (%s)}"' % self.gen("N", d - 1)
        pc = "%" * r.range(1, 3)
        body = r.choice(["", "line1\n  line2\n", "a \"quoted\" b", "50% off", "%{not}", "\n  indented\n    more\n"])
        if r.chance(1, 2):
            body += pc + "{" + self.gen("S", d - 1) + "}"
        return "m" + pc + '"' + body + '"' + pc

    def gen(self, t, d):
        r = self.r
        if self.bad and r.below(100) < self.bad:
            self.n_bad += 1
            other = self.rand_type(1)
            if other != t:
                t = other
        if d <= 0:
            return self.leaf(t)
        vs = self.vars_of(t)
        if vs and r.chance(1, 4):
            return r.choice(vs)
        c = r.below(100)
        # generic forms
        if c < 8:
            return "(if %s then %s else %s)" % (self.gen("B", d - 1), self.gen(t, d - 1), self.gen(t, d - 1))
        if c < 16:
            x = self.fresh()
            tx = self.rand_type(1)
            ex = self.gen(tx, d - 1)
            ann = r.below(5)
            self.env.append((x, tx))
            body = self.gen(t, d - 1)
            self.env.pop()
            if ann == 0:
                return "(let %s : %s = %s in %s)" % (x, self.ty_str(tx), ex, body)
            if ann == 1:
                return "(let %s | %s = %s in %s)" % (x, self.ty_str(tx), ex, body)
            if ann == 2:
                return "(let rec %s = %s in %s)" % (x, ex, body)
            return "(let %s = %s in %s)" % (x, ex, body)
        if c < 22:
            x = self.fresh()
            tx = self.rand_type(1)
            self.env.append((x, tx))
            body = self.gen(t, d - 1)
            self.env.pop()
            return "((fun %s => %s) %s)" % (x, body, self.gen(tx, d - 1))
        if c < 26:
            name = r.choice(FIELDS)
            return "({ %s = %s, %s = %s }.%s)" % (name, self.gen(t, d - 1), name + "2", self.gen(self.rand_type(1), d - 1), name)
        if c < 29:
            return "(%s | %s)" % (self.gen(t, d - 1), self.ty_str(t))
        if c < 32:
            return "(%s : %s)" % (self.gen(t, d - 1), self.ty_str(t))
        if c < 35:
            return "(%s |> match { 'A => %s, 'B => %s, 'C n => %s })" % (self.gen("E", d - 1), self.gen(t, d - 1), self.gen(t, d - 1), self.gen(t, d - 1))
        if c < 37:
            return "(std.array.at %s %s)" % (self.gen("N", 0), self.gen(("A", t), d - 1))
        if c < 39:
            return "(std.array.fold_left (fun acc e => acc) %s %s)" % (self.gen(t, d - 1), self.gen(("A", self.rand_type(0)), d - 1))
        return self.typed(t, d)

    def leaf(self, t):
        r = self.r
        vs = self.vars_of(t)
        if vs and r.chance(1, 2):
            return r.choice(vs)
        if t == "N":
            return self.num_lit()
        if t == "S":
            return self.str_lit(0)
        if t == "B":
            return r.choice(["true", "false"])
        if t == "E":
            return r.choice(["'A", "'B", "('C 1)"])
        if t[0] == "A":
            return "[]" if r.chance(1, 2) else "[%s]" % self.leaf(t[1])
        if t[0] == "R":
            return "{ " + ", ".join("%s = %s" % (n, self.leaf(x)) for n, x in t[1]) + " }"
        return "null"

    def typed(self, t, d):
        r = self.r
        g = self.gen
        if t == "N":
            c = r.below(14)
            if c < 5:
                return "(%s %s %s)" % (g("N", d - 1), r.choice(["+", "-", "*", "/", "%"]), g("N", d - 1))
            if c < 6:
                return "(std.string.length %s)" % g("S", d - 1)
            if c < 7:
                return "(std.array.length %s)" % g(("A", self.rand_type(0)), d - 1)
            if c < 8:
                return "(std.number.%s %s)" % (r.choice(["abs", "floor", "truncate", "fract", "sqrt", "exp", "cos"]), g("N", d - 1))
            if c < 9:
                return "(std.number.%s %s %s)" % (r.choice(["pow", "min", "max", "log"]), g("N", d - 1), self.leaf("N"))
            if c < 10:
                return "(-%s)" % g("N", d - 1)
            if c < 11:
                return "(std.string.to_number %s)" % r.choice(['"1"', '"1e3"', '"-0.5"', '"abc"', '""', '"1e400"'])
            if c < 12:
                return "(std.array.fold_left (fun acc e => acc + e) 0 %s)" % g(("A", "N"), d - 1)
            return self.num_lit()
        if t == "S":
            c = r.below(14)
            if c < 3:
                return "(%s ++ %s)" % (g("S", d - 1), g("S", d - 1))
            if c < 5:
                return "(std.string.%s %s)" % (r.choice(["uppercase", "lowercase", "trim"]), g("S", d - 1))
            if c < 6:
                return "(std.string.substring %s %s %s)" % (self.leaf("N"), self.leaf("N"), g("S", d - 1))
            if c < 7:
                return "(std.to_string %s)" % g(r.choice(["N", "B", "S", "E"]), d - 1)
            if c < 8:
                return "(std.string.join %s %s)" % (self.leaf("S"), g(("A", "S"), d - 1))
            if c < 9:
                return "(std.serialize '%s %s)" % (r.choice(["Json", "Yaml", "Toml"]), g(self.rand_type(1), d - 1))
            if c < 10:
                return "(std.string.replace %s %s %s)" % (self.leaf("S"), self.leaf("S"), g("S", d - 1))
            if c < 11:
                return "(std.typeof %s)" % g(self.rand_type(1), d - 1)
            return self.str_lit(d)
        if t == "B":
            c = r.below(12)
            if c < 3:
                return "(%s %s %s)" % (g("N", d - 1), r.choice(["<", "<=", ">", ">=", "==", "!="]), g("N", d - 1))
            if c < 5:
                return "(%s %s %s)" % (g("B", d - 1), r.choice(["&&", "||"]), g("B", d - 1))
            if c < 6:
                return "(!%s)" % g("B", d - 1)
            if c < 8:
                t2 = self.rand_type(1)
                return "(%s == %s)" % (g(t2, d - 1), g(t2, d - 1))
            if c < 9:
                return "(std.string.contains %s %s)" % (self.leaf("S"), g("S", d - 1))
            if c < 10:
                return "(std.is_%s %s)" % (r.choice(["number", "string", "bool", "record", "array", "function"]), g(self.rand_type(1), d - 1))
            if c < 11:
                return "(std.array.any (fun e => e == %s) %s)" % (self.leaf("N"), g(("A", "N"), d - 1))
            return r.choice(["true", "false"])
        if t == "E":
            return r.choice(["'A", "'B", "('C %s)" % g("N", d - 1)])
        if t[0] == "A":
            e = t[1]
            c = r.below(12)
            if c < 4:
                return "[" + ", ".join(g(e, d - 1) for _ in range(r.range(0, 4))) + "]"
            if c < 6:
                return "(%s @ %s)" % (g(t, d - 1), g(t, d - 1))
            if c < 8:
                e2 = self.rand_type(0)
                x = self.fresh()
                self.env.append((x, e2))
                body = g(e, d - 1)
                self.env.pop()
                return "(std.array.map (fun %s => %s) %s)" % (x, body, g(("A", e2), d - 1))
            if c < 9:
                return "(std.array.filter (fun e => %s) %s)" % (g("B", d - 1), g(t, d - 1))
            if c < 10:
                return "(std.array.slice %s %s %s)" % (self.leaf("N"), self.leaf("N"), g(t, d - 1))
            if c < 11 and e == "N":
                return "(std.array.range %d %d)" % (r.below(5), r.below(12))
            if c < 11:
                return "(std.array.generate (fun i => %s) %d)" % (g(e, d - 1), r.below(5))
            return "(std.array.reverse %s)" % g(t, d - 1)
        if t[0] == "R":
            return self.record(t[1], d)
        return "null"

    def record(self, fields, d):
        r = self.r
        parts = []
        for n, x in fields:
            v = self.gen(x, d - 1)
            m = r.below(12)
            name = n if not r.chance(1, 10) else '"%s"' % n
            if m < 5:
                parts.append("%s = %s" % (name, v))
            elif m < 6:
                parts.append("%s | %s = %s" % (name, self.ty_str(x), v))
            elif m < 7:
                parts.append("%s : %s = %s" % (name, self.ty_str(x), v))
            elif m < 8:
                parts.append('%s | doc "%s" = %s' % (name, r.choice(["a doc", "\u00e9\u00e9", "# md\\n`code`"]), v))
            elif m < 9:
                parts.append("%s | default = %s" % (name, v))
            elif m < 10:
                parts.append("%s | priority %d = %s" % (name, r.below(10), v))
            elif m < 11:
                parts.append("%s | force = %s" % (name, v))
            else:
                parts.append("%s | %s | default = %s" % (name, self.ty_str(x), v))
        rec = "{ " + ", ".join(parts) + (", .." if r.chance(1, 25) and False else "") + " }"
        if fields and r.chance(1, 6):
            rec = "(%s & { %s | optional })" % (rec, r.choice(["opt1", "opt2"]))
        if fields and r.chance(1, 8):
            n, x = fields[0]
            rec = "(%s & { extra_%s = %s })" % (rec, n, self.gen(self.rand_type(0), 0))
        return rec

    def program(self, depth):
        """A top-level record of data fields (exportable), sometimes something else."""
        r = self.r
        c = r.below(10)
        if c < 7:
            names = r.shuffle(FIELDS)[:r.range(1, 5)]
            fields = [(n, self.rand_type(2)) for n in names]
            parts = []
            for n, x in fields:
                # recursive reference to an earlier field
                parts_env = list(self.env)
                v = self.gen(x, depth)
                self.env = parts_env
                meta = r.choice(["", "", "", " | doc \"field %s\"" % n, " | %s" % self.ty_str(x), " : %s" % self.ty_str(x), " | not_exported", " | optional"])
                parts.append("  %s%s = %s" % (n, meta, v))
                self.env.append((n, x))
            if r.chance(1, 5):
                parts.append("  %s = 1" % r.choice(QFIELDS))
            if r.chance(1, 6):
                parts.append("  missing | %s" % self.ty_str(self.rand_type(1)))
            return "{\n" + ",\n".join(parts) + "\n}"
        if c < 8:
            t = self.rand_type(2)
            return "(%s) : %s" % (self.gen(t, depth), self.ty_str(t))
        if c < 9:
            return "fun x => %s" % self.gen(self.rand_type(1), depth)
        return self.gen(self.rand_type(2), depth)


ROW_USES = [
    "%s.%s", "%s.%s", "%s.%s",
    "std.record.values %s", "std.record.fields %s", "std.record.has_field \"%s\" %s", "std.record.get \"%s\" %s",
    "std.record.map (fun k v => v) %s", "std.record.to_array %s", "std.record.length %s", "std.record.is_empty %s",
    "std.record.filter (fun k v => true) %s", "std.record.update \"%s\" 1 %s", "std.record.remove \"%s\" %s",
    "%s & {extra = 1}", "%s == %s", "(fun q => q.%s) %s", "(%s : {_ : Number})", "(%s : {%s : Number})", "(%s | {%s | Number, ..})",
]


def row_program(rng):
    """A statically typed block in which an unannotated lambda-bound record is projected several
    times and coerced to a dictionary (std.record.*), in every order: row inference with tails that
    are already assigned when the next use is checked."""
    fs = rng.shuffle(["fa", "fb", "fc"])[:rng.range(1, 3)]
    params = ["r"] if rng.chance(3, 4) else ["r", "s"]
    lets = []
    for i in range(rng.range(2, 6)):
        u = rng.choice(ROW_USES)
        v = rng.choice(params)
        f = rng.choice(fs + ["zz"] if rng.chance(1, 6) else fs)
        n = u.count("%s")
        if u.startswith("%s.%s") or u.startswith("(%s : {%s") or u.startswith("(%s | {%s"):
            e = u % (v, f)
        elif u == "%s == %s":
            e = u % (v, rng.choice(params))
        elif u.startswith("(fun q"):
            e = u % (f, v)
        elif n == 2:
            e = u % (f, v)
        else:
            e = u % v
        lets.append("let x%d = %s in" % (i, e))
    body = rng.choice(["1", "x0", "x1", "r", "std.record.values r", "r.%s" % fs[0]])
    fun = "(fun %s => %s %s)" % (" ".join(params), " ".join(lets), body)
    vals = rng.choice([["1", "2", "3"], ["1", "\"a\"", "true"], ["{}", "[]", "null"]])
    arg = "{" + ", ".join("%s = %s" % (f, vals[i % 3]) for i, f in enumerate(fs)) + (", other = 0" if rng.chance(1, 4) else "") + "}"
    c = rng.below(6)
    if c < 2:
        return "(%s %s) : _" % (fun, " ".join([arg] * len(params)))
    if c < 3:
        return "(%s %s) : Number" % (fun, " ".join([arg] * len(params)))
    if c < 4:
        return "%s : _" % fun
    if c < 5:
        return "let f : _ = %s in f %s" % (fun, " ".join([arg] * len(params)))
    return "{ g = %s, v : _ = g %s }" % (fun, " ".join([arg] * len(params)))


VALUES = ["0", "1", "2", "3", "(-1)", "0.5", "(-0.5)", "1.5", "1e10", "1e-10", "9007199254740992", "9223372036854775807", "9223372036854775808",
          "18446744073709551615", "18446744073709551616", "(-9223372036854775809)", "1e400", "(-1e400)", "1e-400", "4294967296", "2147483648",
          '""', '"a"', '"abc"', '"\u00e9"', '"\u65e5\u672c\u8a9e"', '"a\\nb"', '"%"', '"\U0001F44D\U0001F3FD"', '"a,b,c"', '"[a-z]+"', '"("', '"0"', '"1e400"',
          '"aGVsbG8="', '"not base64!"', '"{\\"a\\":1}"', "[]", "[1]", "[1, 2, 3]", '["a", "b"]', "[[1], [2]]", "[1, \"a\", null]", "{}", "{a = 1}", "{a = 1, b = \"x\"}", "{a = {b = 1}}",
          "{a | optional}", "{a | default = 1}", "null", "true", "false", "'Foo", "('Bar 1)", "'Json", "'Yaml", "'Toml", "'Text", "'Lesser", "'\"a b\"",
          "(fun x => x)", "(fun x y => x)", "Number", "String", "(Array Number)", "{a : Number}", "Dyn", "(forall a. a -> a)",
          "(std.contract.from_predicate (fun x => true))", "(std.contract.custom (fun l v => 'Ok v))", "std.array", "std"]


def primop_case(rng, prims, stdfuns):
    """An application of a primop or a std function to arbitrary values."""
    c = rng.below(10)
    if c < 5 and prims:
        op = rng.choice(prims)
        n = rng.weighted([(1, 3), (2, 4), (3, 2), (4, 1), (0, 1)])
        return "%s %s" % (op, " ".join(rng.choice(VALUES) for _ in range(n)))
    if stdfuns:
        f = rng.choice(stdfuns)
        n = rng.weighted([(1, 3), (2, 4), (3, 3), (4, 1)])
        return "%s %s" % (f, " ".join(rng.choice(VALUES) for _ in range(n)))
    return rng.choice(VALUES)


def token_soup(rng, n):
    return " ".join(rng.choice(POOL) if rng.chance(4, 5) else rng.choice(IDENTS + NUMS + ['"%s"' % s for s in STRS[:8]]) for _ in range(n))


DATA_SOUP = {
    "json": ["{", "}", "[", "]", ":", ",", '"a"', '"\u00e9"', "1", "-0", "1e400", "1E-400", "0.1", "true", "false", "null", '"\\u00e9"', '"\\ud800"', '"\\x"', "nul", "'a'", "01", "1.", ".5", "NaN", "Infinity", " ", "\n", "//c", "\ufeff"],
    "yaml": ["a:", "- ", "  ", "\n", "[", "]", "{", "}", ",", ": ", "&x", "*x", "*y", "!!str", "!!int", "!foo", "|", ">", "|-", "---", "...", "? ", "'a'", '"a"', '"\\x41"', '"\\q"', "1", "0x1F", "0o17", "1e400", ".inf", "-.inf", ".nan", "~", "null", "yes", "no", "on", "2001-01-01", "<<: *x", "<<:", "#c", "\t", "\u00e9", "%YAML 1.2", "%TAG", "\r", "@", "`"],
    "toml": ["a", "=", " ", "\n", "[", "]", "[[", "]]", "{", "}", ",", ".", '"a"', "'a'", '"""', "'''", "1", "+1", "-0", "0x1F", "1_000", "1e400", "inf", "nan", "-nan", "true", "false", "1979-05-27", "1979-05-27T07:32:00Z", "07:32:00", "#c", '"\\u00e9"', '"\\x"', "\u00e9", "a.b", '"a b"', "\r", "\t"],
}


def data_soup(rng, fmt, n):
    return "".join(rng.choice(DATA_SOUP[fmt]) for _ in range(n))


# ----------------------------------------------------------------------------- well-formed data documents
# Grammar-generated JSON / YAML / TOML documents: every container form of the format, nested, with
# leaves drawn from pools of edge scalars (non-finite and huge numbers, dates, non-ASCII and empty
# strings, anchors / aliases / tags ...), so that a special scalar is met at every structural
# position (top level, table, dotted key, inline table, array, array of tables, inline table inside
# an array, ...).

TOML_FINITE = ["1.0", "-0.5", "3.14", "1e10", "6.02e+23", "0.0", "-0.0", "1_000.5"]
TOML_NONFINITE = ["inf", "+inf", "-inf", "nan", "+nan", "-nan"]
TOML_OTHER = ["0", "-1", "42", "9223372036854775807", "-9223372036854775808", "0x1F", "0o17", "0b101", "1_000", '"a"', '""', '"é日"', "'lit'",
              '"esc\\n\\t\\u00e9"', '"""multi\nline"""', "'''raw\n'''", "true", "false", "1979-05-27T07:32:00Z", "1979-05-27T07:32:00", "1979-05-27", "07:32:00"]
TOML_KEYS = ["a", "b", "c", "x", "y", "name", "k1", "k-2", "k_3", '"q k"', '"é"', "'lit.key'", "1", '""']


class TomlDoc:
    """A toml_edit-shaped tree: item = ('V', value) | ('T', [(key, item)]) | ('A', [[(key, item)]]);
    value = ('f', text) finite float | ('n', text) non-finite float | ('o', text) other scalar
          | ('a', [value]) array | ('i', [(key, value)]) inline table."""

    def __init__(self, rng, p_nonfinite):
        self.r = rng
        self.p = p_nonfinite       # per-float probability (in 1/100) of inf / nan

    def keys(self, n):
        return self.r.shuffle(TOML_KEYS)[:n]

    def value(self, d):
        r = self.r
        c = r.below(10) if d > 0 else r.below(5)
        if c < 3:
            if r.below(100) < self.p:
                return ("n", r.choice(TOML_NONFINITE))
            return ("f", r.choice(TOML_FINITE))
        if c < 5:
            return ("o", r.choice(TOML_OTHER))
        if c < 8:
            return ("a", [self.value(d - 1) for _ in range(r.range(0, 3))])
        ks = self.keys(r.range(0, 3))
        return ("i", [(k, self.value(d - 1)) for k in ks])

    def table(self, d):
        r = self.r
        ks = self.keys(r.range(0, 4))
        ents = []
        for k in ks:
            c = r.below(10) if d > 0 else 0
            if c < 6:
                ents.append((k, ("V", self.value(d))))
            elif c < 8:
                ents.append((k, ("T", self.table(d - 1))))
            else:
                ents.append((k, ("A", [self.table(d - 1) for _ in range(r.range(1, 3))])))
        return ents

    # ---- rendering
    def rv(self, v):
        t = v[0]
        if t in "fno":
            return v[1]
        if t == "a":
            return "[" + ", ".join(self.rv(x) for x in v[1]) + ("," if v[1] and self.r.chance(1, 4) else "") + "]"
        return "{ " + ", ".join("%s = %s" % (k, self.rv(x)) for k, x in v[1]) + " }" if v[1] else "{}"

    def render(self, ents, path, out):
        later = []
        for k, it in ents:
            if it[0] == "V":
                out.append("%s = %s" % (k, self.rv(it[1])))
            elif it[0] == "T" and it[1] and all(x[0] == "V" for _, x in it[1]) and self.r.chance(1, 3):
                for k2, x in it[1]:            # dotted keys: an implicit (dotted) table
                    out.append("%s.%s = %s" % (k, k2, self.rv(x[1])))
            else:
                later.append((k, it))
        for k, it in later:
            p = path + [k]
            if it[0] == "T":
                out.append("[%s]" % ".".join(p))
                self.render(it[1], p, out)
            else:
                for el in it[1]:
                    out.append("[[%s]]" % ".".join(p))
                    self.render(el, p, out)

    # ---- the model's view (keys dropped)
    def mv(self, v):
        t = v[0]
        if t in "fno":
            return t
        return t + "[" + "".join(self.mv(x if t == "a" else x[1]) for x in v[1]) + "]"

    def mi(self, it):
        if it[0] == "V":
            return "V" + self.mv(it[1])
        if it[0] == "T":
            return "T[" + "".join(self.mi(x) for _, x in it[1]) + "]"
        return "A[" + "".join("[" + "".join(self.mi(x) for _, x in el) + "]" for el in it[1]) + "]"

    def document(self, depth):
        ents = self.table(depth)
        out = []
        self.render(ents, [], out)
        return "\n".join(out) + "\n", self.mi(("T", ents))


JSON_SCALARS = ["0", "-0", "1", "-1", "0.1", "1e3", "1E+2", "1e-400", "1e400", "-1e400", "123456789012345678901234567890", "9007199254740993", "1.7976931348623157e308",
                "true", "false", "null", '""', '"a"', '"é"', '"\\u00e9"', '"\\ud83d\\ude00"', '"\\ud800"', '"\\n\\t\\\\\\""', '"%{x}"', '"1e400"', '"\\u0000"']
JSON_KEYS = ['"a"', '"b"', '""', '"é"', '"a b"', '"a"', '"%{k}"', '"1"', '"\\u0000"', '"if"']


def json_doc(rng, d):
    c = rng.below(10) if d > 0 else 0
    if c < 4:
        return rng.choice(JSON_SCALARS)
    ws = rng.choice(["", " ", "\n ", "\t"])
    if c < 7:
        return "[" + ws + ("," + ws).join(json_doc(rng, d - 1) for _ in range(rng.range(0, 4))) + ws + "]"
    return "{" + ws + ("," + ws).join("%s:%s%s" % (rng.choice(JSON_KEYS), ws, json_doc(rng, d - 1)) for _ in range(rng.range(0, 4))) + ws + "}"


YAML_SCALARS = ["1", "-1", "0.5", "1e3", "1e400", "-1e400", ".inf", "-.inf", "+.inf", ".nan", ".NaN", "~", "null", "Null", "true", "False", "yes", "no", "on", "0x1F", "0o17", "017",
                "1_000", "+1", "1:20", "2001-01-01", "2001-12-14t21:59:43.10-05:00", "a", "a b", "é", "'q'", '"d\\n\\x41\\u00e9"', '""', "''", "-", "?", "|", "@a", "`a", "%a",
                "!!str 1", "!!int '3'", "!!float 1", "!!bool yes", "!!null ''", "!!binary aGVsbG8=", "!custom x", "!!set {a, b}", "123456789012345678901234567890", "0b101", "<<", "=", "[]", "{}"]
YAML_KEYS = ["a", "b", "c", "é", "'q k'", '"d k"', "1", "true", "null", "~", "<<", "? [x]\n", "!!str k", "a b"]


class YamlDoc:
    def __init__(self, rng):
        self.r = rng
        self.anchors = []
        self.n = 0

    def anchor(self):
        r = self.r
        if r.chance(1, 5):
            self.n += 1
            a = "x%d" % self.n
            self.anchors.append(a)
            return "&%s " % a
        return ""

    def scalar(self):
        r = self.r
        if r.chance(1, 6):
            return "*" + (r.choice(self.anchors) if self.anchors and r.chance(9, 10) else "nope")
        return self.anchor() + r.choice(YAML_SCALARS)

    def flow(self, d):
        r = self.r
        c = r.below(10) if d > 0 else 0
        if c < 5:
            return self.scalar()
        if c < 8:
            return self.anchor() + "[" + ", ".join(self.flow(d - 1) for _ in range(r.range(0, 3))) + "]"
        return self.anchor() + "{" + ", ".join("%s: %s" % (self.key(), self.flow(d - 1)) for _ in range(r.range(0, 3))) + "}"

    def key(self):
        r = self.r
        k = r.choice(YAML_KEYS)
        if k.startswith("?"):
            return "x"
        return (self.anchor() if r.chance(1, 4) else "") + k

    def block(self, d, ind):
        """lines of a block node at indentation ind"""
        r = self.r
        pad = " " * ind
        c = r.below(10) if d > 0 else 0
        if c < 3:
            return [pad + self.flow(1)]
        if c < 4:
            return [pad + r.choice(["|", ">", "|-", ">+", "|2"]), pad + "  text é", pad + "  more"]
        if c < 7:
            out = []
            for _ in range(r.range(1, 3)):
                sub = self.block(d - 1, ind + 2)
                out.append(pad + "- " + sub[0].strip())
                out += sub[1:]
            return out
        out = []
        a = self.anchor()
        if a:
            out.append(pad + a.strip())
        for _ in range(r.range(1, 3)):
            k = self.key()
            if r.chance(1, 8):
                out.append(pad + "<<: " + ("*" + r.choice(self.anchors) if self.anchors else "{a: 1}"))
                continue
            if r.chance(1, 2):
                out.append(pad + k + ": " + self.flow(1))
            else:
                out.append(pad + k + ":")
                out += self.block(d - 1, ind + 2)
        return out

    def document(self, depth):
        r = self.r
        docs = []
        for _ in range(1 if r.chance(4, 5) else r.range(2, 3)):
            docs.append("\n".join(self.block(depth, 0)))
        head = r.choice(["", "", "---\n", "%YAML 1.2\n---\n"])
        return head + "\n---\n".join(docs) + r.choice(["\n", "\n...\n", ""])


# ----------------------------------------------------------------------------- annotation matrix
# Exhaustive small cross product: every position where the grammar allows an annotation or a type
# x every type shape (all TypeF forms) x every kind of identifier that can occur inside a type.
# The compiler phases exchange invariants about annotations (positions, fixed type variables,
# contract vs type flavour); a change that breaks one for a single combination is only met by a
# program that has exactly that combination.

ANNOT_PRELUDE = ("let Num = Number in let Pos = std.number.PosNat in "
                 "let App = fun n => std.contract.from_predicate (fun v => v >= n) in "
                 "let Lib = {Num = Number, Sub = {Pos = std.number.PosNat}} in ")

# identifier kinds: (name, text as a type atom, needs field binding)
ANNOT_IDS = [
    ("builtin", "Number", False),
    ("let-alias", "Num", False),
    ("let-contract", "Pos", False),
    ("field-bound", "Fld", True),
    ("std-path", "std.number.PosNat", False),
    ("record-access", "Lib.Sub.Pos", False),
    ("application", "(App 0)", False),
]

# type shapes: (name, type with {I} for the identifier, a value of that type when {I} accepts 1)
ANNOT_SHAPES = [
    ("ident", "{I}", "1"),
    ("array", "Array {I}", "[1, 2]"),
    ("array2", "Array (Array {I})", "[[1]]"),
    ("arrow", "{I} -> {I}", "(fun v => v)"),
    ("arrow-ho", "({I} -> {I}) -> {I}", "(fun g => g 1)"),
    ("forall-type", "forall a. a -> {I} -> a", "(fun u v => u)"),
    ("forall-rrows", "forall r. {{x : {I}; r}} -> {I}", "(fun u => u.x)"),
    ("forall-erows", "forall r. [| 'A {I}; r |] -> Number", "(fun u => 0)"),
    ("forall-nested", "forall a. (forall b. b -> {I}) -> a -> a", "(fun g u => u)"),
    ("enum-payload", "[| 'Tcp {I}, 'Unix String |]", "('Tcp 1)"),
    ("enum-payload-deep", "[| 'Some (Array {I}), 'None |]", "('Some [1])"),
    ("enum-payload-record", "[| 'R {{p : {I}}}, 'N |]", "('R {{p = 1}})"),
    ("enum-tags", "[| 'a, 'b |]", "'a"),
    ("record-type", "{{x : {I}}}", "{{x = 1}}"),
    ("record-type-2", "{{x : {I}, y : [| 'K {I} |]}}", "{{x = 1, y = 'K 1}}"),
    ("record-contract", "{{x | {I}}}", "{{x = 1}}"),
    ("record-contract-open", "{{x | {I}, ..}}", "{{x = 1, z = 0}}"),
    ("record-contract-meta", "{{x | {I} | optional, y | {I} | default = 1}}", "{{x = 1}}"),
    ("dict-type", "{{_ : {I}}}", "{{k = 1}}"),
    ("dict-contract", "{{_ | {I}}}", "{{k = 1}}"),
    ("dict-of-enum", "{{_ : [| 'T {I} |]}}", "{{k = 'T 1}}"),
    ("array-of-enum", "Array [| 'T {I} |]", "['T 1]"),
    ("arrow-to-enum", "Number -> [| 'T {I} |]", "(fun n => 'T n)"),
    ("dyn", "Dyn", "1"),
]

# positions: (name, template with {T} type, {V} value, {W} value carrying the contract so that a
# static annotation typechecks)
ANNOT_POSITIONS = [
    ("let-contract", "let x | {T} = {V} in x"),
    ("let-type", "let x : {T} = {W} in x"),
    ("let-rec-contract", "let rec x | {T} = {V} in x"),
    ("let-rec-type", "let rec x : {T} = {W} in x"),
    ("let-block", "let x | {T} = {V}, y : {T} = {W} in [x, y]"),
    ("inline-contract", "({V} | {T})"),
    ("inline-type", "({W} : {T})"),
    ("toplevel-contract", "{V} | {T}"),
    ("inline-two", "({V} | {T} | {T})"),
    ("field-contract", "{{ f | {T} = {V} }}"),
    ("field-type", "{{ f : {T} = {W} }}"),
    ("field-both", "{{ f : {T} | {T} = {W} }}"),
    ("field-nodef", "{{ f | {T} }} & {{ f = {V} }}"),
    ("field-nodef-alone", "{{ f | {T} | optional }}"),
    ("field-piecewise", "{{ f | {T}, f = {V} }}"),
    ("field-path", "{{ a.b | {T} = {V} }}"),
    ("field-path-type", "{{ a.b.c : {T} = {W} }}"),
    ("field-quoted", "{{ \"f g\" | {T} = {V} }}"),
    ("field-dynamic", "{{ \"%{{\"f\"}}\" | {T} = {V} }}"),
    ("field-doc-default", "{{ f | {T} | doc \"d\" | default = {V} }}"),
    ("field-optional", "{{ f | {T} | optional = {V} }}"),
    ("field-priority", "{{ f | {T} | priority 2 = {V} }}"),
    ("field-force-notexported", "{{ f | {T} | force | not_exported = {V}, g = f }}"),
    ("field-rec-use", "{{ f | {T} = {V}, g = f, h | {T} = g }}"),
    ("field-nested-record", "{{ o = {{ f | {T} = {V} }} }}"),
    ("field-in-array", "[{{ f | {T} = {V} }}]"),
    ("field-include", "let f = {V} in {{ include f | {T} }}"),
    ("field-merge", "{{ f | {T} }} & {{ f | {T} = {V} }}"),
    ("pattern-let", "let {{ f | {T} }} = {{ f = {V} }} in f"),
    ("pattern-let-type", "let {{ f : {T} }} = {{ f = {W} }} in f"),
    ("pattern-let-default", "let {{ f | {T} ? {V} }} = {{}} in f"),
    ("pattern-let-sub", "let {{ f | {T} = g }} = {{ f = {V} }} in g"),
    ("pattern-fun", "(fun {{ f | {T} }} => f) {{ f = {V} }}"),
    ("pattern-match", "{{ f = {V} }} |> match {{ {{ f | {T} }} => f, _ => null }}"),
    ("pattern-nested", "let {{ o = {{ f | {T} }} }} = {{ o = {{ f = {V} }} }} in f"),
    ("record-type-field", "({{ f = {V} }} | {{ f : {T} }})"),
    ("record-contract-field", "({{ f = {V} }} | {{ f | {T} }})"),
    ("let-record-type", "let x : {{ f : {T} }} = {{ f = {W} }} in x"),
    ("type-as-value", "let C = {T} in ({V} | C)"),
    ("type-as-field-value", "{{ C = {T}, f | C = {V} }}"),
    ("fun-body", "(fun v => (v | {T})) {V}"),
    ("fun-return-type", "((fun v => v) : ({T}) -> ({T}))"),
    ("array-elem", "[{V} | {T}]"),
    ("match-arm-body", "'k |> match {{ 'k => ({V} | {T}), _ => null }}"),
    ("if-branch", "if true then ({V} | {T}) else null"),
    ("contract-apply", "std.contract.apply ({T}) {V}"),
    ("string-interp", "\"%{{std.to_string (std.typeof ({V} | {T}))}}\""),
]


def annotation_matrix(bad_every=0, seed=0):
    """[(program body, position, shape, identifier kind)] — the full cross product; the program is
    ANNOT_PRELUDE + body."""
    out = []
    k = 0
    for pname, ptmpl in ANNOT_POSITIONS:
        for sname, stmpl, sval in ANNOT_SHAPES:
            for iname, itext, needs_field in ANNOT_IDS:
                if "{I}" not in stmpl and iname != "builtin":
                    continue
                t = stmpl.format(I=itext)
                v = sval.format()
                k += 1
                if bad_every and (k + seed) % bad_every == 0:
                    v = "\"wrong\""
                w = "(%s | %s)" % (v, t)
                prog = ptmpl.format(T=t, V=v, W=w)
                if needs_field:
                    prog = "{ Fld = Number, out = %s }.out" % prog
                out.append((prog, pname, sname, iname))
    return out


def annotation_batches(matrix, size=8):
    """Programs of the same position grouped into one record literal (one stdlib load for `size`
    programs).  A batch that does not go through cleanly is re-run member by member."""
    out = []
    cur, cur_pos = [], None
    for item in matrix:
        if cur and (item[1] != cur_pos or len(cur) >= size):
            out.append(cur)
            cur = []
        cur.append(item)
        cur_pos = item[1]
    if cur:
        out.append(cur)
    return out


def batch_program(batch):
    # a record (not an array): the members keep independent types in a statically typed reading
    return ANNOT_PRELUDE + "{\n" + ",\n".join("  c%d = (%s)" % (i, b[0]) for i, b in enumerate(batch)) + "\n}"


# ----------------------------------------------------------------------------- type law and error matrix
# (1) Every type of the sub-grammar, alone and inside every type context, as a source text for the
#     printer / parser law (print_runtime(T) parses back with FixedTypeParser and is stable).
# (2) An error matrix: for every type shape, static type errors of every kind that can be triggered
#     systematically with the shape on the expected and on the inferred side, and run-time blame
#     errors through contracts of each shape violated at each path, the contract being reached
#     through every kind of source (annotation, field, let-bound, record-stored, std.contract.apply,
#     wrapped in an array / dictionary / enum payload / arrow / record type).  Every program ends in
#     an error, which the pipeline renders (text with and without colour, JSON, label checks).

TYPE_CONTEXTS = [
    "{S}", "({S}) -> Number", "Number -> ({S})", "Number -> Number -> ({S})", "(Number -> ({S})) -> Number", "(({S}) -> Number) -> Number",
    "Array ({S})", "{{_ : ({S})}}", "{{_ | ({S})}}", "{{f : ({S})}}", "{{f | ({S})}}", "{{f : Number, g : ({S})}}", "[| 'K ({S}) |]", "[| 'J, 'K ({S}) |]",
    "forall z. ({S})", "forall z. z -> ({S})", "forall z. ({S}) -> z", "forall r. {{f : ({S}); r}} -> Number", "forall r. [| 'K ({S}); r |] -> Number",
    "{{f : ({S}); Dyn}}",
]
LAW_IDS = [("builtin", "Number"), ("let-contract", "Pos"), ("application", "(App 0)"), ("record-access", "Lib.Sub.Pos")]


def type_law_cases():
    """[(type text, description)]: shapes x contexts x identifier kinds, and contexts composed twice
    for the shapes with binders and arrows."""
    out, seen = [], set()

    def add(t, d):
        if t not in seen:
            seen.add(t)
            out.append((t, d))
    for sname, stmpl, _ in ANNOT_SHAPES:
        for iname, itext in LAW_IDS:
            if "{I}" not in stmpl and iname != "builtin":
                continue
            s = stmpl.format(I=itext)
            for c in TYPE_CONTEXTS:
                add(c.format(S=s), "%s/%s in %s" % (sname, iname, c))
    deep = [x for x in ANNOT_SHAPES if x[0] in ("arrow", "arrow-ho", "forall-type", "forall-rrows", "forall-erows", "forall-nested", "enum-payload", "record-type", "dict-type")]
    for sname, stmpl, _ in deep:
        s = stmpl.format(I="Number")
        for c1 in TYPE_CONTEXTS:
            for c2 in TYPE_CONTEXTS:
                add(c1.format(S=c2.format(S=s)), "%s in %s in %s" % (sname, c2, c1))
    return out


STATIC_ERRORS = [
    ("arrow-dom", "let f : ({S}) -> Number = (null | ({S}) -> Number) in (f : String -> Number)"),
    ("arrow-dom-rev", "let f : String -> Number = (null | String -> Number) in (f : ({S}) -> Number)"),
    ("arrow-codom", "let f : Number -> ({S}) = (null | Number -> ({S})) in (f : Number -> String)"),
    ("arrow-codom-rev", "let f : Number -> String = (null | Number -> String) in (f : Number -> ({S}))"),
    ("arrow-codom2", "let f : Number -> Number -> ({S}) = (null | Number -> Number -> ({S})) in (f : Number -> Number -> String)"),
    ("arrow-ho", "let f : (Number -> ({S})) -> Number = (null | (Number -> ({S})) -> Number) in (f : (Number -> String) -> Number)"),
    ("arrow-both", "let f : ({S}) -> ({S}) = (null | ({S}) -> ({S})) in (f : Bool -> String)"),
    ("arrow-arity", "let f : ({S}) -> Number = (null | ({S}) -> Number) in (f : Number)"),
    ("not-a-function", "(1 : ({S}) -> Number)"),
    ("plain", "((null | ({S})) : String)"),
    ("plain-rev", '("s" : ({S}))'),
    ("row-extra", "let r : {{a : ({S}), b : Number}} = (null | {{a : ({S}), b : Number}}) in (r : {{a : ({S})}})"),
    ("row-missing", "let r : {{a : ({S})}} = (null | {{a : ({S})}}) in (r : {{a : ({S}), c : String}})"),
    ("row-mismatch", "let r : {{a : ({S})}} = (null | {{a : ({S})}}) in (r : {{a : String}})"),
    ("enum-mismatch", "let e : [| 'K ({S}) |] = (null | [| 'K ({S}) |]) in (e : [| 'K String |])"),
    ("enum-extra", "let e : [| 'K ({S}) |] = (null | [| 'K ({S}) |]) in (e : [| 'J |])"),
    ("array-elem", "let a : Array ({S}) = (null | Array ({S})) in (a : Array String)"),
    ("dict-value", "let d : {{_ : ({S})}} = (null | {{_ : ({S})}}) in (d : {{_ : String}})"),
    ("forall-constant", "((fun u => (u : ({S}))) : forall q. q -> ({S}))"),
    ("apply-mismatch", "let f : ({S}) -> Number = (null | ({S}) -> Number) in (f \"s\" : Number)"),
    ("record-dict", "let r : {{a : ({S}), b : String}} = (null | {{a : ({S}), b : String}}) in (r : {{_ : ({S})}})"),
]

BLAME_CASES = {
    "ident": [('"s"', "x")],
    "array": [('[1, "s"]', "x"), ('"s"', "x")],
    "array2": [('[[1, "s"]]', "x"), ('[1]', "x")],
    "arrow": [('(fun v => "s")', "x 1"), ('(fun v => v)', 'x "s"'), ("1", "x")],
    "arrow-ho": [('(fun g => g "s")', "x (fun v => v)"), ("(fun g => g 1)", 'x (fun v => "s")'), ('(fun g => "s")', "x (fun v => v)")],
    "forall-type": [("(fun u v => v)", "x 1 1"), ("(fun u v => u)", 'x 1 "s"'), ("(fun u v => u + 1)", "x 1 1")],
    "forall-rrows": [('(fun u => "s")', "x {x = 1, y = 2}"), ("(fun u => u.x)", 'x {x = "s"}'), ("(fun u => u.y)", "x {x = 1, y = 2}")],
    "forall-erows": [('(fun u => "s")', "x ('A 1)"), ("(fun u => 0)", "x ('A \"s\")")],
    "forall-nested": [("(fun g u => g 1)", "x (fun b => 1) 1"), ('(fun g u => u)', 'x (fun b => "s") 1')],
    "enum-payload": [("('Tcp \"s\")", "x"), ("'Other", "x"), ("('Unix 1)", "x"), ("1", "x")],
    "enum-payload-deep": [("('Some [\"s\"])", "x"), ("('Some 1)", "x")],
    "enum-payload-record": [("('R {p = \"s\"})", "x"), ("('R {})", "x")],
    "enum-tags": [("'c", "x"), ("1", "x")],
    "record-type": [('{x = "s"}', "x"), ("{}", "x"), ("{x = 1, y = 2}", "x")],
    "record-type-2": [("{x = 1, y = 'K \"s\"}", "x"), ('{x = "s", y = \'K 1}', "x"), ("{x = 1, y = 'J}", "x")],
    "record-contract": [('{x = "s"}', "x.x"), ("{}", "x"), ("{x = 1, y = 2}", "x")],
    "record-contract-open": [('{x = "s", z = 0}', "x.x")],
    "record-contract-meta": [('{x = "s"}', "x.x"), ('{y = "s"}', "x.y")],
    "dict-type": [('{k = "s"}', "x"), ("1", "x")],
    "dict-contract": [('{k = "s"}', "x.k"), ("[]", "x")],
    "dict-of-enum": [("{k = 'T \"s\"}", "x"), ("{k = 'U}", "x")],
    "array-of-enum": [("['T \"s\"]", "x"), ("['T 1, 'U]", "x")],
    "arrow-to-enum": [("(fun n => 'T \"s\")", "x 1"), ("(fun n => 'U)", "x 1"), ("(fun n => 'T n)", 'x "s"')],
}

# how the contract reaches the value: template with {T} type, {B} bad value, {U} the use of x
BLAME_SOURCES = [
    ("inline", "let x = ({B} | {T}) in {U}"),
    ("let-annot", "let x | {T} = {B} in {U}"),
    ("field", "let x = {{ f | {T} = {B} }}.f in {U}"),
    ("field-nodef", "let x = ({{ f | {T} }} & {{ f = {B} }}).f in {U}"),
    ("let-bound-type", "let C = {T} in let x = ({B} | C) in {U}"),
    ("record-stored-type", "let L = {{ C = {T} }} in let x = ({B} | L.C) in {U}"),
    ("function-made-type", "let mk = fun u => {T} in let x = ({B} | mk null) in {U}"),
    ("contract-apply", "let x = std.contract.apply ({T}) {B} in {U}"),
    ("in-array", "let x = std.array.at 0 ([{B}] | Array ({T})) in {U}"),
    ("in-dict", "let x = ({{ k = {B} }} | {{_ : ({T})}}).k in {U}"),
    ("in-enum", "let x = (('W {B}) | [| 'W ({T}) |]) |> match {{ 'W v => v }} in {U}"),
    ("in-codomain", "let x = ((fun u => {B}) | Number -> ({T})) 0 in {U}"),
    ("in-domain", "((fun x => {U}) | ({T}) -> Dyn) {B}"),
    ("in-record-type", "let x = ({{ g = {B} }} | {{ g : ({T}) }}).g in {U}"),
    ("pattern", "let {{ f | {T} }} = {{ f = {B} }} in let x = f in {U}"),
    ("static-then-dynamic", "let x : {T} = (({B} | Dyn) | {T}) in {U}"),
]
ERR_IDS = [("builtin", "Number"), ("let-contract", "Pos"), ("application", "(App 0)")]


def error_matrix():
    """[(program body, family, form, shape, identifier kind)]"""
    out = []
    for sname, stmpl, _ in ANNOT_SHAPES:
        for iname, itext in ERR_IDS[:2]:
            if "{I}" not in stmpl and iname != "builtin":
                continue
            s = stmpl.format(I=itext)
            for ename, etmpl in STATIC_ERRORS:
                out.append((etmpl.format(S=s), "static", ename, sname, iname))
        for iname, itext in ERR_IDS[:2]:
            if "{I}" not in stmpl and iname != "builtin":
                continue
            t = stmpl.format(I=itext)
            for bad, use in BLAME_CASES.get(sname, []):
                for k, (bname, btmpl) in enumerate(BLAME_SOURCES):
                    if k >= 8 and iname != "builtin":
                        continue          # the wrapping sources: one identifier kind is enough
                    out.append((btmpl.format(T=t, B=bad, U=use), "blame", bname, sname, iname))
    return out


# ----------------------------------------------------------------------------- multiline string layouts
# Exhaustive small cross product of multiline-string layouts: up to three lines, each line with an
# indentation in {0, 2, 4} and a content kind (text, interpolation at the start of the line,
# interpolation after text, text around an interpolation), blank and whitespace-only lines, with
# and without a line break right after the opening delimiter and before the closing one; the
# delimiter length, CRLF line endings, tab indentation, nested and multiline interpolated
# expressions rotate over the layouts.  The indentation stripping of the parser (min_indent /
# strip_indent), the lexer's candidate-interpolation splitting and the printers see every layout.

ML_CONTENTS = ["text", "interp", "text-interp", "text-interp-text"]


def _ml_line(indent, kind, pc, expr):
    sp = " " * indent
    itp = pc + "{" + expr + "}"
    if kind == "text":
        return sp + "ab c"
    if kind == "interp":
        return sp + itp
    if kind == "text-interp":
        return sp + "k: " + itp
    if kind == "text-interp-text":
        return sp + "a " + itp + " z"
    if kind == "blank":
        return ""
    return " " * indent            # whitespace-only


def multiline_matrix():
    """[(string literal source, description)]"""
    kinds = [(i, k) for i in (0, 2, 4) for k in ML_CONTENTS[:3]] + [(0, "blank"), (3, "ws-only"), (2, "text-interp-text")]
    seqs = [[a] for a in kinds] + [[a, b] for a in kinds for b in kinds] + [[a, b, c] for a in kinds for b in kinds for c in kinds]
    exprs = ['"v"', 'x', 'm%"in %{"n"} er"%', 'std.to_string 1', '"l1\\nl2"', 'm%"\n    deep\n  %{"q"}\n"%', '{a = "f"}.a']
    out = []
    n = 0
    for seq in seqs:
        for lead in (True, False):
            n += 1
            pcs = "%" * (2 if n % 5 == 0 else 1)
            expr = exprs[n % len(exprs)]
            lines = [_ml_line(i, k, pcs, expr) for i, k in seq]
            body = ("\n" if lead else "") + "\n".join(lines)
            tail = ["\n", "\n  ", "", "\n    "][n % 4]
            body += tail
            if n % 11 == 0:
                body = body.replace("\n", "\r\n")
            if n % 13 == 0:
                body = body.replace("  ", "\t")
            lit = "m" + pcs + '"' + body + '"' + pcs
            out.append((lit, "%s lead=%s" % ("/".join("%d%s" % (i, k) for i, k in seq), lead)))
    return out


def multiline_batches(matrix, size=16):
    out = []
    for i in range(0, len(matrix), size):
        out.append(matrix[i:i + size])
    return out


def multiline_program(batch):
    return 'let x = "X" in {\n' + ",\n".join("  s%d = %s" % (i, lit) for i, (lit, _) in enumerate(batch)) + "\n}"
