"""C13 translator: reads the keyword tables, the quoting regex, the escape replaces and the
string-mode token patterns from /repo's sources and writes coq/Gen/Keywords.v.  Fails closed:
anything it cannot parse raises TranslateError (reported as a broken obligation)."""
import hashlib
import os
import re

from vlib import core


class TranslateError(Exception):
    pass


def rust_unescape(body):
    """Decode the inside of a Rust char/str literal."""
    out, i = [], 0
    while i < len(body):
        c = body[i]
        if c != "\\":
            out.append(c)
            i += 1
            continue
        i += 1
        if i >= len(body):
            raise TranslateError("dangling backslash in literal %r" % body)
        e = body[i]
        i += 1
        if e == "n":
            out.append("\n")
        elif e == "r":
            out.append("\r")
        elif e == "t":
            out.append("\t")
        elif e == "0":
            out.append("\0")
        elif e in "\\'\"":
            out.append(e)
        elif e == "x":
            out.append(chr(int(body[i:i + 2], 16)))
            i += 2
        elif e == "u":
            m = re.match(r"\{([0-9a-fA-F_]+)\}", body[i:])
            if not m:
                raise TranslateError("bad \\u escape in %r" % body)
            out.append(chr(int(m.group(1).replace("_", ""), 16)))
            i += m.end()
        else:
            raise TranslateError("unknown escape \\%s in %r" % (e, body))
    return "".join(out)


LIT = r'"((?:[^"\\]|\\.)*)"'
CHARLIT = r"'((?:[^'\\]|\\.)+)'"


def enum_block(src, name):
    m = re.search(r"pub enum %s(?:<[^>]*>)?\s*\{" % name, src)
    if not m:
        raise TranslateError("enum %s not found" % name)
    depth, i = 1, m.end()
    while depth and i < len(src):
        c = src[i]
        if c == '"':                     # skip string literals (they contain braces)
            i += 1
            while i < len(src) and src[i] != '"':
                i += 2 if src[i] == "\\" else 1
        elif c == "/" and src.startswith("//", i):
            while i < len(src) and src[i] != "\n":
                i += 1
        elif c == "{":
            depth += 1
        elif c == "}":
            depth -= 1
        i += 1
    if depth:
        raise TranslateError("unbalanced enum %s" % name)
    return src[m.end():i - 1]


def token_attrs(block):
    """[(kind, pattern, variant)] in source order.  Attributes stack onto the next variant."""
    res, pending = [], []
    for line in block.split("\n"):
        s = line.strip()
        if s.startswith("//") or not s:
            continue
        m = re.match(r"#\[(token|regex)\(%s" % LIT, s)
        if m:
            pending.append((m.group(1), rust_unescape(m.group(2))))
            continue
        if s.startswith("#["):
            continue
        m = re.match(r"([A-Z][A-Za-z0-9]*)", s)
        if m:
            for k, p in pending:
                res.append((k, p, m.group(1)))
            pending = []
    return res


IDENT_RE = re.compile(r"^_*[a-zA-Z][_a-zA-Z0-9\-']*$")


def extract(repo=None):
    repo = repo or core.REPO
    paths = {k: os.path.join(repo, p) for k, p in {
        "lexer": "parser/src/lexer.rs", "pretty": "parser/src/ast/pretty.rs",
        "grammar": "parser/src/grammar.lalrpop"}.items()}
    src = {k: open(p, encoding="utf-8").read() for k, p in paths.items()}
    t = {}
    # ---- lexer.rs
    normal = token_attrs(enum_block(src["lexer"], "NormalToken"))
    t["normal_tokens"] = [(p, v) for k, p, v in normal if k == "token"]
    t["lexer_reserved"] = sorted(p for k, p, v in normal if k == "token" and IDENT_RE.match(p))
    ident = [p for k, p, v in normal if k == "regex" and v == "Identifier"]
    if len(ident) != 1:
        raise TranslateError("expected exactly one regex on NormalToken::Identifier, got %r" % ident)
    t["ident_regex"] = ident[0]
    t["string_tokens"] = token_attrs(enum_block(src["lexer"], "StringToken"))
    m = re.search(r"pub const KEYWORDS: &\[&str\] = &\[(.*?)\];", src["lexer"], re.S)
    if not m:
        raise TranslateError("KEYWORDS not found")
    t["printer_keywords"] = [rust_unescape(x) for x in re.findall(LIT, m.group(1))]
    m = re.search(r"fn escape_char\(chr: char\) -> Option<char> \{\s*match chr \{(.*?)\n    \}", src["lexer"], re.S)
    if not m:
        raise TranslateError("escape_char not found")
    arms = re.findall(r"%s\s*=>\s*Some\(%s\)" % (CHARLIT, CHARLIT), m.group(1))
    rest = re.sub(r"%s\s*=>\s*Some\(%s\),?" % (CHARLIT, CHARLIT), "", m.group(1)).strip()
    if rest.replace(" ", "") != "_=>None,":
        raise TranslateError("escape_char has arms the translator does not understand: %r" % rest)
    t["escape_char"] = [(rust_unescape(a), rust_unescape(b)) for a, b in arms]
    m = re.search(r"fn escape_ascii\(code: &str\) -> Option<char> \{(.*?)\n\}", src["lexer"], re.S)
    if not m:
        raise TranslateError("escape_ascii not found")
    t["escape_ascii_body"] = re.sub(r"\s+", "", m.group(1))
    m = re.search(r"pub fn normalize_line_endings\(.*?\{(.*?)\n\}", src["lexer"], re.S)
    if not m:
        raise TranslateError("normalize_line_endings not found")
    t["normalize_body"] = re.sub(r"\s+", "", re.sub(r'"The lexer[^"]*"', '""', m.group(1)))
    # ---- pretty.rs
    m = re.search(r"fn escape\(s: &str\) -> String \{(.*?)\n\}", src["pretty"], re.S)
    if not m:
        raise TranslateError("fn escape not found in pretty.rs")
    body = m.group(1)
    reps = re.findall(r"\.replace\(\s*(%s|%s)\s*,\s*(%s)\s*\)" % (LIT, CHARLIT, LIT), body)
    stripped = re.sub(r"\.replace\(\s*(%s|%s)\s*,\s*(%s)\s*\)" % (LIT, CHARLIT, LIT), "", body)
    if re.sub(r"\s+", "", stripped) != "s":
        raise TranslateError("fn escape is not a chain of replaces on s: %r" % stripped)
    t["escape_replaces"] = []
    for r in reps:
        a, b = r[0], r[3]
        t["escape_replaces"].append((rust_unescape(a[1:-1]), rust_unescape(b[1:-1])))
    m = re.search(r"static QUOTING_REGEX[^=]*=\s*LazyLock::new\(\|\| Regex::new\(%s\)" % LIT, src["pretty"], re.S)
    if not m:
        raise TranslateError("QUOTING_REGEX not found")
    t["quoting_regex"] = rust_unescape(m.group(1))
    m = re.search(r"pub fn ident_quoted\(.*?\{(.*?)\n\}", src["pretty"], re.S)
    if not m:
        raise TranslateError("ident_quoted not found")
    t["ident_quoted_body"] = re.sub(r"\s+", "", m.group(1))
    # ---- grammar.lalrpop
    g = src["grammar"]
    terms = dict(re.findall(r'^\s*"([^"]+)" => Token::Normal\(NormalToken::([A-Za-z0-9]+)\)', g, re.M))
    spell = {v: p for p, v in t["normal_tokens"]}

    def terminal_spelling(name):
        if name not in terms or terms[name] not in spell:
            raise TranslateError("grammar terminal %r has no #[token] spelling" % name)
        return spell[terms[name]]

    accepted = []
    m = re.search(r"^MetadataKeyword: Ident = \{(.*?)^\};", g, re.S | re.M)
    if not m:
        raise TranslateError("MetadataKeyword rule not found")
    for name, made in re.findall(r'"([^"]+)" => Ident::new\("([^"]+)"\)', m.group(1)):
        if terminal_spelling(name) != made:
            raise TranslateError("MetadataKeyword %r builds identifier %r" % (name, made))
        accepted.append(made)
    m = re.search(r"^Ident: LocIdent = \{(.*?)^\};", g, re.S | re.M)
    if not m:
        raise TranslateError("Ident rule not found")
    for sub in re.findall(r"SpannedId<(\w+)>", m.group(1)):
        if sub == "RestrictedIdent":
            continue
        mm = re.search(r'^%s: Ident = "([^"]+)" => Ident::new\("([^"]+)"\);' % sub, g, re.M)
        if not mm or terminal_spelling(mm.group(1)) != mm.group(2):
            raise TranslateError("cannot read rule %s" % sub)
        accepted.append(mm.group(2))
    m = re.search(r"^ExtendedIdent: LocIdent = \{(.*?)^\};", g, re.S | re.M)
    if not m or "MetadataKeyword" not in m.group(1) or not re.search(r"\bIdent\b", m.group(1)):
        raise TranslateError("ExtendedIdent is not MetadataKeyword | Ident")
    m = re.search(r"^FieldPathElem: FieldPathElem<'ast> = \{(.*?)^\};", g, re.S | re.M)
    if not m or "<ExtendedIdent>" not in m.group(1) or "StringChunks" not in m.group(1):
        raise TranslateError("FieldPathElem is not ExtendedIdent | StringChunks")
    t["grammar_accepted"] = sorted(accepted)
    t["source_hash"] = hashlib.sha256("".join(src[k] for k in sorted(src)).encode()).hexdigest()[:16]
    return t


def cps(s):
    return "[" + "; ".join(str(ord(c)) for c in s) + "]"


def cps_list(xs):
    return "[" + ";\n    ".join(cps(x) for x in xs) + "]"


def render(t):
    L = []
    L.append("(* GENERATED by checks/c13_translate.py from parser/src/{lexer.rs,ast/pretty.rs,grammar.lalrpop}")
    L.append("   (source hash %s).  Never edit, never commit. *)" % t["source_hash"])
    L.append("From Coq Require Import List NArith.")
    L.append("Import ListNotations.")
    L.append("Open Scope N_scope.")
    L.append("(* lexer.rs: KEYWORDS, the list pretty.rs consults: %s *)" % " ".join(t["printer_keywords"]))
    L.append("Definition printer_keywords : list (list N) :=\n  %s." % cps_list(t["printer_keywords"]))
    L.append("(* spellings of #[token] variants of NormalToken that match the identifier regex: %s *)" % " ".join(t["lexer_reserved"]))
    L.append("Definition lexer_reserved : list (list N) :=\n  %s." % cps_list(t["lexer_reserved"]))
    L.append("(* reserved spellings grammar.lalrpop accepts as a field name (ExtendedIdent): %s *)" % " ".join(t["grammar_accepted"]))
    L.append("Definition grammar_accepted : list (list N) :=\n  %s." % cps_list(t["grammar_accepted"]))
    L.append("Definition quoting_regex_src : list N := %s." % cps(t["quoting_regex"]))
    L.append("Definition ident_regex_src : list N := %s." % cps(t["ident_regex"]))
    L.append("Definition ident_quoted_body_src : list N := %s." % cps(t["ident_quoted_body"]))
    L.append("(* pretty.rs fn escape: the replaces, in order *)")
    L.append("Definition escape_replaces : list (list N * list N) :=\n  [%s]." % ";\n   ".join(
        "(%s, %s)" % (cps(a), cps(b)) for a, b in t["escape_replaces"]))
    L.append("(* lexer.rs StringToken: (is_regex, pattern) in source order *)")
    L.append("Definition string_token_patterns : list (bool * list N) :=\n  [%s]." % ";\n   ".join(
        "(%s, %s)" % ("true" if k == "regex" else "false", cps(p)) for k, p, v in t["string_tokens"]))
    L.append("Definition escape_char_table : list (N * N) :=\n  [%s]." % "; ".join(
        "(%d, %d)" % (ord(a), ord(b)) for a, b in t["escape_char"]))
    L.append("Definition escape_ascii_body_src : list N := %s." % cps(t["escape_ascii_body"]))
    L.append("Definition normalize_body_src : list N := %s." % cps(t["normalize_body"]))
    return "\n".join(L) + "\n"


def write(repo=None):
    t = extract(repo)
    d = os.path.join(core.COQ, "Gen")
    os.makedirs(d, exist_ok=True)
    p = os.path.join(d, "Keywords.v")
    body = render(t)
    old = open(p).read() if os.path.exists(p) else None
    if old != body:
        with open(p, "w") as f:
            f.write(body)
    return t


if __name__ == "__main__":
    import json
    import sys
    sys.path.insert(0, core.ROOT)
    tt = write()
    print(json.dumps({k: v for k, v in tt.items() if k != "normal_tokens"}, indent=1))
