"""C02 — type annotations are enforced at the typed/untyped boundary with correct blame; the contract
derived from a static annotation is observationally the full contract on well-typed code
(core/src/typ.rs subcontract/contract_static/simplify, term/mod.rs from_static_type,
core/stdlib/internals.ncl $func*/$forall*/$record_type/..., operation.rs ContractApply)."""
import json
import os
import re

from vlib import core
from checks import c03
from checks import c02_probe as probe
from checks import c02_alias

META = {
    "harness_bins": ["nkeval", "c02"],
    "extract": "C02.v",
    "technique": "Coq proofs about a model of contract generation and of Type::simplify (no negative check is ever dropped, none is added; first-order boundary blames the untyped side exactly on non-members and the static contract agrees with the full one for type-respecting implementations); model tied to typ.rs by comparing the skeleton of the real generated contracts (Type::contract / contract_static on parsed types) with the model's, and to the interpreter by boundary programs run in default and full-static-contract mode (hook H2)",
    "level_text": "Theorems (coq/Props/C02.v): (1) simplify_keeps_negative / simplify_adds_no_check — for EVERY well-kinded closed type (arrows, the three kinds of forall incl. shadowing, nested containers, row tails with excluded fields, opaque contracts) the list of run-time checks of the simplified type has exactly the negative checks (those that can blame the untyped side) of the original type, at the same value paths, and contains no check the original does not have; cchecks_subcontract / static_contract_keeps_negative — the checks read off the GENERATED contract skeleton (one clause per internals.ncl function) equal the checks read off the type, so the negative checks of what Type::contract_static generates are exactly those of what Type::contract generates; (2) boundary_data / boundary_arrow — for first-order A, B the contract of `A -> B` blames negatively exactly on a non-A argument, whatever the body, passes an A argument unchanged and blames positively exactly on a non-B result; the same for data at either polarity (from C03); (3) boundary_arrow_static / static_equiv_arrow_partial / static_equiv_data — the static contract keeps exactly the argument check and is outcome-equivalent to the full contract for every implementation that maps A-members to B-members. Ties: the real `Type::contract` and `Type::contract_static` are run on generated types (parsed by the real parser, so with the parser's excluded sets) and the skeleton of the generated term is compared with the model's subcontract / subcontract∘simplify; boundary programs `let f : T = <typed impl> in <untyped use>` (argument, nested element, missing/extra field, callback result, non-function callback) are evaluated in default and static-full mode and compared with the model's prediction including blame polarity; default vs static-full on the same well-typed program is the direct oracle.",
    "level_note": "Partial: the observational equivalence of static and full contracts (simplify_equiv) is PROVED only for first-order data and first-order arrows (static_equiv_arrow_partial); for higher-order and polymorphic types it rests on simplify_keeps_negative (syntactic) plus the direct oracle (H2) on generated and corpus programs. `checks` (which checks a type's contract performs, with polarity) is a hand-written reading of internals.ncl. Trusted: Coq kernel, extraction, the skeleton printer in harness/src/bin/c02.rs (walks the generated NickelValue; for an enum matcher it lists the applied sub-contracts and the default, not the tags), the OCaml printers, generators in checks/c02.py. Not modelled: sealing at run time ($forall_var/$forall_record_tail behaviour is C11), laziness of the argument contract (model functions are strict; generated implementations force their argument), user-defined contracts inside types (opaque).",
}

# ----------------------------------------------------------------------------- type generator (syntactic tie)

TYV = ["a", "b", "c"]
RRV = ["r", "s"]
ENV = ["e", "u"]
FIELDS = ["x", "y", "z", "foo"]
TAGS = ["A", "B", "C"]


def hx(s):
    return "x" + s.encode("utf-8").hex()


def gen_ty(rng, depth, scope):
    """scope: dict name -> kind ('ty' | 'rr' | 'en') of the innermost binder of that name."""
    if depth <= 0 or rng.chance(1, 9):
        tyvars = [x for x, k in scope.items() if k == "ty"]
        if tyvars and rng.chance(1, 2):
            return "(tv %s)" % hx(rng.choice(tyvars))
        return rng.choice(["Dyn", "Num", "Str", "Bool", "Dyn", "Num"])
    c = rng.below(20)
    if c < 2:
        return "(arr %s)" % gen_ty(rng, depth - 1, scope)
    if c < 8:
        return "(fun %s %s)" % (gen_ty(rng, depth - 1, scope), gen_ty(rng, depth - 1, scope))
    if c < 12:
        ks = rng.shuffle(FIELDS)[:rng.below(4)]
        rr = [x for x, k in scope.items() if k == "rr"]
        t = rng.below(10)
        if rr and t < 6:
            tail = "(var %s)" % hx(rng.choice(rr))
        elif t < 8:
            tail = "dyn"
        else:
            tail = "closed"
        return "(rec %s%s)" % (tail, "".join(" (%s %s)" % (hx(k), gen_ty(rng, depth - 1, scope)) for k in ks))
    if c < 13:
        fl = rng.choice("tc")
        # `{_ | C}`: C is parsed in contract position, where the type variables of the enclosing
        # foralls are not in scope (they would be free term variables)
        return "(dict %s %s)" % (fl, gen_ty(rng, depth - 1, scope if fl == "t" else {}))
    if c < 15:
        n = rng.below(3)
        tags = rng.shuffle(TAGS)[:n]
        en = [x for x, k in scope.items() if k == "en"]
        tail = "(var %s)" % hx(rng.choice(en)) if en and rng.chance(1, 2) else "closed"
        rows = "".join(" (%s)" % hx(t) if rng.chance(1, 2) else " (%s %s)" % (hx(t), gen_ty(rng, depth - 1, scope)) for t in tags)
        return "(enum %s%s)" % (tail, rows)
    if c < 19:
        kind = rng.weighted([("ty", 5), ("rr", 5), ("en", 2)])
        pool = {"ty": TYV, "rr": RRV, "en": ENV}[kind]
        if rng.chance(1, 8):
            pool = TYV + RRV + ENV      # cross-kind shadowing
        x = rng.choice(pool)
        sc = dict(scope)
        sc[x] = kind
        return "(all %s %s %s)" % (hx(x), {"ty": "ty", "rr": "(rr)", "en": "en"}[kind], gen_ty(rng, depth - 1, sc))
    return "(op 0)"


def gen_rowpoly(rng):
    """forall r. {..; r} -> ... -> {..; r}: the shapes where excluded fields matter, optionally under
    more arrows (other polarities) and an inner forall reusing the name."""
    r = rng.choice(RRV)

    def rec(scope_has_r=True):
        ks = rng.shuffle(FIELDS)[:rng.below(4)]
        tail = "(var %s)" % hx(r) if rng.chance(4, 5) else rng.choice(["dyn", "closed"])
        return "(rec %s%s)" % (tail, "".join(" (%s %s)" % (hx(k), rng.choice(["Num", "Str", "Dyn", "(fun Num Num)", "(arr Num)"])) for k in ks))

    def chain(n):
        if n == 0:
            return rec()
        a = rec() if rng.chance(3, 4) else "(fun %s %s)" % (rec(), rec())
        return "(fun %s %s)" % (a, chain(n - 1))
    body = chain(rng.range(1, 3))
    if rng.chance(1, 4):
        inner = "(all %s (rr) %s)" % (hx(r), chain(1))
        body = "(fun %s %s)" % (inner, body)
    t = "(all %s (rr) %s)" % (hx(r), body)
    if rng.chance(1, 4):
        t = "(fun %s Num)" % t          # the whole thing in negative position
    return t


def norm_kinds(s):
    """forget the kind annotation of foralls (the parser infers it from the uses)"""
    s = re.sub(r"\(rr[^)]*\)", "K", s)
    return re.sub(r"(\(all x[0-9a-f]*) (ty|en|K)", r"\1 K", s)


def run_skeletons(ck, types, exe_model, label):
    rc, srcs, err = core.run_sharded(exe_model, ["src"], types)
    if rc:
        ck.obligation("model-run:src:" + label, "internal", False, "rc=%s %s" % (rc, err))
        return [], []
    rc, impl, err = core.run_sharded(core.harness_bin("c02"), [], srcs)
    if rc:
        ck.obligation("impl-run:c02:" + label, "internal", False, "rc=%s %s" % (rc, err))
        return [], []
    parsed, idx = [], []
    h2_bad = [srcs[i] for i, line in enumerate(impl) if line.startswith("T ") and not line.endswith("\tH 1")]
    ck.obligation("hook-H2-effective:" + label, "internal", not h2_bad,
                  "RuntimeContract::from_static_type gives the static contract with H2 off and the full contract with H2 on, for every generated type"
                  if not h2_bad else "from_static_type does not follow the H2 toggle on " + h2_bad[0])
    for i, line in enumerate(impl):
        f = line.split("\t")
        if len(f) == 4 and f[0].startswith("T "):
            parsed.append(f[0][2:])
            idx.append(i)
        else:
            ck.hist("skeleton_cases", "rejected-by-parser")
            if norm_kinds(types[i]).count("(all") == 0:
                ck.obligation("printer:type-not-parsed", "internal", False, "%s -> %s -> %s" % (types[i], srcs[i], line))
    rc, model, err = core.run_sharded(exe_model, ["skel"], parsed)
    if rc:
        ck.obligation("model-run:skel:" + label, "internal", False, "rc=%s %s" % (rc, err))
        return [], []
    shown = 0
    mismatching = []
    for i, tsx, mline in zip(idx, parsed, model):
        f = impl[i].split("\t")
        m = mline.split("\t")
        ck.case(key="skel:" + tsx, nontrivial=("fun" in tsx or "all" in tsx))
        ck.hist("skeleton_cases", "compared")
        ck.hist("skeleton_type_size", min(tsx.count("("), 40) // 5 * 5)
        for con in ("all", "fun", "rec", "enum", "arr", "dict", "tv", "var", "op"):
            if "(" + con + " " in tsx:
                ck.hist("skeleton_types_with", con)
        if f[2] != f[1].replace("F ", "S ", 1):
            ck.hist("skeleton_cases", "simplify-changes-contract")
        if "excluded_only" in f[2]:
            ck.hist("skeleton_cases", "static-has-excluded-only-tail")
        if norm_kinds(tsx) != norm_kinds(types[i]):
            ck.obligation("printer:type-roundtrip", "internal", False, "generated %s\nparsed    %s\nsource    %s" % (types[i], tsx, srcs[i]))
        if len(m) != 5:
            ck.obligation("model-output:skel", "internal", False, "%s -> %r" % (tsx, mline[:300]))
            continue
        if m[4] != "WK 1":
            ck.obligation("model:parsed-type-not-well-kinded", "correspondence", False, tsx)
        if m[2][2:] != m[3][3:]:
            ck.obligation("model:negative-check-count", "correspondence", False, "%s: %s vs %s" % (tsx, m[2], m[3]))
        if m[0] != f[1]:
            ck.obligation("correspondence:skeleton-full-contract", "correspondence", False,
                          "type %s\nimpl  %s\nmodel %s" % (srcs[i], f[1], m[0]))
        if m[1] != f[2]:
            mismatching.append(tsx)
            ck.obligation("correspondence:skeleton-static-contract", "correspondence", False,
                          "type %s\nimpl  %s\nmodel %s" % (srcs[i], f[2], m[1]))
        if shown < 3 and "all" in tsx and f[1][2:] != f[2][2:]:
            ck.sample({"type": srcs[i], "contract": f[1][2:300], "static_contract": f[2][2:300]})
            shown += 1
    return mismatching, [(tsx, srcs[i]) for i, tsx in zip(idx, parsed)]


# ----------------------------------------------------------------------------- probes and search

def parsed_and_skeletons(exe_model, sexprs):
    """[(parsed type s-expr, source, real static skeleton, model static skeleton)] for the types the
    parser accepts"""
    rc, srcs, err = core.run_sharded(exe_model, ["src"], sexprs)
    if rc:
        return []
    rc, impl, err = core.run_sharded(core.harness_bin("c02"), [], srcs)
    if rc:
        return []
    rows = [(l.split("\t"), src) for l, src in zip(impl, srcs) if l.startswith("T ")]
    rc, model, err = core.run_sharded(exe_model, ["skel"], [f[0][2:] for f, _ in rows])
    if rc:
        return []
    return [(f[0][2:], src, f[2], m.split("\t")[1]) for (f, src), m in zip(rows, model) if m.count("\t") == 4]


def run_probes(ck, typed, exe_model, label, per_type, rng):
    """typed: [(parsed type s-expr, source)].  For each type, for (up to per_type of) its negative
    checks, a program in which the untyped side fails exactly that check; default vs static-full."""
    rc, negs, err = core.run_sharded(exe_model, ["negs"], [t for t, _ in typed])
    if rc:
        ck.obligation("model-run:negs:" + label, "internal", False, "rc=%s %s" % (rc, err))
        return
    progs, meta = [], []
    for (tsx, src), nline in zip(typed, negs):
        checks = [c for c in nline.split(";") if c]
        if per_type is not None and len(checks) > per_type:
            checks = rng.shuffle(checks)[:per_type]
        t = probe.parse_sx(tsx)
        for c in checks:
            kind = c.split(" ")[1].split(":")[0]
            try:
                progs.append(probe.probe_program(t, src, c))
                meta.append((src, c, kind))
            except probe.Unsynth:
                ck.hist("probe_" + label, "not-synthesised:" + kind)
            except (KeyError, IndexError, ValueError) as ex:
                ck.obligation("probe-synthesis", "internal", False, "%s on %s / %s" % (ex, tsx, c))
    lines = []
    for p in progs:
        lines.append("full\t" + esc(p))
        lines.append("full,static-full\t" + esc(p))
    rc, out, err = c03.run_chunked(core.harness_bin("nkeval"), [], lines)
    if rc:
        ck.obligation("impl-run:probes:" + label, "internal", False, "rc=%s %s" % (rc, err))
        return
    for i, (p, (src, c, kind)) in enumerate(zip(progs, meta)):
        d, f = out[2 * i], out[2 * i + 1]
        ck.case(key="probe:" + p, nontrivial=True)
        if f != "ERR Blame-":
            # the reference run does not blame the untyped side: the probe is not a valid witness
            # (the typed side was rejected by the typechecker, or the walk did not reach the check)
            ck.hist("probe_" + label, "no-reference-blame:" + (f.split(" ")[1] if f.startswith("ERR") else "OK"))
            continue
        ck.hist("probe_" + label, "probed:" + kind)
        if d != f:
            what = ("evaluates to " + d[3:]) if d.startswith("OK ") else ("fails with " + d[4:])
            ck.violation("static-contract-misses-negative-check:" + kind,
                         "`%s` %s although the boundary contract must blame the untyped side (check `%s` of `: %s`; with the full contract: %s)" % (
                             p if len(p) <= 150 else p[:120] + " ... " + p[-25:], what[:40], c, src[:60], f),
                         {"program": p, "type": src, "check": c, "default": d, "static_full": f, "expected": "ERR Blame-",
                          "how_to_replay": "./verif check C02 --replay <this file>"})


def search_static_mismatch(ck, mismatching, exe_model):
    """DESIGN 1.4: the real static contract of these types is not the modelled one.  Localise the
    difference on the smallest sub-annotations that still differ, and probe every negative check of
    those under the direct oracle."""
    rng = core.SplitMix64(ck.seed * 104729 + 5)
    cands, seen = [], set()
    for tsx in mismatching[:60]:
        for c in probe.candidates(probe.parse_sx(tsx)):
            k = probe.show_sx(c)
            if k not in seen:
                seen.add(k)
                cands.append(k)
    rows = parsed_and_skeletons(exe_model, cands)
    differing = sorted(((probe.size(probe.parse_sx(t)), t, src) for t, src, real, model in rows if real != model))
    ck.coverage["search_candidates"] = len(cands)
    ck.coverage["search_differing_candidates"] = len(differing)
    focus = [(t, src) for _, t, src in differing[:40]]
    for t, src in focus[:3]:
        ck.sample({"search_focus_type": src})
    run_probes(ck, focus, exe_model, "search", None, rng)


# ----------------------------------------------------------------------------- behavioural tie

def gen_beh(rng):
    d = rng.choice([0, 1, 1, 2])
    c = rng.below(10)
    if c < 1:
        t = c03.gen_type(rng, d + 1)
        v = c03.gen_member(rng, t, d + 1) if rng.chance(3, 4) else c03.mutate(rng, c03.gen_member(rng, t, d + 1))
        return ("data", t, v)
    a = c03.gen_type(rng, d)
    b = c03.gen_type(rng, d)
    if rng.chance(1, 4):
        b = a
    arg = c03.gen_member(rng, a, d)
    res = c03.gen_member(rng, b, d)
    which = rng.below(10)
    if c < 6:
        if which < 4:
            arg = c03.mutate(rng, arg)
        elif which < 6:
            res = c03.mutate(rng, res)
        ann = "ty" if rng.chance(2, 3) else "ctr"
        return ("fun1", ann, a, b, arg, res)
    cty = c03.gen_type(rng, min(d, 1))
    c0 = c03.gen_member(rng, cty, 1)
    if which < 4:
        res = c03.mutate(rng, res)          # the callback's result violates B
    elif which < 5:
        arg = c03.mutate(rng, arg)          # typed code hands the callback a non-A (positive blame)
    elif which < 6:
        c0 = c03.mutate(rng, c0)
    cbkind = "data" if rng.chance(1, 8) else "fun"
    return ("fun2", a, b, cty, arg, res, c0, cbkind)


def beh_line(case):
    k = case[0]
    if k == "data":
        return "\t".join(["data", c03.sx_t(case[1]), c03.sx_v(case[2])])
    if k == "fun1":
        return "\t".join(["fun1", case[1], c03.sx_t(case[2]), c03.sx_t(case[3]), c03.sx_v(case[4]), c03.sx_v(case[5])])
    return "\t".join(["fun2", c03.sx_t(case[1]), c03.sx_t(case[2]), c03.sx_t(case[3]), c03.sx_v(case[4]), c03.sx_v(case[5]),
                      c03.sx_v(case[6]), case[7]])


def esc(prog):
    return prog.replace("\\", "\\\\").replace("\n", "\\n")


def expected_class(case):
    """Direct oracle for the first sentence, independent of the Coq model: which side must be
    blamed (None = no blame expected)."""
    k = case[0]
    if k == "data":
        return None if c03.py_member(case[1], case[2]) else "Blame+"
    if k == "fun1":
        _, ann, a, b, arg, res = case
        if not c03.py_member(a, arg):
            return "Blame-"
        return None if c03.py_member(b, res) else "Blame+"
    _, a, b, cty, a0, r, c0, cbkind = case
    if cbkind == "data":
        return "Blame-"
    if not c03.py_member(a, a0):
        return "Blame+"
    if not c03.py_member(b, r):
        return "Blame-"
    return None if c03.py_member(cty, c0) else "Blame+"


def in_domain(case):
    k = case[0]
    ts = {"data": case[1:2], "fun1": case[2:4], "fun2": case[1:4]}[k]
    return all(c03.in_theorem_domain(t) for t in ts)


def run_behaviour(ck, cases, exe_model, label):
    lines = [beh_line(c) for c in cases]
    rc, mout, err = core.run_sharded(exe_model, ["beh"], lines)
    if rc:
        ck.obligation("model-run:beh:" + label, "internal", False, "rc=%s %s" % (rc, err))
        return
    progs = []
    for m in mout:
        f = m.split("\t")
        p = f[2] if len(f) == 3 else "null"
        progs.append("full\t" + esc(p))
        progs.append("full,static-full\t" + esc(p))
    rc, iout, err = c03.run_chunked(core.harness_bin("nkeval"), [], progs)
    if rc:
        ck.obligation("impl-run:nkeval:" + label, "internal", False, "rc=%s %s" % (rc, err))
        return
    shown = 0
    for i, (case, m) in enumerate(zip(cases, mout)):
        f = m.split("\t")
        if len(f) != 3:
            ck.obligation("model-output:beh", "internal", False, "%s -> %r" % (lines[i], m[:300]))
            continue
        pred_d, pred_f, prog = f
        got_d, got_f = iout[2 * i], iout[2 * i + 1]
        kind = case[0] + (":" + case[1] if case[0] == "fun1" else "") + (":" + case[7] if case[0] == "fun2" else "")
        ck.case(key="beh:" + lines[i], nontrivial=True)
        ck.hist("behaviour_kind", kind)
        ck.hist("behaviour_outcome_default", got_d.split(" ")[1] if got_d.startswith("ERR") else "OK")
        replay = {"case": lines[i], "program": prog, "default": got_d, "static_full": got_f,
                  "model_default": pred_d, "model_static_full": pred_f,
                  "how_to_replay": "./verif check C02 --replay <this file>"}
        if got_d.startswith("ERR Typecheck") or got_d.startswith("ERR Parse"):
            ck.obligation("generator:ill-typed-program", "internal", False, "%s -> %s" % (prog[:300], got_d))
            continue
        violated = False
        # direct oracle 1: the static contract behaves like the full contract on this well-typed program
        if got_d != got_f:
            ck.violation("static-differs-from-full:" + kind,
                         "`%s`: default %s, with full contracts for static annotations %s" % (prog[:220], got_d[:80], got_f[:80]), replay)
            violated = True
        # direct oracle 2: a violation of the annotated type by the untyped side is blamed on it
        if in_domain(case):
            exp = expected_class(case)
            cls = got_d[4:] if got_d.startswith("ERR ") else None
            if exp == "Blame-" and cls != "Blame-":
                ck.violation("untyped-violation-not-blamed-negatively:" + kind,
                             "`%s` gives %s, the untyped side violates the annotation" % (prog[:220], got_d[:80]), replay)
                violated = True
            elif exp is None and cls is not None:
                ck.violation("spurious-error-on-respecting-use:" + kind,
                             "`%s` gives %s although every value respects the annotation" % (prog[:220], got_d[:80]), replay)
                violated = True
            elif exp == "Blame+" and cls is None:
                ck.violation("annotation-not-enforced-on-typed-side:" + kind,
                             "`%s` succeeds although a value crossing a contract/annotation is not in its type" % prog[:220], replay)
                violated = True
            elif exp == "Blame+" and cls == "Blame-":
                ck.violation("wrong-blame-polarity:" + kind,
                             "`%s` blames the untyped side although the typed side is at fault" % prog[:220], replay)
                violated = True
        if "OutOfFragment" in pred_d or "OutOfFragment" in pred_f:
            ck.hist("behaviour_kind", "model-out-of-fragment")
            continue
        if not violated and (got_d != pred_d or got_f != pred_f):
            ck.obligation("correspondence:boundary-model-vs-interpreter", "correspondence", False,
                          "program %s\nimpl  default %s | static-full %s\nmodel default %s | static-full %s" % (
                              prog[:400], got_d[:200], got_f[:200], pred_d[:200], pred_f[:200]))
        if shown < 3 and got_d.startswith("ERR Blame"):
            ck.sample({"program": prog[:300], "default": got_d, "static_full": got_f, "model": pred_d})
            shown += 1


def corpus_programs():
    p = os.path.join(core.ROOT, "corpus", "C02")
    res = []
    if os.path.isdir(p):
        for f in sorted(os.listdir(p)):
            if not f.endswith(".case"):
                continue
            for l in open(os.path.join(p, f)):
                l = l.rstrip("\n")
                if l.strip() and not l.startswith("#"):
                    exp, prog = l.split("\t", 1)
                    res.append((exp, prog))
    return res


def run_corpus(ck, progs):
    """Hand-written well-typed programs (polymorphic and higher-order ones the model does not
    predict): expected outcome + default == static-full."""
    lines = []
    for _, p in progs:
        lines.append("full\t" + esc(p))
        lines.append("full,static-full\t" + esc(p))
    rc, out, err = core.run_sharded(core.harness_bin("nkeval"), [], lines)
    if rc:
        ck.obligation("impl-run:corpus", "internal", False, "rc=%s %s" % (rc, err))
        return
    for i, (exp, p) in enumerate(progs):
        d, f = out[2 * i], out[2 * i + 1]
        ck.case(key="corpus:" + p, nontrivial=True)
        ck.hist("behaviour_kind", "corpus")
        key = re.sub(r"[^a-zA-Z0-9]+", "-", p)[:60]
        replay = {"program": p, "default": d, "static_full": f, "expected": exp}
        if d != f:
            ck.violation("static-differs-from-full:corpus:" + key, "`%s`: default %s, static-full %s" % (p[:220], d[:80], f[:80]), replay)
        elif exp != "*" and d != exp:
            ck.violation("corpus-expectation:" + key, "`%s` gives %s, expected %s" % (p[:220], d[:80], exp), replay)


def run_alias(ck, thorough, rng):
    """Type aliases inside annotations (checks/c02_alias.py): every program in its alias form and
    with the alias inlined, default and static-full; oracles: tabulated expectation, alias ==
    inlined, default == static-full."""
    fam = [("mono", x) for x in c02_alias.family_a()] + [("poly", x) for x in c02_alias.family_b()] \
        + [("cross", x) for x in c02_alias.family_cross()]
    if not thorough:
        # quick: all of the polymorphic family, a seeded third of the (regular) monomorphic one
        fam = [x for x in fam if x[0] != "mono" or rng.chance(1, 3)]
    lines = []
    for _, (key, pa, pi, exp) in fam:
        for p in (pa, pi):
            lines.append("full\t" + esc(p))
            lines.append("full,static-full\t" + esc(p))
    rc, out, err = c03.run_chunked(core.harness_bin("nkeval"), [], lines)
    if rc:
        ck.obligation("impl-run:alias", "internal", False, "rc=%s %s" % (rc, err))
        return
    for i, (famname, (key, pa, pi, exp)) in enumerate(fam):
        a, af, n, nf = out[4 * i:4 * i + 4]
        ck.case(key="alias:" + key, nontrivial=True)
        ck.hist("alias_programs", famname + ":" + key.split("/")[-1].rstrip("0123456789"))
        cls = key.split("/")[0] + "/" + key.split("/")[1]
        replay = {"program": pa, "inlined": pi, "expected": exp, "alias_default": a, "alias_static_full": af,
                  "inlined_default": n, "inlined_static_full": nf}
        if famname == "cross":
            # scenarios whose expected blame needs the seal of one contract to be closed to the
            # unseal of another: limitation recorded as C11 key=cross-contract-key
            bad = [x for x in (a, af, n, nf) if x != exp]
            if bad and all(x.startswith("OK ") for x in bad):
                ck.hist("alias_programs", "known-limitation:C11-cross-contract-key")
                continue
        if "Typecheck" in a or "Parse" in a or "Typecheck" in n:
            ck.obligation("generator:ill-typed-alias-program", "internal", False, "%s -> %s / %s" % (pa[:300], a, n))
            continue
        if a != af or n != nf:
            ck.violation("static-differs-from-full:alias:" + cls,
                         "`%s`: default %s, static-full %s (alias inlined: %s / %s)" % (pa[:200], a[:40], af[:40], n[:40], nf[:40]), replay)
        elif a != exp and n == exp:
            if exp == "ERR Blame-" and a == "ERR Blame+":
                # one class, one key: the typed side is blamed for a violation by the untyped side
                # as soon as the type is written through an alias
                ck.violation("alias-blames-typed-side",
                             "`%s` gives %s: the typed side is blamed for a misuse by the untyped side; with the alias inlined: %s" % (pa[:230], a, n), replay)
            else:
                ck.violation("alias-differs-from-inlined:" + cls,
                             "`%s` gives %s, with the alias inlined %s (expected)" % (pa[:220], a[:60], n[:60]), replay)
        elif a != exp:
            ck.violation("alias-program-expectation:" + cls,
                         "`%s` gives %s, expected %s (alias inlined: %s)" % (pa[:220], a[:60], exp, n[:60]), replay)
        elif n != exp:
            ck.violation("inlined-alias-program-expectation:" + cls,
                         "`%s` gives %s, expected %s" % (pi[:220], n[:60], exp), replay)
    ck.coverage["alias_programs"] = len(fam)


def run(ck):
    ck.coq("Props.C02", clean=False)
    ok = ck.harness(["nkeval", "c02"])
    exe_model = ck.model("C02.v")
    if not ok or not exe_model:
        return
    thorough = ck.tier == "thorough"
    rng = core.SplitMix64(ck.seed * 1000003 + 2)
    run_corpus(ck, corpus_programs())
    run_alias(ck, thorough, rng)
    # syntactic tie
    nt = 100000 if thorough else 3000
    types = []
    seen = set()
    while len(types) < nt:
        if rng.chance(1, 5):
            t = gen_rowpoly(rng.fork())
        else:
            t = gen_ty(rng.fork(), rng.choice([2, 3, 3, 4, 4, 5, 5, 5]), {})
        if t in seen and rng.chance(9, 10):
            continue
        seen.add(t)
        types.append(t)
    mismatching, parsed_types = run_skeletons(ck, types, exe_model, "generated")
    ck.coverage["generated_types"] = nt
    if mismatching:
        search_static_mismatch(ck, mismatching, exe_model)
    # routine probes (also keeps the search machinery exercised): for a selection of the generated
    # types, programs in which the untyped side fails ONE negative check of the annotation
    sel = [x for x in parsed_types if "(fun" in x[0]]
    sel = rng.shuffle(sel)[:(6000 if thorough else 250)]
    run_probes(ck, sel, exe_model, "generated", 3, rng)
    # behavioural tie
    nb = 20000 if thorough else 500
    cases = [gen_beh(rng.fork()) for _ in range(nb)]
    run_behaviour(ck, cases, exe_model, "generated")
    ck.coverage["boundary_programs"] = nb
    ck.coverage["rule"] = ("syntactic case = a closed type generated from all constructors (ground, Dyn, Array, arrows at every polarity, record rows with closed/Dyn/variable tails, both dictionaries, enum rows with optional tail variable, forall of the three kinds incl. same-name and cross-kind shadowing, an opaque contract), depth <= 5, printed to source, parsed by the real parser; compared: skeleton of Type::contract and of Type::contract_static vs model. "
                           "alias programs = tables in checks/c02_alias.py: monomorphic higher-order aliases (function, record/array/dictionary of functions) x wrappers (Array, Array Array, both dictionaries, record, bare) x typed implementations returning an argument x {conforming, bad argument to a returned element, bad result of a supplied element}; polymorphic aliases (Id, Konst, App, RowId) x contexts (rank-2 helper/result, enum-row forall callback/result, elided forall, plain argument/result) x {conforming, non-parametric untyped counterparts}; `:` and `|`; each also with the alias inlined; "
                           "probe = for a generated type T and one of its negative checks (value path + kind, from the model), `let v : T = <typed implementation synthesised from T> in <untyped context>` in which the two sides walk the path and the untyped side finally hands over a value failing exactly that check (checks/c02_probe.py); valid when the static-full run blames negatively, then the default run must too; when the skeleton of a real static contract differs from the model the same probes are run for every negative check of the smallest differing sub-annotations (search); "
                           "behavioural case = `let f : A -> B = fun x => std.deep_seq (x | Dyn) (res | B) in f arg`, the same with `|`, `let f : (A -> B) -> C = fun cb => std.deep_seq (cb (a0 | A)) (c0 | C) in f <callback | data>`, `let x : T = (v | T) in x` with first-order A, B, C generated as in C03 and arg/res/a0/c0 members or members mutated at one position (subvalue kind, field dropped/added/renamed, tag/arity); each run in default and static-full mode; plus the hand-written polymorphic corpus; non-trivial = has an arrow or a forall")
    ck.coverage["partial"] = "simplify_equiv is proved for first-order data and first-order arrows only; higher-order/polymorphic: simplify_keeps_negative + direct oracle (default vs static-full)"
    ck.trusted += ["extraction: ExtrOcamlBasic + ExtrOcamlNativeString", "hook H2 (full contracts for static annotations) via nkeval flag static-full",
                   "harness bin c02 (skeleton printer over the generated NickelValue)", "harness bin nkeval", "generators in checks/c02.py and checks/c03.py"]
    ck.assumptions += ["generated implementations force their argument (std.deep_seq): the model's functions are strict",
                       "the typechecker accepts the generated programs (checked: a Typecheck outcome is reported as a generator fault)"]


def replay(ck, path):
    obj = json.load(open(path))
    ok = ck.harness(["nkeval", "c02"])
    exe_model = ck.model("C02.v")
    if not ok or not exe_model:
        return
    if "case" in obj and isinstance(obj["case"], str):
        # behavioural case line
        f = obj["case"].split("\t")
        rc, mout, err = core.run_lines(exe_model, ["beh"], [obj["case"]])
        prog = mout[0].split("\t")[2] if mout and mout[0].count("\t") == 2 else obj.get("program", "null")
        run_corpus(ck, [("*", prog)])
    elif "program" in obj:
        run_corpus(ck, [(obj.get("expected", "*"), obj["program"])])
