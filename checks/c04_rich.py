"""C04 rich stream: a model-free direct oracle on the implementation.

A contract is drawn from a grammar that has a python DENOTATION (`fails(C, v)`: the list of individual checks of C
that the JSON-like value v violates).  The same contract is written in many syntactic PRESENTATIONS (inline, let
alias, alias of alias, field alias, function application, constructor over an alias, projection from a record of
contracts, type annotation, shadowed name ...), attached to a field in many CONTEXTS (merge in every position, chains,
record-contract application, nested, piecewise, default + override, value split over two operands, two contracts on
the same field), and the whole record is exported.  Reference: the export succeeds with exactly the value iff the
value violates no check of any attached contract; otherwise it fails with the error class of one of the violated
checks (see CLASS below).  Every program is also run with deduplication disabled and with the operands reversed: the
outcome must be the same.  Nothing here depends on the Coq model.
"""
import json
from vlib import core
from checks import mergelib as m

# ----------------------------------------------------------------------------------------------------------- values
# python values: int (never bool) | str | bool | list | dict(str -> value) | Tag(name)


class Tag(object):
    """an enum tag 'name"""
    __slots__ = ("name",)

    def __init__(self, name):
        self.name = name

    def __eq__(self, o):
        return isinstance(o, Tag) and o.name == self.name

    def __hash__(self):
        return hash(("tag", self.name))

    def __repr__(self):
        return "'" + self.name


def is_num(v):
    return isinstance(v, int) and not isinstance(v, bool)


def nickel_V(v):
    if isinstance(v, Tag):
        return "'" + v.name
    if isinstance(v, bool):
        return "true" if v else "false"
    if is_num(v):
        return str(v) if v >= 0 else "(%d)" % v
    if isinstance(v, str):
        return json.dumps(v)
    if isinstance(v, list):
        return "[%s]" % ", ".join(nickel_V(x) for x in v)
    if isinstance(v, dict):
        return "{%s}" % ", ".join("%s = %s" % (k, nickel_V(v[k])) for k in v)
    raise ValueError(v)


def canon_V(v):
    """the canonical tree nkeval prints for an exported value"""
    if isinstance(v, Tag):
        return "'" + json.dumps(v.name)
    if isinstance(v, bool):
        return "true" if v else "false"
    if is_num(v):
        return "#%d" % v
    if isinstance(v, str):
        return json.dumps(v)
    if isinstance(v, list):
        return "[%s]" % ",".join(canon_V(x) for x in v)
    if isinstance(v, dict):
        return "{%s}" % ",".join("%s:%s" % (json.dumps(k), canon_V(v[k])) for k in sorted(v))
    raise ValueError(v)


def jsonable(v):
    if isinstance(v, Tag):
        return {"'": v.name}
    if isinstance(v, list):
        return [jsonable(x) for x in v]
    if isinstance(v, dict):
        return {k: jsonable(x) for k, x in v.items()}
    return v


# -------------------------------------------------------------------------------------------------------- contracts
# ("num",) ("str",) ("bool",)            builtin Number / String / Bool
# ("pred", name)                         std.contract.from_predicate, see PREDS
# ("enum", (tag, ...))                   [| 'a, 'b |]
# ("arr", C)                             Array C
# ("dc", C)   ("dt", C)                  {_ | C}     {_ : C}
# ("rec", open, ((f, optional, (C, ...)), ...))      record contract {f | C | C' | optional, .., [..]}
# ("rt", ((f, C), ...))                  record type {f : C, g : C'} (closed, every field required)
# ("seq", "Sequence"|"all_of", (C, ...)) std.contract.Sequence [..] / std.contract.all_of [..]
# ("any", (C, ...))                      std.contract.any_of [..]; every branch but the last is an immediate contract
#                                        (builtin, predicate, enum), so "first branch whose immediate part accepts" is exact

PREDS = {
    "Pos": ("std.is_number v && v > 0", lambda v: is_num(v) and v > 0),
    "Even": ("std.is_number v && v % 2 == 0", lambda v: is_num(v) and v % 2 == 0),
    "Lt10": ("std.is_number v && v < 10", lambda v: is_num(v) and v < 10),
    "Ne3": ("v != 3", lambda v: not (is_num(v) and v == 3)),
    "NonEmpty": ('std.is_string v && v != ""', lambda v: isinstance(v, str) and v != ""),
    "Short": ("std.is_string v && std.string.length v <= 3", lambda v: isinstance(v, str) and len(v) <= 3),
}
PRED_ORDER = ["Pos", "Even", "Lt10", "Ne3", "NonEmpty", "Short"]
NUM_PREDS = ["Pos", "Even", "Lt10", "Ne3"]
STR_PREDS = ["NonEmpty", "Short"]
PRELUDE = "".join("let %s = std.contract.from_predicate (fun v => %s) in\n" % (n, PREDS[n][0]) for n in PRED_ORDER)
LEAF_POOL = [0, 1, 2, 3, 4, 7, 12, -3, "", "a", "abc", "hello", True, False, Tag("a"), Tag("b"), Tag("c"), Tag("zz")]
TAGS = ["a", "b", "c"]
FIELDS = ["f", "g", "h"]
DKEYS = ["a", "b", "c"]

# error class of a violated check (what nkeval prints after ERR).  Every check is an immediate or delayed blame on the
# value (positive polarity), except a field required by a record CONTRACT and absent from the value: the contract is
# merged into the value, the field stays without definition and the export reports a missing definition.  (A field
# missing for a record TYPE {f : T} is an immediate blame.)
BLAME, MISSING = "Blame+", "MissingDef"

IMMEDIATE = ("num", "str", "bool", "pred", "enum")


def is_atom_src(C):
    return C[0] in ("num", "str", "bool", "pred", "enum", "dc", "dt", "rec", "rt")


def src(C, sub=None, path=()):
    """Nickel source of a contract.  sub: {path: name} replaces the sub-contract at `path` by a variable."""
    if sub and path in sub:
        return sub[path]
    k = C[0]
    if k == "num":
        return "Number"
    if k == "str":
        return "String"
    if k == "bool":
        return "Bool"
    if k == "pred":
        return C[1]
    if k == "enum":
        return "[| %s |]" % ", ".join("'" + t for t in C[1])
    if k == "arr":
        return "Array " + src_atom(C[1], sub, path + (0,))
    if k == "dc":
        return "{_ | %s}" % src(C[1], sub, path + (0,))
    if k == "dt":
        return "{_ : %s}" % src(C[1], sub, path + (0,))
    if k == "rec":
        parts = []
        for i, (f, opt, cs) in enumerate(C[2]):
            s = f + "".join(" | " + src(c, sub, path + (i, j)) for j, c in enumerate(cs))
            if opt:
                s += " | optional"
            parts.append(s)
        if C[1]:
            parts.append("..")
        return "{%s}" % ", ".join(parts)
    if k == "rt":
        return "{%s}" % ", ".join("%s : %s" % (f, src(c, sub, path + (i,))) for i, (f, c) in enumerate(C[1]))
    if k == "seq":
        return "std.contract.%s [%s]" % (C[1], ", ".join(src_atom(c, sub, path + (i,)) for i, c in enumerate(C[2])))
    if k == "any":
        return "std.contract.any_of [%s]" % ", ".join(src_atom(c, sub, path + (i,)) for i, c in enumerate(C[1]))
    raise ValueError(C)


def src_atom(C, sub=None, path=()):
    if sub and path in sub:
        return sub[path]
    s = src(C, sub, path)
    return s if is_atom_src(C) else "(%s)" % s


def children(C):
    """[(path element, sub-contract)]"""
    k = C[0]
    if k in ("arr", "dc", "dt"):
        return [((0,), C[1])]
    if k == "rec":
        return [((i, j), c) for i, (_, _, cs) in enumerate(C[2]) for j, c in enumerate(cs)]
    if k == "rt":
        return [((i,), c) for i, (_, c) in enumerate(C[1])]
    if k == "seq":
        return [((i,), c) for i, c in enumerate(C[2])]
    if k == "any":
        return [((i,), c) for i, c in enumerate(C[1])]
    return []


def subterms(C, path=()):
    out = [(path, C)]
    for p, c in children(C):
        out += subterms(c, path + p)
    return out


def C1_at(C, path):
    """the sub-contract at `path` (paths are those of `subterms`)"""
    for q, c in subterms(C):
        if q == path:
            return c
    return ("none",)


def replace_at(C, path, new):
    if not path:
        return new
    k = C[0]
    if k in ("arr", "dc", "dt"):
        return (k, replace_at(C[1], path[1:], new))
    if k == "rec":
        i, j = path[0], path[1]
        fs = list(C[2])
        f, opt, cs = fs[i]
        cs = list(cs)
        cs[j] = replace_at(cs[j], path[2:], new)
        fs[i] = (f, opt, tuple(cs))
        return ("rec", C[1], tuple(fs))
    if k == "rt":
        fs = list(C[1])
        fs[path[0]] = (fs[path[0]][0], replace_at(fs[path[0]][1], path[1:], new))
        return ("rt", tuple(fs))
    if k == "seq":
        cs = list(C[2])
        cs[path[0]] = replace_at(cs[path[0]], path[1:], new)
        return ("seq", C[1], tuple(cs))
    if k == "any":
        cs = list(C[1])
        cs[path[0]] = replace_at(cs[path[0]], path[1:], new)
        return ("any", tuple(cs))
    raise ValueError((C, path))


def depth(C):
    ch = children(C)
    return 1 + max(depth(c) for _, c in ch) if ch else 0


def kinds_of(C):
    return sorted({c[0] for _, c in subterms(C)})


# ------------------------------------------------------------------------------------------------------- denotation

def immediate_ok(C, v):
    """the immediate part of a contract (what std.contract.check / any_of can observe)"""
    k = C[0]
    if k in IMMEDIATE:
        return not fails(C, v)
    if k == "arr":
        return isinstance(v, list)
    if k in ("dc", "dt"):
        return isinstance(v, dict)
    raise ValueError("immediate part not defined for %s" % k)


def fails(C, v, path=()):
    """list of (path, check kind, error class) of the checks of contract C violated by value v"""
    k = C[0]
    if k == "num":
        return [] if is_num(v) else [(path, "Number", BLAME)]
    if k == "str":
        return [] if isinstance(v, str) else [(path, "String", BLAME)]
    if k == "bool":
        return [] if isinstance(v, bool) else [(path, "Bool", BLAME)]
    if k == "pred":
        return [] if PREDS[C[1]][1](v) else [(path, "pred:" + C[1], BLAME)]
    if k == "enum":
        return [] if isinstance(v, Tag) and v.name in C[1] else [(path, "enum", BLAME)]
    if k == "arr":
        if not isinstance(v, list):
            return [(path, "Array:not-an-array", BLAME)]
        return [x for i, e in enumerate(v) for x in fails(C[1], e, path + (i,))]
    if k in ("dc", "dt"):
        if not isinstance(v, dict):
            return [(path, "dict:not-a-record", BLAME)]
        return [x for key in v for x in fails(C[1], v[key], path + (key,))]
    if k == "rec":
        if not isinstance(v, dict):
            return [(path, "record:not-a-record", BLAME)]
        out = []
        names = [f for f, _, _ in C[2]]
        if not C[1]:
            out += [(path + (key,), "record:extra-field", BLAME) for key in v if key not in names]
        for f, opt, cs in C[2]:
            if f in v:
                for c in cs:
                    out += fails(c, v[f], path + (f,))
            elif not opt:
                out.append((path + (f,), "record:missing-field", MISSING))
        return out
    if k == "rt":
        if not isinstance(v, dict):
            return [(path, "rectype:not-a-record", BLAME)]
        names = [f for f, _ in C[1]]
        out = [(path + (f,), "rectype:missing-field", BLAME) for f in names if f not in v]
        out += [(path + (key,), "rectype:extra-field", BLAME) for key in v if key not in names]
        for f, c in C[1]:
            if f in v:
                out += fails(c, v[f], path + (f,))
        return out
    if k == "seq":
        return [x for c in C[2] for x in fails(c, v, path)]
    if k == "any":
        for c in C[1]:
            if immediate_ok(c, v):
                return fails(c, v, path)
        return [(path, "any_of:no-branch", BLAME)]
    raise ValueError(C)


def accepts(C, v):
    return not fails(C, v)


# The implementation's known deviation from the denotation above (two findings reported against the unchanged tree, see
# QUIRK_KEYS): a record contract is MERGED into the value, so each of its optional fields that the value does not define
# stays in the value as an empty optional field (a "ghost"; a required field that the value does not define stays too,
# and the export then fails with a missing definition).  A closed record contract applied afterwards counts a ghost
# it does not list as an extra field; a record type contract applied afterwards counts a ghost as present (no "missing
# field") and then drops it; {_ : C} drops ghosts, {_ | C} and Array keep them.  `g_apply` threads a value through a
# contract in application order and predicts exactly what the implementation does, so that these two situations are
# reported under their own stable keys and every other disagreement is still a disagreement with the exact denotation.

class GD(dict):
    def __init__(self, d, ghosts=()):
        dict.__init__(self, d)
        self.ghosts = frozenset(ghosts)


def ghosts_of(v):
    return getattr(v, "ghosts", frozenset())


def g_apply(C, v, path=()):
    """-> (violated checks, value as seen by the next contract)"""
    k = C[0]
    if k in IMMEDIATE:
        return fails(C, v, path), v
    if k == "arr":
        if not isinstance(v, list):
            return [(path, "Array:not-an-array", BLAME)], v
        out, res = [], []
        for i, e in enumerate(v):
            f, e2 = g_apply(C[1], e, path + (i,))
            out += f
            res.append(e2)
        return out, res
    if k in ("dc", "dt"):
        if not isinstance(v, dict):
            return [(path, "dict:not-a-record", BLAME)], v
        out, res = [], {}
        for key in v:
            f, e2 = g_apply(C[1], v[key], path + (key,))
            out += f
            res[key] = e2
        return out, GD(res, ghosts_of(v) if k == "dc" else ())
    if k == "rec":
        if not isinstance(v, dict):
            return [(path, "record:not-a-record", BLAME)], v
        names = [f for f, _, _ in C[2]]
        if not C[1]:
            extra = [key for key in list(v) + sorted(ghosts_of(v)) if key not in names]
            if extra:
                return [(path + (key,), "record:extra-field", BLAME) for key in extra], v
        out, res, gh = [], dict(v), set(ghosts_of(v))
        for f, opt, cs in C[2]:
            if f in v:
                e = v[f]
                for c in cs:
                    fl, e = g_apply(c, e, path + (f,))
                    out += fl
                res[f] = e
            else:
                # the field of the contract stays in the value without a definition (optional or not)
                if not opt:
                    out.append((path + (f,), "record:missing-field", MISSING))
                gh.add(f)
        return out, GD(res, gh)
    if k == "rt":
        if not isinstance(v, dict):
            return [(path, "rectype:not-a-record", BLAME)], v
        names = [f for f, _ in C[1]]
        present = set(v) | ghosts_of(v)
        bad = [(path + (f,), "rectype:missing-field", BLAME) for f in names if f not in present]
        if not bad:
            bad = [(path + (key,), "rectype:extra-field", BLAME) for key in v if key not in names]
        if bad:
            return bad, v
        out, res = [], {}
        for f, c in C[1]:
            if f in v:
                fl, e = g_apply(c, v[f], path + (f,))
                out += fl
                res[f] = e
        return out, GD(res)
    if k == "seq":
        out = []
        for c in C[2]:
            fl, v = g_apply(c, v, path)
            out += fl
        return out, v
    if k == "any":
        for c in C[1]:
            if immediate_ok(c, v):
                return g_apply(c, v, path)
        return [(path, "any_of:no-branch", BLAME)], v
    raise ValueError(C)


def g_fails(Cs, V):
    """checks violated, as the implementation sees them, when the contracts are applied to V in this order"""
    out = []
    for c in Cs:
        fl, V = g_apply(c, V)
        out += fl
    return out


QUIRK_KEYS = {"accept-but-rejected": "optional-field-counted-as-extra", "reject-but-accepted": "optional-field-hides-missing-field"}


# -------------------------------------------------------------------------------------------------------- generators

def gen_leaf(r, family=None):
    if family == "num":
        return r.choice([("num",)] + [("pred", p) for p in NUM_PREDS])
    if family == "str":
        return r.choice([("str",)] + [("pred", p) for p in STR_PREDS])
    return r.weighted([(("num",), 5), (("str",), 3), (("bool",), 2), (("pred", r.choice(PRED_ORDER)), 6),
                       (("enum", tuple(sorted(r.shuffle(TAGS)[:r.range(1, 2)]))), 2)])


def gen_contract(r, d):
    """contract of nesting depth <= d"""
    if d <= 0:
        return gen_leaf(r)
    k = r.weighted([("leaf", 2), ("arr", 4), ("dc", 4), ("dt", 3), ("rec", 7), ("rt", 2), ("seq", 2), ("any", 1)])
    if k == "leaf":
        return gen_leaf(r)
    if k in ("arr", "dc", "dt"):
        return (k, gen_contract(r, d - 1))
    if k == "rec":
        fs = []
        nf = r.weighted([(0, 2), (1, 4), (2, 4), (3, 4)])          # field-less record contracts: closed {} and open {..}
        all_opt = r.chance(1, 7)                                    # record contracts with optional fields only
        for f in FIELDS[:nf]:
            n = r.weighted([(1, 6), (2, 2)])
            if n == 1:
                cs = (gen_contract(r, d - 1),)
            else:
                fam = r.choice(["num", "str"])
                cs = tuple(gen_leaf(r, fam) for _ in range(n))
            fs.append((f, all_opt or r.chance(1, 5), cs))
        return ("rec", r.chance(1, 4), tuple(fs))
    if k == "rt":
        return ("rt", tuple((f, gen_contract(r, d - 1)) for f in FIELDS[:r.range(1, 2)]))
    if k == "seq":
        name = r.choice(["Sequence", "all_of"])
        if r.chance(1, 2):
            fam = r.choice(["num", "str"])
            return ("seq", name, tuple(gen_leaf(r, fam) for _ in range(r.range(2, 3))))
        c = gen_contract(r, d - 1)
        return ("seq", name, (c, near(r, c) if r.chance(1, 2) else c))
    if k == "any":
        br = [r.choice([("num",), ("str",), ("bool",), ("pred", "Pos"), ("pred", "NonEmpty"), ("enum", ("a", "b"))]) for _ in range(r.range(1, 2))]
        last = r.choice([("arr", gen_contract(r, d - 1)), ("dc", gen_contract(r, d - 1)), ("dt", gen_contract(r, d - 1)), gen_leaf(r)])
        return ("any", tuple(br) + (last,))
    raise ValueError(k)


def member(r, C, tries=12):
    """a value accepted by C, or None"""
    k = C[0]
    if k in IMMEDIATE:
        ok = [v for v in LEAF_POOL if accepts(C, v)]
        return r.choice(ok) if ok else None
    if k == "arr":
        out = []
        for _ in range(r.weighted([(0, 1), (1, 5), (2, 4), (3, 1)])):
            e = member(r, C[1])
            if e is None:
                return None if not out else out
            out.append(e)
        return out
    if k in ("dc", "dt"):
        out = {}
        for key in DKEYS[:r.weighted([(0, 1), (1, 5), (2, 4), (3, 1)])]:
            e = member(r, C[1])
            if e is None:
                break
            out[key] = e
        return out
    if k == "rec":
        out = {}
        for f, opt, cs in C[2]:
            if opt and r.chance(1, 2):
                continue
            e = member_all(r, cs)
            if e is None:
                if opt:
                    continue
                return None
            out[f] = e
        if C[1] and r.chance(1, 2):
            out["w"] = r.choice([5, "w", [1]])
        return out
    if k == "rt":
        out = {}
        for f, c in C[1]:
            e = member(r, c)
            if e is None:
                return None
            out[f] = e
        return out
    if k == "seq":
        return member_all(r, C[2])
    if k == "any":
        for _ in range(tries):
            v = member(r, r.choice(C[1]))
            if v is not None and accepts(C, v):
                return v
        return None
    raise ValueError(C)


def member_all(r, cs, tries=12):
    """a value accepted by every contract of the list"""
    if all(c[0] in IMMEDIATE for c in cs):
        ok = [v for v in LEAF_POOL if all(accepts(c, v) for c in cs)]
        return r.choice(ok) if ok else None
    for _ in range(tries):
        v = member(r, r.choice(cs))
        if v is not None and all(accepts(c, v) for c in cs):
            return v
    return None


WRONG_SHAPES = [5, "s", True, [1], {"a": 1}, Tag("a")]


def mutants(C, v):
    """values that differ from v at one position, chosen to attack each individual check of C at every level"""
    k = C[0]
    out = []
    if k in IMMEDIATE:
        return [x for x in LEAF_POOL if not accepts(C, x)]
    if k == "arr":
        out += [x for x in WRONG_SHAPES if not isinstance(x, list)]
        if isinstance(v, list):
            for i, e in enumerate(v):
                out += [v[:i] + [x] + v[i + 1:] for x in mutants(C[1], e)]
            # a new failing element
            out += [v + [x] for x in mutants(C[1], None)[:2]]
        return out
    if k in ("dc", "dt"):
        out += [x for x in WRONG_SHAPES if not isinstance(x, dict)]
        if isinstance(v, dict):
            for key in v:
                out += [dict(v, **{key: x}) for x in mutants(C[1], v[key])]
            out += [dict(v, n=x) for x in mutants(C[1], None)[:2]]
        return out
    if k == "rec":
        out += [x for x in WRONG_SHAPES if not isinstance(x, dict)]
        if isinstance(v, dict):
            for f, opt, cs in C[2]:
                if f in v:
                    for c in cs:
                        out += [dict(v, **{f: x}) for x in mutants(c, v[f])]
                    out.append({q: v[q] for q in v if q != f})           # drop the field (missing unless optional)
                else:
                    for c in cs:
                        out += [dict(v, **{f: x}) for x in mutants(c, None)[:2]]   # define an absent optional field badly
            out.append(dict(v, e=0))                                      # an extra field (rejected unless open)
        return out
    if k == "rt":
        out += [x for x in WRONG_SHAPES if not isinstance(x, dict)]
        if isinstance(v, dict):
            for f, c in C[1]:
                if f in v:
                    out += [dict(v, **{f: x}) for x in mutants(c, v[f])]
                    out.append({q: v[q] for q in v if q != f})
            out.append(dict(v, e=0))
        return out
    if k == "seq":
        for c in C[2]:
            out += mutants(c, v)
        return out
    if k == "any":
        for c in C[1]:
            out += mutants(c, v)
        return out
    raise ValueError(C)


def near(r, C):
    """a contract that differs from C in ONE check (or, for {_ | C} / {_ : C}, only in its presentation)"""
    subs = subterms(C)
    for _ in range(8):
        path, c = r.choice(subs)
        k = c[0]
        new = None
        if k in ("num", "pred") and (k == "num" or c[1] in NUM_PREDS):
            new = r.choice([x for x in [("num",)] + [("pred", p) for p in NUM_PREDS] if x != c])
        elif k in ("str", "pred"):
            new = r.choice([x for x in [("str",)] + [("pred", p) for p in STR_PREDS] if x != c])
        elif k == "bool":
            new = ("num",)
        elif k == "enum":
            rest = [t for t in TAGS if t not in c[1]]
            if rest and (len(c[1]) == 1 or r.chance(1, 2)):
                new = ("enum", tuple(sorted(c[1] + (r.choice(rest),))))
            elif len(c[1]) > 1:
                new = ("enum", c[1][1:])
        elif k == "dc":
            new = ("dt", c[1])
        elif k == "dt":
            new = ("dc", c[1])
        elif k == "arr":
            new = ("arr", ("seq", "Sequence", (c[1], gen_leaf(r)))) if c[1][0] in IMMEDIATE and r.chance(1, 2) else None
        elif k == "rec" and not c[2]:
            new = ("rec", not c[1], ()) if r.chance(1, 2) else ("rec", c[1], (("f", r.chance(1, 2), (gen_leaf(r),)),))
        elif k == "rec":
            fs = list(c[2])
            ch = r.below(6)
            i = r.below(len(fs))
            f, opt, cs = fs[i]
            if ch == 5:
                new = ("rec", c[1], tuple(fs[:i] + fs[i + 1:]))          # one field less (possibly none left)
            elif ch == 0:
                new = ("rec", not c[1], c[2])
            elif ch == 1:
                fs[i] = (f, not opt, cs)
                new = ("rec", c[1], tuple(fs))
            elif ch == 2:
                fs[i] = (f, opt, cs + (gen_leaf(r),))
                new = ("rec", c[1], tuple(fs))
            elif ch == 3 and len(cs) > 1:
                fs[i] = (f, opt, cs[:-1])
                new = ("rec", c[1], tuple(fs))
            elif ch == 4:
                free = [q for q in FIELDS + ["k"] if q not in [x[0] for x in fs]]
                if free:
                    new = ("rec", c[1], tuple(fs + [(free[0], r.chance(1, 2), (gen_leaf(r),))]))
        elif k == "rt":
            fs = list(c[1])
            if len(fs) > 1 and r.chance(1, 2):
                new = ("rt", tuple(fs[:-1]))
            else:
                free = [q for q in FIELDS + ["k"] if q not in [x[0] for x in fs]]
                new = ("rt", tuple(fs + [(free[0], gen_leaf(r))]))
        elif k == "seq":
            new = ("seq", c[1], c[2] + (gen_leaf(r),)) if r.chance(1, 2) or len(c[2]) < 2 else ("seq", c[1], c[2][:-1])
        if new is not None and new != c:
            return replace_at(C, path, new)
    return C


# ---------------------------------------------------------------------------------------------------- presentations
# a presentation of contract C with unique number n is a dict
#   lets:   [(name, expr)]   outer let bindings (emitted once, in order, before the whole program)
#   inner:  [(name, expr)]   let bindings wrapped around the operand that carries the annotation
#   hidden: str              extra (not exported) field definitions of the record that carries the annotation
#   ann:    str              the annotation expression
#   colon:  bool             attach with `x : ann` (a type annotation, turned into a contract) instead of `x | ann`
#   solo:   bool             the record that carries the annotation gets extra (hidden) fields

PRESENTATIONS = ["inline", "let", "alias2", "field", "field2", "app_id", "app_ctor", "letfun", "letfun_alias", "ctor_over_alias",
                 "alias_of_ctor_over_alias", "sub_alias", "lib", "lib_nested", "lib_field", "colon", "colon_let", "shadow", "let_in_ann", "param", "param_operand"]


def ctor_of(C):
    """(format with one hole, inner contract) if C is a one-argument constructor"""
    if C[0] == "arr":
        return "Array %s", C[1], True
    if C[0] == "dc":
        return "{_ | %s}", C[1], False
    if C[0] == "dt":
        return "{_ : %s}", C[1], False
    return None


def present(r, kind, C, n, shared=None):
    """shared = (function number, path): kinds param / param_operand use the parametrized contract number `shared[0]`, abstracted
    at path shared[1], which another presentation has already bound"""
    K, L, P = "K%d" % n, "L%d" % n, "P%d" % n
    p = {"kind": kind, "lets": [], "inner": [], "hidden": "", "ann": None, "colon": False, "opnd": None}
    s = src(C)
    ct = ctor_of(C)
    if kind in ("app_ctor", "letfun", "letfun_alias", "ctor_over_alias", "alias_of_ctor_over_alias") and not ct:
        # not a constructor: the closest general form
        kind = {"app_ctor": "app_id", "letfun": "app_id", "letfun_alias": "let", "ctor_over_alias": "sub_alias",
                "alias_of_ctor_over_alias": "sub_alias"}[kind]
    if kind == "sub_alias" and not children(C):
        kind = "let"
    p["as"] = kind
    if kind == "inline":
        p["ann"] = s
    elif kind == "let":
        p["lets"] = [(K, s)]
        p["ann"] = K
    elif kind == "alias2":
        p["lets"] = [(K, s), (L, K)]
        p["ann"] = L
    elif kind == "field":
        p["hidden"] = "%s | not_exported = %s, " % (K, s)
        p["ann"] = K
    elif kind == "field2":
        # field alias of a field alias
        p["hidden"] = "%s | not_exported = %s, %s | not_exported = %s, " % (K, s, L, K)
        p["ann"] = L
    elif kind == "app_id":
        p["ann"] = "(fun E => E) %s" % src_atom(C)
    elif kind == "app_ctor":
        fmt, inner, atom = ct
        p["ann"] = "(fun E => %s) %s" % (fmt % "E", src_atom(inner))
    elif kind == "letfun":
        fmt, inner, atom = ct
        p["lets"] = [("Mk%d" % n, "fun E => %s" % (fmt % "E"))]
        p["ann"] = "Mk%d %s" % (n, src_atom(inner))
    elif kind == "letfun_alias":
        fmt, inner, atom = ct
        p["lets"] = [("Mk%d" % n, "fun E => %s" % (fmt % "E")), (K, "Mk%d %s" % (n, src_atom(inner)))]
        p["ann"] = K
    elif kind == "ctor_over_alias":
        fmt, inner, atom = ct
        p["lets"] = [(P, src(inner))]
        p["ann"] = fmt % P
    elif kind == "alias_of_ctor_over_alias":
        fmt, inner, atom = ct
        p["lets"] = [(P, src(inner)), (K, fmt % P)]
        p["ann"] = K
    elif kind == "sub_alias":
        # some strict sub-contract is bound to a name, the rest is written inline or bound to a second name
        path, c = r.choice(subterms(C)[1:])
        p["lets"] = [(P, src(c))]
        body = src(C, {path: P})
        if r.chance(1, 2):
            p["lets"].append((K, body))
            p["ann"] = K
        else:
            p["ann"] = body
    elif kind == "lib":
        p["lets"] = [("lib%d" % n, "{S = %s, Other = Number}" % s)]
        p["ann"] = "lib%d.S" % n
    elif kind == "lib_nested":
        p["lets"] = [("lib%d" % n, "{sub = {S = %s}, Other = String}" % s)]
        p["ann"] = "lib%d.sub.S" % n
    elif kind == "lib_field":
        # the library is a hidden field of the record itself
        p["hidden"] = "lib%d | not_exported = {S = %s}, " % (n, s)
        p["ann"] = "lib%d.S" % n
    elif kind == "colon":
        p["ann"] = s
        p["colon"] = True
    elif kind == "colon_let":
        p["lets"] = [(K, s)]
        p["ann"] = K
        p["colon"] = True
    elif kind == "shadow":
        # an outer binding of the same name denotes a different contract
        p["lets"] = [(K, src(near(r, C)) if r.chance(1, 2) else "String")]
        p["inner"] = [(K, s)]
        p["ann"] = K
    elif kind == "let_in_ann":
        p["ann"] = "(let %s = %s in %s)" % (K, s, K)
    elif kind in ("param", "param_operand"):
        # a parametrized contract: a sub-contract is abstracted as the parameter of a let-bound function, which returns the
        # contract (param) or the whole operand record (param_operand)
        if shared:
            fn, path = shared
        else:
            fn, (path, _) = n, r.choice(subterms(C))
            body = src(C, {path: "E"})
            p["lets"] = [("Mk%d" % fn, "fun E => %s" % body), ("MkR%d" % fn, "fun E => {x | %s}" % body)]
        arg = src_atom([c for q, c in subterms(C) if q == path][0])
        p["ann"] = "Mk%d %s" % (fn, arg)
        p["path"] = path
        if kind == "param_operand":
            p["opnd"] = "(MkR%d %s)" % (fn, arg)
    else:
        raise ValueError(kind)
    # outer names that denote a contract (they can be evaluated / used before the contract is attached)
    named = {"let": [(K, C)], "alias2": [(K, C), (L, C)], "letfun_alias": [(K, C)], "colon_let": [(K, C)],
             "lib": [("lib%d.S" % n, C)], "lib_nested": [("lib%d.sub.S" % n, C)]}.get(kind, [])
    if kind in ("ctor_over_alias", "alias_of_ctor_over_alias"):
        named = [(P, ct[1])] + ([(K, C)] if kind == "alias_of_ctor_over_alias" else [])
    if kind == "sub_alias":
        named = [(P, c)] + ([(K, C)] if p["ann"] == K else [])
    p["named"] = named
    return p


SAME_TEXT_STYLES = ["factory_let", "let_blocks", "shadowed"]


def present_same_text(style, C1, C2, path, n, wrap):
    """two contracts with the SAME source text, in which one identifier (the sub-contract at `path`) is bound differently: two
    let-bound instances of a contract factory, two let-blocks each with its local alias, or an alias re-bound between the two
    definitions.  wrap: None or a one-argument constructor applied to the two names in the annotations (Array A / Array B)"""
    A, B, E, F = "A%d" % n, "B%d" % n, "Elem%d" % n, "F%d" % n
    text = src(C1, {path: E})
    s1 = src([c for q, c in subterms(C1) if q == path][0])
    s2 = src([c for q, c in subterms(C2) if q == path][0])
    if style == "factory_let":
        lets = [(F, "fun %s => %s" % (E, text)), (A, "%s (%s)" % (F, s1)), (B, "%s (%s)" % (F, s2))]
    elif style == "let_blocks":
        lets = [(A, "(let %s = %s in %s)" % (E, s1, text)), (B, "(let %s = %s in %s)" % (E, s2, text))]
    elif style == "shadowed":
        lets = [(E, s1), (A, text), (E, s2), (B, text)]
    else:
        raise ValueError(style)
    fmt = {None: "%s", "arr": "Array %s", "dc": "{_ | %s}", "dt": "{_ : %s}"}[wrap]
    base = {"kind": "same_text", "as": "same_text:" + style, "inner": [], "hidden": "", "colon": False, "opnd": None}
    return [dict(base, lets=lets, ann=fmt % A, named=[(A, C1), (B, C2)]), dict(base, lets=[], ann=fmt % B, named=[])]


def field_decl(p, name="x", extra=""):
    """`x | ann` with its hidden companions"""
    return "%s%s %s %s%s" % (p["hidden"], name, ":" if p["colon"] else "|", p["ann"], extra)


def wrap_inner(p, rec):
    for (nm, e) in reversed(p["inner"]):
        rec = "(let %s = %s in %s)" % (nm, e, rec)
    return rec


def operand(p, name="x", extra=""):
    if p["opnd"] and name == "x" and not extra:
        return p["opnd"]
    return wrap_inner(p, "{%s}" % field_decl(p, name, extra))


# --------------------------------------------------------------------------------------------------------- contexts

CONTEXTS_1 = ["cv", "vc", "chain", "chain_r", "apply", "apply_open", "nested_ann", "nested_val", "piecewise", "inline_def", "default", "default_bad",
              "force", "split", "same_record_twice"]
CONTEXTS_2 = ["two", "two_r", "two_same_field", "two_nested_val", "two_apply", "two_piecewise", "two_sequence"]
# `{x : T}` is a record TYPE, used here as a contract.  (A typed field of a record term, `x : T = v`, needs a definition and its
# annotation is by design not propagated by merging: it is not an attached contract in the sense of the property.)
COLON_CONTEXTS = ["apply", "nested_ann"]
HIDDEN_KINDS = ("field", "field2", "lib_field")


def build(r, ctx, ps, V, V0=None):
    """-> {ops | expr, lets, extra (other exported fields), nest, order (contract indices in application order),
    rorder (same for the program with the operands reversed)}"""
    p = ps[0]
    Vx = "{x = %s}" % nickel_V(V)
    filler = r.choice(["{z = 0}", "{}", "{z | Number = 0}"])
    b = {"extra": {}, "nest": False, "order": [0], "rorder": [0], "lets": []}
    if ctx == "cv":
        b["ops"] = [operand(p), Vx]
    elif ctx == "vc":
        b["ops"] = [Vx, operand(p)]
    elif ctx in ("chain", "chain_r"):
        b["ops"] = r.shuffle([operand(p), Vx, filler])
        b["extra"] = {"z": 0} if "z" in filler else {}
        if ctx == "chain_r":
            b["ops"] = [b["ops"][0], "(%s & %s)" % (b["ops"][1], b["ops"][2])]
    elif ctx == "apply":
        b["expr"] = "%s | %s" % (Vx, operand(p))
    elif ctx == "apply_open":
        b["expr"] = "(%s & {z = 0}) | %s" % (Vx, wrap_inner(p, "{%s, ..}" % field_decl(p)))
        b["extra"] = {"z": 0}
    elif ctx == "nested_ann":
        b["ops"] = r.shuffle(["{y | %s}" % operand(p), "{y = %s}" % Vx])
        b["nest"] = True
    elif ctx == "nested_val":
        b["ops"] = r.shuffle(["{y = %s}" % operand(p), "{y = %s}" % Vx])
        b["nest"] = True
    elif ctx == "piecewise":
        b["ops"] = [wrap_inner(p, "{%s, x = %s}" % (field_decl(p), nickel_V(V)))]
        if r.chance(1, 2):
            b["ops"].append(filler)
            b["extra"] = {"z": 0} if "z" in filler else {}
    elif ctx == "inline_def":
        b["ops"] = [operand(p, extra=" = " + nickel_V(V))]
        if r.chance(1, 2):
            b["ops"].append(filler)
            b["extra"] = {"z": 0} if "z" in filler else {}
    elif ctx in ("default", "default_bad"):
        b["ops"] = r.shuffle([operand(p, extra=" | default = " + nickel_V(V0)), Vx])
    elif ctx == "force":
        b["ops"] = r.shuffle([operand(p, extra=" = " + nickel_V(V0)), "{x | force = %s}" % nickel_V(V)])
    elif ctx == "split":
        keys = list(V)
        cut = r.range(1, len(keys) - 1)
        a = {k: V[k] for k in keys[:cut]}
        c = {k: V[k] for k in keys[cut:]}
        b["ops"] = r.shuffle([operand(p), "{x = %s}" % nickel_V(a), "{x = %s}" % nickel_V(c)])
    elif ctx == "same_record_twice":
        # the operand that carries the contract is shared: merged twice into the chain
        b["lets"] = [("R", operand(p))]
        b["ops"] = r.shuffle(["R", Vx, "R"])
        b["order"] = b["rorder"] = [0, 0]
    elif ctx in ("two", "two_r", "two_nested_val"):
        items = r.shuffle([(0, operand(ps[0])), (1, operand(ps[1])), (None, Vx)])
        b["order"] = [i for i, _ in items if i is not None]
        b["rorder"] = list(reversed(b["order"]))
        b["ops"] = [o for _, o in items]
        if ctx == "two_nested_val":
            b["ops"] = ["{y = %s}" % o for o in b["ops"]]
            b["nest"] = True
        if ctx == "two_r":
            b["ops"] = [b["ops"][0], "(%s & %s)" % (b["ops"][1], b["ops"][2])]
            b["rorder"] = [i for i, _ in items[1:] + items[:1] if i is not None]
    elif ctx == "two_same_field":
        q = ps[1]
        b["ops"] = r.shuffle([wrap_inner(p, wrap_inner(q, "{%s%s | %s}" % (q["hidden"], field_decl(p), q["ann"]))), Vx])
        b["order"] = b["rorder"] = [0, 1]
    elif ctx == "two_sequence":
        q = ps[1]
        seq = "std.contract.%s [(%s), (%s)]" % (r.choice(["Sequence", "all_of"]), p["ann"], q["ann"])
        b["ops"] = r.shuffle([wrap_inner(p, wrap_inner(q, "{%s%sx | %s}" % (p["hidden"], q["hidden"], seq))), Vx])
        b["order"] = b["rorder"] = [0, 1]
    elif ctx == "two_apply":
        # one contract attached by a merge, the other by a record contract application (open: hidden fields may exist)
        q = ps[1]
        b["expr"] = "(%s) | %s" % (" & ".join(r.shuffle([operand(p), Vx])), wrap_inner(q, "{%s, ..}" % field_decl(q)))
        b["order"] = b["rorder"] = [0, 1]
    elif ctx == "two_piecewise":
        q = ps[1]
        b["ops"] = [wrap_inner(p, wrap_inner(q, "{%s, %s, x = %s}" % (field_decl(p), field_decl(q), nickel_V(V))))]
        b["order"] = b["rorder"] = [0, 1]
    else:
        raise ValueError(ctx)
    return b


def render(lets, b, reverse=False, forces=()):
    """forces: expressions evaluated (std.seq) before the program proper, after all the let bindings"""
    pre = PRELUDE + "".join("let %s = %s in\n" % (nm, e) for nm, e in lets + b["lets"])
    if "expr" in b:
        body = b["expr"]
    else:
        body = " & ".join(list(reversed(b["ops"])) if reverse else b["ops"])
    for e in reversed(forces):
        body = "std.seq (%s) (%s)" % (e, body)
    return pre + body


def expected_tree(b, V):
    inner = dict(b["extra"])
    inner["x"] = V
    return canon_V({"y": inner} if b["nest"] else inner)


# ------------------------------------------------------------------------------------------------------------ cases

def pick_value(r, Cs):
    """-> (V, role): a member of the first contract, or a one-position mutant of a member (w.r.t. any of the contracts)"""
    C = Cs[0]
    base = member(r, C)
    if base is None:
        return None
    cands = []
    for c in Cs:
        b = base if c is C else (member(r, c) or base)
        if c is not C:
            cands.append((b, "member-of-other"))
        for x in mutants(c, b):
            cands.append((x, "mutant"))
    if not cands or r.chance(3, 10):
        return base, "member"
    # prefer mutants that fail exactly one check (of all the distinct attached contracts together)
    uniq = [c for i, c in enumerate(Cs) if c not in Cs[:i]]
    one = [(v, role) for v, role in cands if sum(len(fails(c, v)) for c in uniq) == 1]
    if one and r.chance(4, 5):
        return r.choice(one)
    return r.choice(cands)


def alt_orders(order, Cs):
    """application orders the implementation may use: all the attached contracts, or without the later copies of an equal
    contract (deduplication is allowed, not required, to remove them)"""
    ded = []
    for i in order:
        if not any(Cs[i] == Cs[j] for j in ded):
            ded.append(i)
    return [list(order)] if ded == list(order) else [list(order), ded]


def prediction(fl, tree):
    return {"accept": not fl, "tree": tree, "classes": sorted({f[2] for f in fl}), "failed": sorted({f[1] for f in fl})}


def gen_case(r, n, forced=None):
    """one program with its reference outcome; forced = dict of fixed choices (systematic grid)"""
    forced = forced or {}
    for _ in range(40):
        d = r.weighted([(1, 4), (2, 5), (3, 3)])
        C1 = forced.get("C") or gen_contract(r, d)
        if C1[0] in IMMEDIATE and not forced and r.chance(2, 3):
            continue
        two = forced.get("two", r.chance(1, 3))
        Cs = [C1]
        rel = None
        if two:
            rel = forced.get("rel") or r.weighted([("same", 2), ("other-presentation", 3), ("near", 6)])
            Cs.append(near(r, C1) if rel == "near" else C1)
            if rel == "near" and Cs[1] == C1:
                rel = "other-presentation"
            fam = None if forced else r.weighted([(None, 11), ("same-function", 4), ("same-text", 5)])
            if fam == "same-text" and "rec" not in kinds_of(C1):
                for _t in range(6):
                    C1 = gen_contract(r, d)
                    if "rec" in kinds_of(C1):
                        break
                Cs = [C1, C1]
            if fam:
                # the same parametrized contract instantiated twice / the same text under two bindings of one identifier, the
                # argument (binding) being equal or different; prefer an identifier that occurs inside a record contract
                subs = subterms(C1)
                inrec = [(q, c) for q, c in subs if any(C1_at(C1, q[:i])[0] == "rec" for i in range(len(q)))]
                ppath, sub = r.choice(inrec if inrec and r.chance(3, 4) else subs)
                arg2 = r.choice([sub, near(r, sub), near(r, sub), gen_contract(r, 0)])
                Cs[1] = replace_at(C1, ppath, arg2)
                rel = fam + ("-same-argument" if Cs[1] == C1 else "-other-argument")
                if fam == "same-text":
                    wrapk = r.choice([None, None, "arr", "dc", "dt"])
                    if wrapk:
                        Cs = [(wrapk, c) for c in Cs]
                        ppath = (0,) + ppath
                        C1 = Cs[0]
        pv = pick_value(r, Cs)
        if pv is None:
            continue
        V, role = pv
        if two and Cs[0] != Cs[1] and r.chance(2, 5):
            # a value that exactly one of the two contracts accepts: only the contract a wrong deduplication would drop rejects it
            for _t in range(6):
                i = r.below(2)
                mv = member(r, Cs[i])
                if mv is not None and fails(Cs[1 - i], mv):
                    V, role = mv, "member-of-one-only"
                    break
        ctx = forced.get("ctx") or r.choice(CONTEXTS_2 if two else CONTEXTS_1)
        kinds = []
        for i in range(len(Cs)):
            k = forced.get("pres") if (i == 0 and forced.get("pres")) else r.choice(PRESENTATIONS)
            if k in ("colon", "colon_let") and two:
                k = "let" if k == "colon_let" else "inline"
            if rel and rel.startswith("same-function"):
                k = r.choice(["param", "param_operand"])
            if i == 1 and rel == "same":
                k = kinds[0]
            if i == 1 and rel == "other-presentation" and k == kinds[0]:
                k = "let" if kinds[0] != "let" else "inline"
            kinds.append(k)
        if kinds[0] in ("colon", "colon_let"):
            if ctx not in COLON_CONTEXTS:
                ctx = r.choice(COLON_CONTEXTS)
        if ctx == "split" and not (isinstance(V, dict) and len(V) >= 2):
            ctx = "chain"
        if ctx == "same_record_twice" and kinds[0] in HIDDEN_KINDS:
            kinds[0] = "let"       # merging the record with itself would merge the hidden contract definition with itself
        V0 = None
        if ctx in ("default", "force"):
            V0 = member(r, C1)
        elif ctx == "default_bad":
            ms = mutants(C1, member(r, C1))
            V0 = r.choice(ms) if ms else member(r, C1)
        if ctx in ("default", "default_bad", "force") and V0 is None:
            ctx = "cv"
        ps = []
        if rel and rel.startswith("same-text"):
            inner = [c[1] for c in Cs] if wrapk else Cs
            ps = present_same_text(r.choice(SAME_TEXT_STYLES), inner[0], inner[1], ppath[1:] if wrapk else ppath, n, wrapk)
        for i, (c, k) in enumerate(zip(Cs, kinds)):
            if rel and rel.startswith("same-text"):
                break
            if i == 1 and rel == "same" and not ps[0]["hidden"] and not ps[0]["inner"] and ps[0]["lets"]:
                ps.append(dict(ps[0], lets=[]))          # literally the same variable
                continue
            if i == 1 and rel and rel.startswith("same-function"):
                ps.append(present(r, k, c, n * 2 + i, shared=(n * 2, ppath)))
                continue
            if i == 0 and rel and rel.startswith("same-function"):
                # bind the function abstracted at the chosen path
                body = src(c, {ppath: "E"})
                q = present(r, k, c, n * 2, shared=(n * 2, ppath))
                q["lets"] = [("Mk%d" % (n * 2), "fun E => %s" % body), ("MkR%d" % (n * 2), "fun E => {x | %s}" % body)]
                ps.append(q)
                continue
            ps.append(present(r, k, c, n * 2 + i))
        lets = [x for p in ps for x in p["lets"]]
        b = build(r, ctx, ps, V, V0)
        tree = expected_tree(b, V)
        uniq = [c for i, c in enumerate(Cs) if c not in Cs[:i]]
        fl = [f for c in uniq for f in fails(c, V)]
        ideal = prediction(fl, tree)
        impl = {"default": [prediction(g_fails([Cs[i] for i in o], V), tree) for o in alt_orders(b["order"], Cs)],
                "nodedup": [prediction(g_fails([Cs[i] for i in b["order"]], V), tree)],
                "swapped": [prediction(g_fails([Cs[i] for i in o], V), tree) for o in alt_orders(b["rorder"], Cs)]}
        # "already evaluated / already used before it is attached": the let-bound contracts are forced first
        named = [x for p in ps for x in p.get("named", [])]
        fmode = "none"
        if named and not forced.get("noforce"):
            fmode = r.weighted([("none", 2), ("seq", 2), ("used", 2)] if rel and rel.startswith("same-text") else [("none", 6), ("seq", 2), ("used", 2)])
        forces = []
        if fmode == "seq":
            forces = [e for e, _ in named]
        elif fmode == "used":
            for e, c in named:
                mv = member(r, c)
                forces.append("%s | %s" % (nickel_V(mv), e) if mv is not None else e)
        prog, sw = render(lets, b, forces=forces), render(lets, b, reverse=True, forces=forces)
        return {"program": prog, "swapped": sw, "ideal": ideal, "impl_model": impl, "nfailed": len(fl),
                "ctx": ctx, "pres": [p["as"] for p in ps], "rel": rel, "role": role, "forced": fmode,
                "kinds": sorted({k for c in Cs for k in kinds_of(c)}), "depth": max(depth(c) for c in Cs),
                "contracts": [src(c) for c in Cs], "value": jsonable(V)}
    return None


SYSTEMATIC_CONTRACTS = [
    ("arr", ("rec", False, (("f", False, (("num",),)),))),
    ("dc", ("rec", False, (("f", False, (("num",),)), ("g", True, (("str",),))))),
    ("dt", ("rec", True, (("f", False, (("pred", "Pos"),)),))),
    ("arr", ("arr", ("pred", "Even"))),
    ("dc", ("arr", ("str",))),
    ("rec", False, (("f", False, (("arr", ("num",)),)), ("g", False, (("dc", ("rec", False, (("h", False, (("bool",),)),))),)))),
    ("rec", True, (("f", False, (("num",), ("pred", "Lt10"))),)),
    ("rt", (("f", ("num",)), ("g", ("arr", ("rec", False, (("h", False, (("str",),)),)))))),
    ("seq", "Sequence", (("arr", ("num",)), ("arr", ("pred", "Pos")))),
    ("arr", ("enum", ("a", "b"))),
    ("dt", ("dc", ("rec", False, (("f", False, (("enum", ("a",)),)),)))),
    ("any", (("str",), ("arr", ("rec", False, (("f", False, (("num",),)),))))),
    ("dt", ("arr", ("num",))),
    ("rec", False, ()),
    ("rec", True, ()),
    ("rec", False, (("f", True, (("num",),)), ("g", True, (("str",),)))),
    ("arr", ("rec", False, ())),
    ("dc", ("rec", False, (("f", True, (("pred", "Pos"),)),))),
    ("rec", False, (("f", False, (("rec", False, ()),)),)),
]


def load_corpus():
    """corpus/C04/*.case: one JSON case per line (hand-picked programs pinning the semantics the reference relies on, and the
    witnesses of the reported findings); they always run first"""
    import glob
    import os
    out = []
    for path in sorted(glob.glob(os.path.join(core.ROOT, "corpus", "C04", "*.case"))):
        for line in open(path):
            line = line.strip()
            if not line or line.startswith("#"):
                continue
            c = json.loads(line)
            c.setdefault("swapped", c["program"])
            for k, d in (("stream", "corpus"), ("ctx", "corpus"), ("pres", []), ("kinds", []), ("depth", 1), ("role", "corpus"), ("forced", "none"),
                         ("nfailed", len(c["ideal"].get("failed", []))), ("rel", None)):
                c.setdefault(k, d)
            out.append(c)
    return out


def gen_cases(seed, tier):
    rng = core.SplitMix64(seed * 7368787 + 404)
    total = 1500 if tier == "quick" else 40000
    cases = load_corpus()
    n = 0
    # systematic part: every presentation x every constructor shape, contexts in rotation, two values each
    for i, pres in enumerate(PRESENTATIONS):
        for j, C in enumerate(SYSTEMATIC_CONTRACTS):
            if tier == "quick" and (i + j) % 2:
                continue
            for rep in range(2):
                r = rng.fork()
                n += 1
                c = gen_case(r, n, {"C": C, "pres": pres, "ctx": CONTEXTS_1[(i * 5 + j * 3 + rep) % len(CONTEXTS_1)], "two": False})
                if c:
                    c["stream"] = "systematic"
                    cases.append(c)
    while len(cases) < total:
        r = rng.fork()
        n += 1
        c = gen_case(r, n)
        if c:
            c["stream"] = "random"
            cases.append(c)
    return cases


# ------------------------------------------------------------------------------------------- late-value stream
# The contexts above always have the field's value present when the contracts are applied.  Here a RECORD goes through a history
# of steps, and some of its fields only get their value after several record contracts have been applied to a record that did not
# define them yet:
#   apply   `E | K`  or  `E | std.contract.Sequence [K1, K2]`   K = closed/open record contract, each field optional or not, with
#                                                                contracts from the grammar above, possibly a default value
#   cmerge  `E & {f | C, g | optional | C}` (either side)        the same fields as a plain merge operand (never closed)
#   def     `E & {f = v}`, `{f | default = v} & E`, `E & {f | force = v}`, `E & {f | C = v}`   an operand that defines fields
# in every order, optionally one level down (`{y = E} & {y = {f = v}}`).  Reference (exact, by a direct simulation of the
# language semantics, no model of the implementation): a closed record contract rejects, WHEN IT IS APPLIED, the fields the
# record holds at that time that it does not list, except empty optional ones; every contract that any step attaches to a field
# is enforced on the field's FINAL value (the definition of highest priority), whatever happened in between; a field that is
# still undefined at the end is skipped if optional and is a missing definition otherwise.

PRIO = {"default": 0, "normal": 1, "force": 2}
LATE_BASE, LATE_LATE = ["bar", "baz"], ["foo", "qux"]


def k_src(K, closedness=True):
    parts = []
    for (f, opt, cs, dflt) in K["fields"]:
        anns = ["optional"] if opt else []
        anns = (anns + [src(c) for c in cs]) if K.get("opt_first") else ([src(c) for c in cs] + anns)
        s_ = f + "".join(" | " + a for a in anns)
        if dflt is not None:
            s_ += " | default = " + nickel_V(dflt[0])
        parts.append(s_)
    if closedness and K["open"]:
        parts.append("..")
    return "{%s}" % ", ".join(parts)


def late_sim(base, steps, also=None, type_drops=False):
    """-> (violated checks, final values); also: list receiving the checks that only the order-aware model of nested undefined
    fields sees (used for the admissible error classes of a rejection, never for accept/reject)"""
    st = {}
    also = [] if also is None else also

    def put(f, val, opt, cs):
        e = st.get(f)
        if e is None:
            st[f] = {"val": val, "opt": opt, "cs": list(cs)}
            return
        e["cs"] += list(cs)
        e["opt"] = e["opt"] and opt
        if val is not None:
            if e["val"] is None or val[1] > e["val"][1]:
                e["val"] = val
            elif val[1] == e["val"][1]:
                raise ValueError("two definitions of %s with the same priority" % f)

    for f, (v, opt, cs) in base.items():
        put(f, None if v is None else (v[0], PRIO["normal"]), opt, cs)
    for stp in steps:
        if stp[0] == "apply":
            for K in stp[1]:
                names = [x[0] for x in K["fields"]]
                if not K["open"]:
                    extra = [f for f, e in st.items() if f not in names and not (e["val"] is None and e["opt"])]
                    if extra:
                        return [((f,), "record:extra-field", BLAME) for f in extra], None
                for (f, opt, cs, dflt) in K["fields"]:
                    put(f, None if dflt is None else (dflt[0], PRIO["default"]), opt, cs)
                if type_drops and K.get("is_type"):
                    # (labelling only, finding record-type-drops-empty-optional-fields: a record TYPE contract rebuilds the value
                    # without its empty optional fields, whose pending contracts are lost)
                    for f in [f for f, e in st.items() if e["val"] is None and e["opt"]]:
                        del st[f]
        elif stp[0] == "cmerge":
            for (f, opt, cs, dflt) in stp[1]["fields"]:
                put(f, None if dflt is None else (dflt[0], PRIO["default"]), opt, cs)
        elif stp[0] == "def":
            for f, (prio, v, cs) in stp[1].items():
                put(f, (v, PRIO[prio]), False, cs)
    out, final = [], {}
    for f, e in st.items():
        if e["val"] is None:
            if not e["opt"]:
                out.append(((f,), "record:missing-field", MISSING))
            continue
        final[f] = e["val"][0]
        seen = []
        for c in e["cs"]:
            if c not in seen:
                seen.append(c)
                out += fails(c, e["val"][0], (f,))
        # error classes only: a nested field that one contract requires and the value lacks stays as an undefined field and is
        # an extra field for a later closed contract on the same value (Blame+ instead of MissingDef, still a rejection)
        import itertools
        for perm in (itertools.permutations(seen) if len(seen) <= 3 else (seen, seen[::-1])):
            also += [x for x in g_fails(list(perm), e["val"][0]) if x[2] not in [y[2] for y in out + also]]
    return out, final


def late_render(base, steps, nest_from, aliases):
    """nest_from: index of the first step written one level up (`{y = E} & {y = operand}`; only def/cmerge steps may follow)"""
    def ksrc(K, closedness=True):
        return aliases.get(id(K), None) if closedness and id(K) in aliases else k_src(K, closedness)
    parts = []
    for f, (v, opt, cs) in base.items():
        s_ = f + ("" if not opt else " | optional") + "".join(" | " + src(c) for c in cs)
        parts.append(s_ + (" = " + nickel_V(v[0]) if v is not None else ""))
    E = "{%s}" % ", ".join(parts)
    nested = False
    for i, stp in enumerate(steps):
        if nest_from is not None and i == nest_from:
            E = "{y = %s}" % E
            nested = True
        w = (lambda x: "{y = %s}" % x) if nested else (lambda x: x)
        if stp[0] == "apply":
            Ks = stp[1]
            c = ksrc(Ks[0]) if len(Ks) == 1 else "std.contract.%s [%s]" % (stp[2], ", ".join(ksrc(K) for K in Ks))
            E = "(%s | %s)" % (E, c)
        elif stp[0] == "cmerge":
            o = w(k_src(stp[1], False))
            E = "(%s & %s)" % ((E, o) if stp[2] == "right" else (o, E))
        else:
            fs = []
            for f, (prio, v, cs) in stp[1].items():
                fs.append(f + "".join(" | " + src(c) for c in cs) + {"normal": "", "default": " | default", "force": " | force"}[prio] + " = " + nickel_V(v))
            o = w("{%s}" % ", ".join(fs))
            E = "(%s & %s)" % ((E, o) if stp[2] == "right" else (o, E))
    return E, nested


def late_case(r, n, spec=None):
    """one history; spec (systematic grid) fixes the shape"""
    spec = spec or {}
    for _ in range(30):
        fields = ["bar"] + (["baz"] if r.chance(1, 3) else []) + ["foo"] + (["qux"] if r.chance(1, 3) else [])
        if spec:
            fields = ["bar", "foo"]
        fam = {}
        for f in fields:
            c = gen_contract(r, r.weighted([(0, 5), (1, 3), (2, 1)])) if not spec else ("num",)
            fam[f] = [c, near(r, c)] if r.chance(1, 3) and not spec else [c]
        used = {f: [] for f in fields}

        def pick_cs(f):
            cs = [r.choice(fam[f])] + ([r.choice(fam[f])] if r.chance(1, 6) else [])
            cs = [c for i, c in enumerate(cs) if c not in cs[:i]]
            used[f] += cs
            return tuple(cs)
        late = [f for f in fields if f in LATE_LATE]
        if spec.get("base_empty") or (not spec and r.chance(1, 5)):
            late = list(fields)                  # the literal defines nothing: `{}` (or only declares an optional field)
        # ---- contract steps
        Ks = []
        nk = spec.get("nk", r.weighted([(1, 3), (2, 5), (3, 3)]))
        for i in range(nk):
            ks = spec["ks"][i] if spec else None
            fs = []
            for f in fields:
                is_late = f in late
                mention = ks["mention"].get(f, True) if ks else r.chance(4, 5) if not is_late else r.chance(1, 2)
                if not mention:
                    continue
                opt = ks["opt"].get(f, False) if ks else (r.chance(7, 10) if is_late else r.chance(1, 8))
                fs.append((f, opt, pick_cs(f), None))
            if not ks:
                shape = r.weighted([("any", 12), ("empty", 3), ("all-optional", 2)])
                if shape == "empty":
                    fs = []                      # field-less record contract: closed {} or open {..}
                elif shape == "all-optional":
                    fs = [(f, True, cs, d_) for (f, _o, cs, d_) in fs]
            Ks.append({"open": ks["open"] if ks else r.chance(1, 3), "fields": fs, "opt_first": r.chance(1, 2)})
        # ---- who defines what: base fields in the literal, late fields by a later step (or never)
        final_src = {}
        for f in late:
            final_src[f] = spec.get("how") or r.weighted([("def", 5), ("def_default", 2), ("def_force", 1), ("def_contract", 1), ("kdefault", 2), ("never", 1)])
        # values: members of every contract used on the field, one field possibly a mutant
        vals = {}
        bad = spec.get("bad", r.chance(11, 20))
        for f in fields:
            cs = [c for i, c in enumerate(used[f] or fam[f][:1]) if c not in (used[f] or fam[f][:1])[:i]]
            mv = member_all(r, cs) if len(cs) > 1 else member(r, cs[0])
            if mv is None:
                mv = member(r, cs[0])
            if mv is None:
                break
            vals[f] = (mv, cs)
        else:
            if bad:
                f = spec.get("badfield") or r.choice([x for x in late if final_src[x] != "never"] * 3 + fields)
                ms = [x for c in vals[f][1] for x in mutants(c, vals[f][0])]
                if ms:
                    vals[f] = (r.choice(ms), vals[f][1])
            base = {}
            for f in fields:
                if f not in late:
                    base[f] = ((vals[f][0],), False, ())
            if spec.get("literal_optional") or (not spec and r.chance(1, 6)):
                f = late[0]
                base[f] = (None, True, pick_cs(f))       # `foo | optional | C` declared in the literal, without a value
            steps = []
            seq_pair = not spec and nk >= 2 and r.chance(1, 4)
            i = 0
            while i < len(Ks):
                if seq_pair and i == 0:
                    steps.append(("apply", [Ks[0], Ks[1]], r.choice(["Sequence", "all_of"])))
                    i += 2
                    continue
                mode = spec["ks"][i].get("mode", "apply") if spec else r.weighted([("apply", 7), ("cmerge", 2)])
                steps.append(("apply", [Ks[i]], None) if mode == "apply" else ("cmerge", Ks[i], r.choice(["left", "right"])))
                i += 1
            if not spec:
                steps = r.shuffle(steps)
            dsteps = []
            for f in late:
                how, v = final_src[f], vals[f][0]
                side = spec.get("side") or r.choice(["left", "right"])
                if how == "def":
                    dsteps.append(("def", {f: ("normal", v, ())}, side))
                elif how == "def_default":
                    dsteps.append(("def", {f: ("default", v, ())}, side))
                elif how == "def_force":
                    dsteps.append(("def", {f: ("force", v, ())}, side))
                    if r.chance(1, 2):
                        # an earlier, weaker definition that must not be the final value
                        other = member(r, vals[f][1][0])
                        if other is not None:
                            dsteps.append(("def", {f: ("normal", other, ())}, r.choice(["left", "right"])))
                elif how == "def_contract":
                    dsteps.append(("def", {f: ("normal", v, pick_cs(f))}, side))
                elif how == "kdefault":
                    K = {"open": True, "fields": [(f, False, pick_cs(f) if r.chance(1, 2) else (), (v,))], "opt_first": False}
                    dsteps.append(("apply", [K], None) if r.chance(2, 3) else ("cmerge", K, side))
            if spec:
                # the value arrives after all the contracts (or, defs_first, before them)
                steps = dsteps + steps if spec.get("defs_first") else steps + dsteps
            else:
                for d in dsteps:                 # anywhere in the history, mostly late
                    pos = len(steps) if r.chance(3, 5) else r.range(0, len(steps))
                    steps.insert(pos, d)
            # one level down: from some point on, the remaining steps (operands only) are written as `& {y = ..}`
            nest_from = None
            if not spec and r.chance(1, 4):
                k = len(steps)
                while k > 0 and steps[k - 1][0] != "apply":
                    k -= 1
                nest_from = r.range(k, len(steps))
            aliases = {}
            lets = []
            for j, K in enumerate(Ks):
                if spec.get("alias", r.chance(1, 2)):
                    nm = "R%d_%d" % (n, j)
                    aliases[id(K)] = nm
                    lets.append((nm, k_src(K)))
            try:
                for K in Ks:
                    # written inline, a closed field-less `{}` in an annotation is the empty record TYPE
                    K["is_type"] = (not K["fields"] and not K["open"] and id(K) not in aliases
                                    and any(x[0] == "apply" and len(x[1]) == 1 and x[1][0] is K for x in steps))
                also = []
                fl, final = late_sim(base, steps, also)
                fl2, final2 = late_sim(base, steps, [], type_drops=True)
            except ValueError:
                continue
            E, nested = late_render(base, steps, nest_from, aliases)
            if nest_from is not None and not nested:
                E, nested = "{y = %s}" % E, True
            prog = PRELUDE + "".join("let %s = %s in\n" % x for x in lets) + E
            tree = None
            if final is not None:
                tree = canon_V({"y": final} if nested else final)
            ideal = prediction(fl, tree)
            sig = "".join({"apply": "K", "cmerge": "k", "def": "d"}[x[0]] if not (x[0] == "apply" and len(x[1]) > 1) else "S" for x in steps)
            allc = [c for f in fields for c in (used[f] or fam[f])]
            alt = prediction(fl + also, tree) if fl else ideal
            alts = [alt]
            if final2 is not None and (not fl2) != (not fl):
                alts.append(prediction(fl2, canon_V({"y": final2} if nested else final2)))
            return {"program": prog, "swapped": prog, "ideal": ideal, "impl_model": {k: alts for k in ("default", "nodedup", "swapped")},
                    "quirk_key": "record-type-drops-empty-optional-fields",
                    "quirk_text": "a record type contract (here the inline `{}`) dropped the value's empty optional fields together with the contracts "
                                  "an earlier step attached to them",
                    "nfailed": len(fl), "ctx": "late:" + ("nested" if nested else "top"), "pres": ["late:alias" if aliases else "late:inline"],
                    "rel": None, "role": "mutant" if bad else "member", "forced": "none", "late_history": sig,
                    "late_sources": sorted(set(final_src.values())) + (["literal-optional"] if any(v[0] is None for v in base.values()) else []),
                    "kinds": sorted({k for c in allc for k in kinds_of(c)}), "depth": 1 + max(depth(c) for c in allc),
                    "contracts": [k_src(K) for K in Ks], "value": jsonable(final) if final is not None else None}
    return None


def gen_late_cases(seed, tier):
    rng = core.SplitMix64(seed * 15485863 + 4004)
    total = 380 if tier == "quick" else 10000
    cases = []
    n = 0
    # systematic grid: first contract A (late field optional / required), second contract B (closed / open, mentions the late field
    # or not), both orders, B applied by `|` or merged as an operand, the value arriving in 5 ways, good / bad value
    grid = []
    for a_opt in (True, False):
        for b_open in (False, True):
            for b_mentions in (False, True):
                for order in ("AB", "BA"):
                    for how in ("def", "def_default", "kdefault", "def_force", "literal"):
                        grid.append((a_opt, b_open, b_mentions, order, how))
    for gi, (a_opt, b_open, b_mentions, order, how) in enumerate(grid):
        if tier == "quick" and gi % 2 != (seed % 2):
            continue
        for bad in (True, False):
            if not bad and gi % 4:
                continue
            A = {"open": False, "mention": {"bar": True, "foo": True}, "opt": {"foo": a_opt}}
            B = {"open": b_open, "mention": {"bar": True, "foo": b_mentions}, "opt": {"foo": True}}
            ks = [A, B] if order == "AB" else [B, A]
            spec = {"nk": 2, "ks": ks, "how": "def" if how == "literal" else how, "bad": bad, "badfield": "foo",
                    "side": "left" if how == "def_default" else "right", "alias": bool(gi % 3)}
            if how == "literal":
                spec["literal_optional"] = True
            n += 1
            c = late_case(rng.fork(), n, spec)
            if c:
                c["stream"] = "late-systematic"
                cases.append(c)
    # second grid: a field-less record contract E (closed {} / open {..}), alone or with a contract A that lists the fields, in both
    # orders, on a literal that defines nothing or defines `bar`, applied before or after the values arrive, by alias or inline
    # (an inline `{}` in an annotation is the empty record TYPE: same denotation)
    gi = 0
    for e_open in (False, True):
        for with_a in ("none", "AE", "EA"):
            for base_empty in (True, False):
                for defs_first in (False, True):
                    for alias in (True, False):
                        gi += 1
                        if tier == "quick" and gi % 2 == (seed % 2):
                            continue
                        E = {"open": e_open, "mention": {"bar": False, "foo": False}, "opt": {}}
                        A = {"open": False, "mention": {"bar": True, "foo": True}, "opt": {"foo": True, "bar": base_empty}}
                        ks = {"none": [E], "AE": [A, E], "EA": [E, A]}[with_a]
                        spec = {"nk": len(ks), "ks": ks, "how": "def" if gi % 3 else "def_default", "bad": gi % 5 == 0, "badfield": "foo",
                                "side": "right" if gi % 2 else "left", "alias": alias, "base_empty": base_empty, "defs_first": defs_first}
                        n += 1
                        c = late_case(rng.fork(), n, spec)
                        if c:
                            c["stream"] = "late-systematic-empty"
                            cases.append(c)
    while len(cases) < total:
        n += 1
        c = late_case(rng.fork(), n)
        if c:
            c["stream"] = "late-random"
            cases.append(c)
    return cases


# -------------------------------------------------------------------------------------------------------------- run

def consistent(o, pred, more=()):
    if pred["accept"]:
        return o == "OK " + pred["tree"]
    return o.startswith("ERR ") and o.split()[1] in list(pred["classes"]) + list(more)


def judge(case, out, nod, sw):
    """-> list of (key, text) violations for one case given the three outcomes.  The reference is `ideal` (the order-independent
    denotation); `impl_model` only decides the LABEL of a disagreement (the two reported findings about empty optional fields)."""
    v = []
    ideal = case["ideal"]
    quirk = False
    for name, o in (("default", out), ("nodedup", nod), ("swapped", sw)):
        alts = case["impl_model"][name]
        more = [c for a in alts if not a["accept"] for c in a["classes"]]
        if m.crashed(o):
            v.append(("rich:crash", "interpreter crashed (%s run): %s" % (name, o[:60])))
        elif consistent(o, ideal, more):
            pass        # (a rejection may carry the error class of a check that only the order-aware prediction sees)
        elif any(a["accept"] != ideal["accept"] and consistent(o, a) for a in alts):
            quirk = True
            if case.get("quirk_key"):
                v.append((case["quirk_key"], "%s: expected %s, the %s run gives %s" % (
                    case["quirk_text"], "OK " + ideal["tree"][:80] if ideal["accept"] else "a rejection (%s)" % ", ".join(ideal["failed"]), name, o[:90])))
            elif ideal["accept"]:
                v.append((QUIRK_KEYS["accept-but-rejected"], "every attached contract accepts the final value but the %s run gives %s: an optional field of "
                          "one record contract, absent from the value, is counted as an extra field by a later closed record contract" % (name, o)))
            else:
                v.append((QUIRK_KEYS["reject-but-accepted"], "the final value lacks a field required by an attached record type (%s) but the %s run exports %s: "
                          "an empty optional field left by an earlier record contract is counted as present" % (", ".join(ideal["failed"]), name, o[:90])))
        elif ideal["accept"]:
            v.append(("rich:spurious-failure" if o.startswith("ERR") else "rich:value-changed",
                      "every attached contract accepts the final value but the %s run gives %s (expected OK %s)" % (name, o[:90], ideal["tree"][:90])))
        elif o.startswith("OK"):
            v.append(("rich:contract-not-enforced",
                      "the final value violates an attached contract (%s) but the %s run exports %s" % (", ".join(ideal["failed"]), name, o[:90])))
        else:
            v.append(("rich:unexpected-error-class", "rejected as expected but with %s instead of %s (%s run)" % (o, "/".join(ideal["classes"]), name)))
    if not quirk:
        # (implied by the per-run comparison with the reference; kept as more specific labels)
        if not m.same_config(out, nod):
            v.append(("rich:dedup-changes-outcome", "with deduplication %s, without %s" % (out[:90], nod[:90])))
        if not m.same_config(out, sw):
            v.append(("rich:operand-order", "reversing the operands changes the outcome: %s vs %s" % (out[:90], sw[:90])))
    return v


def run_cases(nk, cases):
    lines, idx = [], []
    for c in cases:
        same = c["swapped"] == c["program"]
        idx.append((len(lines), same))
        lines.append("\t" + m.esc(c["program"]))
        lines.append("nodedup\t" + m.esc(c["program"]))
        if not same:
            lines.append("\t" + m.esc(c["swapped"]))
    rc, outs, err = core.run_sharded(nk, [], lines)
    res = [(outs[k], outs[k + 1], outs[k] if same else outs[k + 2]) for (k, same) in idx]
    return rc, res, err


def run_rich(ck, nk):
    import time
    t0 = time.time()
    cases = gen_cases(ck.seed, ck.tier) + gen_late_cases(ck.seed, ck.tier)
    rc, res, err = run_cases(nk, cases)
    ck.coverage["rich_wall_s"] = round(time.time() - t0, 1)
    ck.log("rich stream: %d programs evaluated in %.1fs" % (len(cases), time.time() - t0))
    if rc:
        ck.obligation("run:rich", "internal", False, err[-300:])
    nviol = 0
    for c, (out, nod, sw) in zip(cases, res):
        ck.case(key=c["program"], nontrivial=c["depth"] >= 1)
        ck.hist("rich_stream", c["stream"])
        ck.hist("rich_context", c["ctx"])
        for p in c["pres"]:
            ck.hist("rich_presentation", p)
        for k in c["kinds"]:
            ck.hist("rich_contract_kind", k)
        ck.hist("rich_depth", c["depth"])
        ck.hist("rich_expected", "accepted" if c["ideal"]["accept"] else "rejected")
        ck.hist("rich_value_role", c["role"])
        ck.hist("rich_contract_forced_before_attachment", c.get("forced", "none"))
        ck.hist("rich_failed_checks", min(c["nfailed"], 3))
        for f in c["ideal"]["failed"]:
            ck.hist("rich_check_exercised", f)
        if c["rel"]:
            ck.hist("rich_second_contract", c["rel"])
        if "late_history" in c:
            ck.hist("rich_late_history_length", len(c["late_history"]))
            ck.hist("rich_late_history_shape", c["late_history"] if len(c["late_history"]) <= 3 else c["late_history"][:3] + "+")
            for x in c["late_sources"]:
                ck.hist("rich_late_value_source", x)
        ck.hist("rich_outcome", m.outcome_class(out) if out != "<missing>" else "missing")
        for key, text in judge(c, out, nod, sw):
            nviol += 1
            ck.violation(key, text, dict(c, rich=True, default=out, nodedup=nod, swapped_outcome=sw))
    ck.coverage["rich_programs"] = len(cases)
    ck.coverage["rich_evaluations"] = sum(2 if c["swapped"] == c["program"] else 3 for c in cases)
    ck.coverage["rich_disagreements"] = nviol
    ck.coverage["rich_rule"] = (
        "rich stream (checks/c04_rich.py, no model): contract grammar with a python denotation (Number/String/Bool, 6 predicates, enums, Array, "
        "{_ | C}, {_ : C}, closed/open record contracts with optional fields and several contracts per field, record types, Sequence/all_of, "
        "restricted any_of; depth <= 3) x %d presentations (%s) x %d attachment contexts (%s); value = a member or a one-position mutant failing "
        "one check; each program run 3 times (default, nodedup, operands reversed). Systematic grid (every presentation x %d constructor shapes) first, "
        "then random cases up to %d programs; late-value stream: histories of record contracts (|, Sequence, merged as operands) and of operands defining "
        "late fields, in every order, systematic grid (first contract optional/required x second closed/open x mentions the late field or not x both "
        "orders x 5 ways the value arrives) then random histories" % (len(PRESENTATIONS), ", ".join(PRESENTATIONS), len(CONTEXTS_1) + len(CONTEXTS_2),
                                                ", ".join(CONTEXTS_1 + CONTEXTS_2), len(SYSTEMATIC_CONTRACTS), len(cases)))
    ck.trusted += ["python denotation of contracts in checks/c04_rich.py (exact on the unchanged tree: 0 unexplained disagreements required)"]


def replay_rich(ck, obj, nk):
    rc, res, err = run_cases(nk, [obj])
    out, nod, sw = res[0]
    ck.case(key=obj["program"])
    for key, text in judge(obj, out, nod, sw):
        ck.violation(key, text, dict(obj, default=out, nodedup=nod, swapped_outcome=sw))
