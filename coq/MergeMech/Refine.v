(* The mechanism model refines the data-merge algebra:
     abs_wf               well-formed mechanism values abstract to well-formed trees
     mech_merge_refines   abs (mech_merge a b) = merge (abs a) (abs b)      (one evaluated step)
     whnf_refines         abs (whnf v) = abs v; no weak head normal form iff the tree is DTop
   for every contract equality that is sound and EVERY choice of the map split_ref clones. *)
From Coq Require Import List ZArith QArith Bool Lia Permutation.
Import ListNotations.
From NV Require Import Merge.Algebra Merge.Sorted Merge.Prio Merge.CsSet Merge.AlgebraProofs Merge.Rules Merge.ElabWf.
From NV Require Import MergeMech.OrdMap MergeMech.OrdMapFacts MergeMech.Model MergeMech.Abs
  MergeMech.RefineFields MergeMech.RefineSplit.
Close Scope Q_scope.
Open Scope bool_scope.

(* ---- booleans vs propositions *)
Lemma nodupb_NoDup l : nodupb l = true <-> NoDup l.
Proof.
  induction l as [|a t IH]; cbn [nodupb].
  - split; [constructor|reflexivity].
  - rewrite andb_true_iff, negb_true_iff, IH. split.
    + intros [H1 H2]. constructor; [|assumption]. intros Hin.
      assert (existsb (N.eqb a) t = true) by (apply existsb_exists; exists a; split; [assumption|apply N.eqb_refl]). congruence.
    + intros H. inversion H as [|? ? Hnin Hnd]; subst. split; [|assumption].
      destruct (existsb (N.eqb a) t) eqn:E; [|reflexivity]. apply existsb_exists in E.
      destruct E as [x [Hx Hx']]. apply N.eqb_eq in Hx'. subst. contradiction.
Qed.

Definition is_value (v : mval) : bool := match v with MPending _ _ => false | _ => true end.

(* ---- depth *)
Definition fdepth (kf : N * mfield) : nat :=
  match snd kf with mkMF _ _ _ _ (Some x) => mdepth x | _ => 0 end.

Lemma mdepth_rec fs : mdepth (MRec fs) = S (fold_right (fun kf m => Nat.max (fdepth kf) m) 0 fs).
Proof. reflexivity. Qed.

Lemma mdepth_arr_In es e : In e es -> mdepth e < mdepth (MArr es).
Proof. intros H. cbn [mdepth]. pose proof (fold_max_le mdepth es e H). lia. Qed.

Lemma mdepth_rec_In fs k f x : In (k, f) fs -> mf_val f = Some x -> mdepth x < mdepth (MRec fs).
Proof.
  intros H Hv. rewrite mdepth_rec. pose proof (fold_max_le fdepth fs (k, f) H) as Hm.
  unfold fdepth at 1 in Hm. cbn [snd] in Hm. destruct f as [p o h cs v]. cbn [mf_val] in Hv. subst v. lia.
Qed.

Lemma fold_max_bound {X} (g : X -> nat) l n :
  (forall x, In x l -> g x <= n) -> fold_right (fun e m => Nat.max (g e) m) 0 l <= n.
Proof.
  induction l as [|a t IH]; cbn [fold_right]; intros H; [lia|].
  pose proof (H a (or_introl eq_refl)). specialize (IH (fun x Hx => H x (or_intror Hx))). lia.
Qed.

Lemma mdepth_rec_le fs n :
  (forall k f x, In (k, f) fs -> mf_val f = Some x -> mdepth x <= n) -> mdepth (MRec fs) <= S n.
Proof.
  intros H. rewrite mdepth_rec. apply le_n_S. apply fold_max_bound. intros [k f] Hin. unfold fdepth. cbn [snd].
  destruct f as [p o h cs [x|]]; [|lia]. apply (H k _ x Hin). reflexivity.
Qed.

(* ---- shape of abstracted records *)
Lemma abs_rec fs : abs (MRec fs) = DRec (ksort (kmap absF fs)).
Proof. reflexivity. Qed.

Lemma absF_val f : f_val (absF f) = option_map abs (mf_val f).
Proof. destruct f as [p o h cs [x|]]; reflexivity. Qed.

Lemma absF_opt f : f_opt (absF f) = mf_opt f.
Proof. destruct f as [p o h cs [x|]]; reflexivity. Qed.

Lemma absF_hid f : f_hid (absF f) = mf_hid f.
Proof. destruct f as [p o h cs [x|]]; reflexivity. Qed.

Lemma absF_cs f : f_cs (absF f) = cs_norm (mf_cs f).
Proof. destruct f as [p o h cs [x|]]; reflexivity. Qed.

Lemma In_sorted_abs fs k g : In (k, g) (ksort (kmap absF fs)) -> exists f, In (k, f) fs /\ g = absF f.
Proof.
  intros H. apply (Permutation_in _ (ksort_perm _)) in H. unfold kmap in H. apply in_map_iff in H.
  destruct H as [[k' f] [E Hin]]. cbn [fst snd] in E. injection E as -> <-. eauto.
Qed.

Lemma sorted_abs_ssorted fs : NoDup (keys fs) -> ssorted (ksort (kmap absF fs)).
Proof. intros H. apply ksort_ssorted. now rewrite keys_kmap. Qed.

Lemma lookup_sorted_abs fs k : NoDup (keys fs) ->
  lookup k (ksort (kmap absF fs)) = option_map absF (im_get k fs).
Proof.
  intros H. rewrite lookup_ksort by (now rewrite keys_kmap). rewrite <- im_get_lookup. apply im_get_kmap.
Qed.

(* ---- plain data *)
Lemma mplain_field_inv (f : mfield) :
  match f with mkMF SNeutral false false [] (Some x) => mplainb x | _ => false end = true ->
  exists x, f = mkMF SNeutral false false [] (Some x) /\ mplainb x = true.
Proof.
  destruct f as [p o h cs v]. destruct p; try discriminate. destruct o; try discriminate.
  destruct h; try discriminate. destruct cs; try discriminate. destruct v as [x|]; try discriminate. eauto.
Qed.

Lemma mplain_plainD : forall n v, mplainb v = true -> mdepth v <= n -> plainD n (abs v) = true.
Proof.
  induction n as [|n IH]; intros v Hp Hd.
  - destruct v; cbn [mdepth] in Hd; try lia. reflexivity.
  - destruct v as [a|t x|es|fs|a b]; cbn [mplainb] in Hp; try discriminate.
    + reflexivity.
    + cbn [abs plainD]. cbn [mdepth] in Hd. apply IH; [assumption|lia].
    + cbn [abs plainD]. apply forallb_forall. intros d Hin. apply in_map_iff in Hin. destruct Hin as [e [<- He]].
      apply IH; [rewrite forallb_forall in Hp; auto|]. pose proof (mdepth_arr_In es e He). lia.
    + rewrite andb_true_iff in Hp. destruct Hp as [Hnd Hf]. apply nodupb_NoDup in Hnd.
      rewrite abs_rec. cbn [plainD]. rewrite andb_true_iff. split.
      * apply sorted_keys_ssorted. now apply sorted_abs_ssorted.
      * apply forallb_forall. intros [k g] Hin. cbn [snd]. apply In_sorted_abs in Hin. destruct Hin as [f [Hin ->]].
        pose proof (forallb_In _ _ _ Hf Hin) as Pf. cbn [snd] in Pf. apply mplain_field_inv in Pf.
        destruct Pf as [x [-> Px]]. cbn [absF absF_with plainF pnorm]. cbn.
        apply IH; [assumption|]. pose proof (mdepth_rec_In fs k _ x Hin eq_refl). lia.
Qed.

Lemma mplain_plainT v : mplainb v = true -> plainT (abs v).
Proof. intros H. exists (mdepth v). now apply mplain_plainD. Qed.

Lemma list_eqb_map_ext {X Y} (e : X -> X -> bool) (e' : Y -> Y -> bool) (g : X -> Y) l1 : forall l2,
  (forall x y, In x l1 -> In y l2 -> e x y = e' (g x) (g y)) ->
  list_eqb e l1 l2 = list_eqb e' (map g l1) (map g l2).
Proof.
  induction l1 as [|a t IH]; intros [|b u] H; cbn [list_eqb map]; try reflexivity.
  rewrite (H a b) by (now left). rewrite (IH u); [reflexivity|]. intros x y Hx Hy. apply H; now right.
Qed.

Lemma mplain_rec_field fs k f : mplainb (MRec fs) = true -> In (k, f) (ksort fs) ->
  exists x, f = mkMF SNeutral false false [] (Some x) /\ mplainb x = true.
Proof.
  cbn [mplainb]. rewrite andb_true_iff. intros [_ Hf] Hin. apply (Permutation_in _ (ksort_perm _)) in Hin.
  pose proof (forallb_In _ _ _ Hf Hin) as Pf. cbn [snd] in Pf. now apply mplain_field_inv.
Qed.

(* the model of contract.Equal's verdict agrees with the algebra's structural equality *)
Lemma data_eqb_abs : forall n a b, mplainb a = true -> mplainb b = true ->
  data_eqb n a b = D_eqb n (abs a) (abs b).
Proof.
  induction n as [|n IH]; intros a b Ha Hb.
  - destruct a, b; try discriminate; reflexivity.
  - destruct a as [x|t x|l1|f1|a1 a2], b as [y|u y|l2|f2|b1 b2]; try discriminate; try reflexivity.
    + cbn [data_eqb abs D_eqb]. cbn [mplainb] in Ha, Hb. now rewrite IH.
    + cbn [data_eqb abs D_eqb]. cbn [mplainb] in Ha, Hb. apply list_eqb_map_ext.
      intros x y Hx Hy. apply IH; [exact (forallb_In _ _ _ Ha Hx)|exact (forallb_In _ _ _ Hb Hy)].
    + rewrite !abs_rec. cbn [data_eqb D_eqb]. rewrite !ksort_kmap. unfold kmap.
      apply list_eqb_map_ext. intros [k1 g1] [k2 g2] H1 H2. cbn [fst snd].
      destruct (mplain_rec_field _ _ _ Ha H1) as [x [-> Px]], (mplain_rec_field _ _ _ Hb H2) as [y [-> Py]].
      cbn [mf_val absF absF_with f_val opt_eqb]. now rewrite IH.
Qed.

(* ---- well-formedness is preserved by abstraction *)
Lemma abs_wf_fuel : forall n v, mdepth v < n -> mwfb v = true -> wf (abs v) = true.
Proof.
  induction n as [|n IH]; intros v Hd Hw; [lia|].
  destruct v as [a|t x|es|fs|a b]; cbn [mwfb] in Hw.
  - reflexivity.
  - cbn [mdepth] in Hd. specialize (IH x ltac:(lia) Hw). unfold wf in *. cbn [abs depth wfD]. exact IH.
  - cbn [abs].
    assert (Hall : Forall plainT (map abs es)).
    { apply Forall_forall. intros d Hin. apply in_map_iff in Hin. destruct Hin as [e [<- He]].
      apply mplain_plainT. exact (forallb_In _ _ _ Hw He). }
    destruct (plainT_list _ Hall) as [m Hm]. apply (wfD_wf _ (S m)). exact Hm.
  - rewrite andb_true_iff in Hw. destruct Hw as [Hnd Hf]. apply nodupb_NoDup in Hnd.
    rewrite abs_rec. apply wf_rec_iff. split; [now apply sorted_abs_ssorted|].
    intros k g Hin. apply In_sorted_abs in Hin. destruct Hin as [f [Hin ->]].
    pose proof (forallb_In _ _ _ Hf Hin) as Pf. cbn [snd] in Pf.
    destruct f as [p o h cs [x|]]; unfold WFf; cbn [absF absF_with f_prio f_cs f_val mf_val] in *.
    + split; [apply pnorm_wf|split; [apply cs_norm_sorted|]].
      apply IH; [|assumption]. pose proof (mdepth_rec_In fs k _ x Hin eq_refl). lia.
    + split; [reflexivity|split; [apply cs_norm_sorted|reflexivity]].
  - rewrite andb_true_iff in Hw. destruct Hw as [Ha Hb]. cbn [mdepth] in Hd. cbn [abs].
    apply merge_wf; apply IH; (lia || assumption).
Qed.

Theorem abs_wf v : mwfb v = true -> wf (abs v) = true.
Proof. apply (abs_wf_fuel (S (mdepth v))). lia. Qed.

(* ---- the algebra's merge of two records, fuel-free *)
Lemma merge_rec_merge fs1 fs2 : wf (DRec fs1) = true -> wf (DRec fs2) = true ->
  merge (DRec fs1) (DRec fs2) = DRec (assoc_merge (mergeF merge) fs1 fs2).
Proof.
  intros H1 H2. set (n := Nat.max (depth (DRec fs1)) (depth (DRec fs2))).
  assert (K1 : wfD (S n) (DRec fs1) = true) by (apply wf_wfD; [assumption|unfold n; lia]).
  assert (K2 : wfD (S n) (DRec fs2) = true) by (apply wf_wfD; [assumption|unfold n; lia]).
  rewrite (merge_fuel (S n)) by assumption. cbn [mergeD_fuel]. unfold merge_assoc.
  apply wfD_rec in K1, K2. destruct K1 as [S1 A1], K2 as [S2 A2]. f_equal.
  apply (assoc_merge_ext _ _ (wfF n)); try assumption.
  intros f g Hf Hg. apply (mergeF_ext n); try assumption.
  intros x y Hx Hy. symmetry. now apply merge_fuel.
Qed.

Lemma merge_top_r x : merge x DTop = DTop.
Proof. unfold merge. destruct x; reflexivity. Qed.

Lemma merge_top_l x : merge DTop x = DTop.
Proof. unfold merge. destruct x; reflexivity. Qed.

Lemma merge_var t u x y : merge (DVar t x) (DVar u y) = if N.eqb t u then DVar t (merge x y) else DTop.
Proof. reflexivity. Qed.

Section Refine.
Variable ceq : cid -> cid -> bool.
Hypothesis ceq_sound : forall a b, ceq a b = true -> a = b.
Variable cl : nat -> nat -> bool.

Let mft := merge_fields_tot ceq.

Lemma mwfb_rec_field fs k f x : mwfb (MRec fs) = true -> In (k, f) fs -> mf_val f = Some x -> mwfb x = true.
Proof.
  cbn [mwfb]. rewrite andb_true_iff. intros [_ Hf] Hin Hv. pose proof (forallb_In _ _ _ Hf Hin) as P.
  cbn [snd] in P. now rewrite Hv in P.
Qed.

Lemma mwfb_rec_nodup fs : mwfb (MRec fs) = true -> NoDup (keys fs).
Proof. cbn [mwfb]. rewrite andb_true_iff. intros [H _]. now apply nodupb_NoDup. Qed.

(* the Record/Record arm *)
Lemma merge_records_refines m1 m2 : mwfb (MRec m1) = true -> mwfb (MRec m2) = true ->
  exists m, merge_records ceq cl m1 m2 = Ok m /\
            abs (MRec m) = merge (abs (MRec m1)) (abs (MRec m2)) /\
            mwfb (MRec m) = true /\
            mdepth (MRec m) <= S (Nat.max (mdepth (MRec m1)) (mdepth (MRec m2))).
Proof.
  intros W1 W2. pose proof (mwfb_rec_nodup _ W1) as N1. pose proof (mwfb_rec_nodup _ W2) as N2.
  destruct (merge_records_spec ceq ceq_sound cl m1 m2 N1 N2) as [m [E [Nm G]]].
  exists m. split; [exact E|]. split; [|split].
  - rewrite !abs_rec. rewrite merge_rec_merge by (rewrite <- abs_rec; now apply abs_wf). f_equal.
    apply ssorted_ext.
    + now apply sorted_abs_ssorted.
    + apply assoc_merge_sorted; now apply sorted_abs_ssorted.
    + intros k. rewrite assoc_merge_lookup by (now apply sorted_abs_ssorted).
      rewrite !lookup_sorted_abs by assumption. rewrite G. unfold merge_opt.
      destruct (im_get k m1) as [f1|], (im_get k m2) as [f2|]; cbn [option_map opt_merge]; try reflexivity.
      f_equal. apply (merge_fields_tot_abs ceq ceq_sound).
  - cbn [mwfb]. rewrite andb_true_iff. split; [now apply nodupb_NoDup|].
    apply forallb_forall. intros [k f] Hin. cbn [snd]. apply (im_get_In _ _ _ Nm) in Hin. rewrite G in Hin.
    destruct (mf_val f) as [x|] eqn:Hv; [|reflexivity]. unfold merge_opt in Hin.
    destruct (im_get k m1) as [f1|] eqn:E1, (im_get k m2) as [f2|] eqn:E2; try discriminate; injection Hin as <-.
    + apply (im_get_In _ _ _ N1) in E1. apply (im_get_In _ _ _ N2) in E2.
      pose proof (merge_fields_tot_val ceq f1 f2) as Hs. rewrite Hv in Hs.
      destruct Hs as [H|[H|[t1 [t2 [H1 [H2 ->]]]]]].
      * exact (mwfb_rec_field _ _ _ _ W1 E1 H).
      * exact (mwfb_rec_field _ _ _ _ W2 E2 H).
      * cbn [mwfb]. now rewrite (mwfb_rec_field _ _ _ _ W1 E1 H1), (mwfb_rec_field _ _ _ _ W2 E2 H2).
    + apply (im_get_In _ _ _ N1) in E1. exact (mwfb_rec_field _ _ _ _ W1 E1 Hv).
    + apply (im_get_In _ _ _ N2) in E2. exact (mwfb_rec_field _ _ _ _ W2 E2 Hv).
  - apply mdepth_rec_le. intros k f x Hin Hv. apply (im_get_In _ _ _ Nm) in Hin. rewrite G in Hin. unfold merge_opt in Hin.
    destruct (im_get k m1) as [f1|] eqn:E1, (im_get k m2) as [f2|] eqn:E2; try discriminate; injection Hin as <-.
    + apply (im_get_In _ _ _ N1) in E1. apply (im_get_In _ _ _ N2) in E2.
      pose proof (merge_fields_tot_val ceq f1 f2) as Hs. rewrite Hv in Hs.
      destruct Hs as [H|[H|[t1 [t2 [H1 [H2 ->]]]]]].
      * pose proof (mdepth_rec_In _ _ _ _ E1 H). lia.
      * pose proof (mdepth_rec_In _ _ _ _ E2 H). lia.
      * pose proof (mdepth_rec_In _ _ _ _ E1 H1). pose proof (mdepth_rec_In _ _ _ _ E2 H2).
        change (mdepth (MPending t1 t2)) with (S (Nat.max (mdepth t1) (mdepth t2))). lia.
    + apply (im_get_In _ _ _ N1) in E1. pose proof (mdepth_rec_In _ _ _ _ E1 Hv). lia.
    + apply (im_get_In _ _ _ N2) in E2. pose proof (mdepth_rec_In _ _ _ _ E2 Hv). lia.
Qed.

Lemma merge_arrays_refines l1 l2 : mwfb (MArr l1) = true -> mwfb (MArr l2) = true ->
  if data_eqb (S (Nat.max (mdepth (MArr l1)) (mdepth (MArr l2)))) (MArr l1) (MArr l2)
  then abs (MArr l2) = merge (abs (MArr l1)) (abs (MArr l2))
  else merge (abs (MArr l1)) (abs (MArr l2)) = DTop.
Proof.
  intros W1 W2. set (N := S (Nat.max (mdepth (MArr l1)) (mdepth (MArr l2)))).
  assert (P1 : mplainb (MArr l1) = true) by exact W1. assert (P2 : mplainb (MArr l2) = true) by exact W2.
  rewrite (data_eqb_abs N _ _ P1 P2).
  assert (Q1 : plainD N (abs (MArr l1)) = true) by (apply mplain_plainD; [assumption|unfold N; lia]).
  assert (Q2 : plainD N (abs (MArr l2)) = true) by (apply mplain_plainD; [assumption|unfold N; lia]).
  destruct (D_eqb N (abs (MArr l1)) (abs (MArr l2))) eqn:E.
  - apply (D_eqb_plain N _ _ Q1 Q2) in E. rewrite E. symmetry. apply merge_idem. now apply abs_wf.
  - assert (Hne : abs (MArr l1) <> abs (MArr l2)) by (intros Heq; apply (D_eqb_plain N _ _ Q1 Q2) in Heq; congruence).
    cbn [abs] in *. unfold merge. cbn [mergeD_fuel].
    set (n := S (Nat.max (depth (DArr (map abs l1))) (depth (DArr (map abs l2))))).
    assert (R1 : plainD n (DArr (map abs l1)) = true) by (apply (plainD_tight n N); [assumption|unfold n; lia]).
    assert (R2 : plainD n (DArr (map abs l2)) = true) by (apply (plainD_tight n N); [assumption|unfold n; lia]).
    destruct (D_eqb n (DArr (map abs l1)) (DArr (map abs l2))) eqn:E'; [|reflexivity].
    apply (D_eqb_plain n _ _ R1 R2) in E'. contradiction.
Qed.

Theorem mech_merge_refines a b :
  mwfb a = true -> mwfb b = true -> is_value a = true -> is_value b = true ->
  match mech_merge ceq cl a b with
  | Ok w => abs w = merge (abs a) (abs b) /\ mwfb w = true /\ is_value w = true /\
            mdepth w <= S (Nat.max (mdepth a) (mdepth b))
  | Err _ => merge (abs a) (abs b) = DTop
  | TypeErr | Panic => False
  end.
Proof.
  intros Wa Wb Va Vb.
  destruct a as [x|t x|l1|f1|a1 a2], b as [y|u y|l2|f2|b1 b2]; try discriminate; try reflexivity.
  - (* atoms *)
    cbn [mech_merge abs]. unfold merge. cbn [mergeD_fuel depth Nat.max].
    destruct (atom_eqb x y); [|reflexivity]. repeat split; cbn [mdepth]; lia.
  - (* variants *)
    cbn [mech_merge abs]. rewrite merge_var. destruct (N.eqb t u); [|reflexivity].
    cbn [abs mwfb is_value mdepth] in *. repeat split; [now rewrite Wa, Wb|lia].
  - (* arrays *)
    pose proof (merge_arrays_refines l1 l2 Wa Wb) as H. unfold mech_merge.
    destruct (data_eqb _ (MArr l1) (MArr l2)); [|exact H].
    repeat split; [exact H|exact Wb|lia].
  - (* records *)
    unfold mech_merge. destruct f2 as [|kf2 t2]; cbn [is_nil orb].
    + (* v2 is Container::Empty *)
      destruct f1 as [|kf1 t1]; cbn [is_nil].
      * split; [reflexivity|split; [reflexivity|split; [reflexivity|cbn [mdepth fold_right]; lia]]].
      * split; [|split; [assumption|split; [reflexivity|lia]]]. rewrite (abs_rec []). cbn [kmap map ksort fold_right].
        rewrite abs_rec. symmetry. apply merge_unit_r.
    + destruct f1 as [|kf1 t1]; cbn [is_nil].
      * split; [|split; [assumption|split; [reflexivity|lia]]]. rewrite (abs_rec []). cbn [kmap map ksort fold_right].
        rewrite abs_rec. symmetry. apply merge_unit_l.
      * destruct (merge_records_refines (kf1 :: t1) (kf2 :: t2) Wa Wb) as [m [-> [Habs [Hw Hd]]]].
        split; [assumption|split; [assumption|split; [reflexivity|assumption]]].
Qed.

Theorem whnf_refines v : mwfb v = true ->
  match whnf ceq cl v with
  | Ok w => abs w = abs v /\ mwfb w = true /\ is_value w = true /\ mdepth w <= mdepth v
  | Err _ => abs v = DTop
  | TypeErr | Panic => False
  end.
Proof.
  induction v as [x|t x _|es|fs|a IHa b IHb]; intros W; cbn [whnf]; try (repeat split; (assumption || reflexivity || lia)).
  cbn [mwfb] in W. rewrite andb_true_iff in W. destruct W as [Wa Wb].
  specialize (IHa Wa). specialize (IHb Wb). cbn [abs mdepth].
  destruct (whnf ceq cl a) as [a'| | |]; try contradiction.
  - destruct IHa as [Ea [Wa' [Va Da]]].
    destruct (whnf ceq cl b) as [b'| | |]; try contradiction.
    + destruct IHb as [Eb [Wb' [Vb Db]]].
      pose proof (mech_merge_refines a' b' Wa' Wb' Va Vb) as H.
      destruct (mech_merge ceq cl a' b') as [w| | |]; try contradiction.
      * destruct H as [Ew [Ww [Vw Dw]]]. rewrite Ew, Ea, Eb. repeat split; try assumption. lia.
      * now rewrite <- Ea, <- Eb.
    + rewrite IHb. apply merge_top_r.
  - rewrite IHa. apply merge_top_l.
Qed.

(* a value has no weak head normal form exactly when its tree is the pending conflict *)
Lemma abs_value_not_top w : is_value w = true -> abs w <> DTop.
Proof. destruct w; cbn [is_value abs]; discriminate. Qed.

Corollary whnf_err_iff v : mwfb v = true ->
  ((exists e, whnf ceq cl v = Err e) <-> abs v = DTop).
Proof.
  intros W. pose proof (whnf_refines v W) as H. destruct (whnf ceq cl v) as [w|e| |]; try contradiction.
  - destruct H as [E [_ [V _]]]. split; [intros [e He]; discriminate|]. intros Ht. exfalso.
    apply (abs_value_not_top w V). congruence.
  - split; [intros _; exact H|intros _; eauto].
Qed.
End Refine.
