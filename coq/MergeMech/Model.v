(* Mechanism-level model of record merging for DATA records (no recursive references).

   Mirrors, by reading (tied to the code by checks/mergemech.py):
     core/src/eval/merge.rs          merge, merge_fields, split::split_ref, RevertClosurize (identity
                                     on data), the Container::Empty fast path
     parser/src/ast/mod.rs           MergePriority (PartialEq::eq, Ord::cmp)
     core/src/term/mod.rs            RuntimeContract::combine_dedup
     core/src/term/record.rs         Field::is_empty_optional, RecordData::{field_names,
                                     iter_without_opts, iter_serializable, get_value_with_ctrs}
     core/src/eval/operation.rs      UnaryOp::{Force, RecordFields, RecordValues}
     core/src/serialize/mod.rs       serialize_record (sort_by_key)
     core/src/ast/compat.rs          record literal -> IndexMap in written order; piecewise
                                     definitions combined in the slot of the first one (merge_fields)
     core/stdlib/std.ncl             std.record.to_array; std.contract.Equal on arrays

   A record is an INSERTION-ORDERED association list (OrdMap.v).  The merge of two field values of
   equal priority is NOT computed by the merge: it is the suspended term [MPending v1 v2], evaluated
   by whoever forces the field ([whnf]).  Definitions only. *)
From Coq Require Import List ZArith QArith Bool.
Import ListNotations.
From NV Require Import Merge.Algebra MergeMech.OrdMap.
Close Scope Q_scope.
Open Scope bool_scope.

(* ---------------------------------------------------------------- MergePriority
   [sprio] of Algebra.v has exactly the four constructors of the Rust enum (Neutral distinct from
   Numeral 0). *)

(* impl PartialEq for MergePriority *)
Definition mp_eq (p1 p2 : sprio) : bool :=
  match p1, p2 with
  | SBot, SBot | SNeutral, SNeutral | STop, STop => true
  | SNum a, SNum b => Qeq_bool a b
  | SNeutral, SNum p | SNum p, SNeutral => Qeq_bool p 0%Q
  | _, _ => false
  end.

(* impl Ord for MergePriority *)
Definition mp_cmp (p1 p2 : sprio) : comparison :=
  match p1, p2 with
  | SBot, SBot | STop, STop | SNeutral, SNeutral => Eq
  | SNum a, SNum b => Qcompare a b
  | SBot, _ => Lt
  | _, STop => Lt
  | STop, _ => Gt
  | _, SBot => Gt
  | SNeutral, SNum n => Qcompare 0%Q n
  | SNum n, SNeutral => Qcompare n 0%Q
  end.

Definition mp_gt (p1 p2 : sprio) : bool := match mp_cmp p1 p2 with Gt => true | _ => false end.
Definition mp_lt (p1 p2 : sprio) : bool := match mp_cmp p1 p2 with Lt => true | _ => false end.

(* ---------------------------------------------------------------- values *)
Inductive mval : Type :=
| MAtom (a : atom)
| MVar (tag : N) (arg : mval)              (* enum variant with an argument (a thunk) *)
| MArr (es : list mval)
| MRec (fs : list (N * mfield))            (* [MRec []] is the inline empty record Container::Empty *)
| MPending (a b : mval)                    (* the unevaluated term [a & b] *)
with mfield : Type :=
| mkMF (p : sprio) (opt hid : bool) (cs : list cid) (v : option mval).

Definition mf_val (f : mfield) := let 'mkMF _ _ _ _ v := f in v.
Definition mf_opt (f : mfield) := let 'mkMF _ o _ _ _ := f in o.
Definition mf_hid (f : mfield) := let 'mkMF _ _ h _ _ := f in h.
Definition mf_cs (f : mfield) := let 'mkMF _ _ _ c _ := f in c.
Definition mf_prio (f : mfield) := let 'mkMF p _ _ _ _ := f in p.

Fixpoint mdepth (v : mval) : nat :=
  match v with
  | MAtom _ => 0
  | MVar _ a => S (mdepth a)
  | MArr es => S (fold_right (fun e m => Nat.max (mdepth e) m) 0 es)
  | MRec fs => S (fold_right (fun kf m => Nat.max (match snd kf with
                                                   | mkMF _ _ _ _ (Some x) => mdepth x
                                                   | _ => 0 end) m) 0 fs)
  | MPending a b => S (Nat.max (mdepth a) (mdepth b))
  end.

(* outcome of an evaluation step: a value, an evaluation error of the given kind, a primop type
   error, or a Rust panic *)
Inductive out (A : Type) : Type :=
| Ok (a : A)
| Err (e : errk)
| TypeErr
| Panic.
Arguments Ok {A} a.
Arguments Err {A} e.
Arguments TypeErr {A}.
Arguments Panic {A}.

(* ---------------------------------------------------------------- std.contract.Equal on data
   [a1 & a2] on arrays is [contract.Equal a1] applied to [a2].  Equal pushes itself lazily into
   arrays and records; every observer modelled here forces the whole value, so only its verdict is
   modelled: deep equality of data, records compared as maps (field sets equal, values equal),
   which is computed here on the key-sorted entries.  Anything that is not data (a suspended merge)
   is unequal to everything. *)
Fixpoint data_eqb (n : nat) (a b : mval) : bool :=
  match n with
  | 0 => match a, b with
         | MAtom x, MAtom y => atom_eqb x y
         | _, _ => false
         end
  | S n' =>
      match a, b with
      | MAtom x, MAtom y => atom_eqb x y
      | MVar t x, MVar u y => N.eqb t u && data_eqb n' x y
      | MArr l1, MArr l2 => list_eqb (data_eqb n') l1 l2
      | MRec f1, MRec f2 =>
          list_eqb (fun kf1 kf2 => N.eqb (fst kf1) (fst kf2) &&
                                   opt_eqb (data_eqb n') (mf_val (snd kf1)) (mf_val (snd kf2)))
                   (ksort f1) (ksort f2)
      | _, _ => false
      end
  end.

(* ---------------------------------------------------------------- error-kind sets
   What an export reports is the SET of error kinds present in what it forces (which one the
   interpreter meets first depends on its evaluation order), as in Algebra.v; here a bit vector. *)
Record eset : Type := mkE { e_nm : bool; e_md : bool; e_bl : bool; e_ne : bool; e_fuel : bool; e_panic : bool }.

Definition eempty : eset := mkE false false false false false false.
Definition epanic : eset := mkE false false false false false true.
Definition esingle (k : errk) : eset :=
  match k with
  | ENonMergeable => mkE true false false false false false
  | EMissingDef => mkE false true false false false false
  | EBlame => mkE false false true false false false
  | ENotExportable => mkE false false false true false false
  | EFuel => mkE false false false false true false
  end.
Definition eunion (a b : eset) : eset :=
  mkE (e_nm a || e_nm b) (e_md a || e_md b) (e_bl a || e_bl b) (e_ne a || e_ne b)
      (e_fuel a || e_fuel b) (e_panic a || e_panic b).
Definition eadd (k : errk) (s : eset) : eset := eunion (esingle k) s.
Definition eis_empty (s : eset) : bool :=
  negb (e_nm s || e_md s || e_bl s || e_ne s || e_fuel s || e_panic s).
(* a merge that fails when forced: NonMergeable (atoms, shapes) or a failed equality contract
   (arrays); reported as the pair, as Algebra.conflict_errs *)
Definition econflict : eset := eadd ENonMergeable (esingle EBlame).

Definition mres : Type := (J + eset)%type.

Definition is_none {X} (o : option X) : bool := match o with None => true | Some _ => false end.

(* Field::is_empty_optional *)
Definition is_empty_optional (f : mfield) : bool := is_none (mf_val f) && mf_opt f.

Section Mech.
(* contract identity, as decided by contract_eq (sound: see Refine.v for the hypothesis) *)
Variable ceq : cid -> cid -> bool.
(* which map [split_ref] clones, given the two lengths; the code: [m1.len() < m2.len()] *)
Variable clone_left : nat -> nat -> bool.

(* RuntimeContract::combine_dedup: the second list's entries that equal one of the FIRST list's
   entries are dropped *)
Definition combine_dedup (c1 c2 : list cid) : list cid :=
  c1 ++ filter (fun c2i => negb (existsb (fun c1i => ceq c1i c2i) c1)) c2.

(* merge_fields: the seven-arm (value1, value2) x priority match, in the order of the source *)
Definition merge_fields (f1 f2 : mfield) : out mfield :=
  let '(mkMF p1 o1 h1 c1 v1) := f1 in
  let '(mkMF p2 o2 h2 c2 v2) := f2 in
  let sel : option (option mval * sprio) :=
    match v1, v2 with
    | Some t1, Some t2 =>
        if mp_eq p1 p2 then Some (Some (MPending t1 t2), p1)          (* arm 1: fields_merge_closurize *)
        else if mp_gt p1 p2 then Some (Some t1, p1)                    (* arm 2 *)
        else if mp_gt p2 p1 then Some (Some t2, p2)                    (* arm 4 (arm 3 needs None) *)
        else None                                                      (* arm 7: unreachable!() *)
    | Some t1, None =>
        if mp_gt p1 p2 then Some (Some t1, p1)                         (* arm 2 *)
        else Some (Some t1, p1)                                        (* arm 3 *)
    | None, Some t2 =>
        if mp_gt p2 p1 then Some (Some t2, p2)                         (* arm 4 *)
        else Some (Some t2, p2)                                        (* arm 5 *)
    | None, None => Some (None, SNeutral)                              (* arm 6: Default::default() *)
    end in
  match sel with
  | None => Panic
  | Some (v, p) => Ok (mkMF p (o1 && o2) (h1 || h2) (combine_dedup c1 c2) v)
  end.

(* split::split_ref, the branch that clones m1 ([left]) and walks m2 *)
Definition split_clone_left {A B} (m1 : list (N * A)) (m2 : list (N * B))
  : list (N * A) * list (N * (A * B)) * list (N * B) :=
  fold_left (fun st kv2 =>
               let '(lft, center, rgt) := st in
               match swap_remove (fst kv2) lft with
               | Some (v1, lft') => (lft', im_insert (fst kv2) (v1, snd kv2) center, rgt)
               | None => (lft, center, im_insert (fst kv2) (snd kv2) rgt)
               end) m2 (m1, [], []).

(* ... and the branch that clones m2 ([right]) and walks m1 *)
Definition split_clone_right {A B} (m1 : list (N * A)) (m2 : list (N * B))
  : list (N * A) * list (N * (A * B)) * list (N * B) :=
  fold_left (fun st kv1 =>
               let '(lft, center, rgt) := st in
               match swap_remove (fst kv1) rgt with
               | Some (v2, rgt') => (lft, im_insert (fst kv1) (snd kv1, v2) center, rgt')
               | None => (im_insert (fst kv1) (snd kv1) lft, center, rgt)
               end) m1 ([], [], m2).

Definition split_ref {A B} (m1 : list (N * A)) (m2 : list (N * B)) :=
  if clone_left (length m1) (length m2) then split_clone_left m1 m2 else split_clone_right m1 m2.

(* the Record/Record arm of [merge]: m := left, then right, then the merged center *)
Definition merge_center (m : list (N * mfield)) (center : list (N * (mfield * mfield)))
  : out (list (N * mfield)) :=
  fold_left (fun acc kff =>
               match acc with
               | Ok m =>
                   match merge_fields (fst (snd kff)) (snd (snd kff)) with
                   | Ok f => Ok (im_insert (fst kff) f m)
                   | Err e => Err e
                   | TypeErr => TypeErr
                   | Panic => Panic
                   end
               | other => other
               end) center (Ok m).

Definition merge_records (m1 m2 : list (N * mfield)) : out (list (N * mfield)) :=
  let '(lft, center, rgt) := split_ref m1 m2 in
  merge_center (im_extend (im_extend [] lft) rgt) center.

(* [merge] on two evaluated operands *)
Definition mech_merge (v1 v2 : mval) : out mval :=
  match v1, v2 with
  | MPending _ _, _ | _, MPending _ _ => Panic        (* never called on unevaluated operands *)
  | MAtom a, MAtom b => if atom_eqb a b then Ok (MAtom a) else Err ENonMergeable
  | MVar t1 a1, MVar t2 a2 =>
      if N.eqb t1 t2 then Ok (MVar t1 (MPending a1 a2)) else Err ENonMergeable
  | MArr l1, MArr l2 =>
      if data_eqb (S (Nat.max (mdepth v1) (mdepth v2))) v1 v2 then Ok v2 else Err EBlame
  | MRec fs1, MRec fs2 =>
      if is_nil fs2 || is_nil fs1 then Ok (if is_nil fs1 then v2 else v1)   (* Container::Empty *)
      else match merge_records fs1 fs2 with
           | Ok m => Ok (MRec m)
           | Err e => Err e
           | TypeErr => TypeErr
           | Panic => Panic
           end
  | _, _ => Err ENonMergeable
  end.

(* evaluation to weak head normal form: only suspended merges have anything to do; the first
   operand is evaluated first *)
Fixpoint whnf (v : mval) : out mval :=
  match v with
  | MPending a b =>
      match whnf a with
      | Ok a' => match whnf b with
                 | Ok b' => mech_merge a' b'
                 | other => other
                 end
      | other => other
      end
  | _ => Ok v
  end.

(* ---------------------------------------------------------------- Force + serializer
   [ine] is Force's [ignore_not_exported] (true: eval_full_for_export, false: eval_full);
   [srt = true] is what serialize_record does (entries sorted by key), [srt = false] prints the
   forced record in map order (harness flag `order`). *)
Variable sat : cid -> J -> bool.

Definition field_export (ine : bool) (rec : mval -> mres) (f : mfield) : option mres :=
  let '(mkMF _ o h cs v) := f in
  if (is_none v && o) || (ine && h) then None            (* Force's filter *)
  else match v with
       | None => Some (inr (esingle EMissingDef))        (* map_values_closurize *)
       | Some x =>
           match rec x with
           | inl j => if forallb (fun c => sat c j) cs then Some (inl j) else Some (inr (esingle EBlame))
           | inr e => Some (inr (match cs with [] => e | _ => eadd EBlame e end))
           end
       end.

Definition entries (rs : list (N * option mres)) : list (N * J) :=
  kfm (fun _ r => match r with Some (inl j) => Some j | _ => None end) rs.

Definition errors (rs : list (N * option mres)) : eset :=
  fold_right (fun kr acc => match snd kr with Some (inr e) => eunion e acc | _ => acc end) eempty rs.

Definition has_err (rs : list (N * option mres)) : bool :=
  existsb (fun kr => match snd kr with Some (inr _) => true | _ => false end) rs.

(* the forced record if no field failed (serialize_record sorts it), else the kinds of the failures *)
Definition finish (srt : bool) (rs : list (N * option mres)) : mres :=
  if has_err rs then inr (errors rs)
  else inl (JObj (if srt then ksort (entries rs) else entries rs)).

Definition arr_finish (rs : list mres) : mres :=
  if existsb (fun r => match r with inr _ => true | _ => false end) rs
  then inr (fold_right (fun r acc => match r with inr e => eunion e acc | _ => acc end) eempty rs)
  else inl (JArr (flat_map (fun r => match r with inl j => [j] | _ => [] end) rs)).

Fixpoint mexport (ine srt : bool) (n : nat) (v : mval) : mres :=
  match n with
  | 0 => inr (esingle EFuel)
  | S n' =>
      match whnf v with
      | Panic | TypeErr => inr epanic
      | Err _ => inr econflict
      | Ok w =>
          match w with
          | MAtom a => inl (JAtom a)
          | MVar _ x =>
              (* the argument is forced, then the serializer rejects the variant *)
              match mexport ine srt n' x with
              | inl _ => inr (esingle ENotExportable)
              | inr e => inr (eadd ENotExportable e)
              end
          | MArr es => arr_finish (map (mexport ine srt n') es)
          | MRec fs => finish srt (kmap (field_export ine (mexport ine srt n')) fs)
          | MPending _ _ => inr epanic
          end
      end
  end.

Definition export_json (v : mval) : mres := mexport true true (S (mdepth v)) v.
(* what nkeval prints with flag `order` (export mode) and `full,order` *)
Definition export_ordered (v : mval) : mres := mexport true false (S (mdepth v)) v.
Definition full_ordered (v : mval) : mres := mexport false false (S (mdepth v)) v.

(* ---------------------------------------------------------------- order-exposing primitives *)
Definition lift_err {A B} (o : out A) : out B :=
  match o with Ok _ => Panic | Err e => Err e | TypeErr => TypeErr | Panic => Panic end.

(* RecordData::field_names: collect the identifiers, then sort them *)
Definition field_names (consider_all : bool) (fs : list (N * mfield)) : list N :=
  nsort (keys (filter (fun kf => consider_all || negb (is_empty_optional (snd kf))) fs)).

(* the same without the sort (Broken.v) *)
Definition field_names_nosort (consider_all : bool) (fs : list (N * mfield)) : list N :=
  keys (filter (fun kf => consider_all || negb (is_empty_optional (snd kf))) fs).

(* %record/fields% (consider_all = false), %record/fields_with_opts% (true) *)
Definition record_fields (consider_all : bool) (v : mval) : out (list N) :=
  match whnf v with
  | Ok (MRec fs) => Ok (field_names consider_all fs)
  | Ok _ => TypeErr
  | other => lift_err other
  end.

Definition record_fields_nosort (consider_all : bool) (v : mval) : out (list N) :=
  match whnf v with
  | Ok (MRec fs) => Ok (field_names_nosort consider_all fs)
  | Ok _ => TypeErr
  | other => lift_err other
  end.

(* a field value as handed out by the record: the value with its pending contracts, unevaluated *)
Definition lazyv : Type := (list cid * mval)%type.

(* RecordData::iter_without_opts, collected: the first field without definition that is not
   optional aborts with a missing-definition error *)
Definition iter_without_opts (fs : list (N * mfield)) : out (list (N * lazyv)) :=
  if existsb (fun kf => is_none (mf_val (snd kf)) && negb (mf_opt (snd kf))) fs then Err EMissingDef
  else Ok (kfm (fun _ f => match mf_val f with Some x => Some (mf_cs f, x) | None => None end) fs).

(* %record/values%: sorted by key *)
Definition record_values (v : mval) : out (list lazyv) :=
  match whnf v with
  | Ok (MRec fs) =>
      match iter_without_opts fs with
      | Ok vs => Ok (map snd (ksort vs))
      | other => lift_err other
      end
  | Ok _ => TypeErr
  | other => lift_err other
  end.

(* RecordData::get_value_with_ctrs, as used by a dynamic field access *)
Definition get_value_with_ctrs (k : N) (fs : list (N * mfield)) : out (option lazyv) :=
  match im_get k fs with
  | Some (mkMF _ false _ _ None) => Err EMissingDef
  | Some (mkMF _ _ _ cs (Some x)) => Ok (Some (cs, x))
  | _ => Ok None
  end.

(* std.record.to_array: fields |> map (fun f => {field = f, value = record."%{f}"}); the value
   component is the (lazy) outcome of the access *)
Definition record_to_array (v : mval) : out (list (N * out (option lazyv))) :=
  match whnf v with
  | Ok (MRec fs) => Ok (map (fun k => (k, get_value_with_ctrs k fs)) (field_names false fs))
  | Ok _ => TypeErr
  | other => lift_err other
  end.

(* ---------------------------------------------------------------- record literals
   core/src/ast/compat.rs: the static fields of a literal go into an IndexMap in written order; a
   second definition of a field is combined with the first IN THE FIRST ONE'S SLOT by the static
   [merge_fields]: same value/priority selection as the run-time one (arms in a slightly different
   order), contracts (annotations at this stage) concatenated without deduplication, and the merge
   of the two values left as a term. *)
Definition static_merge_fields (f1 f2 : mfield) : out mfield :=
  let '(mkMF p1 o1 h1 c1 v1) := f1 in
  let '(mkMF p2 o2 h2 c2 v2) := f2 in
  let sel : option (option mval * sprio) :=
    match v1, v2 with
    | Some t1, Some t2 =>
        if mp_eq p1 p2 then Some (Some (MPending t1 t2), p1)
        else if mp_gt p1 p2 then Some (Some t1, p1)
        else if mp_lt p1 p2 then Some (Some t2, p2)
        else None                                                      (* unreachable!() *)
    | Some t1, None => Some (Some t1, p1)
    | None, Some t2 => Some (Some t2, p2)
    | None, None => Some (None, SNeutral)
    end in
  match sel with
  | None => Panic
  | Some (v, p) => Ok (mkMF p (o1 && o2) (h1 || h2) (c1 ++ c2) v)
  end.

Definition insert_static_field (k : N) (f : mfield) (m : list (N * mfield)) : out (list (N * mfield)) :=
  match im_get k m with
  | Some prev =>
      match static_merge_fields prev f with
      | Ok g => Ok (im_insert k g m)
      | other => lift_err other
      end
  | None => Ok (im_insert k f m)
  end.

Definition out_bind {A B} (o : out A) (f : A -> out B) : out B :=
  match o with Ok a => f a | Err e => Err e | TypeErr => TypeErr | Panic => Panic end.

Fixpoint melab (e : expr) : out mval :=
  match e with
  | EAtom a => Ok (MAtom a)
  | EVar t a => out_bind (melab a) (fun x => Ok (MVar t x))
  | EArr es =>
      out_bind (fold_right (fun e acc => out_bind (melab e) (fun x => out_bind acc (fun l => Ok (x :: l))))
                           (Ok []) es)
               (fun l => Ok (MArr l))
  | ERec fs =>
      out_bind (fold_left (fun acc x =>
                             let '(k, p, o, h, cs, v) := x in
                             out_bind acc (fun m =>
                               out_bind (match v with
                                         | None => Ok None
                                         | Some ev => out_bind (melab ev) (fun y => Ok (Some y))
                                         end)
                                        (fun ov => insert_static_field k (mkMF p o h cs ov) m)))
                          fs (Ok []))
               (fun m => Ok (MRec m))
  | EMerge a b => out_bind (melab a) (fun x => out_bind (melab b) (fun y => Ok (MPending x y)))
  end.
End Mech.

(* ---------------------------------------------------------------- the instance that is run
   against the interpreter: contracts identified by number, [m1.len() < m2.len()] *)
Definition x_melab : expr -> out mval := melab.
Definition x_whnf : mval -> out mval := whnf N.eqb Nat.ltb.
Definition x_export_json (sat : cid -> J -> bool) : mval -> mres := export_json N.eqb Nat.ltb sat.
Definition x_export_ordered (sat : cid -> J -> bool) : mval -> mres := export_ordered N.eqb Nat.ltb sat.
Definition x_full_ordered (sat : cid -> J -> bool) : mval -> mres := full_ordered N.eqb Nat.ltb sat.
Definition x_record_fields : bool -> mval -> out (list N) := record_fields N.eqb Nat.ltb.
Definition x_record_values : mval -> out (list lazyv) := record_values N.eqb Nat.ltb.
Definition x_record_to_array : mval -> out (list (N * out (option lazyv))) := record_to_array N.eqb Nat.ltb.
