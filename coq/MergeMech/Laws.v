(* Corollaries: the laws of C05 and the order-independence of C15 on the mechanism model, from the
   refinement theorems and the laws of the algebra; whole pipeline from source expressions. *)
From Coq Require Import List ZArith QArith Bool Lia Permutation.
Import ListNotations.
From NV Require Import Merge.Algebra Merge.Sorted Merge.Prio Merge.CsSet Merge.AlgebraProofs Merge.Rules Merge.ElabWf.
From NV Require Import MergeMech.OrdMap MergeMech.OrdMapFacts MergeMech.Model MergeMech.Abs
  MergeMech.RefineFields MergeMech.RefineSplit MergeMech.Refine MergeMech.RefineExport MergeMech.Order
  MergeMech.ElabRefine.
Close Scope Q_scope.
Open Scope bool_scope.

Section Laws.
Variable ceq : cid -> cid -> bool.
Hypothesis ceq_sound : forall a b, ceq a b = true -> a = b.
Variable cl : nat -> nat -> bool.
Variable sat : cid -> J -> bool.

Let ex := export_json ceq cl sat.

Theorem export_comm a b : mwfb a = true -> mwfb b = true ->
  ex (MPending a b) = ex (MPending b a).
Proof. intros Ha Hb. exact (f_equal o_export (observe_comm ceq ceq_sound cl sat a b Ha Hb)). Qed.

Theorem export_assoc a b c : mwfb a = true -> mwfb b = true -> mwfb c = true ->
  ex (MPending (MPending a b) c) = ex (MPending a (MPending b c)).
Proof. intros Ha Hb Hc. exact (f_equal o_export (observe_assoc ceq ceq_sound cl sat a b c Ha Hb Hc)). Qed.

Theorem export_idem a : mwfb a = true -> ex (MPending a a) = ex a.
Proof. intros Ha. exact (f_equal o_export (observe_idem ceq ceq_sound cl sat a Ha)). Qed.

Theorem export_unit a fs : mwfb a = true -> abs a = DRec fs ->
  ex (MPending a (MRec [])) = ex a /\ ex (MPending (MRec []) a) = ex a.
Proof.
  intros Ha E. destruct (observe_unit ceq ceq_sound cl sat a fs Ha E) as [H1 H2].
  split; [exact (f_equal o_export H1)|exact (f_equal o_export H2)].
Qed.

(* from source expressions: what the extracted model runs *)
Theorem pipeline_export e : wfE e = true ->
  exists v, melab e = Ok v /\ mwfb v = true /\ ex v = canon (export sat (elab e)).
Proof.
  intros H. destruct (melab_refines e H) as [v [Ev [Av Wv]]]. exists v. split; [assumption|]. split; [assumption|].
  unfold ex. rewrite (export_refines sat ceq ceq_sound cl v Wv). now rewrite Av.
Qed.

Theorem pipeline_observe e : wfE e = true ->
  exists v, melab e = Ok v /\ observe ceq cl sat v = observe_spec sat (elab e).
Proof.
  intros H. destruct (melab_refines e H) as [v [Ev [Av Wv]]]. exists v. split; [assumption|].
  rewrite (observe_abs ceq cl sat v ceq_sound Wv). now rewrite Av.
Qed.

Lemma forallb_perm {X} (p : X -> bool) l l' : Permutation l l' -> forallb p l = true -> forallb p l' = true.
Proof.
  intros Hp H. apply forallb_forall. intros x Hx. rewrite forallb_forall in H. apply H.
  eapply Permutation_in; [apply Permutation_sym; eassumption|assumption].
Qed.

(* the written order of the fields of a literal (distinct names) is not observable *)
Theorem literal_order_unobservable fs fs' :
  Permutation fs fs' -> NoDup (map fkey fs) -> wfE (ERec fs) = true ->
  exists v v', melab (ERec fs) = Ok v /\ melab (ERec fs') = Ok v' /\
               observe ceq cl sat v = observe ceq cl sat v'.
Proof.
  intros Hp Hnd W. assert (W' : wfE (ERec fs') = true) by (cbn [wfE] in *; eapply forallb_perm; eassumption).
  destruct (pipeline_observe _ W) as [v [Ev Ov]], (pipeline_observe _ W') as [v' [Ev' Ov']].
  exists v, v'. split; [assumption|]. split; [assumption|].
  rewrite Ov, Ov'. now rewrite (elab_perm fs fs' Hp Hnd).
Qed.

(* the operands of a merge, in either order *)
Theorem operand_order_unobservable a b : wfE a = true -> wfE b = true ->
  exists v v', melab (EMerge a b) = Ok v /\ melab (EMerge b a) = Ok v' /\
               observe ceq cl sat v = observe ceq cl sat v'.
Proof.
  intros Wa Wb.
  assert (W1 : wfE (EMerge a b) = true) by (cbn [wfE]; now rewrite Wa, Wb).
  assert (W2 : wfE (EMerge b a) = true) by (cbn [wfE]; now rewrite Wa, Wb).
  destruct (pipeline_observe _ W1) as [v [Ev Ov]], (pipeline_observe _ W2) as [v' [Ev' Ov']].
  exists v, v'. split; [assumption|]. split; [assumption|].
  rewrite Ov, Ov'. now rewrite (elab_merge_comm a b Wa Wb).
Qed.
End Laws.

(* which map split_ref clones, and how far combine_dedup deduplicates, is not observable *)
Theorem clone_choice_unobservable ceq1 ceq2 cl1 cl2 sat v :
  (forall a b, ceq1 a b = true -> a = b) -> (forall a b, ceq2 a b = true -> a = b) -> mwfb v = true ->
  observe ceq1 cl1 sat v = observe ceq2 cl2 sat v.
Proof. intros H1 H2 W. now apply no_order_leak. Qed.

(* non-vacuity: a value built by merges of literals with priorities, optional and hidden fields,
   contracts, a nested record, an array; it is well formed, its two operand orders have different
   insertion orders, and the observations coincide *)
Definition ex_a : expr :=
  ERec [(1%N, SNeutral, false, false, [0%N], Some (EAtom (ANum 1%Z 1%positive)));
        (0%N, SBot, false, false, [], Some (ERec [(2%N, SNeutral, true, false, [], None);
                                                  (0%N, STop, false, true, [1%N; 0%N], Some (EAtom (AStr 1)))]));
        (3%N, SNum (1 # 2)%Q, false, false, [], Some (EArr [EAtom ANull; EArr []]))].
Definition ex_b : expr :=
  ERec [(4%N, SNeutral, false, false, [], Some (EAtom (ABool true)));
        (0%N, SNeutral, false, false, [], Some (ERec [(0%N, SNeutral, false, false, [], Some (EAtom (AStr 2)))]));
        (1%N, SNeutral, false, false, [], Some (EAtom (ANum 1%Z 1%positive)))].

Example ex_wf : wfE (EMerge ex_a ex_b) = true.
Proof. reflexivity. Qed.

Example ex_orders_differ :
  exists x y, melab (EMerge ex_a ex_b) = Ok x /\ melab (EMerge ex_b ex_a) = Ok y /\
              mwfb x = true /\ mwfb y = true /\
              out_map (fun w => match w with MRec fs => keys fs | _ => [] end) (whnf N.eqb Nat.ltb x) = Ok [3%N; 4%N; 1%N; 0%N] /\
              out_map (fun w => match w with MRec fs => keys fs | _ => [] end) (whnf N.eqb Nat.ltb y) = Ok [4%N; 3%N; 0%N; 1%N] /\
              record_fields N.eqb Nat.ltb false x = Ok [0%N; 1%N; 3%N; 4%N] /\
              record_fields N.eqb Nat.ltb false y = Ok [0%N; 1%N; 3%N; 4%N].
Proof. eexists. eexists. repeat split; vm_compute; reflexivity. Qed.
