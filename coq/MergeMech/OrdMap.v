(* Insertion-ordered maps (the model of indexmap::IndexMap as used by core/src/term/record.rs and
   core/src/eval/merge.rs): association lists in ITERATION order, keys unique.

   Mirrored operations (indexmap 2.x):
     get              first (only) entry with the key
     insert           replaces the value IN PLACE when the key is present, appends otherwise
     extend           insert of every pair, in the iteration order of the argument
     swap_remove      removes the entry and moves the LAST entry into its slot
   and the two sorts the record code applies before exposing an enumeration:
     ksort            Vec<(key, _)>::sort_by_key  (stable)       serialize_record, RecordValues
     nsort            Vec<key>::sort_by                          RecordData::field_names
   Definitions only; facts are in OrdMapFacts.v. *)
From Coq Require Import List NArith Bool.
Import ListNotations.

Section OrdMap.
Context {V : Type}.

Definition keys (l : list (N * V)) : list N := map fst l.

Fixpoint im_get (k : N) (l : list (N * V)) : option V :=
  match l with
  | [] => None
  | (k', v) :: t => if N.eqb k k' then Some v else im_get k t
  end.

Definition im_mem (k : N) (l : list (N * V)) : bool :=
  match im_get k l with Some _ => true | None => false end.

Fixpoint im_insert (k : N) (v : V) (l : list (N * V)) : list (N * V) :=
  match l with
  | [] => [(k, v)]
  | (k', v') :: t => if N.eqb k k' then (k, v) :: t else (k', v') :: im_insert k v t
  end.

Definition im_extend (m add : list (N * V)) : list (N * V) :=
  fold_left (fun acc kv => im_insert (fst kv) (snd kv) acc) add m.

(* [swap_remove]: [Some (value, map without the entry)]; the last entry takes the freed slot
   (nothing moves when the removed entry is the last one). *)
Fixpoint swap_remove (k : N) (l : list (N * V)) : option (V * list (N * V)) :=
  match l with
  | [] => None
  | (k', v) :: t =>
      if N.eqb k k' then
        Some (v, match t with
                 | [] => []
                 | x :: _ => last t x :: removelast t
                 end)
      else
        match swap_remove k t with
        | Some (x, t') => Some (x, (k', v) :: t')
        | None => None
        end
  end.

(* a deliberately wrong variant (used only by Broken.v): the freed slot is not refilled, the last
   entry is popped all the same *)
Fixpoint swap_remove_lossy (k : N) (l : list (N * V)) : option (V * list (N * V)) :=
  match l with
  | [] => None
  | (k', v) :: t =>
      if N.eqb k k' then Some (v, removelast t)
      else
        match swap_remove_lossy k t with
        | Some (x, t') => Some (x, (k', v) :: t')
        | None => None
        end
  end.

(* stable insertion sort by key *)
Fixpoint kinsert (k : N) (v : V) (l : list (N * V)) : list (N * V) :=
  match l with
  | [] => [(k, v)]
  | (k', v') :: t => if N.leb k k' then (k, v) :: l else (k', v') :: kinsert k v t
  end.

Definition ksort (l : list (N * V)) : list (N * V) :=
  fold_right (fun kv acc => kinsert (fst kv) (snd kv) acc) [] l.

(* key-preserving filter-map *)
Definition kfm {W} (g : N -> V -> option W) (l : list (N * V)) : list (N * W) :=
  flat_map (fun kv => match g (fst kv) (snd kv) with Some w => [(fst kv, w)] | None => [] end) l.

Definition kmap {W} (g : V -> W) (l : list (N * V)) : list (N * W) :=
  map (fun kv => (fst kv, g (snd kv))) l.
End OrdMap.

Fixpoint ninsert (k : N) (l : list N) : list N :=
  match l with
  | [] => [k]
  | k' :: t => if N.leb k k' then k :: l else k' :: ninsert k t
  end.

Definition nsort (l : list N) : list N := fold_right ninsert [] l.

Definition is_nil {X} (l : list X) : bool := match l with [] => true | _ => false end.
