(* Field-level refinement: MergePriority (eq / cmp consistent, the unreachable!() arm of
   merge_fields is unreachable), combine_dedup vs set union, merge_fields vs the algebra's mergeF. *)
From Coq Require Import List ZArith QArith Bool Lia.
Import ListNotations.
From NV Require Import Merge.Algebra Merge.Sorted Merge.Prio Merge.CsSet Merge.AlgebraProofs.
From NV Require Import MergeMech.OrdMap MergeMech.Model MergeMech.Abs.
Close Scope Q_scope.
Open Scope bool_scope.

(* ---- MergePriority *)
Lemma mp_cmp_src p q : mp_cmp p q = pcmp_src p q.
Proof. destruct p, q; reflexivity. Qed.

Lemma mp_cmp_pnorm p q : pcmp (pnorm p) (pnorm q) = mp_cmp p q.
Proof. rewrite mp_cmp_src. apply pnorm_cmp. Qed.

Lemma mp_cmp_opp p q : mp_cmp q p = CompOpp (mp_cmp p q).
Proof. rewrite <- !mp_cmp_pnorm. apply pcmp_opp. Qed.

Lemma Qeq_bool_cmp a b : Qeq_bool a b = true <-> Qcompare a b = Eq.
Proof. rewrite Qeq_bool_iff. apply Qeq_alt. Qed.

(* PartialEq::eq and Ord::cmp agree *)
Lemma mp_eq_cmp p q : mp_eq p q = true <-> mp_cmp p q = Eq.
Proof.
  destruct p as [| |a|], q as [| |b|]; cbn [mp_eq mp_cmp]; try (split; (reflexivity || discriminate)).
  - rewrite Qeq_bool_cmp. rewrite <- !Qeq_alt. split; intros H; now symmetry.
  - apply Qeq_bool_cmp.
  - apply Qeq_bool_cmp.
Qed.

Lemma mp_eq_pnorm p q : mp_eq p q = true -> pnorm p = pnorm q.
Proof.
  intros H. apply mp_eq_cmp in H. rewrite <- mp_cmp_pnorm in H.
  apply pcmp_eq; [apply pnorm_wf|apply pnorm_wf|assumption].
Qed.

(* the guard of the last arm of merge_fields' match can never hold: the three comparisons the code
   makes cover every pair of priorities *)
Theorem mp_trichotomy p q : mp_eq p q = false -> mp_gt p q = false -> mp_gt q p = true.
Proof.
  intros He Hg. unfold mp_gt in *. rewrite (mp_cmp_opp p q).
  destruct (mp_cmp p q) eqn:E; cbn [CompOpp]; try reflexivity; try discriminate.
  apply mp_eq_cmp in E. congruence.
Qed.

Lemma mp_lt_gt p q : mp_lt p q = mp_gt q p.
Proof. unfold mp_lt, mp_gt. rewrite (mp_cmp_opp p q). destruct (mp_cmp p q); reflexivity. Qed.

Lemma peqb_pnorm p q : peqb (pnorm p) (pnorm q) = mp_eq p q.
Proof.
  unfold peqb. rewrite mp_cmp_pnorm. destruct (mp_eq p q) eqn:E.
  - apply mp_eq_cmp in E. now rewrite E.
  - destruct (mp_cmp p q) eqn:C; try reflexivity. apply mp_eq_cmp in C. congruence.
Qed.

Lemma pltb_pnorm p q : pltb (pnorm q) (pnorm p) = mp_gt p q.
Proof. unfold pltb, mp_gt. rewrite mp_cmp_pnorm, (mp_cmp_opp p q). destruct (mp_cmp p q); reflexivity. Qed.

(* ---- contracts *)
Section Ctr.
Variable ceq : cid -> cid -> bool.
Hypothesis ceq_sound : forall a b, ceq a b = true -> a = b.

Lemma combine_dedup_In c1 c2 x : In x (combine_dedup ceq c1 c2) <-> In x c1 \/ In x c2.
Proof.
  unfold combine_dedup. rewrite in_app_iff, filter_In. split.
  - intros [H|[H _]]; auto.
  - intros [H|H]; [now left|].
    destruct (existsb (fun c1i => ceq c1i x) c1) eqn:E.
    + left. apply existsb_exists in E. destruct E as [y [Hy Hc]]. apply ceq_sound in Hc. now subst.
    + right. split; [assumption|reflexivity].
Qed.

Lemma cs_norm_combine c1 c2 : cs_norm (combine_dedup ceq c1 c2) = cs_union (cs_norm c1) (cs_norm c2).
Proof.
  apply csorted_ext; [apply cs_norm_sorted|apply cs_union_sorted; apply cs_norm_sorted|].
  intros x. rewrite cs_norm_In, combine_dedup_In, cs_union_In, !cs_norm_In. tauto.
Qed.
End Ctr.

Lemma cs_norm_app c1 c2 : cs_norm (c1 ++ c2) = cs_union (cs_norm c1) (cs_norm c2).
Proof.
  apply csorted_ext; [apply cs_norm_sorted|apply cs_union_sorted; apply cs_norm_sorted|].
  intros x. rewrite cs_norm_In, in_app_iff, cs_union_In, !cs_norm_In. tauto.
Qed.

Lemma cs_norm_nil_iff cs : cs_norm cs = [] <-> cs = [].
Proof.
  split; [|intros ->; reflexivity]. intros H. destruct cs as [|c t]; [reflexivity|].
  exfalso. assert (Hin : In c (cs_norm (c :: t))) by (apply cs_norm_In; now left). rewrite H in Hin. exact Hin.
Qed.

(* ---- merge_fields *)
Section Fields.
Variable ceq : cid -> cid -> bool.
Hypothesis ceq_sound : forall a b, ceq a b = true -> a = b.

(* the value / priority selection shared by the run-time and the static merge_fields *)
Lemma select_refines p1 p2 (t1 t2 : mval) :
  (if mp_eq p1 p2 then Some (Some (MPending t1 t2), p1)
   else if mp_gt p1 p2 then Some (Some t1, p1)
   else if mp_gt p2 p1 then Some (Some t2, p2) else None) =
  Some (if mp_eq p1 p2 then (Some (MPending t1 t2), p1)
        else if mp_gt p1 p2 then (Some t1, p1) else (Some t2, p2)).
Proof.
  destruct (mp_eq p1 p2) eqn:E; [reflexivity|]. destruct (mp_gt p1 p2) eqn:G; [reflexivity|].
  now rewrite (mp_trichotomy _ _ E G).
Qed.

Theorem merge_fields_refines f1 f2 :
  exists g, merge_fields ceq f1 f2 = Ok g /\ absF g = mergeF merge (absF f1) (absF f2).
Proof.
  destruct f1 as [p1 o1 h1 c1 v1], f2 as [p2 o2 h2 c2 v2]. unfold merge_fields.
  destruct v1 as [t1|], v2 as [t2|].
  - rewrite select_refines. unfold absF. cbn [absF_with mergeF].
    rewrite peqb_pnorm, pltb_pnorm.
    destruct (mp_eq p1 p2) eqn:E.
    + eexists. split; [reflexivity|]. cbn [absF_with abs]. now rewrite cs_norm_combine.
    + destruct (mp_gt p1 p2) eqn:G; eexists; (split; [reflexivity|]); cbn [absF_with]; now rewrite cs_norm_combine.
  - destruct (mp_gt p1 p2); eexists; (split; [reflexivity|]); unfold absF; cbn [absF_with mergeF]; now rewrite cs_norm_combine.
  - destruct (mp_gt p2 p1); eexists; (split; [reflexivity|]); unfold absF; cbn [absF_with mergeF]; now rewrite cs_norm_combine.
  - eexists. split; [reflexivity|]. unfold absF. cbn [absF_with mergeF]. now rewrite cs_norm_combine.
Qed.

(* the total function behind [merge_fields] *)
Definition merge_fields_tot (f1 f2 : mfield) : mfield :=
  match merge_fields ceq f1 f2 with Ok g => g | _ => f1 end.

Lemma merge_fields_tot_ok f1 f2 : merge_fields ceq f1 f2 = Ok (merge_fields_tot f1 f2).
Proof. unfold merge_fields_tot. destruct (merge_fields_refines f1 f2) as [g [-> _]]. reflexivity. Qed.

Lemma merge_fields_tot_abs f1 f2 : absF (merge_fields_tot f1 f2) = mergeF merge (absF f1) (absF f2).
Proof. unfold merge_fields_tot. destruct (merge_fields_refines f1 f2) as [g [-> H]]. exact H. Qed.

(* shape of the merged field: its value is one of the operands' or their suspended merge *)
Lemma merge_fields_tot_val f1 f2 :
  match mf_val (merge_fields_tot f1 f2) with
  | None => mf_val f1 = None /\ mf_val f2 = None
  | Some x => mf_val f1 = Some x \/ mf_val f2 = Some x \/
              exists t1 t2, mf_val f1 = Some t1 /\ mf_val f2 = Some t2 /\ x = MPending t1 t2
  end.
Proof.
  unfold merge_fields_tot. destruct f1 as [p1 o1 h1 c1 v1], f2 as [p2 o2 h2 c2 v2]. unfold merge_fields.
  destruct v1 as [t1|], v2 as [t2|]; cbn [mf_val].
  - rewrite select_refines. destruct (mp_eq p1 p2); [|destruct (mp_gt p1 p2)]; cbn [mf_val]; eauto 8.
  - destruct (mp_gt p1 p2); cbn [mf_val]; auto.
  - destruct (mp_gt p2 p1); cbn [mf_val]; auto.
  - auto.
Qed.
End Fields.

(* the static merge_fields of a record literal (contracts concatenated) *)
Theorem static_merge_fields_refines f1 f2 :
  exists g, static_merge_fields f1 f2 = Ok g /\ absF g = mergeF merge (absF f1) (absF f2) /\
            match mf_val g with
            | None => mf_val f1 = None /\ mf_val f2 = None
            | Some x => mf_val f1 = Some x \/ mf_val f2 = Some x \/
                        exists t1 t2, mf_val f1 = Some t1 /\ mf_val f2 = Some t2 /\ x = MPending t1 t2
            end.
Proof.
  destruct f1 as [p1 o1 h1 c1 v1], f2 as [p2 o2 h2 c2 v2]. unfold static_merge_fields.
  destruct v1 as [t1|], v2 as [t2|].
  - rewrite mp_lt_gt, select_refines. unfold absF. cbn [absF_with mergeF].
    rewrite peqb_pnorm, pltb_pnorm.
    destruct (mp_eq p1 p2) eqn:E.
    + eexists. split; [reflexivity|]. cbn [absF_with abs mf_val]. rewrite cs_norm_app. split; [reflexivity|eauto 8].
    + destruct (mp_gt p1 p2) eqn:G; eexists; (split; [reflexivity|]); cbn [absF_with mf_val]; rewrite cs_norm_app; auto.
  - eexists. split; [reflexivity|]. unfold absF. cbn [absF_with mergeF mf_val]. rewrite cs_norm_app. auto.
  - eexists. split; [reflexivity|]. unfold absF. cbn [absF_with mergeF mf_val]. rewrite cs_norm_app. auto.
  - eexists. split; [reflexivity|]. unfold absF. cbn [absF_with mergeF mf_val]. rewrite cs_norm_app. auto.
Qed.
