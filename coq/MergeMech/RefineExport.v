(* export_refines: what Force + the sorting serializer produce from a mechanism value is the
   algebra's export of its abstraction (same tree / same set of error kinds). *)
From Coq Require Import List ZArith QArith Bool Lia Permutation Btauto.
Import ListNotations.
From NV Require Import Merge.Algebra Merge.Sorted Merge.Prio Merge.CsSet Merge.AlgebraProofs Merge.Rules Merge.Contracts Merge.ElabWf.
From NV Require Import MergeMech.OrdMap MergeMech.OrdMapFacts MergeMech.Model MergeMech.Abs
  MergeMech.RefineFields MergeMech.RefineSplit MergeMech.Refine.
Close Scope Q_scope.
Open Scope bool_scope.

(* ---- error-kind sets *)
Ltac esolve := repeat match goal with s : eset |- _ => destruct s end;
               repeat match goal with k : errk |- _ => destruct k end;
               cbv [eunion eadd esingle eempty e_nm e_md e_bl e_ne e_fuel e_panic]; f_equal; btauto.

Lemma eunion_comm a b : eunion a b = eunion b a. Proof. esolve. Qed.
Lemma eunion_assoc a b c : eunion (eunion a b) c = eunion a (eunion b c). Proof. esolve. Qed.
Lemma eunion_idem a : eunion a a = a. Proof. esolve. Qed.
Lemma eunion_empty_r a : eunion a eempty = a. Proof. esolve. Qed.
Lemma eunion_empty_l a : eunion eempty a = a. Proof. esolve. Qed.
Lemma eunion_swap a b c : eunion a (eunion b c) = eunion b (eunion a c). Proof. esolve. Qed.
Lemma eadd_eunion k a b : eadd k (eunion a b) = eunion (eadd k a) b. Proof. esolve. Qed.
Lemma eadd_idem k s : eadd k (eadd k s) = eadd k s. Proof. esolve. Qed.
Lemma eadd_swap k k' s : eadd k (eadd k' s) = eadd k' (eadd k s). Proof. esolve. Qed.

Lemma errk_eqb_eq a b : errk_eqb a b = true -> a = b.
Proof. destruct a, b; (reflexivity || discriminate). Qed.

Lemma eadd_mem k l : existsb (errk_eqb k) l = true -> eadd k (eset_of l) = eset_of l.
Proof.
  induction l as [|a t IH]; cbn [existsb eset_of fold_right]; [discriminate|].
  change (fold_right eadd eempty t) with (eset_of t).
  destruct (errk_eqb k a) eqn:E; cbn [orb].
  - intros _. apply errk_eqb_eq in E. subst. apply eadd_idem.
  - intros H. rewrite eadd_swap, (IH H). reflexivity.
Qed.

Lemma eset_of_add k l : eset_of (add_err k l) = eadd k (eset_of l).
Proof.
  unfold add_err. destruct (existsb (errk_eqb k) l) eqn:E; [|reflexivity]. symmetry. now apply eadd_mem.
Qed.

Lemma eset_of_union l1 l2 : eset_of (union_err l1 l2) = eunion (eset_of l1) (eset_of l2).
Proof.
  unfold union_err. induction l1 as [|a t IH]; cbn [fold_right eset_of].
  - now rewrite eunion_empty_l.
  - rewrite eset_of_add, IH. change (fold_right eadd eempty t) with (eset_of t). apply eadd_eunion.
Qed.

(* ---- depth of trees, export does not depend on its fuel *)
Definition fdepthD (kf : N * F) : nat := match snd kf with mkF _ _ _ _ (Some v) => depth v | _ => 0 end.

Lemma depth_arr_In es e : In e es -> depth e < depth (DArr es).
Proof. intros H. cbn [depth]. pose proof (fold_max_le depth es e H). lia. Qed.

Lemma depth_rec_In fs k f v : In (k, f) fs -> f_val f = Some v -> depth v < depth (DRec fs).
Proof.
  intros H Hv. cbn [depth]. pose proof (fold_max_le fdepthD fs (k, f) H) as Hm.
  unfold fdepthD at 1 in Hm. cbn [snd] in Hm. destruct f as [p o h cs w]. cbn [f_val] in Hv. subst w.
  unfold fdepthD in Hm. lia.
Qed.

Lemma fold_right_ext_in {X Y} (f g : X -> Y -> Y) (a : Y) l :
  (forall x acc, In x l -> f x acc = g x acc) -> fold_right f a l = fold_right g a l.
Proof.
  induction l as [|x t IH]; cbn [fold_right]; intros H; [reflexivity|].
  rewrite IH by (intros y acc Hy; apply H; now right). apply H. now left.
Qed.

Section Export.
Variable sat : cid -> J -> bool.

Lemma exportD_stable : forall n m d, depth d < n -> depth d < m -> exportD sat n d = exportD sat m d.
Proof.
  induction n as [|n IH]; intros m d Hn Hm; [lia|]. destruct m as [|m]; [lia|].
  destruct d as [a|t x|es| |fs].
  - reflexivity.
  - cbn [exportD]. cbn [depth] in Hn, Hm. now rewrite (IH m x) by lia.
  - cbn [exportD]. apply fold_right_ext_in. intros e acc He. pose proof (depth_arr_In es e He).
    now rewrite (IH m e) by lia.
  - reflexivity.
  - rewrite !export_rec. apply fold_right_ext_in. intros [k f] acc Hin. cbn [fst snd]. f_equal.
    destruct f as [p o h cs [v|]]; cbn [field_result]; [|reflexivity].
    pose proof (depth_rec_In fs k _ v Hin eq_refl). now rewrite (IH m v) by lia.
Qed.

Lemma exportD_export n d : depth d < n -> exportD sat n d = export sat d.
Proof. intros H. unfold export. apply exportD_stable; lia. Qed.

Lemma export_var t a :
  export sat (DVar t a) =
  match export sat a with
  | inl _ => inr [ENotExportable]
  | inr e => inr (add_err ENotExportable e)
  end.
Proof. reflexivity. Qed.

(* ---- the algebra's folds, in "collect the results, then finish" form *)
Lemma has_err_false_errors rs : has_err rs = false -> errors rs = eempty.
Proof.
  unfold has_err, errors. induction rs as [|[k r] t IH]; cbn [existsb fold_right snd]; [reflexivity|].
  destruct r as [[j|e]|]; cbn [orb]; try discriminate; assumption.
Qed.

Lemma rec_fold_finish (r : N * F -> option res) (l : list (N * F)) :
  canon (fold_right (fun kf acc => combine (fst kf) (r kf) acc) (inl (JObj [])) l) =
  finish false (map (fun kf => (fst kf, option_map canon (r kf))) l).
Proof.
  set (rs := fun l => map (fun kf => (fst kf, option_map canon (r kf))) l).
  set (F := fun l => fold_right (fun kf acc => combine (fst kf) (r kf) acc) (inl (JObj [])) l).
  assert (G : (has_err (rs l) = false -> F l = inl (JObj (entries (rs l)))) /\
              (has_err (rs l) = true -> exists es, F l = inr es /\ eset_of es = errors (rs l))).
  { induction l as [|kf t IH]; [split; [reflexivity|discriminate]|].
    destruct IH as [IH0 IH1]. unfold rs, F. cbn [map fold_right]. fold (rs t). fold (F t).
    unfold has_err, entries, errors. cbn [existsb fold_right snd]. rewrite kfm_cons.
    fold (has_err (rs t)). fold (entries (rs t)). fold (errors (rs t)).
    destruct (r kf) as [[j|e1]|]; cbn [option_map canon combine orb].
    - split.
      + intros H. now rewrite (IH0 H).
      + intros H. destruct (IH1 H) as [es [-> Hes]]. eauto.
    - split; [discriminate|]. intros _. destruct (has_err (rs t)) eqn:Ht.
      + destruct (IH1 eq_refl) as [es [-> Hes]]. eexists. split; [reflexivity|]. now rewrite eset_of_union, Hes.
      + rewrite (IH0 eq_refl). eexists. split; [reflexivity|].
        now rewrite (has_err_false_errors _ Ht), eunion_empty_r.
    - split; assumption. }
  destruct G as [G0 G1]. fold (F l). fold (rs l). unfold finish.
  destruct (has_err (rs l)) eqn:H.
  - destruct (G1 eq_refl) as [es [-> Hes]]. cbn [canon]. now rewrite Hes.
  - now rewrite (G0 eq_refl).
Qed.

Definition arr_step (n : nat) (e : D) (acc : res) : res :=
  match exportD sat n e, acc with
  | inl j, inl (JArr js) => inl (JArr (j :: js))
  | inl _, inl _ => inr [EFuel]
  | inl _, inr er => inr er
  | inr e1, inl _ => inr e1
  | inr e1, inr e2 => inr (union_err e1 e2)
  end.

Lemma exportD_arr n es : exportD sat (S n) (DArr es) = fold_right (arr_step n) (inl (JArr [])) es.
Proof. reflexivity. Qed.

Lemma arr_fold_finish n (l : list D) :
  canon (fold_right (arr_step n) (inl (JArr [])) l) = arr_finish (map (fun e => canon (exportD sat n e)) l).
Proof.
  set (rs := fun l => map (fun e => canon (exportD sat n e)) l).
  set (F := fun l => fold_right (arr_step n) (inl (JArr [])) l).
  set (he := fun (l : list mres) => existsb (fun r => match r with inr _ => true | _ => false end) l).
  set (er := fun (l : list mres) => fold_right (fun r acc => match r with inr e => eunion e acc | _ => acc end) eempty l).
  set (en := fun (l : list mres) => flat_map (fun r => match r with inl j => [j] | _ => [] end) l).
  assert (Z : forall l, he l = false -> er l = eempty).
  { induction l0 as [|[j|e] t IH]; cbn; auto. discriminate. }
  assert (G : (he (rs l) = false -> F l = inl (JArr (en (rs l)))) /\
              (he (rs l) = true -> exists es, F l = inr es /\ eset_of es = er (rs l))).
  { induction l as [|d t IH]; [split; [reflexivity|discriminate]|].
    destruct IH as [IH0 IH1]. unfold rs, F. cbn [map fold_right]. fold (rs t). fold (F t).
    unfold he, er, en. cbn [existsb fold_right flat_map]. fold (he (rs t)). fold (er (rs t)). fold (en (rs t)).
    unfold arr_step. cbv beta. destruct (exportD sat n d) as [j|e1]; cbn [canon orb app].
    - split.
      + intros H. now rewrite (IH0 H).
      + intros H. destruct (IH1 H) as [es [-> Hes]]. eexists. split; [reflexivity|exact Hes].
    - split; [discriminate|]. intros _. destruct (he (rs t)) eqn:Ht.
      + destruct (IH1 eq_refl) as [es [-> Hes]]. eexists. split; [reflexivity|]. now rewrite eset_of_union, Hes.
      + rewrite (IH0 eq_refl). eexists. split; [reflexivity|]. now rewrite (Z _ Ht), eunion_empty_r. }
  destruct G as [G0 G1]. fold (F l). fold (rs l). unfold arr_finish. fold (he (rs l)). fold (er (rs l)). fold (en (rs l)).
  destruct (he (rs l)) eqn:H.
  - destruct (G1 eq_refl) as [es [-> Hes]]. cbn [canon]. now rewrite Hes.
  - now rewrite (G0 eq_refl).
Qed.

(* ---- the sort of serialize_record, moved to the front *)
Lemma existsb_perm {X} (p : X -> bool) l l' : Permutation l l' -> existsb p l = existsb p l'.
Proof.
  induction 1 as [|x l l' _ IH|x y l|l l' l'' _ IH1 _ IH2]; cbn [existsb].
  - reflexivity.
  - now rewrite IH.
  - destruct (p x), (p y); reflexivity.
  - congruence.
Qed.

Lemma errors_perm rs rs' : Permutation rs rs' -> errors rs = errors rs'.
Proof.
  unfold errors. induction 1 as [|x l l' _ IH|x y l|l l' l'' _ IH1 _ IH2]; cbn [fold_right].
  - reflexivity.
  - now rewrite IH.
  - destruct x as [kx [[?|e1]|]], y as [ky [[?|e2]|]]; cbn [snd]; try reflexivity. apply eunion_swap.
  - congruence.
Qed.

Lemma finish_sorted rs : finish true rs = finish false (ksort rs).
Proof.
  unfold finish. unfold has_err. rewrite (existsb_perm _ _ _ (ksort_perm rs)).
  rewrite (errors_perm _ _ (ksort_perm rs)). unfold entries. now rewrite ksort_kfm.
Qed.

(* ---- plain data is well formed *)
Lemma mplain_mwf_fuel : forall n v, mdepth v < n -> mplainb v = true -> mwfb v = true.
Proof.
  induction n as [|n IH]; intros v Hd Hp; [lia|].
  destruct v as [a|t x|es|fs|a b]; cbn [mplainb] in Hp; cbn [mwfb]; try discriminate.
  - reflexivity.
  - cbn [mdepth] in Hd. apply IH; [lia|assumption].
  - assumption.
  - rewrite andb_true_iff in *. destruct Hp as [Hnd Hf]. split; [assumption|].
    apply forallb_forall. intros [k f] Hin. cbn [snd]. pose proof (forallb_In _ _ _ Hf Hin) as P. cbn [snd] in P.
    apply mplain_field_inv in P. destruct P as [x [-> Px]]. cbn [mf_val].
    apply IH; [|assumption]. pose proof (mdepth_rec_In fs k _ x Hin eq_refl). lia.
Qed.

Lemma mplain_mwf v : mplainb v = true -> mwfb v = true.
Proof. apply (mplain_mwf_fuel (S (mdepth v))). lia. Qed.

Section Mech.
Variable ceq : cid -> cid -> bool.
Hypothesis ceq_sound : forall a b, ceq a b = true -> a = b.
Variable cl : nat -> nat -> bool.

(* one field: Force's filter, missing definitions, contracts checked on the exported value *)
Lemma field_export_refines n0 (rec : mval -> mres) (f : mfield) :
  (forall x, mf_val f = Some x -> rec x = canon (exportD sat n0 (abs x))) ->
  field_export sat true rec f = option_map canon (field_result sat n0 (absF f)).
Proof.
  destruct f as [p o h cs [x|]]; intros H; cbn [field_export absF absF_with field_result is_none andb orb].
  - destruct h; [reflexivity|]. rewrite (H x eq_refl).
    destruct (exportD sat n0 (abs x)) as [j|e]; cbn [canon option_map].
    + rewrite (forallb_same (fun c => sat c j) cs (cs_norm cs)) by (intros c; symmetry; apply cs_norm_In).
      destruct (forallb (fun c => sat c j) (cs_norm cs)); reflexivity.
    + destruct cs as [|c t].
      * reflexivity.
      * destruct (cs_norm (c :: t)) eqn:E; [apply (proj1 (cs_norm_nil_iff _)) in E; discriminate|].
        cbn [canon option_map]. now rewrite eset_of_add.
  - destruct o, h; reflexivity.
Qed.

Theorem export_refines_fuel : forall n v, mwfb v = true -> mdepth v < n ->
  mexport ceq cl sat true true n v = canon (export sat (abs v)).
Proof.
  induction n as [|n IH]; intros v W Hd; [lia|]. cbn [mexport].
  pose proof (whnf_refines ceq ceq_sound cl v W) as R.
  destruct (whnf ceq cl v) as [w|e| |]; try contradiction.
  2:{ rewrite R. reflexivity. }
  destruct R as [Ew [Ww [Vw Dw]]]. rewrite <- Ew.
  destruct w as [a|t x|es|fs|a b]; try discriminate.
  - reflexivity.
  - cbn [mdepth mwfb] in *. rewrite (IH x Ww) by lia. cbn [abs].
    rewrite export_var.
    destruct (export sat (abs x)) as [j|e]; cbn [canon]; [reflexivity|]. now rewrite eset_of_add.
  - cbn [abs]. unfold export. rewrite exportD_arr, arr_fold_finish. f_equal. rewrite map_map.
    apply map_ext_in. intros e He. pose proof (mdepth_arr_In es e He).
    rewrite IH; [|apply mplain_mwf; exact (forallb_In _ _ _ Ww He)|lia]. f_equal. symmetry.
    apply exportD_export. apply (depth_arr_In (map abs es)). now apply in_map.
  - rewrite abs_rec. unfold export. rewrite export_rec.
    rewrite (rec_fold_finish (fun kf => field_result sat (depth (DRec (ksort (kmap absF fs)))) (snd kf))).
    rewrite finish_sorted. f_equal.
    set (n0 := depth (DRec (ksort (kmap absF fs)))).
    change (map (fun kf : N * F => (fst kf, option_map canon (field_result sat n0 (snd kf)))) (ksort (kmap absF fs)))
      with (kmap (fun f => option_map canon (field_result sat n0 f)) (ksort (kmap absF fs))).
    rewrite <- (ksort_kmap (fun f => option_map canon (field_result sat n0 f))). rewrite kmap_kmap. f_equal.
    apply kmap_ext_in.
    intros k f Hin. apply field_export_refines. intros x Hv.
    pose proof (mdepth_rec_In fs k f x Hin Hv).
    rewrite IH; [|exact (mwfb_rec_field fs k f x Ww Hin Hv)|lia]. f_equal. symmetry. apply exportD_export.
    unfold n0. apply (depth_rec_In _ k (absF f)).
    + apply (Permutation_in _ (Permutation_sym (ksort_perm _))). unfold kmap. apply in_map_iff. exists (k, f). auto.
    + rewrite absF_val, Hv. reflexivity.
Qed.

(* export_refines *)
Theorem export_refines v : mwfb v = true ->
  export_json ceq cl sat v = canon (export sat (abs v)).
Proof. intros W. unfold export_json. apply export_refines_fuel; [assumption|lia]. Qed.
End Mech.
End Export.
