(* No order leak: every order-exposing primitive of the mechanism model (record/fields,
   record/fields_with_opts, record/values, std.record.to_array, the exported tree) is a function of
   the key-sorted abstraction of the value, hence independent of insertion order, of the order in
   which the operands of merges were given, of the contract-equality used by combine_dedup and of
   which map split_ref clones. *)
From Coq Require Import List ZArith QArith Bool Lia Permutation.
Import ListNotations.
From NV Require Import Merge.Algebra Merge.Sorted Merge.Prio Merge.CsSet Merge.AlgebraProofs Merge.Rules Merge.ElabWf.
From NV Require Import MergeMech.OrdMap MergeMech.OrdMapFacts MergeMech.Model MergeMech.Abs
  MergeMech.RefineFields MergeMech.RefineSplit MergeMech.Refine MergeMech.RefineExport.
Close Scope Q_scope.
Open Scope bool_scope.

Lemma filter_kmap {V W} (h : V -> W) (P : N * V -> bool) (P' : N * W -> bool) (l : list (N * V)) :
  (forall k v, P' (k, h v) = P (k, v)) -> filter P' (kmap h l) = kmap h (filter P l).
Proof.
  intros H. induction l as [|[k v] t IH]; [reflexivity|]. cbn [kmap map filter fst snd]. rewrite H.
  destruct (P (k, v)); cbn [map fst snd]; unfold kmap in IH; now rewrite IH.
Qed.

Lemma existsb_map {X Y} (g : X -> Y) (p : Y -> bool) l : existsb p (map g l) = existsb (fun x => p (g x)) l.
Proof. induction l as [|a t IH]; cbn [map existsb]; [reflexivity|]. now rewrite IH. Qed.

Lemma existsb_ext' {X} (p q : X -> bool) l : (forall x, p x = q x) -> existsb p l = existsb q l.
Proof. intros H. induction l as [|a t IH]; cbn [existsb]; [reflexivity|]. now rewrite H, IH. Qed.

Lemma kfm_kmap {V W X} (h : V -> W) (g : N -> W -> option X) (l : list (N * V)) :
  kfm g (kmap h l) = kfm (fun k v => g k (h v)) l.
Proof. induction l as [|[k v] t IH]; [reflexivity|]. cbn [kmap map fst snd]. rewrite !kfm_cons. unfold kmap in IH. now rewrite IH. Qed.

Lemma kmap_kfm_comm {V W X} (g : N -> V -> option W) (h : W -> X) (l : list (N * V)) :
  kmap h (kfm g l) = kfm (fun k v => option_map h (g k v)) l.
Proof.
  induction l as [|[k v] t IH]; [reflexivity|]. rewrite !kfm_cons. destruct (g k v) as [w|]; cbn [option_map]; [|exact IH].
  cbn [kmap map fst snd]. f_equal. exact IH.
Qed.

Lemma kfm_ext {V W} (g g' : N -> V -> option W) (l : list (N * V)) :
  (forall k v, g k v = g' k v) -> kfm g l = kfm g' l.
Proof. intros H. induction l as [|[k v] t IH]; [reflexivity|]. rewrite !kfm_cons, H, IH. reflexivity. Qed.

Lemma map_snd_kmap {V W} (h : V -> W) (l : list (N * V)) : map snd (kmap h l) = map h (map snd l).
Proof. unfold kmap. rewrite !map_map. reflexivity. Qed.

Lemma absF_empty_opt f : sfield_is_empty_optional (absF f) = is_empty_optional f.
Proof. unfold sfield_is_empty_optional, is_empty_optional. rewrite absF_val, absF_opt. destruct (mf_val f); reflexivity. Qed.

(* field_names reads only the sorted abstraction *)
Lemma field_names_abs b fs :
  field_names b fs =
  keys (filter (fun kf => b || negb (sfield_is_empty_optional (snd kf))) (ksort (kmap absF fs))).
Proof.
  unfold field_names. rewrite <- ksort_filter.
  rewrite (filter_kmap absF (fun kf => b || negb (is_empty_optional (snd kf)))) by (intros k v; cbn [snd]; now rewrite absF_empty_opt).
  rewrite keys_ksort_nsort, keys_kmap. reflexivity.
Qed.

Section Order.
Variable ceq : cid -> cid -> bool.
Hypothesis ceq_sound : forall a b, ceq a b = true -> a = b.
Variable cl : nat -> nat -> bool.

(* evaluation errors of [whnf] are conflicts: NonMergeable or a failed array equality *)
Lemma mech_merge_err_kind a b e : mwfb a = true -> mwfb b = true ->
  mech_merge ceq cl a b = Err e -> e = ENonMergeable \/ e = EBlame.
Proof.
  intros Wa Wb. destruct a as [x|t x|l1|f1|a1 a2], b as [y|u y|l2|f2|b1 b2]; cbn [mech_merge];
    try (intros E; injection E as <-; auto); try discriminate.
  - destruct (atom_eqb x y); [discriminate|]. intros E; injection E as <-; auto.
  - destruct (N.eqb t u); [discriminate|]. intros E; injection E as <-; auto.
  - destruct (data_eqb _ _ _); [discriminate|]. intros E; injection E as <-; auto.
  - destruct (is_nil f2 || is_nil f1); [discriminate|].
    destruct (merge_records_refines ceq ceq_sound cl f1 f2 Wa Wb) as [m [-> _]]. discriminate.
Qed.

Lemma whnf_err_kind v e : mwfb v = true -> whnf ceq cl v = Err e -> e = ENonMergeable \/ e = EBlame.
Proof.
  revert e. induction v as [x|t x _|es|fs|a IHa b IHb]; intros e W; cbn [whnf]; try discriminate.
  cbn [mwfb] in W. rewrite andb_true_iff in W. destruct W as [Wa Wb].
  pose proof (whnf_refines ceq ceq_sound cl a Wa) as Ra. pose proof (whnf_refines ceq ceq_sound cl b Wb) as Rb.
  destruct (whnf ceq cl a) as [a'|ea| |]; try contradiction.
  - destruct (whnf ceq cl b) as [b'|eb| |]; try contradiction.
    + destruct Ra as [_ [Wa' _]], Rb as [_ [Wb' _]]. now apply mech_merge_err_kind.
    + intros E. injection E as <-. now apply IHb.
  - intros E. injection E as <-. now apply IHa.
Qed.

Lemma norm_whnf_err v e A : mwfb v = true -> whnf ceq cl v = Err e ->
  norm_out (@Err A e) = Err ENonMergeable.
Proof. intros W E. destruct (whnf_err_kind v e W E) as [-> | ->]; reflexivity. Qed.

(* ---- %record/fields%, %record/fields_with_opts% *)
Theorem record_fields_abs b v : mwfb v = true ->
  norm_out (record_fields ceq cl b v) = spec_fields b (abs v).
Proof.
  intros W. unfold record_fields. pose proof (whnf_refines ceq ceq_sound cl v W) as R.
  destruct (whnf ceq cl v) as [w|e| |] eqn:E; try contradiction.
  - destruct R as [<- [_ [V _]]]. destruct w as [a|t x|es|fs|a1 a2]; try discriminate; try reflexivity.
    rewrite abs_rec. cbn [spec_fields norm_out]. now rewrite field_names_abs.
  - rewrite R. cbn [lift_err spec_fields]. exact (norm_whnf_err v e _ W E).
Qed.

(* ---- %record/values% *)
Definition lazy_of (f : mfield) : option lazyv := match mf_val f with Some x => Some (mf_cs f, x) | None => None end.
Definition slazy_of (f : F) : option slazy := match f_val f with Some x => Some (f_cs f, x) | None => None end.

Lemma slazy_absF f : slazy_of (absF f) = option_map abs_lazy (lazy_of f).
Proof. destruct f as [p o h cs [x|]]; reflexivity. Qed.

Theorem record_values_abs v : mwfb v = true ->
  norm_out (out_map (map abs_lazy) (record_values ceq cl v)) = spec_values (abs v).
Proof.
  intros W. unfold record_values. pose proof (whnf_refines ceq ceq_sound cl v W) as R.
  destruct (whnf ceq cl v) as [w|e| |] eqn:E; try contradiction.
  - destruct R as [<- [_ [V _]]]. destruct w as [a|t x|es|fs|a1 a2]; try discriminate; try reflexivity.
    rewrite abs_rec. cbn [spec_values]. unfold iter_without_opts.
    rewrite (existsb_perm _ _ _ (ksort_perm (kmap absF fs))). unfold kmap at 1. rewrite existsb_map.
    assert (Ex : existsb (fun x : N * mfield => is_none (f_val (snd (fst x, absF (snd x)))) && negb (f_opt (snd (fst x, absF (snd x))))) fs
                 = existsb (fun kf => is_none (mf_val (snd kf)) && negb (mf_opt (snd kf))) fs).
    { apply existsb_ext'. intros [k f]. cbn [fst snd]. rewrite absF_val, absF_opt. destruct (mf_val f); reflexivity. }
    rewrite Ex. clear Ex. destruct (existsb _ fs); [reflexivity|].
    cbn [lift_err out_map norm_out]. f_equal.
    change (fun (_ : N) (f : F) => match f_val f with Some x => Some (f_cs f, x) | None => None end) with (fun (_ : N) f => slazy_of f).
    change (fun (_ : N) (f : mfield) => match mf_val f with Some x => Some (mf_cs f, x) | None => None end) with (fun (_ : N) f => lazy_of f).
    rewrite <- ksort_kfm, kfm_kmap. rewrite (kfm_ext _ (fun k v => option_map abs_lazy (lazy_of v))) by (intros; apply slazy_absF).
    rewrite <- kmap_kfm_comm, ksort_kmap, map_snd_kmap. reflexivity.
  - rewrite R. cbn [lift_err out_map spec_values]. exact (norm_whnf_err v e _ W E).
Qed.

(* ---- std.record.to_array *)
Lemma get_value_abs k fs : NoDup (keys fs) ->
  abs_out_lazy (get_value_with_ctrs k fs) = spec_get k (ksort (kmap absF fs)).
Proof.
  intros H. unfold get_value_with_ctrs, spec_get. rewrite (im_get_lookup k (ksort (kmap absF fs))), lookup_sorted_abs by assumption.
  destruct (im_get k fs) as [[p o h cs [x|]]|]; cbn [option_map absF absF_with abs_out_lazy]; try reflexivity; destruct o; reflexivity.
Qed.

Definition abs_entry (e : N * out (option lazyv)) : N * out (option slazy) := (fst e, abs_out_lazy (snd e)).

Theorem record_to_array_abs v : mwfb v = true ->
  norm_out (out_map (map abs_entry) (record_to_array ceq cl v)) = spec_to_array (abs v).
Proof.
  intros W. unfold record_to_array. pose proof (whnf_refines ceq ceq_sound cl v W) as R.
  destruct (whnf ceq cl v) as [w|e| |] eqn:E; try contradiction.
  - destruct R as [<- [Ww [V _]]]. destruct w as [a|t x|es|fs|a1 a2]; try discriminate; try reflexivity.
    rewrite abs_rec. cbn [spec_to_array out_map norm_out]. f_equal. rewrite field_names_abs. cbn [orb].
    rewrite map_map. apply map_ext. intros k. unfold abs_entry. cbn [fst snd]. f_equal.
    apply get_value_abs. now apply mwfb_rec_nodup.
  - rewrite R. cbn [lift_err out_map spec_to_array]. exact (norm_whnf_err v e _ W E).
Qed.
End Order.

(* ---- no_order_leak *)
Record observations : Type := mkObs {
  o_fields : out (list N);
  o_fields_with_opts : out (list N);
  o_values : out (list slazy);
  o_to_array : out (list (N * out (option slazy)));
  o_export : mres
}.

Definition observe (ceq : cid -> cid -> bool) (cl : nat -> nat -> bool) (sat : cid -> J -> bool) (v : mval) : observations :=
  mkObs (norm_out (record_fields ceq cl false v))
        (norm_out (record_fields ceq cl true v))
        (norm_out (out_map (map abs_lazy) (record_values ceq cl v)))
        (norm_out (out_map (map abs_entry) (record_to_array ceq cl v)))
        (export_json ceq cl sat v).

Definition observe_spec (sat : cid -> J -> bool) (d : D) : observations :=
  mkObs (spec_fields false d) (spec_fields true d) (spec_values d) (spec_to_array d) (canon (export sat d)).

Theorem observe_abs ceq cl sat v :
  (forall a b, ceq a b = true -> a = b) -> mwfb v = true ->
  observe ceq cl sat v = observe_spec sat (abs v).
Proof.
  intros Hs W. unfold observe, observe_spec.
  rewrite !(record_fields_abs ceq Hs cl), (record_values_abs ceq Hs cl), (record_to_array_abs ceq Hs cl) by assumption.
  now rewrite (export_refines sat ceq Hs cl).
Qed.

Theorem no_order_leak ceq1 ceq2 cl1 cl2 sat v1 v2 :
  (forall a b, ceq1 a b = true -> a = b) -> (forall a b, ceq2 a b = true -> a = b) ->
  mwfb v1 = true -> mwfb v2 = true -> abs v1 = abs v2 ->
  observe ceq1 cl1 sat v1 = observe ceq2 cl2 sat v2.
Proof. intros H1 H2 W1 W2 E. rewrite !observe_abs by assumption. now rewrite E. Qed.

(* swapping the operands of a merge, re-bracketing, merging with itself or with {} *)
Section Laws.
Variable ceq : cid -> cid -> bool.
Hypothesis ceq_sound : forall a b, ceq a b = true -> a = b.
Variable cl : nat -> nat -> bool.
Variable sat : cid -> J -> bool.

Lemma mwfb_pending a b : mwfb a = true -> mwfb b = true -> mwfb (MPending a b) = true.
Proof. intros Ha Hb. cbn [mwfb]. now rewrite Ha, Hb. Qed.

Theorem observe_comm a b : mwfb a = true -> mwfb b = true ->
  observe ceq cl sat (MPending a b) = observe ceq cl sat (MPending b a).
Proof.
  intros Ha Hb. apply no_order_leak; try assumption; try (now apply mwfb_pending).
  cbn [abs]. apply merge_comm; now apply abs_wf.
Qed.

Theorem observe_assoc a b c : mwfb a = true -> mwfb b = true -> mwfb c = true ->
  observe ceq cl sat (MPending (MPending a b) c) = observe ceq cl sat (MPending a (MPending b c)).
Proof.
  intros Ha Hb Hc. apply no_order_leak; try assumption; try (repeat apply mwfb_pending; assumption).
  cbn [abs]. apply merge_assoc_law; now apply abs_wf.
Qed.

Theorem observe_idem a : mwfb a = true -> observe ceq cl sat (MPending a a) = observe ceq cl sat a.
Proof.
  intros Ha. apply no_order_leak; try assumption; try (now apply mwfb_pending).
  cbn [abs]. apply merge_idem. now apply abs_wf.
Qed.

Theorem observe_unit a fs : mwfb a = true -> abs a = DRec fs ->
  observe ceq cl sat (MPending a (MRec [])) = observe ceq cl sat a /\
  observe ceq cl sat (MPending (MRec []) a) = observe ceq cl sat a.
Proof.
  intros Ha E. split; apply no_order_leak; try assumption; try (now apply mwfb_pending); cbn [abs]; rewrite E;
    change (DRec (ksort (kmap (absF_with abs) []))) with (DRec []); [apply merge_unit_r|apply merge_unit_l].
Qed.
End Laws.
