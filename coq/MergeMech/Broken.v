(* Teeth: two plausible variants of the code for which the theorems of Order.v / Refine.v FAIL,
   with concrete witnesses (vm_compute on closed terms).
     1. RecordData::field_names without its sort: %record/fields% then leaks the insertion order --
        two operand orders of the same non-conflicting merge list the fields differently.
     2. a swap_remove that frees the slot without moving the last entry into it (the entry is
        popped all the same): split_ref loses an entry of the cloned map, the merged record is not
        the merge of the abstractions. *)
From Coq Require Import List ZArith QArith Bool.
Import ListNotations.
From NV Require Import Merge.Algebra MergeMech.OrdMap MergeMech.Model MergeMech.Abs.
Close Scope Q_scope.
Open Scope bool_scope.

Definition fld (n : Z) : mfield := mkMF SNeutral false false [] (Some (MAtom (ANum n 1%positive))).
Definition lit (ks : list N) : mval := MRec (map (fun k => (k, fld 1)) ks).

(* {b = 1} & {a = 1}   versus   {a = 1} & {b = 1} *)
Definition w_ba : mval := MPending (lit [1%N]) (lit [0%N]).
Definition w_ab : mval := MPending (lit [0%N]) (lit [1%N]).

Lemma fields_nosort_leaks_refuted :
  mwfb w_ba = true /\ mwfb w_ab = true /\ abs w_ba = abs w_ab /\
  record_fields_nosort N.eqb Nat.ltb false w_ba <> record_fields_nosort N.eqb Nat.ltb false w_ab.
Proof. vm_compute. repeat split; discriminate. Qed.

(* with the sort the same two values list their fields identically (instance of no_order_leak) *)
Example fields_sorted_agree :
  record_fields N.eqb Nat.ltb false w_ba = record_fields N.eqb Nat.ltb false w_ab.
Proof. vm_compute. reflexivity. Qed.

(* ---- split_ref over the lossy swap_remove *)
Definition split_clone_left_bad {A B} (m1 : list (N * A)) (m2 : list (N * B))
  : list (N * A) * list (N * (A * B)) * list (N * B) :=
  fold_left (fun st kv2 =>
               let '(lft, center, rgt) := st in
               match swap_remove_lossy (fst kv2) lft with
               | Some (v1, lft') => (lft', im_insert (fst kv2) (v1, snd kv2) center, rgt)
               | None => (lft, center, im_insert (fst kv2) (snd kv2) rgt)
               end) m2 (m1, [], []).

Definition split_clone_right_bad {A B} (m1 : list (N * A)) (m2 : list (N * B))
  : list (N * A) * list (N * (A * B)) * list (N * B) :=
  fold_left (fun st kv1 =>
               let '(lft, center, rgt) := st in
               match swap_remove_lossy (fst kv1) rgt with
               | Some (v2, rgt') => (lft, im_insert (fst kv1) (snd kv1, v2) center, rgt')
               | None => (im_insert (fst kv1) (snd kv1) lft, center, rgt)
               end) m1 ([], [], m2).

Definition merge_records_bad (m1 m2 : list (N * mfield)) : out (list (N * mfield)) :=
  let '(lft, center, rgt) :=
    if Nat.ltb (length m1) (length m2) then split_clone_left_bad m1 m2 else split_clone_right_bad m1 m2 in
  merge_center N.eqb (im_extend (im_extend [] lft) rgt) center.

(* {a, x, y} & {a, c, d}: removing a from the clone [a, c, d] drops d *)
Definition m_axy : list (N * mfield) := [(0%N, fld 1); (23%N, fld 1); (24%N, fld 1)].
Definition m_acd : list (N * mfield) := [(0%N, fld 1); (2%N, fld 1); (3%N, fld 1)].

Lemma lossy_swap_remove_refuted :
  mwfb (MRec m_axy) = true /\ mwfb (MRec m_acd) = true /\
  exists m, merge_records_bad m_axy m_acd = Ok m /\
            abs (MRec m) <> merge (abs (MRec m_axy)) (abs (MRec m_acd)) /\
            im_get 3%N m = None.
Proof.
  split; [reflexivity|split; [reflexivity|]]. eexists. split; [vm_compute; reflexivity|].
  split; [vm_compute; discriminate|reflexivity].
Qed.

(* the real split_ref on the same operands keeps the entry *)
Example real_swap_remove_keeps :
  exists m, merge_records N.eqb Nat.ltb m_axy m_acd = Ok m /\
            abs (MRec m) = merge (abs (MRec m_axy)) (abs (MRec m_acd)) /\
            keys m = [23%N; 24%N; 3%N; 2%N; 0%N].
Proof. eexists. split; [vm_compute; reflexivity|]. split; vm_compute; reflexivity. Qed.
