(* Elaboration of source expressions: building a record literal by inserting its fields in WRITTEN
   order (piecewise definitions combined in the slot of the first one), with merges left suspended,
   abstracts to the algebra's [elab] (which inserts into a key-sorted list and merges eagerly). *)
From Coq Require Import List ZArith QArith Bool Lia Permutation.
Import ListNotations.
From NV Require Import Merge.Algebra Merge.Sorted Merge.Prio Merge.CsSet Merge.AlgebraProofs Merge.Rules Merge.ElabWf.
From NV Require Import MergeMech.OrdMap MergeMech.OrdMapFacts MergeMech.Model MergeMech.Abs
  MergeMech.RefineFields MergeMech.RefineSplit MergeMech.Refine MergeMech.RefineExport.
Close Scope Q_scope.
Open Scope bool_scope.

(* ---- the algebra's insert_field, by lookup *)
Lemma insert_field_lookup k f k' l : ssorted l ->
  lookup k' (insert_field k f l) =
  if N.eqb k' k then Some (match lookup k l with Some f' => mergeF merge f' f | None => f end)
  else lookup k' l.
Proof.
  induction l as [|[k0 f0] t IH]; intros Hs.
  - cbn [insert_field lookup]. destruct (N.eqb k' k); reflexivity.
  - cbn [ssorted] in Hs. destruct Hs as [Hlt Hs]. cbn [insert_field].
    destruct (N.compare_spec k k0) as [->|Hl|Hg]; cbn [lookup].
    + rewrite N.eqb_refl. destruct (N.eqb k' k0); reflexivity.
    + destruct (N.eqb_spec k' k) as [->|Hne].
      * destruct (N.eqb_spec k k0) as [?|_]; [lia|].
        rewrite (lookup_lt_none k t); [reflexivity|assumption|].
        intros k2 v2 Hin. specialize (Hlt _ _ Hin). lia.
      * reflexivity.
    + specialize (IH Hs). destruct (N.eqb_spec k' k0) as [->|Hne].
      * destruct (N.eqb_spec k0 k) as [?|_]; [lia|reflexivity].
      * rewrite IH. destruct (N.eqb_spec k k0) as [?|_]; [lia|reflexivity].
Qed.

Lemma im_insert_In {V} k (v : V) l k' v' : In (k', v') (im_insert k v l) -> (k' = k /\ v' = v) \/ In (k', v') l.
Proof.
  induction l as [|[k0 v0] t IH]; cbn [im_insert].
  - intros [E|[]]. injection E as <- <-. now left.
  - destruct (N.eqb k k0); cbn [In].
    + intros [E|H]; [injection E as <- <-; now left|right; now right].
    + intros [E|H]; [right; now left|]. destruct (IH H) as [?|?]; [now left|right; now right].
Qed.

(* ---- one field of a literal *)
Lemma insert_static_refines k f m :
  NoDup (keys m) -> mwfb (MRec m) = true ->
  (forall x, mf_val f = Some x -> mwfb x = true) ->
  exists m', insert_static_field k f m = Ok m' /\ NoDup (keys m') /\ mwfb (MRec m') = true /\
             ksort (kmap absF m') = insert_field k (absF f) (ksort (kmap absF m)) /\
             (forall x, In x (keys m') <-> x = k \/ In x (keys m)) /\
             (im_get k m = None -> m' = m ++ [(k, f)]).
Proof.
  intros Nm Wm Wf. unfold insert_static_field.
  assert (Hgen : forall g, (forall x, mf_val g = Some x -> mwfb x = true) ->
                 absF g = match im_get k m with Some prev => mergeF merge (absF prev) (absF f) | None => absF f end ->
                 NoDup (keys (im_insert k g m)) /\ mwfb (MRec (im_insert k g m)) = true /\
                 ksort (kmap absF (im_insert k g m)) = insert_field k (absF f) (ksort (kmap absF m)) /\
                 (forall x, In x (keys (im_insert k g m)) <-> x = k \/ In x (keys m))).
  { intros g Wg Eg. pose proof (keys_insert_nodup k g m Nm) as Nm'. split; [exact Nm'|]. split; [|split].
    - cbn [mwfb]. rewrite andb_true_iff. split; [now apply nodupb_NoDup|].
      apply forallb_forall. intros [k' f'] Hin. cbn [snd]. apply im_insert_In in Hin.
      destruct Hin as [[-> ->]|Hin].
      + destruct (mf_val g) as [x|] eqn:E; [now apply Wg|reflexivity].
      + destruct (mf_val f') as [x|] eqn:E; [|reflexivity]. exact (mwfb_rec_field m k' f' x Wm Hin E).
    - apply ssorted_ext.
      + now apply sorted_abs_ssorted.
      + apply insert_field_sorted. now apply sorted_abs_ssorted.
      + intros k'. rewrite insert_field_lookup by (now apply sorted_abs_ssorted).
        rewrite !lookup_sorted_abs by assumption. rewrite im_get_insert.
        destruct (N.eqb_spec k' k) as [->|Hne]; [|reflexivity].
        cbn [option_map]. f_equal. rewrite Eg. destruct (im_get k m); reflexivity.
    - intros x. apply keys_insert_in. }
  destruct (im_get k m) as [prev|] eqn:Ek.
  - destruct (static_merge_fields_refines prev f) as [g [-> [Eg Vg]]]. cbn [lift_err].
    exists (im_insert k g m). split; [reflexivity|].
    assert (Wg : forall x, mf_val g = Some x -> mwfb x = true).
    { intros x Hx. rewrite Hx in Vg. apply (im_get_In _ _ _ Nm) in Ek.
      destruct Vg as [H|[H|[t1 [t2 [H1 [H2 ->]]]]]].
      - exact (mwfb_rec_field m k prev x Wm Ek H).
      - now apply Wf.
      - cbn [mwfb]. now rewrite (mwfb_rec_field m k prev t1 Wm Ek H1), (Wf t2 H2). }
    destruct (Hgen g Wg Eg) as [A [B [C D]]]. repeat split; try assumption; try apply D. discriminate.
  - exists (im_insert k f m). split; [reflexivity|].
    destruct (Hgen f Wf eq_refl) as [A [B [C D]]]. repeat split; try assumption; try apply D.
    intros _. apply im_insert_fresh. now apply im_get_none_iff.
Qed.

Definition mstep (acc : out (list (N * mfield))) (x : N * sprio * bool * bool * list cid * option expr) :=
  let '(k, p, o, h, cs, v) := x in
  out_bind acc (fun m =>
    out_bind (match v with
              | None => Ok None
              | Some ev => out_bind (melab ev) (fun y => Ok (Some y))
              end)
             (fun ov => insert_static_field k (mkMF p o h cs ov) m)).

Lemma melab_rec fs : melab (ERec fs) = out_bind (fold_left mstep fs (Ok [])) (fun m => Ok (MRec m)).
Proof. reflexivity. Qed.

Definition fval (x : N * sprio * bool * bool * list cid * option expr) : option expr :=
  let '(_, _, _, _, _, v) := x in v.

(* what is known about the (smaller) field values *)
Definition good (P : mval -> bool) (ev : expr) : Prop :=
  exists y, melab ev = Ok y /\ abs y = elab ev /\ P y = true.

Lemma mstep_refines x m a :
  (forall ev, fval x = Some ev -> good mwfb ev) ->
  NoDup (keys m) -> mwfb (MRec m) = true -> ksort (kmap absF m) = a ->
  exists m', mstep (Ok m) x = Ok m' /\ NoDup (keys m') /\ mwfb (MRec m') = true /\
             ksort (kmap absF m') = field_step a x /\
             (forall z, In z (keys m') <-> z = fkey x \/ In z (keys m)) /\
             (im_get (fkey x) m = None ->
              exists ov, m' = m ++ [(fkey x, let '(_, p, o, h, cs, _) := x in mkMF p o h cs ov)] /\
                         match fval x, ov with
                         | Some ev, Some y => melab ev = Ok y
                         | None, None => True
                         | _, _ => False
                         end).
Proof.
  destruct x as [[[[[k p] o] h] cs] v]. cbn [fval fkey mstep out_bind field_step]. intros Hv Nm Wm <-.
  destruct v as [ev|].
  - destruct (Hv ev eq_refl) as [y [-> [Ey Wy]]]. cbn [out_bind].
    destruct (insert_static_refines k (mkMF p o h cs (Some y)) m Nm Wm) as [m' [-> [A [B [C [D E]]]]]].
    { intros x Hx. cbn [mf_val] in Hx. injection Hx as <-. exact Wy. }
    exists m'. split; [reflexivity|]. split; [exact A|]. split; [exact B|]. split; [|split; [exact D|]].
    + rewrite C. unfold absF. cbn [absF_with option_map]. now rewrite Ey.
    + intros Hn. exists (Some y). split; [now apply E|reflexivity].
  - cbn [out_bind].
    destruct (insert_static_refines k (mkMF p o h cs None) m Nm Wm) as [m' [-> [A [B [C [D E]]]]]].
    { intros x Hx. discriminate. }
    exists m'. split; [reflexivity|]. split; [exact A|]. split; [exact B|]. split; [|split; [exact D|]].
    + rewrite C. reflexivity.
    + intros Hn. exists None. split; [now apply E|exact I].
Qed.

Lemma fold_mstep_refines fs : (forall x ev, In x fs -> fval x = Some ev -> good mwfb ev) ->
  forall m a, NoDup (keys m) -> mwfb (MRec m) = true -> ksort (kmap absF m) = a ->
  exists m', fold_left mstep fs (Ok m) = Ok m' /\ NoDup (keys m') /\ mwfb (MRec m') = true /\
             ksort (kmap absF m') = fold_left field_step fs a.
Proof.
  induction fs as [|x t IH]; intros Hv m a Nm Wm Ea.
  - exists m. cbn [fold_left]. auto.
  - cbn [fold_left].
    destruct (mstep_refines x m a (fun ev H => Hv x ev (or_introl eq_refl) H) Nm Wm Ea) as [m1 [-> [N1 [W1 [E1 _]]]]].
    apply IH; try assumption. intros y ev Hy. apply Hv. now right.
Qed.

(* arrays *)
Lemma fold_arr_refines (P : mval -> bool) es : (forall x, In x es -> good P x) ->
  exists l, fold_right (fun e acc => out_bind (melab e) (fun x => out_bind acc (fun l => Ok (x :: l)))) (Ok []) es = Ok l /\
            map abs l = map elab es /\ forallb P l = true.
Proof.
  induction es as [|e t IH]; intros H.
  - exists []. auto.
  - destruct (IH (fun x Hx => H x (or_intror Hx))) as [l [El [Al Pl]]].
    destruct (H e (or_introl eq_refl)) as [y [Ey [Ay Py]]].
    exists (y :: l). cbn [fold_right]. rewrite Ey, El. cbn [out_bind map forallb]. now rewrite Ay, Al, Py, Pl.
Qed.

(* ---- plain literals (array elements) *)
Lemma plain_fields_step fs : nodupb (map fkey fs) = true ->
  (forall x, In x fs -> exists k a, x = (k, SNeutral, false, false, [], Some a) /\ good mplainb a) ->
  forall m, NoDup (keys m) -> mplainb (MRec m) = true -> (forall x, In x fs -> ~ In (fkey x) (keys m)) ->
  (forall k f x, In (k, f) m -> mf_val f = Some x -> mwfb x = true) ->
  exists m', fold_left mstep fs (Ok m) = Ok m' /\ mplainb (MRec m') = true /\ mwfb (MRec m') = true /\
             ksort (kmap absF m') = fold_left field_step fs (ksort (kmap absF m)).
Proof.
  induction fs as [|x t IH]; intros Hnd Hf m Nm Pm Hfresh Wv.
  - exists m. cbn [fold_left]. repeat split; try assumption.
    cbn [mwfb]. rewrite andb_true_iff. split; [now apply nodupb_NoDup|]. apply forallb_forall.
    intros [k f] Hin. cbn [snd]. destruct (mf_val f) as [y|] eqn:E; [exact (Wv k f y Hin E)|reflexivity].
  - cbn [fold_left]. cbn [map] in Hnd. apply Refine.nodupb_NoDup in Hnd. inversion Hnd as [|? ? Hnin Hnd']; subst.
    destruct (Hf x (or_introl eq_refl)) as [k [a [-> [y [Ey [Ay Py]]]]]].
    assert (Wm : mwfb (MRec m) = true).
    { cbn [mwfb]. rewrite andb_true_iff. split; [now apply nodupb_NoDup|]. apply forallb_forall.
      intros [k' f] Hin. cbn [snd]. destruct (mf_val f) as [z|] eqn:E; [exact (Wv k' f z Hin E)|reflexivity]. }
    destruct (mstep_refines (k, SNeutral, false, false, [], Some a) m _
                (fun ev H => ltac:(cbn [fval] in H; injection H as <-; exists y; repeat split; [assumption|assumption|now apply mplain_mwf]))
                Nm Wm eq_refl) as [m1 [E1 [N1 [W1 [A1 [K1 F1]]]]]].
    rewrite E1. cbn [fkey] in F1, K1.
    assert (Hn : im_get k m = None) by (apply im_get_none_iff; apply (Hfresh _ (or_introl eq_refl))).
    destruct (F1 Hn) as [ov [-> Hov]]. cbn [fval] in Hov. destruct ov as [y'|]; [|contradiction].
    rewrite Ey in Hov. injection Hov as <-.
    destruct (IH (proj2 (Refine.nodupb_NoDup _) Hnd') (fun x Hx => Hf x (or_intror Hx)) (m ++ [(k, mkMF SNeutral false false [] (Some y))])) as [m' [E' [P' [W' A']]]].
    + exact N1.
    + cbn [mplainb] in *. rewrite andb_true_iff in *. destruct Pm as [Pn Pf]. split; [now apply Refine.nodupb_NoDup|].
      rewrite forallb_app. rewrite Pf. cbn [forallb snd]. now rewrite Py.
    + intros x Hx Hin. apply K1 in Hin. destruct Hin as [E|Hin].
      * cbn [fkey] in Hnin. apply Hnin. rewrite <- E. now apply in_map.
      * exact (Hfresh x (or_intror Hx) Hin).
    + intros k' f z Hin Hz. apply in_app_or in Hin. destruct Hin as [Hin|[E|[]]].
      * exact (Wv k' f z Hin Hz).
      * injection E as <- <-. cbn [mf_val] in Hz. injection Hz as <-. now apply mplain_mwf.
    + exists m'. rewrite E'. repeat split; try assumption. rewrite A'. f_equal. exact A1.
Qed.

Lemma melab_plain : forall n e, esize e <= n -> plainE e = true -> good mplainb e.
Proof.
  induction n as [|n IH]; intros e Hs H; [destruct e; cbn in Hs; lia|].
  destruct e as [a|t a|es|fs|a b]; cbn [plainE] in H; try discriminate.
  - exists (MAtom a). repeat split.
  - cbn [esize] in Hs. destruct (IH a ltac:(lia) H) as [y [Ey [Ay Py]]].
    exists (MVar t y). cbn [melab]. rewrite Ey. cbn [out_bind abs elab mplainb]. now rewrite Ay.
  - destruct (fold_arr_refines mplainb es) as [l [El [Al Pl]]].
    { intros x Hx. apply IH; [pose proof (esize_arr_In es x Hx); lia|]. rewrite forallb_forall in H. auto. }
    exists (MArr l). cbn [melab]. rewrite El. cbn [out_bind abs elab mplainb]. now rewrite Al.
  - rewrite andb_true_iff in H. destruct H as [Hnd Hf].
    destruct (plain_fields_step fs Hnd) with (m := @nil (N * mfield)) as [m' [E' [P' [W' A']]]].
    + intros x Hx. pose proof (forallb_In _ _ _ Hf Hx) as Px.
      destruct x as [[[[[k p] o] h] cs] v]. destruct p; try discriminate. destruct o; try discriminate.
      destruct h; try discriminate. destruct cs; try discriminate. destruct v as [a|]; try discriminate.
      exists k, a. split; [reflexivity|]. apply IH; [pose proof (esize_rec_In fs _ _ _ _ _ a Hx); lia|exact Px].
    + constructor.
    + reflexivity.
    + intros x _ [].
    + intros k f x [].
    + exists (MRec m'). rewrite melab_rec, E'. cbn [out_bind]. repeat split; [|assumption].
      rewrite abs_rec, elab_rec. f_equal. exact A'.
Qed.

(* ---- melab_refines *)
Theorem melab_refines_fuel : forall n e, esize e <= n -> wfE e = true -> good mwfb e.
Proof.
  induction n as [|n IH]; intros e Hs H; [destruct e; cbn in Hs; lia|].
  destruct e as [a|t a|es|fs|a b]; cbn [wfE] in H.
  - exists (MAtom a). repeat split.
  - cbn [esize] in Hs. destruct (IH a ltac:(lia) H) as [y [Ey [Ay Py]]].
    exists (MVar t y). cbn [melab]. rewrite Ey. cbn [out_bind abs elab mwfb]. now rewrite Ay.
  - destruct (fold_arr_refines mplainb es) as [l [El [Al Pl]]].
    { intros x Hx. apply (melab_plain (esize x)); [lia|]. rewrite forallb_forall in H. auto. }
    exists (MArr l). cbn [melab]. rewrite El. cbn [out_bind abs elab mwfb]. now rewrite Al.
  - destruct (fold_mstep_refines fs) with (m := @nil (N * mfield)) (a := @nil (N * F)) as [m' [E' [N' [W' A']]]].
    + intros x ev Hx Hv. pose proof (forallb_In _ _ _ H Hx) as Px.
      destruct x as [[[[[k p] o] h] cs] v]. cbn [fval] in Hv. subst v.
      apply IH; [pose proof (esize_rec_In fs _ _ _ _ _ ev Hx); lia|exact Px].
    + constructor.
    + reflexivity.
    + reflexivity.
    + exists (MRec m'). rewrite melab_rec, E'. cbn [out_bind]. repeat split; [|assumption].
      rewrite abs_rec, elab_rec. f_equal. exact A'.
  - rewrite andb_true_iff in H. destruct H as [Ha Hb]. cbn [esize] in Hs.
    destruct (IH a ltac:(lia) Ha) as [x [Ex [Ax Px]]], (IH b ltac:(lia) Hb) as [y [Ey [Ay Py]]].
    exists (MPending x y). cbn [melab]. rewrite Ex, Ey. cbn [out_bind abs elab mwfb]. now rewrite Ax, Ay, Px, Py.
Qed.

Theorem melab_refines e : wfE e = true ->
  exists v, melab e = Ok v /\ abs v = elab e /\ mwfb v = true.
Proof. apply (melab_refines_fuel (esize e)). lia. Qed.
