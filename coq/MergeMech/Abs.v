(* The abstraction function from mechanism values to the trees of the data-merge algebra, the
   well-formedness predicate of mechanism values, the canonical form of the algebra's export result
   (error kinds as a bit vector) and the specification-level reading of the order-exposing
   primitives (functions of a tree of the algebra).  Definitions only. *)
From Coq Require Import List ZArith QArith Bool.
Import ListNotations.
From NV Require Import Merge.Algebra MergeMech.OrdMap MergeMech.Model.
Close Scope Q_scope.
Open Scope bool_scope.

(* ---- abstraction: sort the fields by key, normalise priorities, turn contract lists into sets,
   turn a suspended merge into the algebra's merge *)
Definition absF_with (abs : mval -> D) (f : mfield) : F :=
  let '(mkMF p o h cs v) := f in
  mkF (match v with None => PNum 0%Q | Some _ => pnorm p end) o h (cs_norm cs)
      (match v with Some x => Some (abs x) | None => None end).

Fixpoint abs (v : mval) : D :=
  match v with
  | MAtom a => DAtom a
  | MVar t x => DVar t (abs x)
  | MArr es => DArr (map abs es)
  | MRec fs => DRec (ksort (kmap (absF_with abs) fs))
  | MPending a b => merge (abs a) (abs b)
  end.

Definition absF : mfield -> F := absF_with abs.

(* ---- well-formed mechanism values: keys of a record are distinct (the representation invariant
   of an IndexMap) and arrays hold plain data (the domain of the algebra) *)
Fixpoint nodupb (l : list N) : bool :=
  match l with
  | [] => true
  | a :: t => negb (existsb (N.eqb a) t) && nodupb t
  end.

Fixpoint mplainb (v : mval) : bool :=
  match v with
  | MAtom _ => true
  | MVar _ x => mplainb x
  | MArr es => forallb mplainb es
  | MRec fs =>
      nodupb (keys fs) &&
      forallb (fun kf => match snd kf with
                         | mkMF SNeutral false false [] (Some x) => mplainb x
                         | _ => false
                         end) fs
  | MPending _ _ => false
  end.

Fixpoint mwfb (v : mval) : bool :=
  match v with
  | MAtom _ => true
  | MVar _ x => mwfb x
  | MArr es => forallb mplainb es
  | MRec fs =>
      nodupb (keys fs) &&
      forallb (fun kf => match mf_val (snd kf) with Some x => mwfb x | None => true end) fs
  | MPending a b => mwfb a && mwfb b
  end.

(* ---- the algebra's export result in canonical form *)
Definition eset_of (l : list errk) : eset := fold_right eadd eempty l.

Definition canon (r : res) : mres :=
  match r with
  | inl j => inl j
  | inr l => inr (eset_of l)
  end.

(* ---- specification-level observers: functions of a tree of the algebra (key-sorted records) *)
Definition sfield_is_empty_optional (f : F) : bool := is_none (f_val f) && f_opt f.

Definition spec_fields (consider_all : bool) (d : D) : out (list N) :=
  match d with
  | DRec fs => Ok (keys (filter (fun kf => consider_all || negb (sfield_is_empty_optional (snd kf))) fs))
  | DTop => Err ENonMergeable          (* which kind: see whnf_err_kind in Refine.v *)
  | _ => TypeErr
  end.

(* a lazily handed-out value, abstracted *)
Definition slazy : Type := (list cid * D)%type.
Definition abs_lazy (cv : lazyv) : slazy := (cs_norm (fst cv), abs (snd cv)).

Definition spec_values (d : D) : out (list slazy) :=
  match d with
  | DRec fs =>
      if existsb (fun kf => is_none (f_val (snd kf)) && negb (f_opt (snd kf))) fs then Err EMissingDef
      else Ok (map snd (kfm (fun _ f => match f_val f with Some x => Some (f_cs f, x) | None => None end) fs))
  | DTop => Err ENonMergeable
  | _ => TypeErr
  end.

Definition spec_get (k : N) (fs : list (N * F)) : out (option slazy) :=
  match im_get k fs with
  | Some (mkF _ false _ _ None) => Err EMissingDef
  | Some (mkF _ _ _ cs (Some x)) => Ok (Some (cs, x))
  | _ => Ok None
  end.

Definition spec_to_array (d : D) : out (list (N * out (option slazy))) :=
  match d with
  | DRec fs =>
      Ok (map (fun k => (k, spec_get k fs))
              (keys (filter (fun kf => negb (sfield_is_empty_optional (snd kf))) fs)))
  | DTop => Err ENonMergeable
  | _ => TypeErr
  end.

Definition abs_out_lazy (o : out (option lazyv)) : out (option slazy) :=
  match o with
  | Ok (Some cv) => Ok (Some (abs_lazy cv))
  | Ok None => Ok None
  | Err e => Err e
  | TypeErr => TypeErr
  | Panic => Panic
  end.

(* a value whose weak head normal form does not exist is an evaluation error: NonMergeable (atoms,
   shapes) or Blame (arrays); the algebra has one pending-conflict node for both, so observers'
   errors are compared after mapping Blame to NonMergeable *)
Definition norm_out {A} (o : out A) : out A :=
  match o with
  | Err EBlame => Err ENonMergeable
  | other => other
  end.

Definition out_map {A B} (f : A -> B) (o : out A) : out B :=
  match o with
  | Ok a => Ok (f a)
  | Err e => Err e
  | TypeErr => TypeErr
  | Panic => Panic
  end.
