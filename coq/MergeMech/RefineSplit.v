(* split_ref: whichever map is cloned, and despite swap_remove's reordering, (left, center, right)
   are, as maps, the entries of m1 only, of both, and of m2 only; merge_records then is the
   key-wise merge of the two maps. *)
From Coq Require Import List NArith Bool Lia Permutation.
Import ListNotations.
From NV Require Import Merge.Algebra MergeMech.OrdMap MergeMech.OrdMapFacts MergeMech.Model MergeMech.Abs
  MergeMech.RefineFields.

Section Split.
Context {A B : Type}.

Definition specL (a : option A) (b : option B) : option A :=
  match a, b with Some v1, None => Some v1 | _, _ => None end.
Definition specC (a : option A) (b : option B) : option (A * B) :=
  match a, b with Some v1, Some v2 => Some (v1, v2) | _, _ => None end.
Definition specR (a : option A) (b : option B) : option B :=
  match a, b with None, Some v2 => Some v2 | _, _ => None end.

Definition state : Type := (list (N * A) * list (N * (A * B)) * list (N * B))%type.

Definition step_right (st : state) (kv1 : N * A) : state :=
  let '(lft, center, rgt) := st in
  match swap_remove (fst kv1) rgt with
  | Some (v2, rgt') => (lft, im_insert (fst kv1) (snd kv1, v2) center, rgt')
  | None => (im_insert (fst kv1) (snd kv1) lft, center, rgt)
  end.

Definition step_left (st : state) (kv2 : N * B) : state :=
  let '(lft, center, rgt) := st in
  match swap_remove (fst kv2) lft with
  | Some (v1, lft') => (lft', im_insert (fst kv2) (v1, snd kv2) center, rgt)
  | None => (lft, center, im_insert (fst kv2) (snd kv2) rgt)
  end.

Lemma split_clone_right_eq m1 m2 : split_clone_right m1 m2 = fold_left step_right m1 ([], [], m2).
Proof. reflexivity. Qed.

Lemma split_clone_left_eq m1 m2 : split_clone_left m1 m2 = fold_left step_left m2 (m1, [], []).
Proof. reflexivity. Qed.

Lemma fold_step_right (m1 : list (N * A)) : NoDup (keys m1) ->
  forall L C R, NoDup (keys L) -> NoDup (keys C) -> NoDup (keys R) ->
  forall L' C' R', fold_left step_right m1 (L, C, R) = (L', C', R') ->
  NoDup (keys L') /\ NoDup (keys C') /\ NoDup (keys R') /\
  (forall k, im_get k L' = match im_get k m1 with
                           | Some v1 => match im_get k R with None => Some v1 | Some _ => im_get k L end
                           | None => im_get k L end) /\
  (forall k, im_get k C' = match im_get k m1 with
                           | Some v1 => match im_get k R with Some v2 => Some (v1, v2) | None => im_get k C end
                           | None => im_get k C end) /\
  (forall k, im_get k R' = match im_get k m1 with Some _ => None | None => im_get k R end).
Proof.
  induction m1 as [|[k0 v0] t IH]; intros Hnd L C R NL NC NR L' C' R' E.
  - cbn [fold_left] in E. injection E as <- <- <-. repeat split; auto.
  - cbn [keys map fst] in Hnd. inversion Hnd as [|? ? Hnin Hnd']; subst.
    assert (T0 : im_get k0 t = None) by (apply im_get_none_iff; exact Hnin).
    cbn [fold_left] in E. unfold step_right at 2 in E. cbn [fst snd] in E.
    destruct (swap_remove k0 R) as [[v2 R1]|] eqn:ES.
    + destruct (swap_remove_spec _ _ _ _ NR ES) as [G0 [NR1 GR1]].
      destruct (IH Hnd' L (im_insert k0 (v0, v2) C) R1 NL (keys_insert_nodup _ _ _ NC) NR1 _ _ _ E)
        as [NL' [NC' [NR' [HL [HC HR]]]]].
      split; [exact NL'|split; [exact NC'|split; [exact NR'|split; [|split]]]]; intros k; cbn [im_get]; [rewrite HL|rewrite HC|rewrite HR]; rewrite ?GR1, ?im_get_insert;
        destruct (N.eqb_spec k k0) as [->|Hne]; rewrite ?T0, ?G0; reflexivity.
    + apply swap_remove_none in ES.
      destruct (IH Hnd' (im_insert k0 v0 L) C R (keys_insert_nodup _ _ _ NL) NC NR _ _ _ E)
        as [NL' [NC' [NR' [HL [HC HR]]]]].
      split; [exact NL'|split; [exact NC'|split; [exact NR'|split; [|split]]]]; intros k; cbn [im_get]; [rewrite HL|rewrite HC|rewrite HR]; rewrite ?im_get_insert;
        destruct (N.eqb_spec k k0) as [->|Hne]; rewrite ?T0, ?ES; try reflexivity.
Qed.

Lemma fold_step_left (m2 : list (N * B)) : NoDup (keys m2) ->
  forall L C R, NoDup (keys L) -> NoDup (keys C) -> NoDup (keys R) ->
  forall L' C' R', fold_left step_left m2 (L, C, R) = (L', C', R') ->
  NoDup (keys L') /\ NoDup (keys C') /\ NoDup (keys R') /\
  (forall k, im_get k L' = match im_get k m2 with Some _ => None | None => im_get k L end) /\
  (forall k, im_get k C' = match im_get k m2 with
                           | Some v2 => match im_get k L with Some v1 => Some (v1, v2) | None => im_get k C end
                           | None => im_get k C end) /\
  (forall k, im_get k R' = match im_get k m2 with
                           | Some v2 => match im_get k L with None => Some v2 | Some _ => im_get k R end
                           | None => im_get k R end).
Proof.
  induction m2 as [|[k0 v0] t IH]; intros Hnd L C R NL NC NR L' C' R' E.
  - cbn [fold_left] in E. injection E as <- <- <-. repeat split; auto.
  - cbn [keys map fst] in Hnd. inversion Hnd as [|? ? Hnin Hnd']; subst.
    assert (T0 : im_get k0 t = None) by (apply im_get_none_iff; exact Hnin).
    cbn [fold_left] in E. unfold step_left at 2 in E. cbn [fst snd] in E.
    destruct (swap_remove k0 L) as [[v1 L1]|] eqn:ES.
    + destruct (swap_remove_spec _ _ _ _ NL ES) as [G0 [NL1 GL1]].
      destruct (IH Hnd' L1 (im_insert k0 (v1, v0) C) R NL1 (keys_insert_nodup _ _ _ NC) NR _ _ _ E)
        as [NL' [NC' [NR' [HL [HC HR]]]]].
      split; [exact NL'|split; [exact NC'|split; [exact NR'|split; [|split]]]]; intros k; cbn [im_get]; [rewrite HL|rewrite HC|rewrite HR]; rewrite ?GL1, ?im_get_insert;
        destruct (N.eqb_spec k k0) as [->|Hne]; rewrite ?T0, ?G0; try reflexivity.
    + apply swap_remove_none in ES.
      destruct (IH Hnd' L C (im_insert k0 v0 R) NL NC (keys_insert_nodup _ _ _ NR) _ _ _ E)
        as [NL' [NC' [NR' [HL [HC HR]]]]].
      split; [exact NL'|split; [exact NC'|split; [exact NR'|split; [|split]]]]; intros k; cbn [im_get]; [rewrite HL|rewrite HC|rewrite HR]; rewrite ?im_get_insert;
        destruct (N.eqb_spec k k0) as [->|Hne]; rewrite ?T0, ?ES; try reflexivity.
Qed.

(* the result of split_ref does not depend, as a triple of maps, on which side is cloned *)
Theorem split_ref_spec (cl : nat -> nat -> bool) (m1 : list (N * A)) (m2 : list (N * B)) L C R :
  NoDup (keys m1) -> NoDup (keys m2) -> split_ref cl m1 m2 = (L, C, R) ->
  NoDup (keys L) /\ NoDup (keys C) /\ NoDup (keys R) /\
  (forall k, im_get k L = specL (im_get k m1) (im_get k m2)) /\
  (forall k, im_get k C = specC (im_get k m1) (im_get k m2)) /\
  (forall k, im_get k R = specR (im_get k m1) (im_get k m2)).
Proof.
  intros N1 N2. unfold split_ref. assert (Nn : forall X, NoDup (keys (@nil (N * X)))) by (intros; constructor).
  destruct (cl (length m1) (length m2)).
  - rewrite split_clone_left_eq. intros E.
    destruct (fold_step_left m2 N2 m1 [] [] N1 (Nn _) (Nn _) _ _ _ E) as [NL [NC [NR [HL [HC HR]]]]].
    split; [exact NL|split; [exact NC|split; [exact NR|split; [|split]]]]; intros k; [rewrite HL|rewrite HC|rewrite HR]; cbn [im_get];
      unfold specL, specC, specR; destruct (im_get k m1), (im_get k m2); reflexivity.
  - rewrite split_clone_right_eq. intros E.
    destruct (fold_step_right m1 N1 [] [] m2 (Nn _) (Nn _) N2 _ _ _ E) as [NL [NC [NR [HL [HC HR]]]]].
    split; [exact NL|split; [exact NC|split; [exact NR|split; [|split]]]]; intros k; [rewrite HL|rewrite HC|rewrite HR]; cbn [im_get];
      unfold specL, specC, specR; destruct (im_get k m1), (im_get k m2); reflexivity.
Qed.
End Split.

(* ---- merge_records *)
Section Records.
Variable ceq : cid -> cid -> bool.
Hypothesis ceq_sound : forall a b, ceq a b = true -> a = b.
Variable cl : nat -> nat -> bool.

Let mft := merge_fields_tot ceq.

Lemma merge_center_ok center : forall m,
  merge_center ceq m center = Ok (im_extend m (kmap (fun ff => mft (fst ff) (snd ff)) center)).
Proof.
  unfold merge_center, im_extend. induction center as [|[k [f1 f2]] t IH]; intros m; [reflexivity|].
  cbn [fold_left kmap map fst snd]. rewrite (merge_fields_tot_ok ceq ceq_sound f1 f2). apply IH.
Qed.

Definition merge_opt (a b : option mfield) : option mfield :=
  match a, b with
  | Some f1, Some f2 => Some (mft f1 f2)
  | Some f1, None => Some f1
  | None, Some f2 => Some f2
  | None, None => None
  end.

Theorem merge_records_spec m1 m2 : NoDup (keys m1) -> NoDup (keys m2) ->
  exists m, merge_records ceq cl m1 m2 = Ok m /\ NoDup (keys m) /\
            forall k, im_get k m = merge_opt (im_get k m1) (im_get k m2).
Proof.
  intros N1 N2. unfold merge_records. destruct (split_ref cl m1 m2) as [[L C] R] eqn:ES.
  destruct (split_ref_spec cl m1 m2 L C R N1 N2 ES) as [NL [NC [NR [HL [HC HR]]]]].
  rewrite merge_center_ok. eexists. split; [reflexivity|]. split.
  - repeat apply im_extend_nodup. constructor.
  - intros k. rewrite im_get_extend by (rewrite keys_kmap; exact NC).
    rewrite im_get_kmap, HC. rewrite im_get_extend by exact NR. rewrite HR.
    rewrite im_get_extend by exact NL. rewrite HL. cbn [im_get].
    unfold specL, specC, specR, merge_opt. destruct (im_get k m1), (im_get k m2); reflexivity.
Qed.
End Records.
