(* Facts about insertion-ordered maps: lookup characterisations of insert / extend / swap_remove,
   and the key sort (sortedness, permutation, commutation with key-preserving filter-maps). *)
From Coq Require Import List NArith Bool Lia Permutation.
Import ListNotations.
From NV Require Import Merge.Algebra Merge.Sorted MergeMech.OrdMap.

Section Facts.
Context {V : Type}.
Implicit Types l t m add : list (N * V).

Lemma im_get_lookup k l : im_get k l = lookup k l.
Proof. induction l as [|[k' v] t IH]; cbn [im_get lookup]; [reflexivity|]. now rewrite IH. Qed.

Lemma im_get_none_iff k l : im_get k l = None <-> ~ In k (keys l).
Proof.
  induction l as [|[k' v] t IH]; cbn [im_get keys map In fst]; [tauto|].
  destruct (N.eqb_spec k k') as [->|Hne].
  - split; [discriminate|]. intros H. exfalso. apply H. now left.
  - rewrite IH. unfold keys. split; [intros H [E|H']; [congruence|auto]|intros H H'; apply H; now right].
Qed.

Lemma im_get_some_in_keys k l v : im_get k l = Some v -> In k (keys l).
Proof.
  intros H. destruct (in_dec N.eq_dec k (keys l)) as [i|n]; [assumption|].
  apply im_get_none_iff in n. congruence.
Qed.

Lemma im_get_In k v l : NoDup (keys l) -> (im_get k l = Some v <-> In (k, v) l).
Proof.
  induction l as [|[k' v'] t IH]; cbn [im_get keys map In fst]; intros Hnd.
  - split; [discriminate|contradiction].
  - inversion Hnd as [|? ? Hnin Hnd']; subst. destruct (N.eqb_spec k k') as [->|Hne].
    + split.
      * intros E. injection E as ->. now left.
      * intros [E|Hin]; [injection E as ->; reflexivity|].
        exfalso. apply Hnin. change (In k' (keys t)). apply (in_map fst) in Hin. exact Hin.
    + rewrite (IH Hnd'). split; [now right|]. intros [E|Hin]; [injection E as -> ->; contradiction|assumption].
Qed.

Lemma keys_perm l1 l2 : Permutation l1 l2 -> Permutation (keys l1) (keys l2).
Proof. apply Permutation_map. Qed.

Lemma im_get_perm k l1 l2 : NoDup (keys l1) -> Permutation l1 l2 -> im_get k l1 = im_get k l2.
Proof.
  intros Hnd Hp.
  assert (Hnd2 : NoDup (keys l2)) by (eapply Permutation_NoDup; [apply keys_perm; eassumption|assumption]).
  destruct (im_get k l1) as [v|] eqn:E1.
  - apply (im_get_In _ _ _ Hnd) in E1. symmetry. apply (im_get_In _ _ _ Hnd2).
    eapply Permutation_in; eassumption.
  - destruct (im_get k l2) as [v|] eqn:E2; [|reflexivity].
    apply (im_get_In _ _ _ Hnd2) in E2. apply Permutation_sym in Hp.
    pose proof (Permutation_in _ Hp E2) as Hin. apply (im_get_In _ _ _ Hnd) in Hin. congruence.
Qed.

(* ---- insert / extend *)
Lemma im_get_insert k k' v l :
  im_get k (im_insert k' v l) = if N.eqb k k' then Some v else im_get k l.
Proof.
  induction l as [|[k0 v0] t IH]; cbn [im_insert im_get].
  - destruct (N.eqb k k'); reflexivity.
  - destruct (N.eqb_spec k' k0) as [->|Hne]; cbn [im_get].
    + destruct (N.eqb k k0); reflexivity.
    + rewrite IH. destruct (N.eqb_spec k k0) as [->|Hne2]; [|reflexivity].
      destruct (N.eqb_spec k0 k') as [E|_]; [congruence|reflexivity].
Qed.

Lemma keys_insert_in x k v l : In x (keys (im_insert k v l)) <-> x = k \/ In x (keys l).
Proof.
  induction l as [|[k0 v0] t IH]; cbn [im_insert keys map In fst].
  - intuition.
  - destruct (N.eqb_spec k k0) as [->|Hne]; cbn [keys map In fst].
    + intuition.
    + unfold keys in IH. rewrite IH. intuition.
Qed.

Lemma keys_insert_nodup k v l : NoDup (keys l) -> NoDup (keys (im_insert k v l)).
Proof.
  induction l as [|[k0 v0] t IH]; cbn [im_insert keys map fst]; intros Hnd.
  - constructor; [intros []|constructor].
  - inversion Hnd as [|? ? Hnin Hnd']; subst. destruct (N.eqb_spec k k0) as [->|Hne]; cbn [keys map fst].
    + constructor; assumption.
    + constructor; [|now apply IH]. intros Hin. apply keys_insert_in in Hin. destruct Hin as [E|Hin]; [congruence|contradiction].
Qed.

Lemma im_insert_fresh k v l : ~ In k (keys l) -> im_insert k v l = l ++ [(k, v)].
Proof.
  induction l as [|[k0 v0] t IH]; cbn [im_insert keys map In fst app]; intros H; [reflexivity|].
  destruct (N.eqb_spec k k0) as [->|Hne]; [exfalso; apply H; now left|].
  rewrite IH; [reflexivity|]. intros Hin. apply H. now right.
Qed.

Lemma im_extend_nodup m add : NoDup (keys m) -> NoDup (keys (im_extend m add)).
Proof.
  unfold im_extend. revert m. induction add as [|[k v] t IH]; intros m Hnd; cbn [fold_left fst snd]; [assumption|].
  apply IH. now apply keys_insert_nodup.
Qed.

Lemma im_get_extend k m add : NoDup (keys add) ->
  im_get k (im_extend m add) = match im_get k add with Some v => Some v | None => im_get k m end.
Proof.
  unfold im_extend. revert m. induction add as [|[k0 v0] t IH]; intros m Hnd; cbn [fold_left fst snd im_get]; [reflexivity|].
  cbn [keys map fst] in Hnd. inversion Hnd as [|? ? Hnin Hnd']; subst.
  rewrite (IH _ Hnd'). rewrite im_get_insert.
  destruct (N.eqb_spec k k0) as [->|Hne]; [|reflexivity].
  assert (E : im_get k0 t = None) by (apply im_get_none_iff; exact Hnin). now rewrite E.
Qed.

Lemma keys_extend_in x m add : In x (keys (im_extend m add)) <-> In x (keys m) \/ In x (keys add).
Proof.
  unfold im_extend. revert m. induction add as [|[k v] t IH]; intros m; cbn [fold_left fst snd].
  - cbn [keys map In]. tauto.
  - rewrite IH. rewrite keys_insert_in. cbn [keys map fst In]. intuition.
Qed.

(* ---- swap_remove *)
Lemma swap_remove_none k l : swap_remove k l = None <-> im_get k l = None.
Proof.
  induction l as [|[k' v] t IH]; cbn [swap_remove im_get]; [tauto|].
  destruct (N.eqb k k'); [split; discriminate|].
  destruct (swap_remove k t) as [[x t']|]; destruct (im_get k t); split; try discriminate; try reflexivity.
  - intros _. exfalso. assert (H : None = None :> option V) by reflexivity. apply IH in H. discriminate.
  - intros _. exfalso. assert (H : None = None :> option (V * list (N * V))) by reflexivity. apply IH in H. discriminate.
Qed.

Lemma rotate_last_perm (x : N * V) (t : list (N * V)) :
  Permutation (last (x :: t) x :: removelast (x :: t)) (x :: t).
Proof.
  assert (H : x :: t <> []) by discriminate.
  rewrite (app_removelast_last x H) at 3.
  apply Permutation_cons_append.
Qed.

Lemma swap_remove_perm k l v l' :
  swap_remove k l = Some (v, l') -> Permutation l ((k, v) :: l').
Proof.
  revert l'. induction l as [|[k' v'] t IH]; intros l'; cbn [swap_remove]; [discriminate|].
  destruct (N.eqb_spec k k') as [->|Hne].
  - intros E. injection E as -> <-. constructor. destruct t as [|x t']; [constructor|].
    apply Permutation_sym, rotate_last_perm.
  - destruct (swap_remove k t) as [[x t']|]; [|discriminate].
    intros E. injection E as -> <-. specialize (IH _ eq_refl).
    eapply Permutation_trans; [apply perm_skip; exact IH|]. apply perm_swap.
Qed.

Lemma swap_remove_spec k l v l' : NoDup (keys l) -> swap_remove k l = Some (v, l') ->
  im_get k l = Some v /\ NoDup (keys l') /\
  forall k', im_get k' l' = if N.eqb k' k then None else im_get k' l.
Proof.
  intros Hnd E. pose proof (swap_remove_perm _ _ _ _ E) as Hp.
  assert (Hnd2 : NoDup (keys ((k, v) :: l'))) by (eapply Permutation_NoDup; [apply keys_perm; eassumption|assumption]).
  split; [|split].
  - rewrite (im_get_perm k _ _ Hnd Hp). cbn [im_get]. now rewrite N.eqb_refl.
  - cbn [keys map fst] in Hnd2. now inversion Hnd2.
  - intros k'. rewrite (im_get_perm k' _ _ Hnd Hp). cbn [im_get].
    destruct (N.eqb_spec k' k) as [->|Hne]; [|reflexivity].
    apply im_get_none_iff. cbn [keys map fst] in Hnd2. now inversion Hnd2.
Qed.

Lemma swap_remove_keys k l v l' x : swap_remove k l = Some (v, l') ->
  (In x (keys l) <-> x = k \/ In x (keys l')).
Proof.
  intros E. pose proof (keys_perm _ _ (swap_remove_perm _ _ _ _ E)) as Hp. cbn [keys map fst] in Hp.
  split; intros H.
  - pose proof (Permutation_in _ Hp H) as [->|Hin]; auto.
  - apply Permutation_sym in Hp. apply (Permutation_in _ Hp). destruct H as [->|H]; [now left|now right].
Qed.

(* ---- key sort *)
Fixpoint wsorted l : Prop :=
  match l with
  | [] => True
  | (k1, _) :: t => (forall k v, In (k, v) t -> (k1 <= k)%N) /\ wsorted t
  end.

Lemma kinsert_perm k v l : Permutation (kinsert k v l) ((k, v) :: l).
Proof.
  induction l as [|[k' v'] t IH]; cbn [kinsert]; [apply Permutation_refl|].
  destruct (N.leb k k'); [apply Permutation_refl|].
  eapply Permutation_trans; [apply perm_skip; exact IH|apply perm_swap].
Qed.

Lemma ksort_perm l : Permutation (ksort l) l.
Proof.
  induction l as [|[k v] t IH]; cbn [ksort fold_right fst snd]; [constructor|].
  eapply Permutation_trans; [apply kinsert_perm|]. now constructor.
Qed.

Lemma kinsert_wsorted k v l : wsorted l -> wsorted (kinsert k v l).
Proof.
  induction l as [|[k' v'] t IH]; cbn [kinsert wsorted]; intros H.
  - split; [intros ? ? []|exact I].
  - destruct H as [Hle Hs]. destruct (N.leb_spec k k') as [Hl|Hg]; cbn [wsorted].
    + split; [|split; assumption]. intros k0 v0 [E|Hin]; [injection E as <- _; assumption|].
      specialize (Hle _ _ Hin). lia.
    + split; [|now apply IH]. intros k0 v0 Hin.
      apply (Permutation_in _ (kinsert_perm k v t)) in Hin. destruct Hin as [E|Hin]; [injection E as <- _; lia|eauto].
Qed.

Lemma ksort_wsorted l : wsorted (ksort l).
Proof. induction l as [|[k v] t IH]; cbn [ksort fold_right fst snd]; [exact I|]. now apply kinsert_wsorted. Qed.

Lemma wsorted_nodup_ssorted l : wsorted l -> NoDup (keys l) -> ssorted l.
Proof.
  induction l as [|[k v] t IH]; cbn [wsorted ssorted keys map fst]; [trivial|].
  intros [Hle Hs] Hnd. inversion Hnd as [|? ? Hnin Hnd']; subst. split; [|now apply IH].
  intros k' v' Hin. specialize (Hle _ _ Hin).
  assert (k <> k') by (intros ->; apply Hnin; change (In k' (keys t)); apply (in_map fst) in Hin; exact Hin).
  lia.
Qed.

Lemma ksort_keys_nodup l : NoDup (keys l) -> NoDup (keys (ksort l)).
Proof. intros H. eapply Permutation_NoDup; [apply Permutation_sym, keys_perm, ksort_perm|assumption]. Qed.

Lemma ksort_ssorted l : NoDup (keys l) -> ssorted (ksort l).
Proof. intros H. apply wsorted_nodup_ssorted; [apply ksort_wsorted|now apply ksort_keys_nodup]. Qed.

Lemma im_get_ksort k l : NoDup (keys l) -> im_get k (ksort l) = im_get k l.
Proof. intros H. symmetry. apply im_get_perm; [assumption|apply Permutation_sym, ksort_perm]. Qed.

Lemma lookup_ksort k l : NoDup (keys l) -> lookup k (ksort l) = lookup k l.
Proof. rewrite <- !im_get_lookup. apply im_get_ksort. Qed.

Lemma keys_ksort_nsort l : keys (ksort l) = nsort (keys l).
Proof.
  induction l as [|[k v] t IH]; cbn [ksort nsort fold_right keys map fst snd]; [reflexivity|].
  change (fold_right (fun kv acc => kinsert (fst kv) (snd kv) acc) [] t) with (ksort t).
  change (fold_right ninsert [] (map fst t)) with (nsort (keys t)). rewrite <- IH.
  generalize (ksort t). intros l. induction l as [|[k' v'] l IHl]; cbn [kinsert ninsert keys map fst]; [reflexivity|].
  destruct (N.leb k k'); cbn [keys map fst]; [reflexivity|]. unfold keys in IHl. now rewrite IHl.
Qed.
End Facts.

(* ---- key-preserving filter-maps commute with the key sort *)
Section Kfm.
Context {V W : Type}.
Variable g : N -> V -> option W.

Lemma kfm_cons k v (l : list (N * V)) :
  kfm g ((k, v) :: l) = match g k v with Some w => (k, w) :: kfm g l | None => kfm g l end.
Proof. unfold kfm. cbn [flat_map fst snd]. destruct (g k v); reflexivity. Qed.

Lemma kfm_In k w (l : list (N * V)) : In (k, w) (kfm g l) -> exists v, In (k, v) l /\ g k v = Some w.
Proof.
  induction l as [|[k' v'] t IH]; [intros []|]. rewrite kfm_cons.
  destruct (g k' v') as [w'|] eqn:E.
  - intros [H|H]; [injection H as -> ->; exists v'; split; [now left|assumption]|].
    destruct (IH H) as [v [Hin Hg]]. exists v. split; [now right|assumption].
  - intros H. destruct (IH H) as [v [Hin Hg]]. exists v. split; [now right|assumption].
Qed.

Lemma kfm_wsorted (l : list (N * V)) : wsorted l -> wsorted (kfm g l).
Proof.
  induction l as [|[k v] t IH]; [trivial|]. cbn [wsorted]. intros [Hle Hs]. rewrite kfm_cons.
  destruct (g k v); [|now apply IH]. cbn [wsorted]. split; [|now apply IH].
  intros k' w' Hin. apply kfm_In in Hin. destruct Hin as [v' [Hin _]]. eauto.
Qed.

Lemma kfm_kinsert k v (l : list (N * V)) : wsorted l ->
  kfm g (kinsert k v l) = match g k v with Some w => kinsert k w (kfm g l) | None => kfm g l end.
Proof.
  induction l as [|[k' v'] t IH]; intros Hs.
  - cbn [kinsert]. rewrite kfm_cons. unfold kfm. cbn [flat_map]. destruct (g k v); reflexivity.
  - cbn [wsorted] in Hs. destruct Hs as [Hle Hs]. cbn [kinsert].
    destruct (N.leb_spec k k') as [Hl|Hg].
    + rewrite kfm_cons. destruct (g k v) as [w|] eqn:E; [|reflexivity].
      rewrite kfm_cons. destruct (g k' v') as [w'|] eqn:E'.
      * cbn [kinsert]. destruct (N.leb_spec k k'); [reflexivity|lia].
      * (* k goes in front of everything that remains *)
        assert (Hall : forall k0 w0, In (k0, w0) (kfm g t) -> (k <= k0)%N).
        { intros k0 w0 Hin. apply kfm_In in Hin. destruct Hin as [v0 [Hin _]]. specialize (Hle _ _ Hin). lia. }
        destruct (kfm g t) as [|[k1 w1] r]; cbn [kinsert]; [reflexivity|].
        specialize (Hall k1 w1 (or_introl eq_refl)). destruct (N.leb_spec k k1); [reflexivity|lia].
    + rewrite kfm_cons, (IH Hs). rewrite kfm_cons.
      destruct (g k v) as [w|] eqn:E, (g k' v') as [w'|] eqn:E'; try reflexivity.
      cbn [kinsert]. destruct (N.leb_spec k k'); [lia|reflexivity].
Qed.

Lemma ksort_kfm (l : list (N * V)) : ksort (kfm g l) = kfm g (ksort l).
Proof.
  induction l as [|[k v] t IH]; [reflexivity|].
  cbn [ksort fold_right fst snd].
  change (fold_right (fun kv acc => kinsert (fst kv) (snd kv) acc) [] t) with (ksort t).
  rewrite (kfm_kinsert k v (ksort t) (ksort_wsorted t)). rewrite kfm_cons.
  destruct (g k v) as [w|]; [|exact IH].
  cbn [ksort fold_right fst snd]. change (fold_right (fun kv acc => kinsert (fst kv) (snd kv) acc) [] (kfm g t)) with (ksort (kfm g t)).
  now rewrite IH.
Qed.

Lemma keys_kfm_nodup (l : list (N * V)) : NoDup (keys l) -> NoDup (keys (kfm g l)).
Proof.
  induction l as [|[k v] t IH]; [intros _; constructor|]. cbn [keys map fst]. intros Hnd.
  inversion Hnd as [|? ? Hnin Hnd']; subst. rewrite kfm_cons. destruct (g k v); [|now apply IH].
  cbn [keys map fst]. constructor; [|now apply IH].
  intros Hin. apply Hnin. change (In k (keys (kfm g t))) in Hin. unfold keys in Hin. apply in_map_iff in Hin.
  destruct Hin as [[k' w'] [E Hin]]. cbn [fst] in E. subst k'. apply kfm_In in Hin. destruct Hin as [v' [Hin _]].
  apply (in_map fst) in Hin. exact Hin.
Qed.

End Kfm.

Lemma kmap_kfm {V W} (h : V -> W) (l : list (N * V)) : kmap h l = kfm (fun _ v => Some (h v)) l.
Proof. induction l as [|[k v] t IH]; [reflexivity|]. rewrite kfm_cons. cbn [kmap map fst snd]. unfold kmap in IH. now rewrite IH. Qed.

Lemma ksort_kmap {V W} (h : V -> W) (l : list (N * V)) : ksort (kmap h l) = kmap h (ksort l).
Proof. rewrite !kmap_kfm. apply ksort_kfm. Qed.

Lemma filter_kfm {V} (P : N * V -> bool) (l : list (N * V)) :
  filter P l = kfm (fun k v => if P (k, v) then Some v else None) l.
Proof.
  induction l as [|[k v] t IH]; [reflexivity|]. rewrite kfm_cons. cbn [filter].
  destruct (P (k, v)); now rewrite IH.
Qed.

Lemma ksort_filter {V} (P : N * V -> bool) (l : list (N * V)) : ksort (filter P l) = filter P (ksort l).
Proof. rewrite !filter_kfm. apply ksort_kfm. Qed.

Lemma keys_kmap {V W} (h : V -> W) (l : list (N * V)) : keys (kmap h l) = keys l.
Proof. unfold keys, kmap. rewrite map_map. reflexivity. Qed.

Lemma im_get_kmap {V W} (h : V -> W) k (l : list (N * V)) : im_get k (kmap h l) = option_map h (im_get k l).
Proof.
  induction l as [|[k' v] t IH]; [reflexivity|]. cbn [kmap map fst snd im_get].
  destruct (N.eqb k k'); [reflexivity|exact IH].
Qed.

Lemma kmap_kmap {V W X} (h : V -> W) (h' : W -> X) (l : list (N * V)) : kmap h' (kmap h l) = kmap (fun v => h' (h v)) l.
Proof. unfold kmap. rewrite map_map. reflexivity. Qed.

Lemma kmap_ext_in {V W} (h h' : V -> W) (l : list (N * V)) :
  (forall k v, In (k, v) l -> h v = h' v) -> kmap h l = kmap h' l.
Proof. intros H. unfold kmap. apply map_ext_in. intros [k v] Hin. cbn [fst snd]. f_equal. eauto. Qed.
