(* C08 - pending_tracked: every primitive delivers each component under its obligations.

   [view_arr v] / [view_rec v] is the list of components of v, each wrapped in the contracts the
   annotation history says it must satisfy (Spec.v).  Every primitive that extracts, moves or
   rebuilds components is a homomorphism for this view: a component of the result that originates
   from a component of the operand is exactly that component of the operand's view (possibly under
   a new closure), never the raw component.  The composition theorem carries this through any
   pipeline of the array-to-array primitives. *)
From Coq Require Import List ZArith String Bool Arith Lia.
Import ListNotations.
From NV Require Import Delayed.Model Delayed.Spec.
Open Scope list_scope.

Lemma tctrs_app : forall p q t, tctrs (p ++ q) t = tctrs q (tctrs p t).
Proof. intros. unfold tctrs. apply fold_left_app. Qed.

Lemma tctrs_snoc : forall p c t, tctrs (p ++ [c]) t = TCtr c (tctrs p t).
Proof. intros. rewrite tctrs_app. reflexivity. Qed.

(** ** Arrays *)

Lemma at_tracked : forall es p i,
  prim_array_at es p i =
  match nth_error (view_arr (VArr es p)) i with Some t => Ok t | None => Err EOther end.
Proof.
  intros. unfold prim_array_at, view_arr, arr_elems. rewrite nth_error_map.
  destruct (nth_error es i); reflexivity.
Qed.

Lemma length_tracked : forall es p,
  prim_array_length es p = List.length (view_arr (VArr es p)).
Proof. intros. unfold prim_array_length, view_arr, arr_elems. now rewrite map_length. Qed.

(** ArrayLength observes nothing: it does not depend on what the elements are. *)
Lemma length_observes_nothing : forall es es' p p',
  List.length es = List.length es' -> prim_array_length es p = prim_array_length es' p'.
Proof. intros. exact H. Qed.

Lemma map_tracked : forall f es p,
  view_arr (prim_array_map f es p) = map (TObs f) (view_arr (VArr es p)).
Proof.
  intros. unfold prim_array_map, view_arr, arr_elems. rewrite !map_map.
  apply map_ext. reflexivity.
Qed.

Lemma arr_elems_nil_pend : forall es, arr_elems es [] = es.
Proof. intros. unfold arr_elems. cbn. apply map_id. Qed.

Lemma arr_elems_app : forall a b p, arr_elems (a ++ b) p = arr_elems a p ++ arr_elems b p.
Proof. intros. unfold arr_elems. apply map_app. Qed.

Lemma ctr_eqb_eq : forall a b, ctr_eqb a b = true -> a = b.
Proof.
  induction a; intros [] H; cbn in H; try discriminate; auto;
    repeat match goal with
           | H : _ && _ = true |- _ => apply andb_prop in H as [H ?]
           | H : (if ?x then true else false) = true |- _ => destruct x; [subst|discriminate]
           | H : Bool.eqb _ _ = true |- _ => apply Bool.eqb_prop in H; subst
           | H : Z.eqb _ _ = true |- _ => apply Z.eqb_eq in H; subst
           end; f_equal; auto.
Qed.

Lemma ctr_eqb_refl : forall a, ctr_eqb a a = true.
Proof.
  induction a; cbn; rewrite ?IHa, ?IHa1, ?IHa2, ?Z.eqb_refl; auto;
    destruct (list_eq_dec string_dec names names); try congruence; cbn; auto.
  now rewrite Bool.eqb_reflx.
Qed.

Lemma pend_eqb_eq : forall p q, pend_eqb p q = true -> p = q.
Proof.
  induction p as [|[b c] p IH]; intros [|[b' d] q] H; cbn in *; try discriminate; auto.
  apply andb_prop in H as [H Hp]. apply andb_prop in H as [Hb Hc].
  apply ctr_eqb_eq in Hc. apply Bool.eqb_prop in Hb. subst. f_equal. auto.
Qed.

Lemma pend_eqb_contracts : forall p q, pend_eqb p q = true -> map snd p = map snd q.
Proof. intros p q H. now rewrite (pend_eqb_eq p q H). Qed.

(** ArrayConcat: the result's view is exactly the concatenation of the operands' views - every
    element is delivered under the pending list of its *own* operand, labels included (the lazy
    branch is only taken when the two lists are equal, polarity of the labels included). *)
Lemma concat_tracked : forall es1 p1 es2 p2,
  view_arr (prim_array_concat es1 p1 es2 p2) = view_arr (VArr es1 p1) ++ view_arr (VArr es2 p2).
Proof.
  intros. unfold prim_array_concat.
  destruct (is_inline_empty es1 p1) eqn:E1.
  { destruct es1, p1; try discriminate. reflexivity. }
  destruct (is_inline_empty es2 p2) eqn:E2.
  { destruct es2, p2; try discriminate. cbn [view_arr arr_elems map]. now rewrite app_nil_r. }
  destruct (pend_eqb p1 p2) eqn:E.
  - apply pend_eqb_eq in E. subst. cbn [view_arr]. apply arr_elems_app.
  - cbn [view_arr]. now rewrite arr_elems_nil_pend.
Qed.

(** The broken ArrayConcat does not satisfy it (witness in Refuted.v). *)

Lemma slice_tracked : forall s e es p v,
  prim_array_slice s e es p = Ok v ->
  view_arr v = firstn (e - s) (skipn s (view_arr (VArr es p))).
Proof.
  intros s e es p v H. unfold prim_array_slice in H.
  destruct (Nat.ltb e s || Nat.ltb (List.length es) e); [discriminate|].
  injection H as <-. cbn [view_arr]. unfold arr_elems.
  rewrite skipn_map, firstn_map. reflexivity.
Qed.

Lemma lazy_app_tracked : forall c es p,
  view_arr (prim_array_lazy_app c es p) = map (TCtr c) (view_arr (VArr es p)).
Proof.
  intros. unfold prim_array_lazy_app, view_arr, arr_elems. rewrite map_map.
  apply map_ext. intros. apply tctrs_snoc.
Qed.

(** ** Records *)

Lemma lookup_map_snd : forall {A B} (f : A -> B) k (l : list (string * A)),
  lookup k (map (fun x => (fst x, f (snd x))) l) = option_map f (lookup k l).
Proof.
  induction l as [|[k' a] l IH]; cbn; auto. destruct (String.eqb k k'); auto.
Qed.

Lemma access_tracked : forall k fs,
  prim_record_access k fs =
  match lookup k (view_rec (VRec fs)) with Some t => Ok t | None => Err EFieldMissing end.
Proof.
  intros. unfold prim_record_access, view_rec.
  induction fs as [|[k' [x p]] fs IH]; cbn; auto.
  destruct (String.eqb k k'); auto.
Qed.

Lemma insert_sorted_map : forall {A B} (f : string * A -> B) (x : string * A) l,
  map (fun y => (fst y, f y)) (insert_sorted x l)
  = insert_sorted (fst x, f x) (map (fun y => (fst y, f y)) l).
Proof.
  induction l as [|y l IH]; cbn; auto.
  destruct (String.ltb (fst x) (fst y)); cbn; auto. now rewrite IH.
Qed.

Lemma sort_fields_map : forall {A B} (f : string * A -> B) (l : list (string * A)),
  map (fun y => (fst y, f y)) (sort_fields l) = sort_fields (map (fun y => (fst y, f y)) l).
Proof.
  intros. unfold sort_fields.
  assert (forall acc, map (fun y => (fst y, f y)) (fold_left (fun acc x => insert_sorted x acc) l acc)
          = fold_left (fun acc x => insert_sorted x acc) (map (fun y => (fst y, f y)) l)
              (map (fun y => (fst y, f y)) acc)) as G.
  { induction l as [|x l IH]; intros; cbn; auto. rewrite IH. now rewrite insert_sorted_map. }
  apply (G []).
Qed.

(** RecordValues: the values of the view, in the order of the sorted names. *)
Lemma values_tracked : forall fs,
  view_arr (prim_record_values fs) = map snd (sort_fields (view_rec (VRec fs))).
Proof.
  intros. unfold prim_record_values, view_arr, view_rec. rewrite arr_elems_nil_pend.
  rewrite <- (sort_fields_map fld_thunk). now rewrite map_map.
Qed.

(** RecordFields looks at the names only. *)
Lemma fields_names_only : forall fs fs',
  map fst fs = map fst fs' -> prim_record_fields fs = prim_record_fields fs'.
Proof.
  intros fs fs' H. unfold prim_record_fields. f_equal.
  assert (forall (l : list field),
             map (fun f => TVal (Ok (VStr (fst f)))) (sort_fields l)
             = map (fun f : string * unit => TVal (Ok (VStr (fst f))))
                 (sort_fields (map (fun k => (k, tt)) (map fst l)))) as G.
  { intros. rewrite map_map. rewrite <- (sort_fields_map (fun _ => tt)). now rewrite map_map. }
  rewrite G, (G fs'). now rewrite H.
Qed.

Lemma record_map_tracked : forall f fs,
  view_rec (prim_record_map f fs) = map (fun kt => (fst kt, f (fst kt) (snd kt))) (view_rec (VRec fs)).
Proof.
  intros. unfold prim_record_map, view_rec. rewrite !map_map. apply map_ext. reflexivity.
Qed.

Lemma freeze_tracked : forall fs,
  view_rec (VRec (prim_record_freeze fs)) = view_rec (VRec fs)
  /\ Forall (fun fl => snd (snd fl) = []) (prim_record_freeze fs).
Proof.
  intros. unfold prim_record_freeze, view_rec. split.
  - rewrite map_map. apply map_ext. reflexivity.
  - apply Forall_forall. intros x Hx. apply in_map_iff in Hx as [y [<- _]]. reflexivity.
Qed.

Lemma record_lazy_app_tracked : forall c fs,
  view_rec (prim_record_lazy_app c fs) = map (fun kt => (fst kt, TCtr c (snd kt))) (view_rec (VRec fs)).
Proof.
  intros. unfold prim_record_lazy_app, view_rec. rewrite !map_map. apply map_ext.
  intros [k [x p]]. cbn. unfold fld_thunk. cbn. now rewrite tctrs_snoc.
Qed.

Lemma insert_tracked : forall k x fs v,
  prim_record_insert k x fs = Ok v -> view_rec v = view_rec (VRec fs) ++ [(k, x)].
Proof.
  intros k x fs v H. unfold prim_record_insert in H. destruct (has_key k fs); [discriminate|].
  injection H as <-. unfold view_rec. now rewrite map_app.
Qed.

(** ** Composition: pipelines of the array-to-array primitives *)

Inductive ptrans :=
| PMap (f : obs)
| PSlice (s e : nat)
| PConcatR (es : list thunk)      (* the other operand, here without pending contracts *)
| PConcatL (es : list thunk)
| PCtr (c : pc).                  (* ContractArrayLazyApp *)

Definition run_ptrans (t : ptrans) (es : list thunk) (p : list pc) : res lval :=
  match t with
  | PMap f => Ok (prim_array_map f es p)
  | PSlice s e => prim_array_slice s e es p
  | PConcatR es2 => Ok (prim_array_concat es p es2 [])
  | PConcatL es1 => Ok (prim_array_concat es1 [] es p)
  | PCtr c => Ok (prim_array_lazy_app c es p)
  end.

(** The same pipeline on the delivered view: plain list functions. *)
Definition spec_ptrans (t : ptrans) (view : list thunk) : list thunk :=
  match t with
  | PMap f => map (TObs f) view
  | PSlice s e => firstn (e - s) (skipn s view)
  | PConcatR es2 => view ++ es2
  | PConcatL es1 => es1 ++ view
  | PCtr c => map (TCtr c) view
  end.

Fixpoint run_pipeline (ts : list ptrans) (v : lval) : res lval :=
  match ts with
  | [] => Ok v
  | t :: ts' =>
      match v with
      | VArr es p => bind (run_ptrans t es p) (run_pipeline ts')
      | _ => Err ETypeErr
      end
  end.

Definition spec_pipeline (ts : list ptrans) (view : list thunk) : list thunk :=
  fold_left (fun v t => spec_ptrans t v) ts view.

Lemma ptrans_tracked : forall t es p v,
  run_ptrans t es p = Ok v -> view_arr v = spec_ptrans t (view_arr (VArr es p)).
Proof.
  intros [f|s e|es2|es1|c] es p v H; cbn in H.
  - injection H as <-. apply map_tracked.
  - now apply slice_tracked.
  - injection H as <-. cbn [spec_ptrans].
    unfold prim_array_concat.
    destruct (is_inline_empty es p) eqn:E1.
    { destruct es, p; try discriminate. cbn. now rewrite arr_elems_nil_pend. }
    destruct (is_inline_empty es2 []) eqn:E2.
    { destruct es2; try discriminate. cbn [view_arr]. now rewrite app_nil_r. }
    destruct (pend_eqb p []) eqn:E.
    + destruct p; [|destruct p; discriminate]. cbn [view_arr]. now rewrite !arr_elems_nil_pend.
    + cbn [view_arr]. now rewrite !arr_elems_nil_pend.
  - injection H as <-. cbn [spec_ptrans].
    unfold prim_array_concat.
    destruct (is_inline_empty es1 []) eqn:E1.
    { destruct es1; try discriminate. reflexivity. }
    destruct (is_inline_empty es p) eqn:E2.
    { destruct es, p; try discriminate. cbn. now rewrite arr_elems_nil_pend, app_nil_r. }
    destruct (pend_eqb [] p) eqn:E.
    + destruct p; [|discriminate]. cbn [view_arr]. now rewrite !arr_elems_nil_pend.
    + cbn [view_arr]. now rewrite !arr_elems_nil_pend.
  - injection H as <-. apply lazy_app_tracked.
Qed.

(** pending_tracked, composed: whatever the pipeline, the components of the result are the
    components of the operand's delivered view, transformed by the pipeline's list function. *)
Theorem pipeline_tracked : forall ts es p v,
  run_pipeline ts (VArr es p) = Ok v ->
  exists es' p', v = VArr es' p' /\ view_arr v = spec_pipeline ts (view_arr (VArr es p)).
Proof.
  induction ts as [|t ts IH]; intros es p v H.
  - injection H as <-. exists es, p. split; reflexivity.
  - cbn [run_pipeline] in H. destruct (run_ptrans t es p) as [w|] eqn:E; [|discriminate].
    cbn [bind] in H. pose proof (ptrans_tracked _ _ _ _ E) as Hw.
    assert (exists es1 p1, w = VArr es1 p1) as [es1 [p1 ->]].
    { destruct t; cbn in E; try (injection E as <-).
      - eexists _, _. reflexivity.
      - unfold prim_array_slice in E. destruct (_ || _); [discriminate|]. injection E as <-. eexists _, _. reflexivity.
      - unfold prim_array_concat. repeat destruct (_ : bool); eexists _, _; reflexivity.
      - unfold prim_array_concat. repeat destruct (_ : bool); eexists _, _; reflexivity.
      - eexists _, _. reflexivity. }
    destruct (IH _ _ _ H) as [es' [p' [-> Hv]]]. exists es', p'. split; auto.
    rewrite Hv. cbn [spec_pipeline fold_left]. unfold spec_pipeline. now rewrite Hw.
Qed.

Example pipeline_tracked_nonvacuous :
  exists v, run_pipeline [PCtr (true, CNum); PMap (OAddK 1); PSlice 1 2; PConcatL [TVal (Ok (VNum 7))]]
              (VArr [TVal (Ok (VNum 1)); TVal (Ok (VStr "bad"))] []) = Ok v
            /\ view_arr v = [TVal (Ok (VNum 7)); TObs (OAddK 1) (TCtr (true, CNum) (TVal (Ok (VStr "bad"))))].
Proof. eexists. split; reflexivity. Qed.
