(* C08 - several delayed contracts on the same container.

   A pending list guards like the conjunction of its contracts: a delivered component is checked
   against every contract of the list, in order, and the first one it violates blames.  For flat
   (first-order) element contracts this is an equation on evaluation ([stack_conj]); consequently
   the outcome of any observer pipeline depends only on the *set* of contracts of the stack:
   dropping an element of the list that is equal to a kept one - which is all that
   [push_dedup] / [combine_dedup] / the lazy branch of ArrayConcat may do - is unobservable
   ([dedup_unobservable], [stack_set_equiv]), whereas dropping a contract that is not in the list
   is observable ([drop_distinct_refuted]).  [reached_blames_stack] is observe_blames_iff_reached
   for a stack: a reached component is blamed as soon as one contract of the stack rejects it. *)
From Coq Require Import List ZArith String Bool Arith Lia.
Import ListNotations.
From NV Require Import Delayed.Model Delayed.Spec Delayed.Tracked Delayed.Rel Delayed.Main.
Open Scope list_scope.

Definition flat (c : ctr) : bool :=
  match c with CDyn | CNum | CStr | CGt _ => true | _ => false end.

(** The denotation of a flat contract on a value in weak head normal form. *)
Definition accepts (c : ctr) (v : lval) : bool :=
  match c, v with
  | CDyn, _ => true
  | CNum, VNum _ => true
  | CStr, VStr _ => true
  | CGt k, VNum z => Z.ltb k z
  | _, _ => false
  end.

Lemma flat_apply : forall b c v, flat c = true ->
  apply_ctr b c (Ok v) = if accepts c v then Ok v else Err (blame b).
Proof.
  intros b c v F. destruct c; try discriminate; destruct v; cbn; try reflexivity.
Qed.

(** The label of the first contract of the list that rejects the value. *)
Fixpoint first_reject (v : lval) (p : list pc) : option bool :=
  match p with
  | [] => None
  | (b, c) :: p' => if accepts c v then first_reject v p' else Some b
  end.

Lemma first_reject_none : forall v p,
  first_reject v p = None <-> forallb (fun c => accepts c v) (map snd p) = true.
Proof.
  induction p as [|[b c] p IH]; cbn; [tauto|]. destruct (accepts c v); cbn; [exact IH|].
  split; discriminate.
Qed.

(** T: a list of pending contracts guards like its conjunction. *)
Theorem stack_conj : forall n p t, forallb flat (map snd p) = true ->
  eval n (tctrs p t) =
  match eval n t with
  | Err e => Err e
  | Ok v => match first_reject v p with None => Ok v | Some b => Err (blame b) end
  end.
Proof.
  intros n p. induction p as [|[b c] p IH]; intros t F; cbn in F.
  - cbn. destruct (eval n t); reflexivity.
  - apply andb_prop in F as [Fc Fp].
    change (tctrs ((b, c) :: p) t) with (tctrs p (TCtr (b, c) t)). rewrite (IH _ Fp), eval_TCtr.
    destruct (eval n t) as [v|e]; [|reflexivity]. rewrite (flat_apply b c v Fc). cbn [first_reject].
    destruct (accepts c v); reflexivity.
Qed.

Corollary stack_accepts_iff_all : forall n p t v, forallb flat (map snd p) = true ->
  eval n t = Ok v ->
  (eval n (tctrs p t) = Ok v <-> forallb (fun c => accepts c v) (map snd p) = true).
Proof.
  intros n p t v F E. rewrite (stack_conj n p t F), E. rewrite <- first_reject_none.
  destruct (first_reject v p); split; intros; try discriminate; auto.
Qed.

(** T: the outcome only depends on the set of contracts (up to the polarity of the blame):
    in particular a duplicate can be dropped. *)
Theorem dedup_unobservable : forall n p q t,
  forallb flat (map snd p) = true -> forallb flat (map snd q) = true ->
  (forall c, In c (map snd p) <-> In c (map snd q)) ->
  res_sim (eval n (tctrs p t)) (eval n (tctrs q t)).
Proof.
  intros n p q t Fp Fq S. rewrite (stack_conj n p t Fp), (stack_conj n q t Fq).
  destruct (eval n t) as [v|e]; [|cbn; now left].
  assert (forallb (fun c => accepts c v) (map snd p) = forallb (fun c => accepts c v) (map snd q)) as E.
  { apply eq_true_iff_eq. rewrite !forallb_forall. split; intros H c Hc; apply H; now apply S. }
  destruct (first_reject v p) as [b1|] eqn:R1, (first_reject v q) as [b2|] eqn:R2; cbn; auto.
  - apply blame_sim.
  - apply first_reject_none in R2. rewrite <- E in R2. apply first_reject_none in R2. congruence.
  - apply first_reject_none in R1. rewrite E in R1. apply first_reject_none in R1. congruence.
Qed.

Corollary push_dedup_unobservable : forall n p b c t,
  forallb flat (map snd p) = true -> In c (map snd p) ->
  res_sim (eval n (tctrs (p ++ [(b, c)]) t)) (eval n (tctrs p t)).
Proof.
  intros n p b c t F I. assert (flat c = true) as Fc.
  { rewrite forallb_forall in F. auto. }
  apply dedup_unobservable; auto.
  - rewrite map_app, forallb_app, F. cbn. now rewrite Fc.
  - intros d. rewrite map_app, in_app_iff. cbn. split; [intros [H|[<-|[]]]; auto | auto].
Qed.

(** ... whereas a contract that is not in the list cannot be dropped. *)
Lemma drop_distinct_refuted :
  exists n p b c t, forallb flat (map snd (p ++ [(b, c)])) = true /\
    ~ res_sim (eval n (tctrs (p ++ [(b, c)]) t)) (eval n (tctrs p t)).
Proof.
  exists 1, [(true, CNum)], true, (CGt 5), (TVal (Ok (VNum 1))). split; [reflexivity|].
  vm_compute. auto.
Qed.

(** ** Stacks of array annotations on a flat array, through any pipeline *)

Definition Hole_false : forall A : Type, res A -> Prop := fun _ _ => False.

Lemma relR_false_sim : forall A (r1 r2 : res A), RelR Hole_false eq r1 r2 -> res_sim r1 r2.
Proof. intros A r1 r2 H. destruct H; cbn; auto. contradiction. Qed.

Lemma eval_arr_stack : forall n cs es p,
  eval n (annotate_all (map CArr cs) (TVal (Ok (VArr es p)))) = Ok (VArr es (p ++ map (pair true) cs)).
Proof.
  intros n cs. unfold annotate_all. induction cs as [|c cs IH] using rev_ind; intros es p.
  - cbn. now rewrite eval_TVal, app_nil_r.
  - rewrite !map_app. cbn [map]. rewrite tctrs_snoc, eval_TCtr, IH. cbn.
    unfold prim_array_lazy_app. now rewrite <- app_assoc.
Qed.

Definition atom_plain (a : atom) : bool := match a with AProbe => false | _ => true end.

Lemma same_ctrs_flat : forall q p, same_ctrs q p -> forallb flat (map snd p) = true -> forallb flat (map snd q) = true.
Proof. intros q p S F. unfold same_ctrs in S. now rewrite S. Qed.

(** T: two stacks with the same set of (flat) element contracts are indistinguishable. *)
Theorem stack_set_equiv : forall n xs cs1 cs2 o,
  supported o -> forallb atom_plain xs = true ->
  forallb flat cs1 = true -> forallb flat cs2 = true ->
  (forall c, In c cs1 <-> In c cs2) ->
  res_sim (run_stack n (KArr xs) (map CArr cs1) o) (run_stack n (KArr xs) (map CArr cs2) o).
Proof.
  intros n xs cs1 cs2 o So PL F1 F2 S. unfold run_stack. apply relR_false_sim.
  apply program_rel; try exact So; try (intros; contradiction).
  intros m. cbn [thunk_of_container]. rewrite !eval_arr_stack. cbn [app]. constructor. apply RV_arr'.
  intros q1 q2 m' S1 S2. unfold same_ctrs in S1, S2. rewrite app_nil_l in S1, S2. unfold arr_elems. rewrite !map_map.
  assert (forall l : list ctr, map snd (map (pair true) l) = l) as MS by (induction l; cbn; congruence).
  assert (forallb flat (map snd q1) = true) as Fq1.
  { unfold same_ctrs in S1. rewrite S1, MS. exact F1. }
  assert (forallb flat (map snd q2) = true) as Fq2.
  { unfold same_ctrs in S2. rewrite S2, MS. exact F2. }
  assert (forall c, In c (map snd q1) <-> In c (map snd q2)) as SQ.
  { intros c. unfold same_ctrs in S1, S2. rewrite S1, S2, !MS. apply S. }
  clear -PL Fq1 Fq2 SQ. induction xs as [|x xs IH]; cbn in *; constructor.
  - apply andb_prop in PL as [Px _].
    pose proof (dedup_unobservable m' q1 q2 (thunk_of_atom x) Fq1 Fq2 SQ) as D.
    rewrite (stack_conj m' q1 _ Fq1), (stack_conj m' q2 _ Fq2) in *.
    destruct x; try discriminate; cbn [thunk_of_atom] in *; rewrite eval_TVal in *.
    + destruct (first_reject (VNum z) q1), (first_reject (VNum z) q2); cbn in D; try contradiction;
        try (apply relR_blame); constructor; constructor.
    + destruct (first_reject (VStr s) q1), (first_reject (VStr s) q2); cbn in D; try contradiction;
        try (apply relR_blame); constructor; constructor.
    + apply relR_err. discriminate.
  - apply IH. apply andb_prop in PL as [_ P]. exact P.
Qed.

(** T (observe_blames_iff_reached for a stack): on a flat array annotated with several array
    contracts, a reached component is blamed as soon as one contract of the stack rejects it (the
    others being accepted by all of them). *)
Definition atom_val (a : atom) : option lval :=
  match a with ANum z => Some (VNum z) | AStr s => Some (VStr s) | _ => None end.

Definition atom_accepted (cs : list ctr) (a : atom) : bool :=
  match a with
  | AProbe => false
  | AFail => true
  | _ => match atom_val a with Some v => forallb (fun c => accepts c v) cs | None => false end
  end.

Fixpoint others_accepted (cs : list ctr) (i : nat) (xs : list atom) : bool :=
  match xs, i with
  | [], _ => true
  | _ :: xs', 0 => forallb (atom_accepted cs) xs'
  | x :: xs', S i' => atom_accepted cs x && others_accepted cs i' xs'
  end.

Theorem reached_blames_stack : forall n xs cs o i a v,
  supported o -> forallb flat cs = true ->
  others_accepted cs i xs = true ->
  atom_val a = Some v -> forallb (fun c => accepts c v) cs = false ->
  reaches n (KArr xs) o [i] = true ->
  exists e, run_stack n (plug (KArr xs) [i] a) (map CArr cs) o = Err e /\ is_blame e = true.
Proof.
  intros n xs cs o i a v So F OA AV REJ R. unfold reaches in R. rewrite run_unfold in R.
  unfold run_stack.
  assert (RelR (Hole_err E_blame) eq
            (force n (TObs o (annotate None (thunk_of_container (plug (KArr xs) [i] AProbe)))))
            (force n (TObs o (annotate_all (map CArr cs) (thunk_of_container (plug (KArr xs) [i] a)))))) as H.
  { apply program_rel; try exact So; try apply Hole_err_bind;
      try (apply Hole_err_serde; exact E_blame_serde).
    intros m. cbn [annotate plug thunk_of_container]. rewrite eval_arr_stack, eval_TVal. cbn [app].
    constructor. apply RV_arr'. intros q1 q2 m' S1 S2. unfold same_ctrs in S2. rewrite app_nil_l in S2. apply same_ctrs_nil in S1. subst.
    rewrite arr_elems_nil_pend. unfold arr_elems. rewrite map_map.
    assert (forall l : list ctr, map snd (map (pair true) l) = l) as MS by (induction l; cbn; congruence).
    assert (forallb flat (map snd q2) = true) as Fq.
    { unfold same_ctrs in S2. rewrite S2, MS. exact F. }
    assert (map snd q2 = cs) as Eq2 by (unfold same_ctrs in S2; now rewrite S2, MS).
    clear R S2. revert i OA. induction xs as [|x xs IH]; intros [|i] OA; cbn in *; try constructor.
    - (* the marked position *)
      rewrite eval_TVal, (stack_conj m' q2 _ Fq).
      destruct a; try discriminate; cbn [thunk_of_atom]; rewrite eval_TVal; injection AV as <-.
      + destruct (first_reject (VNum z) q2) eqn:FR.
        * constructor. exists (blame b). split; [reflexivity | destruct b; reflexivity].
        * apply first_reject_none in FR. rewrite Eq2 in FR. congruence.
      + destruct (first_reject (VStr s) q2) eqn:FR.
        * constructor. exists (blame b). split; [reflexivity | destruct b; reflexivity].
        * apply first_reject_none in FR. rewrite Eq2 in FR. congruence.
    - (* the others after it *)
      clear IH. induction xs as [|y ys IHy]; cbn in *; constructor.
      + apply andb_prop in OA as [Oy _]. rewrite (stack_conj m' q2 _ Fq).
        destruct y; try discriminate; cbn [thunk_of_atom] in *; rewrite !eval_TVal.
        * cbn in Oy. rewrite <- Eq2 in Oy. apply first_reject_none in Oy. rewrite Oy. constructor. constructor.
        * cbn in Oy. rewrite <- Eq2 in Oy. apply first_reject_none in Oy. rewrite Oy. constructor. constructor.
        * apply relR_err. discriminate.
      + apply IHy. apply andb_prop in OA as [_ P]. exact P.
    - apply andb_prop in OA as [Ox _]. rewrite (stack_conj m' q2 _ Fq).
      destruct x; try discriminate; cbn [thunk_of_atom] in *; rewrite !eval_TVal.
      + cbn in Ox. rewrite <- Eq2 in Ox. apply first_reject_none in Ox. rewrite Ox. constructor. constructor.
      + cbn in Ox. rewrite <- Eq2 in Ox. apply first_reject_none in Ox. rewrite Ox. constructor. constructor.
      + apply relR_err. discriminate.
    - apply IH. apply andb_prop in OA as [_ P]. exact P. }
  apply relR_hole in H; [|exact R]. exact H.
Qed.

(** laziness for a stack of annotations (any contracts, any container). *)
Theorem laziness_stack : forall n k Ts o pos a,
  supported o -> container_ok k ->
  is_probe (run_stack n (plug k pos AProbe) Ts o) = false ->
  res_sim (run_stack n (plug k pos AProbe) Ts o) (run_stack n (plug k pos a) Ts o).
Proof.
  intros n k Ts o pos a So CK P. unfold run_stack in *.
  eapply relR_sim; [|exact P].
  apply program_rel; try exact So; try exact Hole_any_bind; try (intros; exact I).
  unfold annotate_all. apply relT_ctrs; try exact Hole_any_bind; [reflexivity|].
  apply plug_rel; try exact CK; try exact Hole_any_bind. exact I.
Qed.

Example stack_ex :
  run_stack 8 (KArr [ANum 1; ANum 0]) [CArr CNum; CArr (CGt 0)] (OAtP 1) = Err EBlame /\
  run_stack 8 (KArr [ANum 1; ANum 0]) [CArr CNum; CArr (CGt 0)] (OAtP 0) = Ok (TrNum 1) /\
  run_stack 8 (KArr [ANum 1; ANum 0]) [CArr CNum] (OAtP 1) = Ok (TrNum 0).
Proof. vm_compute. auto. Qed.
