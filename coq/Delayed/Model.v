(* C08 - delayed (lazy) contracts on arrays, records and functions: mechanism-shaped model.

   What is mirrored from /repo (core/src/eval/operation.rs unless said otherwise):
     - an array value is (elements, pending_contracts) exactly as [ArrayData]; a record value is a
       list of fields in insertion order, each with its own pending contracts ([Field]);
     - elements / field values are *unevaluated* components ([thunk]): a literal leaf, a contract
       application [TCtr] (what [RuntimeContract::apply_all] builds), an application of an
       observer/function [TObs] (the closures [ArrayMap]/[RecordMap] build), a lazy merge, a lazy
       equality, a record literal;
     - the primitive operations are *syntactic*: they build new thunks and move pending contracts
       around exactly where operation.rs does (ArrayAt applies them to what it extracts, ArrayMap
       pushes them inside the new closures, ArrayConcat keeps them if both sides agree and
       otherwise applies each side's contracts to its own elements, ArraySlice keeps them,
       ArrayLength ignores them, RecordAccess/RecordGet/RecordValues/RecordMap/RecordFreeze
       apply them, RecordFields looks at names only, ...);
     - the contracts of internals.ncl: $array and $dict_contract push a pending contract,
       $dict_type and $record_type go through %record/map%, a record contract goes through
       merge-in-contract-mode, $func wraps the function;
     - evaluation order where it decides *which* error surfaces: Force / DeepSeq visit elements
       from the last to the first, array equality compares from the last pair to the first, record
       equality compares the first common field and then the others from the last to the second,
       fold_left is strict in the accumulator from the lft, fold_right is lazy to the rgt.
   The standard-library combinators are hand translations of their std.ncl source (listed at
   [obs_sem]); they reach the elements only through the primitives above.

   Abstractions (not modelled): sharing/memoisation of thunks, environments, positions and labels
   other than the polarity, contract deduplication ([push_dedup]/[contract_eq] are modelled as a
   plain push, which only changes how many times an idempotent check runs), optional fields and
   fields without definition, polymorphic (sealing) contracts attached by the static types of the
   stdlib functions (C11), numbers other than integers.

   Evaluation is fuel indexed ([eval n]); fuel is consumed when an observer application is entered
   (never by a contract application), so the same fuel is used with and without contracts. *)
From Coq Require Import List ZArith String Bool Arith.
Import ListNotations.
Open Scope string_scope.
Open Scope list_scope.

(* ------------------------------------------------------------------------------------------ *)
(** * Outcomes *)

Inductive err :=
| EBlame        (* contract violation, positive polarity (the value is at fault) *)
| EBlameNeg     (* contract violation, negative polarity (the context / caller is at fault) *)
| EFail         (* [std.fail_with "boom"]: a failing component *)
| EOther        (* EvalErrorKind::Other: index out of bounds, insert of an existing field... *)
| ETypeErr      (* dynamic type error of a primitive operator *)
| EFieldMissing
| ENonMergeable
| ENotExportable
| ESerialize
| EIncomparable
| ENotAFunc
| ENonExhaustive (* no branch of a match applies *)
| EFuel         (* the model ran out of fuel: never expected on generated cases *)
| EProbe        (* a marker used by the specification: "this component has been observed" *)
| EUnmodelled.  (* the case leaves the modelled fragment *)

Inductive res (A : Type) : Type := Ok (a : A) | Err (e : err).
Arguments Ok {A} a.
Arguments Err {A} e.

Definition bind {A B} (r : res A) (k : A -> res B) : res B :=
  match r with Ok a => k a | Err e => Err e end.

(* ------------------------------------------------------------------------------------------ *)
(** * Syntax *)

(** Contracts (types used as contracts and record contracts).  [CRecT names c] is the record type
    [{n1 : c, n2 : c, ...}] (closed), [CRecC names c open] the record contract
    [{n1 | c, n2 | c, ...[, ..]}]. *)
Inductive ctr :=
| CDyn | CNum | CStr
| CGt (k : Z)                             (* std.contract.from_predicate (fun x => std.is_number x && x > k) *)
| CArr (c : ctr)
| CDictT (c : ctr)                       (* {_ : c}   $dict_type     *)
| CDictC (c : ctr)                       (* {_ | c}   $dict_contract *)
| CRecT (names : list string) (c : ctr)
| CRecC (names : list string) (c : ctr) (open : bool)
| CFun (d c : ctr).

(** A pending contract: polarity of its label ([true] = positive) and the contract. *)
Definition pc := (bool * ctr)%type.

(** Atoms of literals: a number, the string "bad" (any string), a failing component, and the
    specification's observation marker (never generated as a program). *)
Inductive atom := ANum (z : Z) | AStr (s : string) | AFail | AProbe.

(** Literal operands of binary observers: an array / a record of atoms, optionally annotated. *)
Inductive lit :=
| LArr (xs : list atom) (c : option ctr)
| LRec (fs : list (string * atom)) (c : option ctr).

(** Binary functions (for folds and record maps): [fun a b => ...]. *)
Inductive fun2 :=
| F2Add                (* a + b *)
| F2Count              (* a + 1 *)
| F2Fst | F2Snd
| F2SndAdd (k : Z)     (* b + k *)
| F2Const (z : Z).

(** Predicates on a field (for std.record.filter): [fun name value => ...]. *)
Inductive pred2 :=
| P2ValGt (k : Z)          (* value > k *)
| P2True
| P2NameEq (s : string).   (* name == s *)

(** Observers: functions from one lazy value to a value. *)
Inductive obs :=
(* scalar functions *)
| OId | OConst (z : Z) | OConstB (b : bool) | OConstS (s : string) | OAddK (k : Z) | OGtK (k : Z) | OEqK (z : Z)
| OComp (o1 o2 : obs)                     (* fun x => o2 (o1 x) *)
(* arrays *)
| OAtP (i : nat)                          (* %array/at% x i *)
| OAt (i : nat)                           (* std.array.at i x *)
| OFirst | OLast | OLength
| OMap (f : obs)
| OConcatR (l : lit)                      (* x @ l *)
| OConcatL (l : lit)                      (* l @ x *)
| OSlice (s e : nat)                      (* std.array.slice s e x *)
| OSliceP (s e : nat)                     (* %array/slice% s e x *)
| OFoldL (f : fun2) (init : Z)
| OFoldR (f : fun2) (init : Z)
| OFilter (p : obs) | OAny (p : obs) | OAll (p : obs) | OElem (z : Z)
| OReverse | OFlatten
| OSort                                   (* std.array.sort with the usual comparison of numbers *)
| OSeq | ODeepSeq | OSerde
| OEqR (l : lit) | OEqL (l : lit)
| OCtr (c : ctr)                          (* x | c *)
(* observers that use their (shared) argument twice: [let w = x in ...] *)
| OEq2 (o1 o2 : obs)                      (* o1 w == o2 w *)
| OConcat2 (o1 o2 : obs)                  (* o1 w @ o2 w *)
| OMerge2 (o1 o2 : obs)                   (* o1 w & o2 w *)
| OElemOf (o1 : obs)                      (* std.array.elem (o1 w) w *)
(* records *)
| OAccess (k : string)                    (* x.k *)
| OGet (k : string)                       (* std.record.get k x *)
| OFields | OValues
| ORecMap (f : fun2)                      (* std.record.map (fun name value => ...) x *)
| OMapValues (f : obs)
| OFreeze
| OInsert (k : string) (z : Z)
| ORemove (k : string)
| OHasField (k : string)
| OToArray
| OFromArray                              (* std.record.from_array x *)
| OPatHead                                (* x |> match { [h, ..t] => h } *)
| OPatTail                                (* x |> match { [h, ..t] => t } *)
| OPatField (k : string)                  (* x |> match { {k = v, ..rest} => v } *)
| OPatRest (k : string)                   (* x |> match { {k = v, ..rest} => rest } *)
| ORecFilter (p : pred2)                  (* std.record.filter (fun name value => ...) x *)
| OMergeR (l : lit) | OMergeL (l : lit)
(* functions *)
| OCall (a : atom)
(* deliberately broken primitives (never used by the generator; see Spec.v, *_refuted) *)
| OConcatL_broken (l : lit)               (* ArrayConcat dropping the rgt operand's contracts *)
| OConcatL_prefix (l : lit)               (* ArrayConcat as it was before 95e63eb *)
| OValues_broken.                         (* RecordValues ignoring the pending contracts *)

(** Unevaluated components, values in weak head normal form, function values. *)
Inductive thunk :=
| TVal (r : res lval)                     (* a literal / an already computed outcome *)
| TCtr (c : pc) (t : thunk)               (* %contract/apply% c label t *)
| TObs (o : obs) (t : thunk)              (* o t *)
| TApp2 (f : fun2) (a b : thunk)          (* f a b *)
| TMerge (a b : thunk)                    (* a & b *)
| TEq (a b : thunk)                       (* a == b *)
| TRecLit (fs : list (string * thunk))    (* { k = t, ... } *)
| TSelf                                   (* the enclosing record, in a field definition: a recursive
                                             reference to a sibling [a] is [TObs (OAccess a) TSelf] *)
with lval :=
| VNum (z : Z) | VStr (s : string) | VBool (b : bool)
| VArr (es : list thunk) (pend : list pc)
| VRec (fs : list (string * (thunk * list pc)))
| VFun (f : fn)
with fn :=
| FBase (o : obs)
| FWrap (pol : bool) (d c : ctr) (f : fn). (* the function built by $func *)

Definition field := (string * (thunk * list pc))%type.

(** The recursive environment (fixpoint.rs, [rec_env]).  A field definition sees the record it
    belongs to *as it is delivered*: every sibling with its pending contracts.  [close_rec] binds
    [TSelf] in every field definition to the record value itself (whose fields keep their pending
    contracts, and stay open: they are bound again when they are in turn extracted), which is what
    the evaluation of a recursive record does each time the record is (re)built - after a
    lazily applied contract or a merge the record is reverted and evaluated again, so the binding
    is always to the record with its current pending contracts. *)
Fixpoint subst_self (v : lval) (t : thunk) : thunk :=
  match t with
  | TVal r => TVal r
  | TCtr c t' => TCtr c (subst_self v t')
  | TObs o t' => TObs o (subst_self v t')
  | TApp2 f a b => TApp2 f (subst_self v a) (subst_self v b)
  | TMerge a b => TMerge (subst_self v a) (subst_self v b)
  | TEq a b => TEq (subst_self v a) (subst_self v b)
  | TRecLit fs =>
      TRecLit ((fix go (fs : list (string * thunk)) : list (string * thunk) :=
                  match fs with
                  | [] => []
                  | (k, x) :: fs' => (k, subst_self v x) :: go fs'
                  end) fs)
  | TSelf => TVal (Ok v)
  end.

Definition close_rec (fs : list field) : list field :=
  map (fun fl => (fst fl, (subst_self (VRec fs) (fst (snd fl)), snd (snd fl)))) fs.

(** The variant refuted in Refuted.v: fields whose stored value is a literal constant are handed
    to the recursive environment without their pending contracts. *)
Definition is_constant (t : thunk) : bool :=
  match t with TVal (Ok (VNum _)) | TVal (Ok (VBool _)) => true | _ => false end.

Definition close_rec_constraw (fs : list field) : list field :=
  let env := map (fun fl => if is_constant (fst (snd fl)) then (fst fl, (fst (snd fl), [])) else fl) fs in
  map (fun fl => (fst fl, (subst_self (VRec env) (fst (snd fl)), snd (snd fl)))) fs.

(** The exported (fully forced) result. *)
Inductive tree :=
| TrNum (z : Z) | TrStr (s : string) | TrBool (b : bool)
| TrArr (xs : list tree)
| TrRec (fs : list (string * tree)).

(* ------------------------------------------------------------------------------------------ *)
(** * Small helpers *)

Definition blame (pol : bool) : err := if pol then EBlame else EBlameNeg.

(** [RuntimeContract::apply_all]: the contracts are applied in order, the first one innermost. *)
Definition tctrs (p : list pc) (t : thunk) : thunk := fold_left (fun acc c => TCtr c acc) p t.

Fixpoint ctr_eqb (a b : ctr) : bool :=
  match a, b with
  | CDyn, CDyn | CNum, CNum | CStr, CStr => true
  | CGt k, CGt k' => Z.eqb k k'
  | CArr x, CArr y | CDictT x, CDictT y | CDictC x, CDictC y => ctr_eqb x y
  | CRecT n x, CRecT m y => (if list_eq_dec string_dec n m then true else false) && ctr_eqb x y
  | CRecC n x o, CRecC m y o' =>
      (if list_eq_dec string_dec n m then true else false) && ctr_eqb x y && Bool.eqb o o'
  | CFun d c, CFun d' c' => ctr_eqb d d' && ctr_eqb c c'
  | _, _ => false
  end.

(** The test of ArrayConcat: same number of pending contracts, pairwise equal contracts
    ([contract_eq]) whose labels have the same polarity (since 95e63eb). *)
Fixpoint pend_eqb (p q : list pc) : bool :=
  match p, q with
  | [], [] => true
  | (b, c) :: p', (b', d) :: q' => Bool.eqb b b' && ctr_eqb c d && pend_eqb p' q'
  | _, _ => false
  end.

(** The test as it was before 95e63eb: the labels are not looked at. *)
Fixpoint pend_eqb_nolabel (p q : list pc) : bool :=
  match p, q with
  | [], [] => true
  | (_, c) :: p', (_, d) :: q' => ctr_eqb c d && pend_eqb_nolabel p' q'
  | _, _ => false
  end.

Fixpoint lookup {A} (k : string) (l : list (string * A)) : option A :=
  match l with
  | [] => None
  | (k', a) :: l' => if String.eqb k k' then Some a else lookup k l'
  end.

Definition has_key {A} (k : string) (l : list (string * A)) : bool :=
  match lookup k l with Some _ => true | None => false end.

Definition mem_str (k : string) (l : list string) : bool := existsb (String.eqb k) l.

(** [IndexMap::swap_remove]: the removed entry is replaced by the last one. *)
Fixpoint remove_key {A} (k : string) (l : list (string * A)) : list (string * A) :=
  match l with
  | [] => []
  | (k', a) :: l' => if String.eqb k k' then l' else (k', a) :: remove_key k l'
  end.

Fixpoint replace_key {A} (k : string) (x : string * A) (l : list (string * A)) : list (string * A) :=
  match l with
  | [] => []
  | (k', a) :: l' => if String.eqb k k' then x :: l' else (k', a) :: replace_key k x l'
  end.

Definition swap_remove {A} (k : string) (l : list (string * A)) : list (string * A) :=
  match l with
  | [] => []
  | d :: _ =>
      if has_key k l then
        let lst := last l d in
        if String.eqb k (fst lst) then removelast l else replace_key k lst (removelast l)
      else l
  end.

(** Stable insertion sort of an association list by key (byte-wise string order, as Rust's
    [str::cmp] used by [Ident::cmp] and [field_names]). *)
Fixpoint insert_sorted {A} (x : string * A) (l : list (string * A)) : list (string * A) :=
  match l with
  | [] => [x]
  | y :: l' => if String.ltb (fst x) (fst y) then x :: y :: l' else y :: insert_sorted x l'
  end.

Definition sort_fields {A} (l : list (string * A)) : list (string * A) :=
  fold_left (fun acc x => insert_sorted x acc) l [].

Definition thunk_of_atom (a : atom) : thunk :=
  match a with
  | ANum z => TVal (Ok (VNum z))
  | AStr s => TVal (Ok (VStr s))
  | AFail => TVal (Err EFail)
  | AProbe => TVal (Err EProbe)
  end.

(** A literal is an (unevaluated) array / record literal, possibly under an annotation. *)
Definition thunk_of_lit (l : lit) : thunk :=
  match l with
  | LArr xs c =>
      let v := TVal (Ok (VArr (map thunk_of_atom xs) [])) in
      match c with Some c => TCtr (true, c) v | None => v end
  | LRec fs c =>
      let v := TVal (Ok (VRec (map (fun '(k, a) => (k, (thunk_of_atom a, []))) fs))) in
      match c with Some c => TCtr (true, c) v | None => v end
  end.

(* ------------------------------------------------------------------------------------------ *)
(** * The primitive operations on values (syntactic: they only build thunks) *)

(** What an observer of the elements gets: every element under the pending contracts. *)
Definition arr_elems (es : list thunk) (p : list pc) : list thunk := map (tctrs p) es.

Definition fld_thunk (f : field) : thunk := tctrs (snd (snd f)) (fst (snd f)).

(** ArrayAt: [apply_all(array[n], pending_contracts)]. *)
Definition prim_array_at (es : list thunk) (p : list pc) (i : nat) : res thunk :=
  match nth_error es i with
  | Some e => Ok (tctrs p e)
  | None => Err EOther
  end.

(** ArrayLength: looks at no element. *)
Definition prim_array_length (es : list thunk) (p : list pc) : nat := List.length es.

(** ArrayMap: [f (apply_all(t, pending))] for every element, no pending contract on the result. *)
Definition prim_array_map (f : obs) (es : list thunk) (p : list pc) : lval :=
  VArr (map (fun e => TObs f (tctrs p e)) es) [].

(** ArrayConcat.  An operand which is the inline empty array returns the other operand as it is;
    equal pending contracts are kept lazily; otherwise each side's contracts are applied to its
    own elements (inside new closures) and nothing stays pending. *)
Definition is_inline_empty (es : list thunk) (p : list pc) : bool :=
  match es, p with [], [] => true | _, _ => false end.

Definition prim_array_concat (es1 : list thunk) (p1 : list pc) (es2 : list thunk) (p2 : list pc)
  : lval :=
  if is_inline_empty es1 p1 then VArr es2 p2
  else if is_inline_empty es2 p2 then VArr es1 p1
  else if pend_eqb p1 p2 then VArr (es1 ++ es2) p1
  else VArr (arr_elems es1 p1 ++ arr_elems es2 p2) [].

(** ArrayConcat before 95e63eb (kept for the refutation of the blame-label statement on that
    variant): the lazy branch is taken whatever the labels. *)
Definition prim_array_concat_prefix (es1 : list thunk) (p1 : list pc) (es2 : list thunk) (p2 : list pc)
  : lval :=
  if is_inline_empty es1 p1 then VArr es2 p2
  else if is_inline_empty es2 p2 then VArr es1 p1
  else if pend_eqb_nolabel p1 p2 then VArr (es1 ++ es2) p1
  else VArr (arr_elems es1 p1 ++ arr_elems es2 p2) [].

(** The broken variant used for the refutation: the rgt operand's contracts are dropped. *)
Definition prim_array_concat_broken (es1 : list thunk) (p1 : list pc) (es2 : list thunk)
  (p2 : list pc) : lval :=
  VArr (arr_elems es1 p1 ++ es2) [].

(** ArraySlice: the window changes, the pending contracts stay. *)
Definition prim_array_slice (s e : nat) (es : list thunk) (p : list pc) : res lval :=
  if Nat.ltb e s || Nat.ltb (List.length es) e then Err EOther
  else Ok (VArr (firstn (e - s) (skipn s es)) p).

(** ContractArrayLazyApp. *)
Definition prim_array_lazy_app (c : pc) (es : list thunk) (p : list pc) : lval :=
  VArr es (p ++ [c]).

(** RecordAccess / RecordGet: [get_value_with_ctrs]. *)
Definition prim_record_access (k : string) (fs : list field) : res thunk :=
  match lookup k fs with
  | Some (x, p) => Ok (tctrs p x)
  | None => Err EFieldMissing
  end.

(** RecordFields: names only, sorted. *)
Definition prim_record_fields (fs : list field) : lval :=
  VArr (map (fun f => TVal (Ok (VStr (fst f)))) (sort_fields fs)) [].

(** RecordValues: [iter_without_opts] (pending contracts applied), sorted by field name. *)
Definition prim_record_values (fs : list field) : lval :=
  VArr (map fld_thunk (sort_fields fs)) [].

Definition prim_record_values_broken (fs : list field) : lval :=
  VArr (map (fun f => fst (snd f)) (sort_fields fs)) [].

(** RecordMap: [map_values_closurize] applies the pending contracts, then the function. *)
Definition prim_record_map (f : string -> thunk -> thunk) (fs : list field) : lval :=
  VRec (map (fun fl => (fst fl, (f (fst fl) (fld_thunk fl), []))) fs).

(** RecordFreeze. *)
Definition prim_record_freeze (fs : list field) : list field :=
  map (fun fl => (fst fl, (fld_thunk fl, []))) fs.

(** RecordInsert (on a frozen record, as std.record.insert does). *)
Definition prim_record_insert (k : string) (x : thunk) (fs : list field) : res lval :=
  if has_key k fs then Err EOther else Ok (VRec (fs ++ [(k, (x, []))])).

(** RecordRemove: [swap_remove]. *)
Definition prim_record_remove (k : string) (fs : list field) : res lval :=
  if has_key k fs then Ok (VRec (swap_remove k fs)) else Err EFieldMissing.

(** ContractRecordLazyApp: the contract is pushed on every field. *)
Definition prim_record_lazy_app (c : pc) (fs : list field) : lval :=
  VRec (map (fun fl => (fst fl, (fst (snd fl), snd (snd fl) ++ [c]))) fs).

(** [merge::split::split_ref] on two field lists: the smaller map is cloned and emptied with
    [swap_remove] while the other one is iterated. *)
Definition cfield := (string * ((thunk * list pc) * (thunk * list pc)))%type.
Definition split_state := (list field * list cfield * list field)%type.

Definition split_step_a (st : split_state) (f2 : field) : split_state :=
  let '(lft, ctrf, rgt) := st in
  let '(k, v2) := f2 in
  match lookup k lft with
  | Some v1 => (swap_remove k lft, ctrf ++ [(k, (v1, v2))], rgt)
  | None => (lft, ctrf, rgt ++ [(k, v2)])
  end.

Definition split_step_b (st : split_state) (f1 : field) : split_state :=
  let '(lft, ctrf, rgt) := st in
  let '(k, v1) := f1 in
  match lookup k rgt with
  | Some v2 => (lft, ctrf ++ [(k, (v1, v2))], swap_remove k rgt)
  | None => (lft ++ [(k, v1)], ctrf, rgt)
  end.

Definition split_fields (m1 m2 : list field) : split_state :=
  if Nat.ltb (List.length m1) (List.length m2) then fold_left split_step_a m2 (m1, [], [])
  else fold_left split_step_b m1 ([], [], m2).

(** Record merge (standard mode): lft-only and rgt-only fields keep their pending contracts,
    a common field becomes the lazy merge of the two values under the contracts of both sides. *)
Definition prim_record_merge (m1 m2 : list field) : lval :=
  match m1, m2 with
  | [], _ => VRec m2
  | _, [] => VRec m1
  | _, _ =>
      let '(lft, ctrf, rgt) := split_fields m1 m2 in
      VRec (lft ++ rgt
            ++ map (fun '(k, ((x1, p1), (x2, p2))) => (k, (TMerge x1 x2, p1 ++ p2))) ctrf)
  end.

(* ------------------------------------------------------------------------------------------ *)
(** * Contract application (internals.ncl), on a value in weak head normal form *)

Definition apply_ctr (pol : bool) (c : ctr) (r : res lval) : res lval :=
  bind r (fun v =>
  match c with
  | CDyn => Ok v
  | CNum => match v with VNum _ => Ok v | _ => Err (blame pol) end
  | CStr => match v with VStr _ => Ok v | _ => Err (blame pol) end
  | CGt k => match v with VNum z => if Z.ltb k z then Ok v else Err (blame pol) | _ => Err (blame pol) end
  | CArr c' =>                                  (* $array: %contract/array_lazy_apply% *)
      match v with
      | VArr es p => Ok (prim_array_lazy_app (pol, c') es p)
      | _ => Err (blame pol)
      end
  | CDictC c' =>                                (* $dict_contract: %contract/record_lazy_apply% *)
      match v with
      | VRec fs => Ok (prim_record_lazy_app (pol, c') fs)
      | _ => Err (blame pol)
      end
  | CDictT c' =>                                (* $dict_type: %record/map% *)
      match v with
      | VRec fs => Ok (prim_record_map (fun _ t => TCtr (pol, c') t) (close_rec fs))
      | _ => Err (blame pol)
      end
  | CRecT names c' =>                           (* $record_type: split, then %record/map% *)
      match v with
      | VRec fs0 =>
          let fs := close_rec fs0 in
          if negb (forallb (fun n => has_key n fs) names) then Err (blame pol)       (* missing *)
          else if negb (forallb (fun fl => mem_str (fst fl) names) fs) then Err (blame pol) (* extra *)
          else
            Ok (VRec (flat_map
                        (fun n => match lookup n fs with
                                  | Some (x, p) => [(n, (TCtr (pol, c') (tctrs p x), []))]
                                  | None => []
                                  end) names))
      | _ => Err (blame pol)
      end
  | CRecC names c' open =>                      (* $record_contract: merge in contract mode; a field
                                                   contract keeps the label of its own annotation *)
      match v with
      | VRec fs =>
          let lft := filter (fun fl => negb (mem_str (fst fl) names)) fs in
          let ctrf := filter (fun fl => mem_str (fst fl) names) fs in
          if negb open && negb (match lft with [] => true | _ => false end) then Err (blame pol)
          else if negb (forallb (fun n => has_key n fs) names) then Err EUnmodelled
          else
            Ok (VRec (lft
                      ++ map (fun fl => (fst fl, (fst (snd fl), snd (snd fl) ++ [(true, c')])))
                           ctrf))
      | _ => Err (blame pol)
      end
  | CFun d c' =>                                (* $func *)
      match v with
      | VFun f => Ok (VFun (FWrap pol d c' f))
      | _ => Err (blame pol)
      end
  end).

(* ------------------------------------------------------------------------------------------ *)
(** * Evaluation *)

Definition as_num (v : lval) : res Z := match v with VNum z => Ok z | _ => Err ETypeErr end.
Definition as_bool (v : lval) : res bool := match v with VBool b => Ok b | _ => Err ETypeErr end.

(** [e] is the error when the value is not an array: a type error for a primitive, a negative
    blame for a stdlib function (its type annotation is a contract on the argument). *)
Definition as_arr (e : err) (v : lval) : res (list thunk * list pc) :=
  match v with VArr es p => Ok (es, p) | _ => Err e end.
(** Every observer of a record works on the evaluated record: field definitions bound to their
    recursive environment. *)
Definition as_rec (e : err) (v : lval) : res (list field) :=
  match v with VRec fs => Ok (close_rec fs) | _ => Err e end.

Definition fun2_sem (f : fun2) (a b : res lval) : res lval :=
  match f with
  | F2Add => (* both operands are evaluated (left first) before their types are checked *)
             bind a (fun va => bind b (fun vb =>
             bind (as_num va) (fun x => bind (as_num vb) (fun y => Ok (VNum (x + y))))))
  | F2Count => bind a (fun va => bind (as_num va) (fun x => Ok (VNum (x + 1))))
  | F2Fst => a
  | F2Snd => b
  | F2SndAdd k => bind b (fun vb => bind (as_num vb) (fun y => Ok (VNum (y + k))))
  | F2Const z => Ok (VNum z)
  end.

Fixpoint tree_to_lval (t : tree) : lval :=
  match t with
  | TrNum z => VNum z
  | TrStr s => VStr s
  | TrBool b => VBool b
  | TrArr xs => VArr (map (fun x => TVal (Ok (tree_to_lval x))) xs) []
  | TrRec fs =>
      VRec ((fix go (fs : list (string * tree)) : list field :=
               match fs with
               | [] => []
               | (k, x) :: fs' => (k, (TVal (Ok (tree_to_lval x)), [])) :: go fs'
               end) fs)
  end.

Section Sem.
  (** The evaluator and the forcer with one unit of fuel less. *)
  Variable ev : thunk -> res lval.
  Variable fo : thunk -> res tree.

  Definition ev_bool (t : thunk) : res bool := bind (ev t) as_bool.

  (** Function application; [$func] checks the argument (flipped polarity) and the result. *)
  Fixpoint app (f : fn) (arg : thunk) : res lval :=
    match f with
    | FBase o => ev (TObs o arg)
    | FWrap pol d c f' => apply_ctr pol c (app f' (TCtr (negb pol, d) arg))
    end.

  (** std.array.fold_left: strict in the accumulator, elements through %array/at%. *)
  Fixpoint foldl_go (f : fun2) (xs : list thunk) (acc : lval) : res lval :=
    match xs with
    | [] => Ok acc
    | x :: xs' => bind (fun2_sem f (Ok acc) (ev x)) (fun acc' => foldl_go f xs' acc')
    end.

  (** std.array.fold_right: [f (at n) (go (n + 1))], the rest is passed unevaluated. *)
  Fixpoint foldr_go (f : fun2) (xs : list thunk) (init : lval) : res lval :=
    match xs with
    | [] => Ok init
    | x :: xs' => fun2_sem f (ev x) (foldr_go f xs' init)
    end.

  (** std.array.any / all: fold_right with [if pred x then true else acc]. *)
  Fixpoint any_go (p : obs) (xs : list thunk) : res lval :=
    match xs with
    | [] => Ok (VBool false)
    | x :: xs' => bind (ev_bool (TObs p x)) (fun b => if b then Ok (VBool true) else any_go p xs')
    end.

  Fixpoint all_go (p : obs) (xs : list thunk) : res lval :=
    match xs with
    | [] => Ok (VBool true)
    | x :: xs' => bind (ev_bool (TObs p x)) (fun b => if b then all_go p xs' else Ok (VBool false))
    end.

  (** std.array.filter: fold_left with [if pred x then acc @ [x] else acc]. *)
  Fixpoint filter_go (p : obs) (xs : list thunk) (acc : list thunk) : res lval :=
    match xs with
    | [] => Ok (VArr acc [])
    | x :: xs' =>
        bind (ev_bool (TObs p x)) (fun b => filter_go p xs' (if b then acc ++ [x] else acc))
    end.

  (** std.array.flatten: fold_left with [acc @ l]; every row is evaluated, no element is. *)
  Fixpoint flatten_go (rows : list thunk) (acc_es : list thunk) (acc_p : list pc) : res lval :=
    match rows with
    | [] => Ok (VArr acc_es acc_p)
    | r :: rows' =>
        bind (ev r) (fun v => bind (as_arr ETypeErr v) (fun '(es, p) =>
        match prim_array_concat acc_es acc_p es p with
        | VArr es' p' => flatten_go rows' es' p'
        | _ => Err EUnmodelled
        end))
    end.

  (** std.array.sort (quicksort on [first = at 0], [rest = slice 1 length], [partition]) with
      [cmp = fun x y => if x < y then 'Lesser else if x == y then 'Equal else 'Greater]:
      [partition] is a strict fold_left whose predicate [cmp x first == 'Lesser] evaluates [x],
      then [first]; an array of length <= 1 is returned as it is, nothing evaluated. *)
  Fixpoint partition_go (first : thunk) (xs : list thunk) (rgt wrg : list thunk)
    : res (list thunk * list thunk) :=
    match xs with
    | [] => Ok (rgt, wrg)
    | x :: xs' =>
        bind (ev x) (fun vx => bind (as_num vx) (fun a =>
        bind (ev first) (fun vf => bind (as_num vf) (fun b =>
        if Z.ltb a b then partition_go first xs' (rgt ++ [x]) wrg
        else partition_go first xs' rgt (wrg ++ [x])))))
    end.

  Fixpoint sort_go (fuel : nat) (elems : list thunk) : res (list thunk) :=
    match elems with
    | [] => Ok []
    | [x] => Ok [x]
    | first :: rest =>
        match fuel with
        | 0 => Err EFuel
        | S fuel' =>
            bind (partition_go first rest [] []) (fun '(rgt, wrg) =>
            bind (sort_go fuel' rgt) (fun sr =>
            bind (sort_go fuel' wrg) (fun sw => Ok (sr ++ first :: sw))))
        end
    end.

  (** std.record.from_array: a strict fold_left inserting [value] (unevaluated) under the
      evaluated name [field]; the elements are destructured with the closed pattern
      [{field, value}]. *)
  Definition is_binding (fs : list field) : bool :=
    has_key "field" fs && has_key "value" fs && Nat.eqb (List.length fs) 2.

  Fixpoint from_array_go (elems : list thunk) (acc : list field) : res lval :=
    match elems with
    | [] => Ok (VRec acc)
    | e :: elems' =>
        bind (ev e) (fun v => bind (as_rec EBlameNeg v) (fun fs =>
        if negb (is_binding fs) then Err EBlameNeg else
        bind (bind (prim_record_access "field" fs) ev) (fun vn =>
        match vn with
        | VStr name =>
            bind (prim_record_access "value" fs) (fun x =>
            match prim_record_insert name x acc with
            | Ok (VRec acc') => from_array_go elems' acc'
            | Ok _ => Err EUnmodelled
            | Err e => Err e
            end)
        | _ => Err EBlameNeg
        end)))
    end.

  Definition pred2_sem (p : pred2) (name : string) (value : thunk) : res bool :=
    match p with
    | P2ValGt k => bind (ev value) (fun v => bind (as_num v) (fun x => Ok (Z.ltb k x)))
    | P2True => Ok true
    | P2NameEq s => Ok (String.eqb name s)
    end.

  (** std.record.filter = to_array |> std.array.filter (fun {field, value} => f field value)
      |> from_array; the bindings of to_array in the order of the sorted names. *)
  Fixpoint rec_filter_go (p : pred2) (bs : list (string * thunk)) (acc : list field) : res lval :=
    match bs with
    | [] => Ok (VRec acc)
    | (name, x) :: bs' =>
        bind (pred2_sem p name x) (fun b =>
        rec_filter_go p bs' (if b then acc ++ [(name, (x, []))] else acc))
    end.

  (** Equality of a list of pairs, in the given order, stopping at the first difference. *)
  Fixpoint eq_pairs (ps : list (thunk * thunk)) : res lval :=
    match ps with
    | [] => Ok (VBool true)
    | (x, y) :: ps' =>
        bind (ev_bool (TEq x y)) (fun b => if b then eq_pairs ps' else Ok (VBool false))
    end.

  (** The common fields of two records as pairs of delivered values, in [split_ref]'s order. *)
  Definition eq_center (fs1 fs2 : list field) : list (thunk * thunk) :=
    if Nat.ltb (List.length fs1) (List.length fs2) then
      flat_map (fun f2 => match lookup (fst f2) fs1 with
                          | Some (x1, p1) => [(tctrs p1 x1, fld_thunk f2)]
                          | None => []
                          end) fs2
    else
      flat_map (fun f1 => match lookup (fst f1) fs2 with
                          | Some (x2, p2) => [(fld_thunk f1, tctrs p2 x2)]
                          | None => []
                          end) fs1.

  Definition same_keys (fs1 fs2 : list field) : bool :=
    forallb (fun f => has_key (fst f) fs2) fs1 && forallb (fun f => has_key (fst f) fs1) fs2.

  (** std.array.elem elt = any (fun x => x == elt), with an arbitrary (lazy) [elt]. *)
  Fixpoint elem_go (elt : thunk) (xs : list thunk) : res lval :=
    match xs with
    | [] => Ok (VBool false)
    | x :: xs' => bind (ev_bool (TEq x elt)) (fun b => if b then Ok (VBool true) else elem_go elt xs')
    end.

  (** [eq()] of operation.rs on two values in weak head normal form. *)
  Definition eq_whnf (v1 v2 : lval) : res lval :=
    match v1, v2 with
    | VNum a, VNum b => Ok (VBool (Z.eqb a b))
    | VStr a, VStr b => Ok (VBool (String.eqb a b))
    | VBool a, VBool b => Ok (VBool (Bool.eqb a b))
    | VArr es1 p1, VArr es2 p2 =>
        if Nat.eqb (List.length es1) (List.length es2) then
          (* pairs are compared from the last to the first *)
          eq_pairs (rev (combine (arr_elems es1 p1) (arr_elems es2 p2)))
        else Ok (VBool false)
    | VRec fs1, VRec fs2 =>
        (* split_ref: fields of one side only make the records different; the common fields are
           compared in the order of the iterated map (the first one unless it is smaller) *)
        if negb (same_keys fs1 fs2) then Ok (VBool false)
        else
          let ps := eq_center (close_rec fs1) (close_rec fs2) in
          (* the first pair, then the others from the last to the second *)
          match ps with
          | [] => Ok (VBool true)
          | p :: ps' => eq_pairs (p :: rev ps')
          end
    | VFun _, VFun _ => Err EIncomparable
    | _, _ => Ok (VBool false)
    end.

  Definition eq_sem (a b : thunk) : res lval :=
    bind (ev a) (fun va => bind (ev b) (fun vb => eq_whnf va vb)).

  (** [merge] of merge.rs (standard mode) on two values in weak head normal form. *)
  Definition merge_sem (a b : thunk) : res lval :=
    bind (ev a) (fun va => bind (ev b) (fun vb =>
    match va, vb with
    | VNum x, VNum y => if Z.eqb x y then Ok va else Err ENonMergeable
    | VStr x, VStr y => if String.eqb x y then Ok va else Err ENonMergeable
    | VBool x, VBool y => if Bool.eqb x y then Ok va else Err ENonMergeable
    | VRec m1, VRec m2 => Ok (prim_record_merge m1 m2)
    | VArr _ _, VArr _ _ => Err EUnmodelled        (* rewritten to std.contract.Equal *)
    | _, _ => Err ENonMergeable
    end)).

  (** The observers.  Hand translations of std.ncl: first, last, length, map, at, concat (@),
      fold_left, fold_right, filter, any, all, elem, reverse, flatten, slice, seq, deep_seq,
      serialize/deserialize, record.get, fields, values, map, map_values, freeze, insert, remove,
      has_field, to_array. *)
  Fixpoint obs_sem (o : obs) (t : thunk) : res lval :=
    match o with
    | OId => ev t
    | OConst z => Ok (VNum z)
    | OConstB b => Ok (VBool b)
    | OConstS s => Ok (VStr s)
    | OAddK k => bind (ev t) (fun v => bind (as_num v) (fun x => Ok (VNum (x + k))))
    | OGtK k => bind (ev t) (fun v => bind (as_num v) (fun x => Ok (VBool (Z.ltb k x))))
    | OEqK z => bind (ev t) (fun v => eq_whnf v (VNum z))
    | OComp o1 o2 => obs_sem o2 (TObs o1 t)
    | OAtP i =>
        bind (ev t) (fun v => bind (as_arr ETypeErr v) (fun '(es, p) =>
        bind (prim_array_at es p i) ev))
    | OAt i =>       (* | IndexedArrayFun 'Index : out of bounds is the caller's fault *)
        bind (ev t) (fun v => bind (as_arr EBlameNeg v) (fun '(es, p) =>
        if Nat.ltb i (List.length es) then bind (prim_array_at es p i) ev else Err EBlameNeg))
    | OFirst =>      (* | NonEmpty -> Dyn *)
        bind (ev t) (fun v => bind (as_arr EBlameNeg v) (fun '(es, p) =>
        match es with [] => Err EBlameNeg | _ => bind (prim_array_at es p 0) ev end))
    | OLast =>
        bind (ev t) (fun v => bind (as_arr EBlameNeg v) (fun '(es, p) =>
        match es with
        | [] => Err EBlameNeg
        | _ => bind (prim_array_at es p (prim_array_length es p - 1)) ev
        end))
    | OLength =>
        bind (ev t) (fun v => bind (as_arr EBlameNeg v) (fun '(es, p) =>
        Ok (VNum (Z.of_nat (prim_array_length es p)))))
    | OMap f =>
        bind (ev t) (fun v => bind (as_arr EBlameNeg v) (fun '(es, p) =>
        Ok (prim_array_map f es p)))
    | OConcatR l =>
        bind (ev t) (fun v => bind (as_arr ETypeErr v) (fun '(es1, p1) =>
        bind (ev (thunk_of_lit l)) (fun w => bind (as_arr ETypeErr w) (fun '(es2, p2) =>
        Ok (prim_array_concat es1 p1 es2 p2)))))
    | OConcatL l =>
        bind (ev (thunk_of_lit l)) (fun w => bind (as_arr ETypeErr w) (fun '(es1, p1) =>
        bind (ev t) (fun v => bind (as_arr ETypeErr v) (fun '(es2, p2) =>
        Ok (prim_array_concat es1 p1 es2 p2)))))
    | OConcatL_broken l =>
        bind (ev (thunk_of_lit l)) (fun w => bind (as_arr ETypeErr w) (fun '(es1, p1) =>
        bind (ev t) (fun v => bind (as_arr ETypeErr v) (fun '(es2, p2) =>
        Ok (prim_array_concat_broken es1 p1 es2 p2)))))
    | OConcatL_prefix l =>
        bind (ev (thunk_of_lit l)) (fun w => bind (as_arr ETypeErr w) (fun '(es1, p1) =>
        bind (ev t) (fun v => bind (as_arr ETypeErr v) (fun '(es2, p2) =>
        Ok (prim_array_concat_prefix es1 p1 es2 p2)))))
    | OSlice s e =>  (* | IndexedArrayFun-like contract: bad bounds are the caller's fault *)
        bind (ev t) (fun v => bind (as_arr EBlameNeg v) (fun '(es, p) =>
        match prim_array_slice s e es p with Err _ => Err EBlameNeg | r => r end))
    | OSliceP s e =>
        bind (ev t) (fun v => bind (as_arr ETypeErr v) (fun '(es, p) =>
        prim_array_slice s e es p))
    | OFoldL f init =>
        bind (ev t) (fun v => bind (as_arr EBlameNeg v) (fun '(es, p) =>
        foldl_go f (arr_elems es p) (VNum init)))
    | OFoldR f init =>
        bind (ev t) (fun v => bind (as_arr EBlameNeg v) (fun '(es, p) =>
        foldr_go f (arr_elems es p) (VNum init)))
    | OFilter q =>
        bind (ev t) (fun v => bind (as_arr EBlameNeg v) (fun '(es, p) =>
        filter_go q (arr_elems es p) []))
    | OAny q =>
        bind (ev t) (fun v => bind (as_arr EBlameNeg v) (fun '(es, p) =>
        any_go q (arr_elems es p)))
    | OAll q =>
        bind (ev t) (fun v => bind (as_arr EBlameNeg v) (fun '(es, p) =>
        all_go q (arr_elems es p)))
    | OElem z =>
        bind (ev t) (fun v => bind (as_arr EBlameNeg v) (fun '(es, p) =>
        any_go (OEqK z) (arr_elems es p)))
    | OReverse =>
        bind (ev t) (fun v => bind (as_arr EBlameNeg v) (fun '(es, p) =>
        Ok (VArr (rev (arr_elems es p)) [])))
    | OFlatten =>
        bind (ev t) (fun v => bind (as_arr EBlameNeg v) (fun '(es, p) =>
        flatten_go (arr_elems es p) [] []))
    | OSort =>
        bind (ev t) (fun v => bind (as_arr EBlameNeg v) (fun '(es, p) =>
        match es with
        | [] | [_] => Ok (VArr es p)
        | _ => bind (sort_go (List.length es) (arr_elems es p)) (fun r => Ok (VArr r []))
        end))
    | OSeq => ev t
    | ODeepSeq => bind (fo t) (fun _ => ev t)
    | OSerde =>
        match fo t with
        | Ok tr => Ok (tree_to_lval tr)
        | Err ENotExportable => Err ESerialize
        | Err e => Err e
        end
    | OEqR l => eq_sem t (thunk_of_lit l)
    | OEqL l => eq_sem (thunk_of_lit l) t
    | OCtr c => apply_ctr true c (ev t)
    | OEq2 o1 o2 => eq_sem (TObs o1 t) (TObs o2 t)
    | OConcat2 o1 o2 =>
        bind (ev (TObs o1 t)) (fun v => bind (as_arr ETypeErr v) (fun '(es1, p1) =>
        bind (ev (TObs o2 t)) (fun w => bind (as_arr ETypeErr w) (fun '(es2, p2) =>
        Ok (prim_array_concat es1 p1 es2 p2)))))
    | OMerge2 o1 o2 => merge_sem (TObs o1 t) (TObs o2 t)
    | OElemOf o1 =>
        bind (ev t) (fun v => bind (as_arr EBlameNeg v) (fun '(es, p) =>
        elem_go (TObs o1 t) (arr_elems es p)))
    | OAccess k =>
        bind (ev t) (fun v => bind (as_rec ETypeErr v) (fun fs =>
        bind (prim_record_access k fs) ev))
    | OGet k =>      (* | HasField Dyn *)
        bind (ev t) (fun v => bind (as_rec EBlameNeg v) (fun fs =>
        match prim_record_access k fs with Ok x => ev x | Err _ => Err EBlameNeg end))
    | OFields =>
        bind (ev t) (fun v => bind (as_rec EBlameNeg v) (fun fs => Ok (prim_record_fields fs)))
    | OValues =>
        bind (ev t) (fun v => bind (as_rec EBlameNeg v) (fun fs => Ok (prim_record_values fs)))
    | OValues_broken =>
        bind (ev t) (fun v => bind (as_rec EBlameNeg v) (fun fs =>
        Ok (prim_record_values_broken fs)))
    | ORecMap f =>
        bind (ev t) (fun v => bind (as_rec EBlameNeg v) (fun fs =>
        Ok (prim_record_map (fun k x => TApp2 f (TVal (Ok (VStr k))) x) fs)))
    | OMapValues g =>
        bind (ev t) (fun v => bind (as_rec EBlameNeg v) (fun fs =>
        Ok (prim_record_map (fun _ x => TObs g x) fs)))
    | OFreeze =>
        bind (ev t) (fun v => bind (as_rec ETypeErr v) (fun fs => Ok (VRec (prim_record_freeze fs))))
    | OInsert k z =>
        bind (ev t) (fun v => bind (as_rec EBlameNeg v) (fun fs =>
        prim_record_insert k (TVal (Ok (VNum z))) (prim_record_freeze fs)))
    | ORemove k =>
        bind (ev t) (fun v => bind (as_rec EBlameNeg v) (fun fs =>
        prim_record_remove k (prim_record_freeze fs)))
    | OHasField k =>
        bind (ev t) (fun v => bind (as_rec EBlameNeg v) (fun fs => Ok (VBool (has_key k fs))))
    | OToArray =>    (* fields |> map (fun f => { field = f, value = record."%{f}" }) *)
        bind (ev t) (fun v => bind (as_rec EBlameNeg v) (fun fs =>
        Ok (VArr (map (fun fl =>
                         TRecLit [("field", TVal (Ok (VStr (fst fl))));
                                  ("value", TObs (OAccess (fst fl)) (TVal (Ok (VRec fs))))])
                    (sort_fields fs)) [])))
    | OFromArray =>
        bind (ev t) (fun v => bind (as_arr EBlameNeg v) (fun '(es, p) =>
        from_array_go (arr_elems es p) []))
    | ORecFilter q =>
        bind (ev t) (fun v => bind (as_rec EBlameNeg v) (fun fs =>
        rec_filter_go q
          (map (fun fl => (fst fl, TObs (OAccess (fst fl)) (TVal (Ok (VRec fs))))) (sort_fields fs)) []))
    (* compiled patterns (term/pattern/compile.rs): %array/at%, %array/slice%, static access,
       %record/remove% on the record as it is (no freeze) *)
    | OPatHead =>
        bind (ev t) (fun v =>
        match v with
        | VArr (e :: es) p => bind (prim_array_at (e :: es) p 0) ev
        | _ => Err ENonExhaustive
        end)
    | OPatTail =>
        bind (ev t) (fun v =>
        match v with
        | VArr (e :: es) p => prim_array_slice 1 (List.length (e :: es)) (e :: es) p
        | _ => Err ENonExhaustive
        end)
    | OPatField k =>
        bind (ev t) (fun v =>
        match v with
        | VRec fs =>
            if has_key k fs then bind (prim_record_access k (close_rec fs)) ev else Err ENonExhaustive
        | _ => Err ENonExhaustive
        end)
    | OPatRest k =>
        bind (ev t) (fun v =>
        match v with
        | VRec fs => if has_key k fs then prim_record_remove k (close_rec fs) else Err ENonExhaustive
        | _ => Err ENonExhaustive
        end)
    | OMergeR l => merge_sem t (thunk_of_lit l)
    | OMergeL l => merge_sem (thunk_of_lit l) t
    | OCall a =>
        bind (ev t) (fun v =>
        match v with VFun f => app f (thunk_of_atom a) | _ => Err ENotAFunc end)
    end.

  (** Force / DeepSeq: the elements are forced from the last to the first. *)
  Fixpoint force_list (ts : list thunk) : res (list tree) :=
    match ts with
    | [] => Ok []
    | t :: ts' => bind (force_list ts') (fun xs => bind (fo t) (fun x => Ok (x :: xs)))
    end.

  Definition force_whnf (v : lval) : res tree :=
    match v with
    | VNum z => Ok (TrNum z)
    | VStr s => Ok (TrStr s)
    | VBool b => Ok (TrBool b)
    | VArr es p => bind (force_list (arr_elems es p)) (fun xs => Ok (TrArr xs))
    | VRec fs =>
        bind (force_list (map fld_thunk (close_rec fs))) (fun xs =>
        Ok (TrRec (sort_fields (combine (map fst fs) xs))))
    | VFun _ => Err ENotExportable
    end.
End Sem.

(** Fuel: one unit per entered observer / binary function / merge / equality; contract
    applications are free. *)
Fixpoint eval (n : nat) : thunk -> res lval :=
  (fix go (t : thunk) : res lval :=
    match t with
    | TVal r => r
    | TCtr (pol, c) t' => apply_ctr pol c (go t')
    | TRecLit fs => Ok (VRec (map (fun '(k, x) => (k, (x, []))) fs))
    | TSelf => Err EUnmodelled          (* a recursive reference outside a record *)
    | TObs o t' =>
        match n with 0 => Err EFuel | S m => obs_sem (eval m) (force m) o t' end
    | TApp2 f a b =>
        match n with 0 => Err EFuel | S m => fun2_sem f (eval m a) (eval m b) end
    | TMerge a b =>
        match n with 0 => Err EFuel | S m => merge_sem (eval m) a b end
    | TEq a b =>
        match n with 0 => Err EFuel | S m => eq_sem (eval m) a b end
    end)
with force (n : nat) (t : thunk) : res tree :=
  match n with
  | 0 => Err EFuel
  | S m => bind (eval m t) (force_whnf (force m))
  end.

(* ------------------------------------------------------------------------------------------ *)
(** * Programs: [observe (v | T)] *)

(** Arbitrarily nested data literals (arrays / records of atoms). *)
Inductive ctree :=
| TA (a : atom)
| TL (xs : list ctree)
| TR (fs : list (string * ctree)).

Fixpoint thunk_of_tree (t : ctree) : thunk :=
  match t with
  | TA a => thunk_of_atom a
  | TL xs => TVal (Ok (VArr (map thunk_of_tree xs) []))
  | TR fs =>
      TVal (Ok (VRec ((fix go (fs : list (string * ctree)) : list field :=
                         match fs with
                         | [] => []
                         | (k, x) :: fs' => (k, (thunk_of_tree x, [])) :: go fs'
                         end) fs)))
  end.

(** Field definitions of a recursive record literal: a literal constant, a computed value
    ([0 + 1], not a constant for the evaluator), or a function of a sibling. *)
Inductive fdef :=
| DAtom (a : atom)
| DComp (a : atom)
| DDep (o : obs) (sibling : string).

Definition thunk_of_fdef (d : fdef) : thunk :=
  match d with
  | DAtom a => thunk_of_atom a
  | DComp a => TObs OId (thunk_of_atom a)
  | DDep o j => TObs o (TObs (OAccess j) TSelf)
  end.

Inductive container :=
| KArr (xs : list atom)
| KArr2 (rows : list (list atom))
| KRec (fs : list (string * atom))
| KFun (o : obs)
| KTree (t : ctree)
| KRecR (ds : list (string * fdef)).

Definition thunk_of_container (k : container) : thunk :=
  match k with
  | KArr xs => TVal (Ok (VArr (map thunk_of_atom xs) []))
  | KArr2 rows =>
      TVal (Ok (VArr (map (fun r => TVal (Ok (VArr (map thunk_of_atom r) []))) rows) []))
  | KRec fs => TVal (Ok (VRec (map (fun '(k, a) => (k, (thunk_of_atom a, []))) fs)))
  | KFun o => TVal (Ok (VFun (FBase o)))
  | KTree t => thunk_of_tree t
  | KRecR ds => TVal (Ok (VRec (map (fun '(k, d) => (k, (thunk_of_fdef d, []))) ds)))
  end.

Definition annotate (T : option ctr) (t : thunk) : thunk :=
  match T with Some c => TCtr (true, c) t | None => t end.

(** The whole program, exported as nkeval does (Force, then print). *)
Definition program (k : container) (T : option ctr) (o : obs) : thunk :=
  TObs o (annotate T (thunk_of_container k)).

Definition run (fuel : nat) (k : container) (T : option ctr) (o : obs) : res tree :=
  force fuel (program k T o).

(** The container enters through the domain of a function contract:
    [let f | T -> Dyn = fun x => o x in f k]; its annotation has the negative polarity. *)
Definition run_dom (fuel : nat) (k : container) (T : ctr) (o : obs) : res tree :=
  force fuel (TObs o (TCtr (false, T) (thunk_of_container k))).

(** Several annotations stacked on the same container: [k | T1 | T2 | ...].  However they are
    written (inline, through aliases, contract factories, already evaluated or not, attached by
    annotation or by merging record contracts) the pending lists guard like the conjunction. *)
Definition annotate_all (Ts : list ctr) (t : thunk) : thunk := tctrs (map (pair true) Ts) t.

Definition run_stack (fuel : nat) (k : container) (Ts : list ctr) (o : obs) : res tree :=
  force fuel (TObs o (annotate_all Ts (thunk_of_container k))).

(** [(k1 | Ts1) @ (k2 | Ts2)] observed through [o]. *)
Definition run_concat (fuel : nat) (k1 : container) (Ts1 : list ctr) (k2 : container) (Ts2 : list ctr)
  (o : obs) : res tree :=
  force fuel
    (TObs (OComp (OConcat2 (OAccess "l") (OAccess "r")) o)
       (TRecLit [("l", annotate_all Ts1 (thunk_of_container k1));
                 ("r", annotate_all Ts2 (thunk_of_container k2))])).
