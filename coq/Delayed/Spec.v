(* C08 - specification side: the ghost obligations, the delivered view of a container, and the
   reach predicate.

   [reaches] is defined without any reference to contracts: the container is taken *without*
   annotation, the component at the given position is replaced by the observation marker
   ([AProbe], a leaf whose evaluation returns [Err EProbe]) and the observer is run; the position
   is reached iff the marker comes out.  [reach_table] gives the closed (index arithmetic) form for
   the individual observers; Proofs.v shows that they agree. *)
From Coq Require Import List ZArith String Bool Arith.
Import ListNotations.
From NV Require Import Delayed.Model.
Open Scope string_scope.
Open Scope list_scope.

(** * Obligations *)

(** What the annotation history says must be applied to the component at a position of a
    container value: for an array its pending contracts, for a record the pending contracts of the
    field. *)
Definition obligations_arr (v : lval) : list pc :=
  match v with VArr _ p => p | _ => [] end.

Definition obligations_fld (v : lval) (k : string) : list pc :=
  match v with
  | VRec fs => match lookup k fs with Some (_, p) => p | None => [] end
  | _ => []
  end.

(** The delivered view: every component under its obligations.  This is what any observer must
    see. *)
Definition view_arr (v : lval) : list thunk :=
  match v with VArr es p => arr_elems es p | _ => [] end.

Definition view_rec (v : lval) : list (string * thunk) :=
  match v with VRec fs => map (fun fl => (fst fl, fld_thunk fl)) fs | _ => [] end.

(** * Positions and plugging *)

Definition position := list nat.

Fixpoint set_nth {A} (i : nat) (x : A) (l : list A) : list A :=
  match l, i with
  | [], _ => []
  | _ :: l', 0 => x :: l'
  | y :: l', S i' => y :: set_nth i' x l'
  end.

Fixpoint plug_tree (t : ctree) (pos : position) (a : atom) : ctree :=
  match pos with
  | [] => match t with TA _ => TA a | _ => t end
  | i :: pos' =>
      match t with
      | TA _ => t
      | TL xs =>
          TL ((fix go (xs : list ctree) (i : nat) : list ctree :=
                 match xs, i with
                 | [], _ => []
                 | x :: xs', 0 => plug_tree x pos' a :: xs'
                 | x :: xs', S i' => x :: go xs' i'
                 end) xs i)
      | TR fs =>
          TR ((fix go (fs : list (string * ctree)) (i : nat) : list (string * ctree) :=
                 match fs, i with
                 | [], _ => []
                 | (k, x) :: fs', 0 => (k, plug_tree x pos' a) :: fs'
                 | f :: fs', S i' => f :: go fs' i'
                 end) fs i)
      end
  end.

Definition plug (k : container) (pos : position) (a : atom) : container :=
  match k, pos with
  | KArr xs, [i] => KArr (set_nth i a xs)
  | KArr2 rows, [i; j] =>
      KArr2 (match nth_error rows i with
             | Some r => set_nth i (set_nth j a r) rows
             | None => rows
             end)
  | KRec fs, [i] =>
      KRec (match nth_error fs i with
            | Some (name, _) => set_nth i (name, a) fs
            | None => fs
            end)
  | KTree t, _ => KTree (plug_tree t pos a)
  | KRecR ds, [i] =>
      KRecR (match nth_error ds i with
             | Some (name, DAtom _) => set_nth i (name, DAtom a) ds
             | Some (name, DComp _) => set_nth i (name, DComp a) ds
             | _ => ds
             end)
  | _, _ => k
  end.

(** * Reach *)

Definition is_probe {A} (r : res A) : bool :=
  match r with Err EProbe => true | _ => false end.

(** Observing the container through [o] (and then exporting the result) observes the component at
    [pos]. *)
Definition reaches (fuel : nat) (k : container) (o : obs) (pos : position) : bool :=
  is_probe (run fuel (plug k pos AProbe) None o).

(** For a function: the call observes its argument. *)
Definition reaches_arg (fuel : nat) (f : obs) : bool :=
  is_probe (run fuel (KFun f) None (OCall AProbe)).

(** * The closed form for single observers on a flat array of [n] numbers (the result is then
    exported, i.e. forced): which positions the observer reaches, by index arithmetic only.
    [None]: no closed form stated here.  ReachTable.v proves that [reaches] agrees with it. *)
Definition strict_fun (f : obs) : option bool :=
  match f with
  | OId | OAddK _ | OGtK _ | OEqK _ => Some true
  | OConst _ | OConstB _ | OConstS _ => Some false
  | _ => None
  end.

Definition reach_table (o : obs) (n p : nat) : option bool :=
  if negb (Nat.ltb p n) then None else
  match o with
  | OId | OSeq | ODeepSeq | OSerde | OReverse => Some true
  | OAtP i => if Nat.ltb i n then Some (Nat.eqb i p) else None
  | OAt i => if Nat.ltb i n then Some (Nat.eqb i p) else None
  | OFirst => Some (Nat.eqb p 0)
  | OLast => Some (Nat.eqb p (n - 1))
  | OLength => Some false
  | OMap f => strict_fun f
  | OSliceP s e => if Nat.leb s e && Nat.leb e n then Some (Nat.leb s p && Nat.ltb p e) else None
  | OSlice s e => if Nat.leb s e && Nat.leb e n then Some (Nat.leb s p && Nat.ltb p e) else None
  | OFoldL F2Add _ => Some true
  | OFoldL F2Count _ | OFoldL F2Fst _ | OFoldL (F2Const _) _ => Some false
  | OFoldR F2Add _ => Some true
  | OFoldR F2Snd _ | OFoldR (F2Const _) _ | OFoldR (F2SndAdd _) _ => Some false
  | OFoldR F2Fst _ | OFoldR F2Count _ => Some (Nat.eqb p 0)
  | _ => None
  end.

(** * Well-formed cases of the main theorems

    [wf_case k pos T]: the annotation [T] checks every component of [k] against [Number], and
    every component other than the one at [pos] is a number or a failing component
    (so that only the component at [pos] can violate).  For a record type / record contract the
    listed names are exactly the fields of the record (for a record type, in the same order: the
    contract rebuilds the record in the order of the type, and the order in which [==] looks at
    the fields follows it). *)
Definition atom_ok (a : atom) : bool := match a with AStr _ | AProbe => false | _ => true end.

Fixpoint others_ok (i : nat) (xs : list atom) : bool :=
  match xs, i with
  | [], _ => true
  | _ :: xs', 0 => forallb atom_ok xs'
  | x :: xs', S i' => atom_ok x && others_ok i' xs'
  end.

Fixpoint rows_ok (i j : nat) (rows : list (list atom)) : bool :=
  match rows, i with
  | [], _ => true
  | r :: rows', 0 => others_ok j r && forallb (forallb atom_ok) rows'
  | r :: rows', S i' => forallb atom_ok r && rows_ok i' j rows'
  end.

Fixpoint nodupb (l : list string) : bool :=
  match l with [] => true | x :: l' => negb (mem_str x l') && nodupb l' end.

Definition wf_case (k : container) (pos : position) (T : ctr) : bool :=
  match k, pos, T with
  | KArr xs, [i], CArr CNum => others_ok i xs
  | KArr2 rows, [i; j], CArr (CArr CNum) => rows_ok i j rows
  | KRec fs, [i], CDictC CNum => others_ok i (map snd fs)
  | KRec fs, [i], CDictT CNum => others_ok i (map snd fs)
  | KRec fs, [i], CRecT names CNum =>
      others_ok i (map snd fs) && (if list_eq_dec string_dec names (map fst fs) then true else false)
      && nodupb names
  | KRec fs, [i], CRecC names CNum _ =>
      others_ok i (map snd fs) && forallb (fun f => mem_str (fst f) names) fs
      && forallb (fun n => has_key n fs) names
  | _, _, _ => false
  end.
