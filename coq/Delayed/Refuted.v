(* C08 - refutations.

   (1) The deliberately broken primitives do not satisfy the theorems: an ArrayConcat that drops
       the right operand's pending contracts, a RecordValues that ignores the pending contracts.
       The witnesses show that pending_tracked and observe_blames_iff_reached would fail for
       them, i.e. that the theorems do tell such a primitive apart.
   (2) "A violating component is blamed with the label of its own annotation" after ArrayConcat.
       Before 95e63eb ArrayConcat kept the *left* operand's pending contracts for all the
       elements whenever [contract_eq] equated the two lists, labels not looked at: an element of
       the right operand that violates was blamed with the left operand's label (found by this
       check, known finding concat-keeps-left-labels, since fixed).  The model follows the
       repaired code: the statement now holds ([concat_tracked], [concat_label_preserved]) and is
       refuted for the pre-fix variant ([concat_prefix_label_refuted]). *)
From Coq Require Import List ZArith String Bool Arith.
Import ListNotations.
From NV Require Import Delayed.Model Delayed.Spec Delayed.Tracked Delayed.Rel Delayed.Main.
Open Scope string_scope.
Open Scope list_scope.

(** ** (1) broken ArrayConcat *)

Definition bad_right : list thunk := [TVal (Ok (VStr "bad"))].

Lemma concat_broken_not_tracked_refuted :
  exists es1 p1 es2 p2,
    view_arr (prim_array_concat_broken es1 p1 es2 p2) <> view_arr (VArr es1 p1) ++ view_arr (VArr es2 p2).
Proof.
  exists [TVal (Ok (VNum 1))], [], bad_right, [(true, CNum)]. cbn. discriminate.
Qed.

(** With the broken concat the violating component is reached and *not* blamed. *)
Lemma concat_broken_blames_iff_reached_refuted :
  exists n k T o pos s,
    wf_case k pos T = true /\ reaches n k o pos = true /\
    is_blame_res (run n (plug k pos (AStr s)) (Some T) o) = false.
Proof.
  exists 8, (KArr [ANum 1; ANum 2]), (CArr CNum), (OConcatL_broken (LArr [ANum 7] None)), [1], "bad".
  vm_compute. auto.
Qed.

(** The real ArrayConcat on the same witness blames. *)
Example concat_real_blames :
  reaches 8 (KArr [ANum 1; ANum 2]) (OConcatL (LArr [ANum 7] None)) [1] = true /\
  run 8 (plug (KArr [ANum 1; ANum 2]) [1] (AStr "bad")) (Some (CArr CNum)) (OConcatL (LArr [ANum 7] None))
  = Err EBlame.
Proof. vm_compute. auto. Qed.

(** ** (1) broken RecordValues *)

Lemma values_broken_not_tracked_refuted :
  exists fs, view_arr (prim_record_values_broken fs) <> map snd (sort_fields (view_rec (VRec fs))).
Proof.
  exists [("a", (TVal (Ok (VStr "bad")), [(true, CNum)]))]. cbn. discriminate.
Qed.

Lemma values_broken_blames_iff_reached_refuted :
  exists n k T o pos s,
    wf_case k pos T = true /\ reaches n k o pos = true /\
    is_blame_res (run n (plug k pos (AStr s)) (Some T) o) = false.
Proof.
  exists 8, (KRec [("a", ANum 1); ("b", ANum 2)]), (CDictC CNum), OValues_broken, [1], "bad".
  vm_compute. auto.
Qed.

Example values_real_blames :
  run 8 (plug (KRec [("a", ANum 1); ("b", ANum 2)]) [1] (AStr "bad")) (Some (CDictC CNum)) OValues = Err EBlame.
Proof. vm_compute. auto. Qed.

(** ** (2) the label of the blame is not always the label of the component's own annotation *)

(** The array [["bad"]] enters through a negative annotation (the domain of a function contract:
    the caller is responsible for it). *)
Definition from_caller : thunk :=
  TCtr (false, CArr CNum) (TVal (Ok (VArr [TVal (Ok (VStr "bad"))] []))).

(** Observed directly, the caller is blamed ... *)
Example label_direct : force 8 (TObs OId from_caller) = Err EBlameNeg.
Proof. vm_compute. reflexivity. Qed.

(** ... and also after [([1] | Array Number) @ x]: every element keeps the labels of its own
    operand (the general statement is [concat_tracked]: the view of the result is exactly the
    concatenation of the two views). *)
Theorem concat_label_preserved :
  forall l, l = LArr [ANum 1] (Some (CArr CNum)) ->
    force 8 (TObs (OConcatL l) from_caller) = Err EBlameNeg /\
    force 8 (TObs OId from_caller) = Err EBlameNeg.
Proof. intros l ->. vm_compute. auto. Qed.

(** ArrayConcat as it was before 95e63eb kept the left operand's labels whenever [contract_eq]
    equated the two lists: the component was blamed with the positive label of the literal's
    annotation.  (Replayed on nickel at the time: known finding concat-keeps-left-labels, now
    fixed.) *)
Lemma concat_prefix_label_refuted :
  exists (l : lit),
    force 8 (TObs (OConcatL_prefix l) from_caller) = Err EBlame /\
    force 8 (TObs OId from_caller) = Err EBlameNeg.
Proof. exists (LArr [ANum 1] (Some (CArr CNum))). vm_compute. auto. Qed.

Lemma concat_prefix_not_tracked_refuted :
  exists es1 p1 es2 p2,
    view_arr (prim_array_concat_prefix es1 p1 es2 p2) <> view_arr (VArr es1 p1) ++ view_arr (VArr es2 p2).
Proof.
  exists [TVal (Ok (VNum 1))], [(true, CNum)], bad_right, [(false, CNum)]. cbn. discriminate.
Qed.
