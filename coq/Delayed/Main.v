(* C08 - the main theorems: laziness (bottom_insensitive), observe_blames_iff_reached, the
   unannotated run as the reference when the component is not reached, function contracts. *)
From Coq Require Import List ZArith String Bool Arith Lia.
Import ListNotations.
From NV Require Import Delayed.Model Delayed.Spec Delayed.Tracked Delayed.Rel.
Open Scope list_scope.

(** Outcomes are compared up to the polarity of a blame. *)
Definition res_sim {A} (r1 r2 : res A) : Prop :=
  match r1, r2 with
  | Ok a, Ok b => a = b
  | Err e1, Err e2 => err_sim e1 e2
  | _, _ => False
  end.

Definition is_blame_res {A} (r : res A) : bool :=
  match r with Err e => is_blame e | Ok _ => false end.

Lemma err_sim_sym : forall a b, err_sim a b -> err_sim b a.
Proof. intros a b [->|[H1 H2]]; [now left | right; auto]. Qed.

Lemma err_sim_trans : forall a b c, err_sim a b -> err_sim b c -> err_sim a c.
Proof.
  intros a b c [->|[H1 H2]] [->|[H3 H4]]; [now left | right; auto | right; auto | right; auto].
Qed.

Lemma res_sim_sym : forall A (r1 r2 : res A), res_sim r1 r2 -> res_sim r2 r1.
Proof. intros A [a|e1] [b|e2]; cbn; auto. apply err_sim_sym. Qed.

Lemma res_sim_trans : forall A (r1 r2 r3 : res A), res_sim r1 r2 -> res_sim r2 r3 -> res_sim r1 r3.
Proof.
  intros A [a|e1] [b|e2] [c|e3]; cbn; try tauto; try congruence. apply err_sim_trans.
Qed.

Lemma res_sim_blame : forall A (r1 r2 : res A), res_sim r1 r2 -> is_blame_res r1 = is_blame_res r2.
Proof.
  intros A [a|e1] [b|e2]; cbn; try tauto. intros [->|[H1 H2]]; congruence.
Qed.

(** ** The three instances of the hole *)

Definition Hole_any : forall A : Type, res A -> Prop := fun _ _ => True.

Definition Hole_err (E : err -> Prop) : forall A : Type, res A -> Prop :=
  fun A r => exists e, r = Err e /\ E e.

Definition E_blame (e : err) : Prop := is_blame e = true.
Definition E_fail (e : err) : Prop := e = EFail.

Lemma Hole_any_bind : forall A B (r : res A) (k : A -> res B), Hole_any A r -> Hole_any B (bind r k).
Proof. intros. exact I. Qed.

Lemma Hole_err_bind : forall E A B (r : res A) (k : A -> res B), Hole_err E A r -> Hole_err E B (bind r k).
Proof. intros E A B r k [e [-> He]]. exists e. split; auto. Qed.

Lemma Hole_err_serde : forall (E : err -> Prop), (E ENotExportable -> E ESerialize) ->
  forall r : res tree, Hole_err E tree r ->
  Hole_err E lval (match r with
                   | Ok tr => Ok (tree_to_lval tr)
                   | Err ENotExportable => Err ESerialize
                   | Err e => Err e
                   end).
Proof.
  intros E HE r [e [-> He]]. destruct e; try (eexists; split; [reflexivity | assumption]).
  eexists; split; [reflexivity | auto].
Qed.

(** From the relation at the top to the comparison of outcomes. *)
Lemma relR_sim : forall Hole A (r1 r2 : res A),
  RelR Hole eq r1 r2 -> is_probe r1 = false -> res_sim r1 r2.
Proof.
  intros Hole A r1 r2 H P. destruct H; cbn in *; auto. discriminate.
Qed.

Lemma relR_hole : forall Hole A (r1 r2 : res A),
  RelR Hole eq r1 r2 -> is_probe r1 = true -> Hole A r2.
Proof.
  intros Hole A r1 r2 H P. destruct H; cbn in *; auto; try discriminate.
  destruct e1; try discriminate. congruence.
Qed.

(** ** Programs *)

Section Programs.
  Variable Hole : forall A : Type, res A -> Prop.
  Hypothesis Hole_bind : forall A B (r : res A) (k : A -> res B), Hole A r -> Hole B (bind r k).
  Hypothesis Hole_serde : forall r : res tree, Hole tree r ->
    Hole lval (match r with
               | Ok tr => Ok (tree_to_lval tr)
               | Err ENotExportable => Err ESerialize
               | Err e => Err e
               end).

  Notation RelT := (RelT Hole).
  Notation RelC := (RelC Hole).

  Lemma program_rel : forall n o t1 t2, supported o -> RelT t1 t2 ->
    RelR Hole eq (force n (TObs o t1)) (force n (TObs o t2)).
  Proof.
    intros. apply force_rel; auto. apply obs_cong; auto.
  Qed.

  (** What the right run has at the marked position. *)
  Definition atom_res (a : atom) : res lval :=
    match a with
    | ANum z => Ok (VNum z) | AStr s => Ok (VStr s) | AFail => Err EFail | AProbe => Err EProbe
    end.

  Lemma thunk_of_atom_res : forall a, thunk_of_atom a = TVal (atom_res a).
  Proof. intros []; reflexivity. Qed.

  Lemma Forall2_refl_in' : forall {A} (R : A -> A -> Prop) l, (forall x, In x l -> R x x) -> Forall2 R l l.
  Proof. induction l; constructor; auto with datatypes. Qed.

  (** Elementwise: same atoms except at [i], where the left has the marker. *)
  Lemma set_nth_rel : forall (R : atom -> atom -> Prop) a xs i,
    (forall x, In x xs -> R x x) -> R AProbe a ->
    Forall2 R (set_nth i AProbe xs) (set_nth i a xs).
  Proof.
    intros R a xs. induction xs as [|x xs IH]; intros [|i] HR HA; cbn.
    - constructor.
    - constructor.
    - constructor; auto. apply Forall2_refl_in'. auto with datatypes.
    - constructor; auto with datatypes.
  Qed.

  Lemma Forall2_refl_in : forall {A} (R : A -> A -> Prop) l, (forall x, In x l -> R x x) -> Forall2 R l l.
  Proof. induction l; constructor; auto with datatypes. Qed.

  Definition atoms_of (k : container) : list atom :=
    match k with
    | KArr xs => xs
    | KArr2 rows => List.concat rows
    | KRec fs => map snd fs
    | KFun _ => []
    | KTree _ => []
    | KRecR _ => []
    end.

  (** no marker in a nested literal *)
  Fixpoint pf_tree (t : ctree) : Prop :=
    match t with
    | TA a => a <> AProbe
    | TL xs => (fix go (xs : list ctree) : Prop :=
                  match xs with [] => True | x :: xs' => pf_tree x /\ go xs' end) xs
    | TR fs => (fix go (fs : list (string * ctree)) : Prop :=
                  match fs with [] => True | (_, x) :: fs' => pf_tree x /\ go fs' end) fs
    end.

  (** No marker in the container itself; a function container is one of the scalar functions. *)
  Definition container_ok (k : container) : Prop :=
    ~ In AProbe (atoms_of k) /\ match k with
                                 | KFun o => fn_scalar o
                                 | KTree t => pf_tree t
                                 | KRecR _ => False      (* recursive records: see RecEnv.v *)
                                 | _ => True
                                 end.

  Lemma AR_in : forall xs, ~ In AProbe xs -> forall x, In x xs -> RelT (thunk_of_atom x) (thunk_of_atom x).
  Proof. intros xs N x Hx. apply atom_rel. intros ->. auto. Qed.

  Lemma hole_atom : forall a, Hole lval (atom_res a) -> RelT (TVal (Err EProbe)) (thunk_of_atom a).
  Proof. intros a H n. rewrite thunk_of_atom_res, !eval_TVal. now constructor. Qed.

  Lemma rows_rel : forall xs ys, Forall2 (fun x y => RelT (thunk_of_atom x) (thunk_of_atom y)) xs ys ->
    RelT (TVal (Ok (VArr (map thunk_of_atom xs) []))) (TVal (Ok (VArr (map thunk_of_atom ys) []))).
  Proof.
    intros. apply relT_val. constructor. apply RV_arr', ArrR_of_elems.
    eapply Forall2_map2; [exact H|]. auto.
  Qed.

  Lemma row_refl : forall r, ~ In AProbe r ->
    RelT (TVal (Ok (VArr (map thunk_of_atom r) []))) (TVal (Ok (VArr (map thunk_of_atom r) []))).
  Proof. intros. apply rows_rel. apply Forall2_refl_in. now apply AR_in. Qed.

  Lemma fields_refl : forall (l : list (string * atom)), ~ In AProbe (map snd l) ->
    Forall2 (FldR Hole) (map (fun '(k, a) => (k, (thunk_of_atom a, []))) l)
      (map (fun '(k, a) => (k, (thunk_of_atom a, []))) l).
  Proof.
    induction l as [|[k1 a1] l IH]; intros N; cbn in *; constructor.
    - split; [reflexivity|]. split; [sfx|]. split; [sfx|]. intros q1 q2 n S1 S2. cbn [fst snd] in *.
      apply same_ctrs_nil in S1, S2. subst. apply atom_rel. intros ->. apply N. now left.
    - apply IH. intros C. apply N. now right.
  Qed.

  Lemma tree_refl : forall t, pf_tree t -> RelT (thunk_of_tree t) (thunk_of_tree t).
  Proof.
    fix IH 1. intros [a|xs|fs] P; cbn [thunk_of_tree].
    - now apply atom_rel.
    - apply relT_val. constructor. apply RV_arr', ArrR_of_elems.
      revert xs P. fix IHxs 1. intros [|x xs] P; cbn in *; constructor.
      + apply IH. apply P.
      + apply IHxs. apply P.
    - apply relT_val. constructor. apply RV_rec'.
      revert fs P. fix IHfs 1. intros [|[k x] fs] P; cbn in *; constructor.
      + split; [reflexivity|]. split; [sfx|]. split; [sfx|]. intros q1 q2 n S1 S2. cbn [fst snd] in *.
        apply same_ctrs_nil in S1, S2. subst. apply IH. apply P.
      + apply IHfs. apply P.
  Qed.

  Lemma plug_tree_rel : forall a, Hole lval (atom_res a) -> forall pos t, pf_tree t ->
    RelT (thunk_of_tree (plug_tree t pos AProbe)) (thunk_of_tree (plug_tree t pos a)).
  Proof.
    intros a HA. induction pos as [|i pos IH]; intros t P.
    - destruct t; cbn [plug_tree]; try (now apply tree_refl). cbn. now apply hole_atom.
    - destruct t as [b|xs|fs]; cbn [plug_tree]; try (now apply tree_refl).
      + cbn [thunk_of_tree]. apply relT_val. constructor. apply RV_arr', ArrR_of_elems.
        revert i P. induction xs as [|x xs IHxs]; intros [|i] P; cbn in *; constructor;
          try (apply IH; apply P); try (apply tree_refl; apply P).
        * clear IHxs. destruct P as [_ P]. induction xs as [|y ys IHy]; cbn in *; constructor.
          -- apply tree_refl. apply P.
          -- apply IHy. apply P.
        * apply IHxs. apply P.
      + cbn [thunk_of_tree]. apply relT_val. constructor. apply RV_rec'.
        revert i P. induction fs as [|[k x] fs IHfs]; intros [|i] P; cbn in *; constructor.
        * split; [reflexivity|]. split; [sfx|]. split; [sfx|]. intros q1 q2 n S1 S2. cbn [fst snd] in *.
          apply same_ctrs_nil in S1, S2. subst. apply IH. apply P.
        * clear IHfs. destruct P as [_ P]. induction fs as [|[k2 y] ys IHy]; cbn in *; constructor.
          -- split; [reflexivity|]. split; [sfx|]. split; [sfx|]. intros q1 q2 n S1 S2. cbn [fst snd] in *.
             apply same_ctrs_nil in S1, S2. subst. apply tree_refl. apply P.
          -- apply IHy. apply P.
        * split; [reflexivity|]. split; [sfx|]. split; [sfx|]. intros q1 q2 n S1 S2. cbn [fst snd] in *.
          apply same_ctrs_nil in S1, S2. subst. apply tree_refl. apply P.
        * apply IHfs. apply P.
  Qed.

  Lemma container_refl : forall k, container_ok k -> RelT (thunk_of_container k) (thunk_of_container k).
  Proof.
    intros [xs|rows|fs|o|tr|ds] [NP OK]; cbn in *; [| | | |now apply tree_refl|contradiction].
    - now apply row_refl.
    - apply relT_val. constructor. apply RV_arr', ArrR_of_elems.
      apply Forall2_refl_in. intros t Ht. apply in_map_iff in Ht as [r [<- Hr]].
      apply row_refl. intros C. apply NP. apply in_concat. eauto.
    - apply relT_val. constructor. apply RV_rec'. now apply fields_refl.
    - apply relT_val. constructor. constructor. now constructor.
  Qed.

  (** The unannotated container with the marker against the same container with any atom the hole
      allows. *)
  Lemma plug_rel : forall k pos a, container_ok k -> Hole lval (atom_res a) ->
    RelT (thunk_of_container (plug k pos AProbe)) (thunk_of_container (plug k pos a)).
  Proof.
    intros k pos a OK HA. pose proof OK as [NP _].
    destruct k as [xs|rows|fs|o|tr|ds]; cbn [plug]; cbn [atoms_of] in NP;
      [| | | |cbn [thunk_of_container]; apply plug_tree_rel; [exact HA | apply OK]|destruct OK as [_ []]].
    - destruct pos as [|i [|? ?]]; try (apply container_refl; exact OK). cbn.
      apply rows_rel. apply set_nth_rel; [now apply AR_in | now apply hole_atom].
    - destruct pos as [|i [|j [|? ?]]]; try (apply container_refl; exact OK).
      destruct (nth_error rows i) as [r|] eqn:E; [|apply container_refl; exact OK]. cbn.
      apply relT_val. constructor. apply RV_arr', ArrR_of_elems.
      assert (~ In AProbe r) as NR.
      { intros C. apply NP. apply in_concat. exists r. split; auto. eapply nth_error_In; eauto. }
      assert (forall (rs : list (list atom)) i, ~ In AProbe (List.concat rs) ->
                 Forall2 (fun r1 r2 => RelT (TVal (Ok (VArr (map thunk_of_atom r1) [])))
                                          (TVal (Ok (VArr (map thunk_of_atom r2) []))))
                   (set_nth i (set_nth j AProbe r) rs) (set_nth i (set_nth j a r) rs)) as G.
      { induction rs as [|r0 rs IH]; intros [|i'] N; cbn in *; constructor.
        - apply rows_rel. apply set_nth_rel; [now apply AR_in | now apply hole_atom].
        - apply Forall2_refl_in. intros r' Hr. apply row_refl. intros C. apply N.
          apply in_or_app. right. apply in_concat. eauto.
        - apply row_refl. intros C. apply N. apply in_or_app. now left.
        - apply IH. intros C. apply N. apply in_or_app. now right. }
      eapply Forall2_map2; [apply G; exact NP|]. auto.
    - destruct pos as [|i [|? ?]]; try (apply container_refl; exact OK).
      destruct (nth_error fs i) as [[name old]|] eqn:E; [|apply container_refl; exact OK]. cbn.
      apply relT_val. constructor. apply RV_rec'.
      assert (forall (l : list (string * atom)) i, ~ In AProbe (map snd l) ->
                 Forall2 (FldR Hole)
                   (map (fun '(k, a) => (k, (thunk_of_atom a, []))) (set_nth i (name, AProbe) l))
                   (map (fun '(k, a) => (k, (thunk_of_atom a, []))) (set_nth i (name, a) l))) as G.
      { induction l as [|[k0 a0] l IH]; intros [|i'] N; cbn in *; try constructor.
        - split; [reflexivity|]. split; [sfx|]. split; [sfx|]. intros q1 q2 n S1 S2. cbn [fst snd] in *.
          apply same_ctrs_nil in S1, S2. subst. now apply hole_atom.
        - apply fields_refl. intros C. apply N. now right.
        - split; [reflexivity|]. split; [sfx|]. split; [sfx|]. intros q1 q2 n S1 S2. cbn [fst snd] in *.
          apply same_ctrs_nil in S1, S2. subst. apply atom_rel. intros ->. apply N. now left.
        - apply IH. intros C. apply N. now right. }
      apply G. exact NP.
    - apply container_refl; exact OK.
  Qed.

  Lemma annotate_rel : forall T t1 t2, RelT t1 t2 -> RelT (annotate T t1) (annotate T t2).
  Proof. intros [c|] t1 t2 H; cbn; auto. now apply relT_ctr. Qed.

  (** ** The annotated container against the unannotated one with the marker *)

  Variable a : atom.
  Hypothesis hole_a : forall b, Hole lval (apply_ctr b CNum (atom_res a)).

  (** left: the atom as it is; right: the atom under the [Number] contract (any label). *)
  Definition GR (x y : atom) : Prop :=
    forall b n, RelC (eval n (thunk_of_atom x)) (eval n (TCtr (b, CNum) (thunk_of_atom y))).

  Lemma GR_ok : forall x, atom_ok x = true -> GR x x.
  Proof.
    intros [z|s| | ] H b n; try discriminate; rewrite eval_TCtr; cbn; rewrite ?eval_TVal; cbn.
    - constructor. constructor.
    - apply relR_err. discriminate.
  Qed.

  Lemma GR_hole : GR AProbe a.
  Proof.
    intros b n. rewrite eval_TCtr, !thunk_of_atom_res, !eval_TVal. cbn [atom_res]. constructor. apply hole_a.
  Qed.

  Lemma GR_plug : forall xs i, others_ok i xs = true -> Forall2 GR (set_nth i AProbe xs) (set_nth i a xs).
  Proof.
    induction xs as [|x xs IH]; intros [|i] H; cbn in *.
    - constructor.
    - constructor.
    - constructor; [apply GR_hole|]. apply Forall2_refl_in. intros y Hy. apply GR_ok.
      rewrite forallb_forall in H. auto.
    - apply andb_prop in H as [H1 H2]. constructor; [now apply GR_ok | now apply IH].
  Qed.

  Lemma GR_all : forall xs, forallb atom_ok xs = true -> Forall2 GR xs xs.
  Proof.
    intros xs H. apply Forall2_refl_in. intros y Hy. apply GR_ok. rewrite forallb_forall in H. auto.
  Qed.

  Lemma same_ctrs_single : forall q b c, same_ctrs q [(b, c)] -> exists b', q = [(b', c)].
  Proof.
    intros [|[b' c'] [|? ?]] b c H; try discriminate. unfold same_ctrs in H. cbn in H.
    injection H as ->. now exists b'.
  Qed.

  (** an array of atoms against the same array under [Array Number] *)
  Lemma arr_guard : forall b xs ys, Forall2 GR xs ys ->
    RelT (TVal (Ok (VArr (map thunk_of_atom xs) [])))
         (TCtr (b, CArr CNum) (TVal (Ok (VArr (map thunk_of_atom ys) [])))).
  Proof.
    intros b xs ys H n. rewrite eval_TCtr, !eval_TVal. cbn. constructor. apply RV_arr'.
    intros q1 q2 n' S1 S2. apply same_ctrs_nil in S1. subst.
    apply same_ctrs_single in S2 as [b' ->]. rewrite arr_elems_nil_pend.
    unfold arr_elems. cbn [tctrs fold_left]. rewrite map_map.
    eapply Forall2_map2; [exact H|]. intros x y G. apply G.
  Qed.

  Definition fields_of (fs : list (string * atom)) : list field :=
    map (fun '(k, x) => (k, (thunk_of_atom x, []))) fs.

  Lemma set_nth_fields : forall (fs : list (string * atom)) i name x,
    nth_error fs i = Some (name, x) -> forall y,
    map fst (set_nth i (name, y) fs) = map fst fs /\ map snd (set_nth i (name, y) fs) = set_nth i y (map snd fs).
  Proof.
    induction fs as [|[k0 a0] fs IH]; intros [|i] name x E y; cbn in *; try discriminate.
    - injection E as -> ->. auto.
    - destruct (IH i name x E y) as [-> ->]. auto.
  Qed.

  Lemma fields_GR : forall (l1 l2 : list (string * atom)),
    map fst l1 = map fst l2 -> Forall2 GR (map snd l1) (map snd l2) ->
    Forall2 (fun f1 f2 => fst f1 = fst f2 /\ GR (snd f1) (snd f2)) l1 l2.
  Proof.
    induction l1 as [|[k1 x1] l1 IH]; intros [|[k2 x2] l2] K G; cbn in *; try discriminate; constructor.
    - injection K as -> _. inversion G; subst. auto.
    - injection K as _ K. inversion G; subst. auto.
  Qed.

  Lemma nodupb_lookup : forall (fs : list field) (g : thunk -> list pc -> thunk * list pc),
    nodupb (map fst fs) = true ->
    flat_map (fun n => match lookup n fs with Some (x, p) => [(n, g x p)] | None => [] end) (map fst fs)
    = map (fun fl => (fst fl, g (fst (snd fl)) (snd (snd fl)))) fs.
  Proof.
    intros fs g. 
    assert (forall (pre : list field), 
               (forall fl, In fl fs -> has_key (fst fl) pre = false) -> nodupb (map fst fs) = true ->
               flat_map (fun n => match lookup n (pre ++ fs) with Some (x, p) => [(n, g x p)] | None => [] end) (map fst fs)
               = map (fun fl => (fst fl, g (fst (snd fl)) (snd (snd fl)))) fs) as G.
    { unfold field in *. induction fs as [|[k [x p]] fs IH]; intros pre HP ND; cbn in *; auto.
      apply andb_prop in ND as [N1 N2].
      assert (lookup k (pre ++ (k, (x, p)) :: fs) = Some (x, p)) as ->.
      { specialize (HP (k, (x, p)) (or_introl eq_refl)). cbn in HP. clear -HP.
        unfold has_key in HP. induction pre as [|[k' d] pre IHp]; cbn in *.
        - now rewrite String.eqb_refl.
        - destruct (String.eqb k k'); [discriminate|]. auto. }
      cbn. f_equal.
      replace (pre ++ (k, (x, p)) :: fs) with ((pre ++ [(k, (x, p))]) ++ fs) by (rewrite <- app_assoc; reflexivity).
      apply IH; auto. intros fl Hfl. specialize (HP fl (or_intror Hfl)).
      unfold has_key in *. clear -HP N1 Hfl.
      assert (lookup (fst fl) (pre ++ [(k, (x, p))]) = None) as ->; auto.
      induction pre as [|[k' d] pre IHp]; cbn in *.
      - destruct (String.eqb (fst fl) k) eqn:E; auto. apply String.eqb_eq in E. subst.
        exfalso. apply negb_true_iff in N1. unfold mem_str in N1.
        assert (existsb (String.eqb (fst fl)) (map fst fs) = true) as C.
        { apply existsb_exists. exists (fst fl). split; [now apply in_map | apply String.eqb_refl]. }
        congruence.
      - destruct (String.eqb (fst fl) k'); [discriminate|]. auto. }
    intros ND. apply (G []); auto.
  Qed.

  Lemma filter_true : forall {A} (f : A -> bool) l, forallb f l = true -> filter f l = l.
  Proof. induction l; cbn; intros; auto. apply andb_prop in H as [-> H]. now rewrite IHl. Qed.

  Lemma filter_false : forall {A} (f : A -> bool) l, forallb f l = true -> filter (fun x => negb (f x)) l = [].
  Proof. induction l; cbn; intros; auto. apply andb_prop in H as [-> H]. cbn. auto. Qed.

  Lemma forallb_self_keys : forall (fs : list field), forallb (fun n => has_key n fs) (map fst fs) = true.
  Proof.
    intros fs.
    assert (forall pre, forallb (fun n => has_key n (pre ++ fs)) (map fst fs) = true) as G.
    { unfold field in *. induction fs as [|[k d] fs IH]; intros pre; cbn; auto. apply andb_true_intro. split.
      - unfold has_key. induction pre as [|[k' d'] pre IHp]; cbn.
        + now rewrite String.eqb_refl.
        + destruct (String.eqb k k'); auto.
      - replace (pre ++ (k, d) :: fs) with ((pre ++ [(k, d)]) ++ fs) by (rewrite <- app_assoc; reflexivity).
        apply IH. }
    apply (G []).
  Qed.

  Lemma forallb_self_mem : forall (fs : list field),
    forallb (fun fl : field => mem_str (fst fl) (map fst fs)) fs = true.
  Proof.
    intros fs. apply forallb_forall. intros fl H. unfold mem_str. apply existsb_exists.
    exists (fst fl). split; [now apply in_map | apply String.eqb_refl].
  Qed.

  Lemma close_fields_of : forall fs, close_rec (fields_of fs) = fields_of fs.
  Proof.
    intros fs. apply close_sf. unfold rsf, fields_of. rewrite forallb_forall. intros fl Hfl.
    apply in_map_iff in Hfl as [[k x] [<- _]]. cbn. apply sf_atom.
  Qed.

  Lemma fields_of_keys : forall fs, map fst (fields_of fs) = map fst fs.
  Proof. unfold fields_of. induction fs as [|[k x] fs IH]; cbn; congruence. Qed.

  Lemma forallb_keys_atoms : forall (l1 : list (string * atom)) names,
    forallb (fun f => mem_str (fst f) names) l1 = forallb (fun fl : field => mem_str (fst fl) names) (fields_of l1).
  Proof. unfold fields_of. induction l1 as [|[k x] l1 IH]; cbn; intros; auto. now rewrite IH. Qed.

  Lemma has_key_fields_of : forall n fs, has_key n (fields_of fs) = has_key n fs.
  Proof. intros. apply has_key_keys. apply fields_of_keys. Qed.

  Theorem guarded : forall k pos T, wf_case k pos T = true ->
    RelT (thunk_of_container (plug k pos AProbe)) (TCtr (true, T) (thunk_of_container (plug k pos a))).
  Proof.
    intros k pos T WF. destruct k as [xs|rows|fs|o|tr|ds]; cbn in WF; try discriminate.
    - (* array *)
      destruct pos as [|i [|? ?]]; try discriminate. destruct T; try discriminate. destruct T; try discriminate.
      cbn [plug thunk_of_container]. apply arr_guard. now apply GR_plug.
    - (* array of arrays *)
      destruct pos as [|i [|j [|? ?]]]; try discriminate.
      destruct T; try discriminate. destruct T; try discriminate. destruct T; try discriminate.
      cbn [plug thunk_of_container].
      assert (forall rs i, rows_ok i j rs = true ->
                Forall2 (fun r1 r2 => Forall2 GR r1 r2)
                  (match nth_error rs i with Some r => set_nth i (set_nth j AProbe r) rs | None => rs end)
                  (match nth_error rs i with Some r => set_nth i (set_nth j a r) rs | None => rs end)) as G.
      { induction rs as [|r rs IH]; intros [|i'] H; cbn in *; try constructor.
        - apply andb_prop in H as [H1 H2]. now apply GR_plug.
        - apply andb_prop in H as [H1 H2]. apply Forall2_refl_in. intros r' Hr. apply GR_all.
          rewrite forallb_forall in H2. auto.
        - apply andb_prop in H as [H1 H2]. specialize (IH i' H2).
          destruct (nth_error rs i'); cbn.
          + constructor; [now apply GR_all | exact IH].
          + constructor; [now apply GR_all | exact IH]. }
      specialize (G rows i WF).
      intros n. rewrite eval_TCtr, !eval_TVal. cbn. constructor. apply RV_arr'.
      intros q1 q2 n' S1 S2. apply same_ctrs_nil in S1. subst.
      apply same_ctrs_single in S2 as [b' ->]. rewrite arr_elems_nil_pend.
      unfold arr_elems. cbn [tctrs fold_left]. rewrite !map_map.
      eapply Forall2_map2; [exact G|]. intros r1 r2 HR. now apply arr_guard.
    - (* records *)
      destruct pos as [|i [|? ?]]; try discriminate.
      assert (forall i (H : others_ok i (map snd fs) = true),
                 exists l1 l2, plug (KRec fs) [i] AProbe = KRec l1 /\ plug (KRec fs) [i] a = KRec l2 /\
                               map fst l1 = map fst fs /\ map fst l2 = map fst fs /\
                               Forall2 (fun f1 f2 => fst f1 = fst f2 /\ GR (snd f1) (snd f2)) l1 l2) as PL.
      { intros i0 H. cbn [plug]. destruct (nth_error fs i0) as [[name old]|] eqn:E.
        - destruct (set_nth_fields fs i0 name old E AProbe) as [K1 V1].
          destruct (set_nth_fields fs i0 name old E a) as [K2 V2].
          eexists _, _. repeat split; eauto. apply fields_GR; [congruence|]. rewrite V1, V2. now apply GR_plug.
        - exists fs, fs. repeat split; auto. apply fields_GR; auto.
          assert (forall xs i, nth_error xs i = None -> others_ok i xs = true -> forallb atom_ok xs = true) as G.
          { induction xs as [|x xs IH]; intros [|i'] N O; cbn in *; auto; try discriminate.
            apply andb_prop in O as [-> O]. cbn. eauto. }
          apply GR_all. apply (G _ i0); auto. rewrite nth_error_map, E. reflexivity. }
      destruct T; try discriminate; destruct T; try discriminate.
      + (* {_ : Number} *)
        destruct (PL i WF) as [l1 [l2 [-> [-> [K1 [K2 F]]]]]]. cbn [thunk_of_container].
        fold (fields_of l1). fold (fields_of l2).
        intros n. rewrite eval_TCtr, !eval_TVal. unfold apply_ctr, bind. rewrite close_fields_of.
        constructor. apply RV_rec'. unfold prim_record_map, fields_of.
        rewrite map_map. clear -F.
        induction F as [|[k1 x1] [k2 x2] l1 l2 [E G] _ IH]; cbn; constructor; auto.
        split; [exact E|]. split; [sfx|]. split; [sfx|]. intros q1 q2 n S1 S2. cbn [fst snd] in *. apply same_ctrs_nil in S1, S2. subst.
        cbn [tctrs fold_left fld_thunk fst snd]. apply G.
      + (* {_ | Number} *)
        destruct (PL i WF) as [l1 [l2 [-> [-> [K1 [K2 F]]]]]]. cbn [thunk_of_container].
        intros n. rewrite eval_TCtr, !eval_TVal. cbn. constructor. apply RV_rec'. unfold prim_record_lazy_app.
        rewrite map_map. clear -F.
        induction F as [|[k1 x1] [k2 x2] l1 l2 [E G] _ IH]; cbn; constructor; auto.
        split; [exact E|]. split; [sfx|]. split; [sfx|]. intros q1 q2 n S1 S2. cbn [fst snd] in *. apply same_ctrs_nil in S1. subst.
        apply same_ctrs_single in S2 as [b' ->]. cbn [tctrs fold_left]. apply G.
      + (* {a : Number, ...} *)
        apply andb_prop in WF as [WF ND]. apply andb_prop in WF as [WF EQ].
        destruct (list_eq_dec string_dec names (map fst fs)) as [->|]; [|discriminate].
        destruct (PL i WF) as [l1 [l2 [-> [-> [K1 [K2 F]]]]]]. cbn [thunk_of_container].
        fold (fields_of l1). fold (fields_of l2).
        assert (map fst fs = map fst (fields_of l2)) as EQK by (rewrite fields_of_keys; congruence).
        rewrite EQK in ND |- *. clear PL EQK.
        intros n. rewrite eval_TCtr, !eval_TVal. unfold apply_ctr, bind. cbv zeta. rewrite close_fields_of.
        rewrite forallb_self_keys, forallb_self_mem. cbn [negb].
        rewrite (nodupb_lookup (fields_of l2) (fun x p => (TCtr (true, CNum) (tctrs p x), [])) ND).
        constructor. apply RV_rec'. unfold fields_of. rewrite !map_map. clear -F.
        induction F as [|[k1 x1] [k2 x2] l1 l2 [E G] _ IH]; cbn; constructor; auto.
        split; [exact E|]. split; [sfx|]. split; [sfx|]. intros q1 q2 n S1 S2. cbn [fst snd] in *. apply same_ctrs_nil in S1, S2. subst.
        cbn [tctrs fold_left]. apply G.
      + (* {a | Number, ...} *)
        apply andb_prop in WF as [WF HK]. apply andb_prop in WF as [WF MEM].
        destruct (PL i WF) as [l1 [l2 [-> [-> [K1 [K2 F]]]]]]. cbn [thunk_of_container].
        fold (fields_of l1). fold (fields_of l2).
        intros n. rewrite eval_TCtr, !eval_TVal. unfold apply_ctr, bind.
        assert (forallb (fun fl : field => mem_str (fst fl) names) (fields_of l2) = true) as M2.
        { rewrite <- forallb_keys_atoms.
          assert (forall (x y : list (string * atom)), map fst x = map fst y ->
                     forallb (fun f => mem_str (fst f) names) x = forallb (fun f => mem_str (fst f) names) y) as G.
          { induction x as [|[? ?] x IH]; intros [|[? ?] y] K; cbn in *; try discriminate; auto.
            injection K as -> K. f_equal. auto. }
          rewrite (G l2 fs K2). exact MEM. }
        cbv zeta. unfold field in *.
        rewrite (filter_false _ _ M2), (filter_true _ _ M2).
        assert (forallb (fun n0 => has_key n0 (fields_of l2)) names = true) as ->.
        { rewrite <- HK. apply forallb_ext. intros. rewrite has_key_fields_of. apply has_key_keys. exact K2. }
        rewrite andb_false_r. cbn [negb app].
        constructor. apply RV_rec'. unfold fields_of. rewrite !map_map. clear -F.
        induction F as [|[k1 x1] [k2 x2] l1 l2 [E G] _ IH]; cbn; constructor; auto.
        split; [exact E|]. split; [sfx|]. split; [sfx|]. intros q1 q2 n S1 S2. cbn [fst snd] in *. apply same_ctrs_nil in S1. subst.
        apply same_ctrs_single in S2 as [b' ->]. cbn [tctrs fold_left]. apply G.
  Qed.
End Programs.

(* ------------------------------------------------------------------------------------------ *)
(** * The theorems *)

Lemma run_unfold : forall n k T o, run n k T o = force n (TObs o (annotate T (thunk_of_container k))).
Proof. reflexivity. Qed.

(** T0 laziness (bottom_insensitive).  If the observation marker put at [pos] does not come out,
    the component at [pos] can be replaced by anything - a number, a string, a failing component -
    without changing the outcome: it is neither evaluated nor checked.  Holds for every annotation
    [T] (or none), every supported pipeline, every fuel. *)
Theorem laziness : forall n k T o pos a,
  supported o -> container_ok k ->
  is_probe (run n (plug k pos AProbe) T o) = false ->
  res_sim (run n (plug k pos AProbe) T o) (run n (plug k pos a) T o).
Proof.
  intros n k T o pos a So CK P. rewrite !run_unfold in *.
  eapply relR_sim; [|exact P].
  apply program_rel; try exact So; try exact Hole_any_bind; try (intros; exact I).
  apply annotate_rel; try exact Hole_any_bind. apply plug_rel; try exact CK; try exact Hole_any_bind. exact I.
Qed.

Corollary bottom_insensitive : forall n k T o pos a a',
  supported o -> container_ok k ->
  is_probe (run n (plug k pos AProbe) T o) = false ->
  res_sim (run n (plug k pos a) T o) (run n (plug k pos a') T o).
Proof.
  intros. eapply res_sim_trans; [apply res_sim_sym|]; eapply laziness; eauto.
Qed.

(** A failing component that is reached surfaces as itself (annotation or not). *)
Theorem reached_fails : forall n k o pos,
  supported o -> container_ok k ->
  reaches n k o pos = true -> run n (plug k pos AFail) None o = Err EFail.
Proof.
  intros n k o pos So CK R. unfold reaches in R. rewrite !run_unfold in *.
  assert (forall r : res tree, Hole_err E_fail tree r ->
            Hole_err E_fail lval (match r with
                                  | Ok tr => Ok (tree_to_lval tr)
                                  | Err ENotExportable => Err ESerialize
                                  | Err e => Err e
                                  end)) as HS.
  { apply Hole_err_serde. unfold E_fail. discriminate. }
  assert (RelR (Hole_err E_fail) eq
            (force n (TObs o (annotate None (thunk_of_container (plug k pos AProbe)))))
            (force n (TObs o (annotate None (thunk_of_container (plug k pos AFail)))))) as H.
  { apply program_rel; try exact So; try exact HS; try apply Hole_err_bind.
    apply annotate_rel; try apply Hole_err_bind.
    apply plug_rel; try exact CK; try apply Hole_err_bind. exists EFail. split; reflexivity. }
  apply relR_hole in H; [|exact R]. destruct H as [e [-> ->]]. reflexivity.
Qed.

(** ... also under the annotation: the failure, not a blame, comes out. *)
Theorem reached_fails_annotated : forall n k T o pos,
  wf_case k pos T = true -> supported o ->
  reaches n k o pos = true -> run n (plug k pos AFail) (Some T) o = Err EFail.
Proof.
  intros n k T o pos WF So R. unfold reaches in R. rewrite !run_unfold in *.
  assert (RelR (Hole_err E_fail) eq
            (force n (TObs o (annotate None (thunk_of_container (plug k pos AProbe)))))
            (force n (TObs o (annotate (Some T) (thunk_of_container (plug k pos AFail)))))) as H.
  { apply program_rel; try exact So; try apply Hole_err_bind;
      try (apply Hole_err_serde; unfold E_fail; discriminate).
    cbn [annotate]. apply guarded; try exact WF; try apply Hole_err_bind.
    intros b. exists EFail. split; reflexivity. }
  apply relR_hole in H; [|exact R]. destruct H as [e [-> ->]]. reflexivity.
Qed.

Lemma E_blame_serde : E_blame ENotExportable -> E_blame ESerialize.
Proof. unfold E_blame. cbn. discriminate. Qed.

Lemma blame_hole : forall s b, Hole_err E_blame lval (apply_ctr b CNum (Ok (VStr s))).
Proof. intros s b. exists (blame b). split; [reflexivity | destruct b; reflexivity]. Qed.

(** T0 observe_blames_iff_reached, first half: a violating component that is reached is blamed.
    [reaches] is computed on the *unannotated* container (Spec.v): contracts play no role in it. *)
Theorem reached_blames : forall n k T o pos s,
  wf_case k pos T = true -> supported o ->
  reaches n k o pos = true ->
  exists e, run n (plug k pos (AStr s)) (Some T) o = Err e /\ is_blame e = true.
Proof.
  intros n k T o pos s WF So R. unfold reaches in R. rewrite !run_unfold in *.
  assert (RelR (Hole_err E_blame) eq
            (force n (TObs o (annotate None (thunk_of_container (plug k pos AProbe)))))
            (force n (TObs o (annotate (Some T) (thunk_of_container (plug k pos (AStr s))))))) as H.
  { apply program_rel; try exact So; try apply Hole_err_bind;
      try (apply Hole_err_serde; exact E_blame_serde).
    cbn [annotate]. apply guarded; try exact WF; try apply Hole_err_bind. apply blame_hole. }
  apply relR_hole in H; [|exact R]. exact H.
Qed.

(** Second half: a component that is not reached - violating or not - leaves the annotated run
    equal to the unannotated run (for any atom [a] at that position). *)
Theorem unreached_equals_unannotated : forall n k T o pos a,
  wf_case k pos T = true -> supported o -> container_ok k ->
  reaches n k o pos = false ->
  res_sim (run n (plug k pos a) (Some T) o) (run n (plug k pos a) None o).
Proof.
  intros n k T o pos a WF So CK R. unfold reaches in R.
  pose proof (laziness n k None o pos a So CK R) as L.
  rewrite !run_unfold in *.
  assert (RelR Hole_any eq
            (force n (TObs o (annotate None (thunk_of_container (plug k pos AProbe)))))
            (force n (TObs o (annotate (Some T) (thunk_of_container (plug k pos a)))))) as H.
  { apply program_rel; try exact So; try exact Hole_any_bind; try (intros; exact I).
    cbn [annotate]. apply guarded; try exact WF; try exact Hole_any_bind. intros; exact I. }
  apply relR_sim in H; [|exact R].
  eapply res_sim_trans; [apply res_sim_sym; exact H | exact L].
Qed.

(** Both halves together: the annotated run blames iff the violating component is reached,
    provided the unannotated run does not itself end in a blame (it contains no contract). *)
Theorem observe_blames_iff_reached : forall n k T o pos s,
  wf_case k pos T = true -> supported o -> container_ok k ->
  is_blame_res (run n (plug k pos (AStr s)) None o) = false ->
  (is_blame_res (run n (plug k pos (AStr s)) (Some T) o) = true <-> reaches n k o pos = true).
Proof.
  intros n k T o pos s WF So CK NB. split.
  - intros B. destruct (reaches n k o pos) eqn:R; auto.
    pose proof (unreached_equals_unannotated n k T o pos (AStr s) WF So CK R) as E.
    apply res_sim_blame in E. congruence.
  - intros R. destruct (reached_blames n k T o pos s WF So R) as [e [-> B]]. exact B.
Qed.

(** Nothing violates: the annotation is invisible (take for [a] a number). *)
Corollary annotation_transparent : forall n k T o pos z,
  wf_case k pos T = true -> supported o -> container_ok k ->
  reaches n k o pos = false ->
  res_sim (run n (plug k pos (ANum z)) (Some T) o) (run n (plug k pos (ANum z)) None o).
Proof. intros. now apply unreached_equals_unannotated. Qed.

(** T1 function contracts: [$func] wraps every call - the argument goes through the domain
    contract with the flipped polarity, the result through the codomain contract. *)
Theorem func_wraps_call : forall n o d c arg,
  eval (S n) (TObs (OCall arg) (TCtr (true, CFun d c) (TVal (Ok (VFun (FBase o))))))
  = apply_ctr true c (eval n (TObs o (TCtr (false, d) (thunk_of_atom arg)))).
Proof. intros. rewrite eval_TObs. cbn [obs_sem]. rewrite eval_TCtr, eval_TVal. reflexivity. Qed.

Corollary func_domain_blames_iff_forced : forall n o s,
  fn_scalar o ->
  eval (S (S n)) (TObs (OCall (AStr s)) (TCtr (true, CFun CNum CDyn) (TVal (Ok (VFun (FBase o))))))
  = Err EBlameNeg
  <-> is_probe (eval (S (S n)) (TObs (OCall AProbe) (TVal (Ok (VFun (FBase o)))))) = true.
Proof.
  intros n o s Ho. rewrite func_wraps_call. rewrite (eval_TObs (S (S n))). cbn [obs_sem].
  rewrite eval_TVal. cbn [bind app thunk_of_atom]. rewrite !eval_TObs.
  destruct Ho; cbn [obs_sem]; rewrite ?eval_TCtr, ?eval_TVal; cbn; split; intros; try discriminate; auto.
Qed.

(** ** Non-vacuity *)

Example wf_case_ex1 : wf_case (KArr [ANum 1; ANum 2; ANum 3]) [1] (CArr CNum) = true.
Proof. reflexivity. Qed.

Example wf_case_ex2 :
  wf_case (KRec [("a"%string, ANum 1); ("b"%string, AFail)]) [0] (CRecT ["a"%string; "b"%string] CNum) = true.
Proof. reflexivity. Qed.

Example supported_ex : supported (OComp (OMap (OAddK 1)) (OComp (OSliceP 0 2) (OFoldL F2Add 0))).
Proof. repeat constructor. Qed.

Example reached_ex : reaches 8 (KArr [ANum 1; ANum 2; ANum 3]) (OComp (OMap (OAddK 1)) (OAtP 1)) [1] = true
                     /\ reaches 8 (KArr [ANum 1; ANum 2; ANum 3]) (OComp (OMap (OAddK 1)) (OAtP 1)) [2] = false.
Proof. split; vm_compute; reflexivity. Qed.

Example blames_ex :
  run 8 (plug (KArr [ANum 1; ANum 2; ANum 3]) [1] (AStr "bad")) (Some (CArr CNum)) (OComp (OMap (OAddK 1)) (OAtP 1))
  = Err EBlame
  /\ run 8 (plug (KArr [ANum 1; ANum 2; ANum 3]) [2] (AStr "bad")) (Some (CArr CNum)) (OComp (OMap (OAddK 1)) (OAtP 1))
     = Ok (TrNum 3).
Proof. split; vm_compute; reflexivity. Qed.
