(* C08 - the closed form of [reaches] for the individual observers (Spec.reach_table): index
   arithmetic only.  On a flat array of numbers, observing through [o] and exporting the result
   reaches position [p] exactly when the table says so. *)
From Coq Require Import List ZArith String Bool Arith Lia.
Import ListNotations.
From NV Require Import Delayed.Model Delayed.Spec Delayed.Tracked Delayed.Rel.
Open Scope list_scope.

Definition nums (zs : list Z) : list atom := map ANum zs.
Definition athunks (xs : list atom) : list thunk := map thunk_of_atom xs.

Lemma set_nth_split : forall {A} (l : list A) p x, p < List.length l ->
  set_nth p x l = firstn p l ++ x :: skipn (S p) l.
Proof.
  induction l as [|y l IH]; intros [|p] x H; cbn in *; try lia; auto. f_equal. apply IH. lia.
Qed.

(** The marked container's elements: numbers, the marker, numbers. *)
Lemma probe_split : forall zs p, p < List.length zs ->
  athunks (set_nth p AProbe (nums zs))
  = athunks (nums (firstn p zs)) ++ TVal (Err EProbe) :: athunks (nums (skipn (S p) zs)).
Proof.
  intros. unfold athunks, nums. rewrite set_nth_split by (now rewrite map_length).
  rewrite firstn_map, skipn_map, map_app. reflexivity.
Qed.

Section Force.
  Variable fo : thunk -> res tree.

  Definition ok_thunk (t : thunk) : Prop := exists tr, fo t = Ok tr.

  Lemma force_list_ok : forall ts, Forall ok_thunk ts -> exists trs, force_list fo ts = Ok trs.
  Proof.
    induction 1 as [|t ts [tr Ht] _ [trs IH]]; cbn; [eexists; reflexivity|].
    rewrite IH. cbn. rewrite Ht. cbn. eexists; reflexivity.
  Qed.

  (** Elements are forced from the last one: the first error met from the right comes out. *)
  Lemma force_list_hit : forall a t b e, fo t = Err e -> Forall ok_thunk b ->
    force_list fo (a ++ t :: b) = Err e.
  Proof.
    induction a as [|x a IH]; intros t b e Ht Hb; cbn.
    - destruct (force_list_ok b Hb) as [trs ->]. cbn. now rewrite Ht.
    - rewrite (IH t b e Ht Hb). reflexivity.
  Qed.
End Force.

Lemma force_num : forall m z, force (S m) (TVal (Ok (VNum z))) = Ok (TrNum z).
Proof. intros. rewrite force_S, eval_TVal. reflexivity. Qed.

Lemma force_probe : forall m, force (S m) (TVal (Err EProbe)) = Err EProbe.
Proof. intros. rewrite force_S, eval_TVal. reflexivity. Qed.

Lemma nums_ok : forall m zs, Forall (ok_thunk (force (S m))) (athunks (nums zs)).
Proof.
  intros. unfold athunks, nums. rewrite map_map. apply Forall_forall. intros t Ht.
  apply in_map_iff in Ht as [z [<- _]]. eexists. apply force_num.
Qed.

(** Forcing an array value whose elements are given thunks. *)
Lemma force_arr : forall m ts,
  force_whnf (force m) (VArr ts []) = bind (force_list (force m) ts) (fun xs => Ok (TrArr xs)).
Proof. intros. cbn. now rewrite arr_elems_nil_pend. Qed.

Definition marked (zs : list Z) (p : nat) : thunk :=
  TVal (Ok (VArr (athunks (set_nth p AProbe (nums zs))) [])).

Lemma run_marked : forall fuel zs p o,
  run fuel (plug (KArr (nums zs)) [p] AProbe) None o = force fuel (TObs o (marked zs p)).
Proof. reflexivity. Qed.

Lemma force_marked_list : forall m zs p, p < List.length zs ->
  force_list (force (S m)) (athunks (set_nth p AProbe (nums zs))) = Err EProbe.
Proof.
  intros. rewrite probe_split by assumption. apply force_list_hit; [apply force_probe | apply nums_ok].
Qed.

Lemma nth_marked : forall zs p i, p < List.length zs -> i < List.length zs ->
  nth_error (athunks (set_nth p AProbe (nums zs))) i
  = Some (if Nat.eqb i p then TVal (Err EProbe) else TVal (Ok (VNum (nth i zs 0%Z)))).
Proof.
  unfold athunks, nums. intros zs p i. revert zs p.
  induction i as [|i IH]; intros [|z zs] [|p] Hp Hi; cbn in *; try lia; auto.
  - clear IH. assert (forall l i, i < List.length l ->
        nth_error (map thunk_of_atom (map ANum l)) i = Some (TVal (Ok (VNum (nth i l 0%Z))))) as G.
    { induction l; intros [|?] ?; cbn in *; try lia; auto. apply IHl. lia. }
    apply G. lia.
  - rewrite IH by lia. reflexivity.
Qed.

Lemma marked_length : forall zs p, List.length (athunks (set_nth p AProbe (nums zs))) = List.length zs.
Proof.
  intros. unfold athunks, nums. rewrite map_length.
  assert (forall {A} (l : list A) p x, List.length (set_nth p x l) = List.length l) as G.
  { induction l; intros [|?] ?; cbn; auto. }
  now rewrite G, map_length.
Qed.

(** Scalar functions on a number / on the marker. *)
Lemma scalar_on_num : forall f b m z, strict_fun f = Some b ->
  exists v, eval (S m) (TObs f (TVal (Ok (VNum z)))) = Ok v /\ forall fo, exists tr, force_whnf fo v = Ok tr.
Proof.
  intros f b m z H. destruct f; cbn in H; try discriminate; rewrite eval_TObs; cbn [obs_sem];
    rewrite ?eval_TVal; cbn; eexists; split; try reflexivity; intros; eexists; reflexivity.
Qed.

Lemma scalar_on_probe : forall f b m, strict_fun f = Some b ->
  (b = true -> eval (S m) (TObs f (TVal (Err EProbe))) = Err EProbe) /\
  (b = false -> exists v, eval (S m) (TObs f (TVal (Err EProbe))) = Ok v /\ forall fo, exists tr, force_whnf fo v = Ok tr).
Proof.
  intros f b m H. destruct f; cbn in H; try discriminate; injection H as <-; split; intros; try discriminate;
    rewrite eval_TObs; cbn [obs_sem]; rewrite ?eval_TVal; cbn; auto; eexists; split; try reflexivity; intros; eexists; reflexivity.
Qed.

Lemma foldl_add_nums : forall ev zs acc,
  (forall z, ev (TVal (Ok (VNum z))) = Ok (VNum z)) ->
  exists r, foldl_go ev F2Add (athunks (nums zs)) (VNum acc) = Ok (VNum r).
Proof.
  intros ev zs. induction zs as [|z zs IH]; intros acc H; cbn; [eexists; reflexivity|].
  rewrite H. cbn. apply IH. exact H.
Qed.

Lemma foldl_add_probe : forall ev a b acc,
  (forall z, ev (TVal (Ok (VNum z))) = Ok (VNum z)) -> ev (TVal (Err EProbe)) = Err EProbe ->
  foldl_go ev F2Add (athunks (nums a) ++ TVal (Err EProbe) :: b) (VNum acc) = Err EProbe.
Proof.
  intros ev a. induction a as [|z a IH]; intros b acc H HP; cbn.
  - rewrite HP. reflexivity.
  - rewrite H. cbn. apply IH; auto.
Qed.

Lemma foldl_lazy : forall ev f ts acc, (f = F2Count \/ f = F2Fst \/ exists z, f = F2Const z) ->
  exists r, foldl_go ev f ts (VNum acc) = Ok (VNum r).
Proof.
  intros ev f ts. induction ts as [|t ts IH]; intros acc H; cbn; [eexists; reflexivity|].
  destruct H as [->|[->|[z ->]]]; cbn; apply IH; auto. right. right. now exists z.
Qed.

Lemma foldr_add_probe : forall ev a b init,
  (forall z, ev (TVal (Ok (VNum z))) = Ok (VNum z)) -> ev (TVal (Err EProbe)) = Err EProbe ->
  foldr_go ev F2Add (athunks (nums a) ++ TVal (Err EProbe) :: b) (VNum init) = Err EProbe.
Proof.
  intros ev a. induction a as [|z a IH]; intros b init H HP; cbn.
  - rewrite HP. reflexivity.
  - rewrite H. cbn. rewrite IH; auto.
Qed.

Lemma foldr_lazy : forall ev f ts init, (f = F2Snd \/ (exists k, f = F2SndAdd k) \/ exists z, f = F2Const z) ->
  exists r, foldr_go ev f ts (VNum init) = Ok (VNum r).
Proof.
  intros ev f ts init H. induction ts as [|t ts [r IH]]; cbn; [eexists; reflexivity|].
  destruct H as [->|[[k ->]|[z ->]]]; cbn; rewrite ?IH; cbn; eexists; reflexivity.
Qed.


(** Atoms that are numbers or the marker. *)
Definition np_atom (a : atom) : bool := match a with ANum _ | AProbe => true | _ => false end.
Definition is_aprobe (a : atom) : bool := match a with AProbe => true | _ => false end.
Definition has_probe (xs : list atom) : bool := existsb is_aprobe xs.

Lemma force_atoms : forall m xs, forallb np_atom xs = true ->
  if has_probe xs then force_list (force (S m)) (athunks xs) = Err EProbe
  else exists trs, force_list (force (S m)) (athunks xs) = Ok trs.
Proof.
  intros m xs. unfold athunks, has_probe. induction xs as [|x xs IH]; intros H;
    cbn [map force_list existsb forallb] in *; [eexists; reflexivity|].
  apply andb_prop in H as [Hx Hxs]. specialize (IH Hxs).
  destruct x; try discriminate; cbn [is_aprobe orb thunk_of_atom].
  - destruct (existsb is_aprobe xs).
    + rewrite IH. reflexivity.
    + destruct IH as [trs ->]. cbn [bind]. rewrite force_num. cbn [bind]. eexists; reflexivity.
  - rewrite force_probe. destruct (existsb is_aprobe xs).
    + rewrite IH. reflexivity.
    + destruct IH as [trs ->]. reflexivity.
Qed.

Lemma nums_np : forall zs, forallb np_atom (nums zs) = true.
Proof. induction zs; cbn; auto. Qed.

Lemma nums_no_probe : forall zs, has_probe (nums zs) = false.
Proof. induction zs; cbn; auto. Qed.

Lemma forallb_firstn : forall {A} (f : A -> bool) n l, forallb f l = true -> forallb f (firstn n l) = true.
Proof. induction n; intros [|x l] H; cbn in *; auto. apply andb_prop in H as [-> H]. cbn. auto. Qed.

Lemma forallb_skipn : forall {A} (f : A -> bool) n l, forallb f l = true -> forallb f (skipn n l) = true.
Proof. induction n; intros [|x l] H; cbn in *; auto. apply andb_prop in H as [_ H]. auto. Qed.

Lemma existsb_firstn_false : forall {A} (f : A -> bool) n l, existsb f l = false -> existsb f (firstn n l) = false.
Proof. induction n; intros [|x l] H; cbn in *; auto. apply orb_false_elim in H as [-> H]. cbn. auto. Qed.

Lemma existsb_skipn_false : forall {A} (f : A -> bool) n l, existsb f l = false -> existsb f (skipn n l) = false.
Proof. induction n; intros [|x l] H; cbn in *; auto. apply orb_false_elim in H as [_ H]. auto. Qed.

Lemma marked_np : forall zs p, forallb np_atom (set_nth p AProbe (nums zs)) = true.
Proof. induction zs as [|z zs IH]; intros [|p]; cbn; auto. apply nums_np. Qed.

Lemma marked_has_probe : forall zs p, p < List.length zs -> has_probe (set_nth p AProbe (nums zs)) = true.
Proof. induction zs as [|z zs IH]; intros [|p] H; cbn in *; try lia; auto. apply IH. lia. Qed.

Lemma has_probe_window : forall zs p s k, p < List.length zs ->
  has_probe (firstn k (skipn s (set_nth p AProbe (nums zs)))) = Nat.leb s p && Nat.ltb p (s + k).
Proof.
  induction zs as [|z zs IH]; intros p s k H; cbn in H; [lia|].
  destruct s as [|s].
  - cbn [skipn Nat.leb andb Nat.add]. destruct k as [|k].
    + cbn. destruct p; reflexivity.
    + destruct p as [|p]; cbn [set_nth nums map firstn has_probe existsb is_aprobe orb].
      * reflexivity.
      * specialize (IH p 0 k ltac:(lia)). cbn [skipn Nat.leb andb Nat.add] in IH.
        fold (nums zs). fold (has_probe (firstn k (set_nth p AProbe (nums zs)))). rewrite IH. reflexivity.
  - destruct p as [|p]; cbn [set_nth nums map skipn].
    + fold (nums zs). unfold has_probe. rewrite existsb_firstn_false; [reflexivity|].
      apply existsb_skipn_false. apply nums_no_probe.
    + fold (nums zs). rewrite IH by lia. reflexivity.
Qed.

Lemma has_probe_rev : forall xs, has_probe (rev xs) = has_probe xs.
Proof.
  unfold has_probe. induction xs as [|x xs IH]; cbn; auto. rewrite existsb_app, IH. cbn.
  rewrite orb_false_r. apply orb_comm.
Qed.

Lemma forallb_rev : forall {A} (f : A -> bool) l, forallb f (rev l) = forallb f l.
Proof. induction l; cbn; auto. rewrite forallb_app, IHl. cbn. rewrite andb_true_r. apply andb_comm. Qed.

Lemma athunks_firstn_skipn : forall k s xs, firstn k (skipn s (athunks xs)) = athunks (firstn k (skipn s xs)).
Proof. intros. unfold athunks. now rewrite skipn_map, firstn_map. Qed.

(** forcing an array of number-or-marker atoms *)
Lemma force_arr_atoms : forall m xs, forallb np_atom xs = true ->
  is_probe (force_whnf (force (S m)) (VArr (athunks xs) [])) = has_probe xs.
Proof.
  intros m xs H. rewrite force_arr. pose proof (force_atoms m xs H) as F.
  destruct (has_probe xs); [now rewrite F | destruct F as [trs ->]; reflexivity].
Qed.

Theorem reach_table_correct : forall o zs p b m,
  reach_table o (List.length zs) p = Some b ->
  reaches (S (S (S (S m)))) (KArr (nums zs)) o [p] = b.
Proof.
  intros o zs p b m0 H. remember (S m0) as m eqn:Hm. unfold reach_table in H.
  destruct (Nat.ltb p (List.length zs)) eqn:Hp; [|discriminate]. apply Nat.ltb_lt in Hp. cbn [negb] in H.
  unfold reaches. rewrite run_marked. rewrite force_S, eval_TObs. unfold marked.
  assert (forall z, eval (S m) (TVal (Ok (VNum z))) = Ok (VNum z)) as EvN by (intros; apply eval_TVal).
  assert (eval (S m) (TVal (Err EProbe)) = Err EProbe) as EvP by apply eval_TVal.
  pose proof (marked_np zs p) as NP. pose proof (marked_has_probe zs p Hp) as HPb.
  destruct o; cbv beta iota in H; try discriminate; cbn [obs_sem]; rewrite ?eval_TVal; cbn [bind as_arr].
  - (* OId *) injection H as <-. rewrite force_arr_atoms; auto.
  - (* OAtP *)
    destruct (Nat.ltb i (List.length zs)) eqn:Hi; [|discriminate]. apply Nat.ltb_lt in Hi. injection H as <-.
    unfold prim_array_at. rewrite nth_marked by assumption. cbn [tctrs fold_left bind].
    destruct (Nat.eqb i p); rewrite eval_TVal; reflexivity.
  - (* OAt *)
    destruct (Nat.ltb i (List.length zs)) eqn:Hi; [|discriminate]. injection H as <-.
    rewrite marked_length, Hi. apply Nat.ltb_lt in Hi.
    unfold prim_array_at. rewrite nth_marked by assumption. cbn [tctrs fold_left bind].
    destruct (Nat.eqb i p); rewrite eval_TVal; reflexivity.
  - (* OFirst *) injection H as <-.
    pose proof (nth_marked zs p 0 Hp ltac:(lia)) as N.
    destruct (athunks (set_nth p AProbe (nums zs))) as [|t ts] eqn:E; [discriminate|].
    unfold prim_array_at. rewrite N. cbn [tctrs fold_left bind].
    destruct p; cbn [Nat.eqb]; rewrite eval_TVal; reflexivity.
  - (* OLast *) injection H as <-.
    pose proof (nth_marked zs p (List.length zs - 1) Hp ltac:(lia)) as N.
    pose proof (marked_length zs p) as L.
    destruct (athunks (set_nth p AProbe (nums zs))) as [|t ts] eqn:E; [cbn in L; lia|].
    unfold prim_array_at, prim_array_length. rewrite L, N. cbn [tctrs fold_left bind].
    rewrite (Nat.eqb_sym p). destruct (Nat.eqb (List.length zs - 1) p); rewrite eval_TVal; reflexivity.
  - (* OLength *) injection H as <-. reflexivity.
  - (* OMap *)
    unfold prim_array_map. cbn [tctrs fold_left]. rewrite force_arr, probe_split by assumption.
    rewrite map_app. cbn [map].
    assert (forall zs', Forall (ok_thunk (force (S (S m))))
              (map (fun e => TObs o e) (athunks (nums zs')))) as OKn.
    { intros zs'. unfold athunks, nums. rewrite !map_map. apply Forall_forall. intros t Ht.
      apply in_map_iff in Ht as [z [<- _]]. unfold ok_thunk. cbn [thunk_of_atom].
      destruct (scalar_on_num o b m z H) as [v [Ev Fv]]. destruct (Fv (force (S m))) as [tr Ftr].
      exists tr. now rewrite force_S, Ev. }
    destruct (scalar_on_probe o b m H) as [HT HF]. destruct b.
    + rewrite (force_list_hit _ _ _ _ EProbe); [reflexivity | | apply OKn].
      rewrite force_S, (HT eq_refl). reflexivity.
    + destruct (HF eq_refl) as [v [Ev Fv]]. destruct (Fv (force (S m))) as [tr Ftr].
      assert (exists trs, force_list (force (S (S m)))
                (map (fun e => TObs o e) (athunks (nums (firstn p zs)))
                 ++ TObs o (TVal (Err EProbe)) :: map (fun e => TObs o e) (athunks (nums (skipn (S p) zs)))) = Ok trs) as [trs ->].
      { apply force_list_ok. apply Forall_app. split; [apply OKn|constructor; [|apply OKn]].
        exists tr. now rewrite force_S, Ev. }
      reflexivity.
  - (* OSlice *)
    destruct (Nat.leb s e && Nat.leb e (List.length zs)) eqn:B; [|discriminate]. injection H as <-.
    apply andb_prop in B as [B1 B2]. apply Nat.leb_le in B1, B2.
    unfold prim_array_slice. rewrite marked_length.
    destruct (Nat.ltb e s || Nat.ltb (List.length zs) e) eqn:C.
    { apply orb_prop in C as [C|C]; apply Nat.ltb_lt in C; lia. }
    rewrite athunks_firstn_skipn. cbn [bind]. rewrite force_arr_atoms.
    + rewrite has_probe_window by assumption. replace (s + (e - s)) with e by lia. reflexivity.
    + apply forallb_firstn, forallb_skipn, NP.
  - (* OSliceP *)
    destruct (Nat.leb s e && Nat.leb e (List.length zs)) eqn:B; [|discriminate]. injection H as <-.
    apply andb_prop in B as [B1 B2]. apply Nat.leb_le in B1, B2.
    unfold prim_array_slice. rewrite marked_length.
    destruct (Nat.ltb e s || Nat.ltb (List.length zs) e) eqn:C.
    { apply orb_prop in C as [C|C]; apply Nat.ltb_lt in C; lia. }
    rewrite athunks_firstn_skipn. cbn [bind]. rewrite force_arr_atoms.
    + rewrite has_probe_window by assumption. replace (s + (e - s)) with e by lia. reflexivity.
    + apply forallb_firstn, forallb_skipn, NP.
  - (* OFoldL *)
    rewrite arr_elems_nil_pend. destruct f; try discriminate; injection H as <-.
    + rewrite probe_split by assumption. rewrite foldl_add_probe; auto.
    + destruct (foldl_lazy (eval (S m)) F2Count (athunks (set_nth p AProbe (nums zs))) init) as [r ->]; auto.
    + destruct (foldl_lazy (eval (S m)) F2Fst (athunks (set_nth p AProbe (nums zs))) init) as [r ->]; auto.
    + destruct (foldl_lazy (eval (S m)) (F2Const z) (athunks (set_nth p AProbe (nums zs))) init) as [r ->]; eauto.
  - (* OFoldR *)
    rewrite arr_elems_nil_pend. destruct f; try discriminate; injection H as <-.
    + rewrite probe_split by assumption. rewrite foldr_add_probe; auto.
    + (* F2Count: x + 1 on the first element only *)
      destruct zs as [|z zs]; [cbn in Hp; lia|]. unfold athunks, nums.
      destruct p as [|p]; cbn [set_nth map foldr_go thunk_of_atom Nat.eqb]; rewrite ?EvP, ?EvN; reflexivity.
    + (* F2Fst *)
      destruct zs as [|z zs]; [cbn in Hp; lia|]. unfold athunks, nums.
      destruct p as [|p]; cbn [set_nth map foldr_go thunk_of_atom Nat.eqb]; rewrite ?EvP, ?EvN; reflexivity.
    + destruct (foldr_lazy (eval (S m)) F2Snd (athunks (set_nth p AProbe (nums zs))) init) as [r ->]; auto.
    + destruct (foldr_lazy (eval (S m)) (F2SndAdd k) (athunks (set_nth p AProbe (nums zs))) init) as [r ->]; eauto.
    + destruct (foldr_lazy (eval (S m)) (F2Const z) (athunks (set_nth p AProbe (nums zs))) init) as [r ->]; eauto.
  - (* OReverse *) injection H as <-. rewrite arr_elems_nil_pend.
    unfold athunks. rewrite <- map_rev. fold (athunks (rev (set_nth p AProbe (nums zs)))). cbn [bind].
    rewrite force_arr_atoms; [now rewrite has_probe_rev | now rewrite forallb_rev].
  - (* OSeq *) injection H as <-. rewrite force_arr_atoms; auto.
  - (* ODeepSeq *) injection H as <-.
    subst m. rewrite force_S, eval_TVal. cbn [bind].
    pose proof (force_arr_atoms m0 _ NP) as F. rewrite HPb in F.
    destruct (force_whnf (force (S m0)) (VArr (athunks (set_nth p AProbe (nums zs))) [])) as [tr|e]; [discriminate|].
    destruct e; try discriminate. reflexivity.
  - (* OSerde *) injection H as <-.
    subst m. rewrite force_S, eval_TVal. cbn [bind].
    pose proof (force_arr_atoms m0 _ NP) as F. rewrite HPb in F.
    destruct (force_whnf (force (S m0)) (VArr (athunks (set_nth p AProbe (nums zs))) [])) as [tr|e]; [discriminate|].
    destruct e; try discriminate. reflexivity.
Qed.
