(* C08 - pending_tracked for record merge and record removal: fields keep their value together
   with their pending contracts; a common field becomes the lazy merge of the two values under
   the pending contracts of both sides. *)
From Coq Require Import List ZArith String Bool Arith Lia.
Import ListNotations.
From NV Require Import Delayed.Model Delayed.Spec Delayed.Tracked.
Open Scope list_scope.

Lemma lookup_In : forall {A} k (l : list (string * A)) v, lookup k l = Some v -> In (k, v) l.
Proof.
  induction l as [|[k' a] l IH]; intros v H; cbn in *; [discriminate|].
  destruct (String.eqb k k') eqn:E.
  - apply String.eqb_eq in E. subst. injection H as ->. now left.
  - right. auto.
Qed.

Lemma In_removelast : forall {A} (x : A) l, In x (removelast l) -> In x l.
Proof.
  induction l as [|y l IH]; cbn; auto. destruct l; cbn in *; [tauto|]. intros [->|H]; auto.
Qed.

Lemma In_replace_key : forall {A} k (x f : string * A) l, In f (replace_key k x l) -> f = x \/ In f l.
Proof.
  induction l as [|[k' a] l IH]; cbn; auto. destruct (String.eqb k k'); cbn; intros [<-|H]; auto.
  destruct (IH H); auto.
Qed.

Lemma In_last : forall {A} (l : list A) d, l <> [] -> In (last l d) l.
Proof.
  induction l as [|x l IH]; intros d H; [congruence|]. destruct l; cbn; auto. right. apply IH. discriminate.
Qed.

Lemma In_swap_remove : forall {A} k (f : string * A) l, In f (swap_remove k l) -> In f l.
Proof.
  intros A k f l H. unfold swap_remove in H. destruct l as [|d l]; auto.
  destruct (has_key k (d :: l)); auto.
  destruct (String.eqb k (fst (last (d :: l) d))).
  - now apply In_removelast.
  - apply In_replace_key in H as [->|H]; [apply In_last; discriminate | now apply In_removelast].
Qed.

(** What a field of a merged record can be. *)
Definition merged_from (m1 m2 : list field) (f : field) : Prop :=
  In f m1 \/ In f m2 \/
  exists k x1 p1 x2 p2, f = (k, (TMerge x1 x2, p1 ++ p2)) /\ In (k, (x1, p1)) m1 /\ In (k, (x2, p2)) m2.

Definition SInv (m1 m2 : list field) (st : split_state) : Prop :=
  (forall f, In f (fst (fst st)) -> In f m1) /\ (forall f, In f (snd st) -> In f m2) /\
  (forall k v1 v2, In (k, (v1, v2)) (snd (fst st)) -> In (k, v1) m1 /\ In (k, v2) m2).

Lemma step_a_inv : forall m1 m2 st f, SInv m1 m2 st -> In f m2 -> SInv m1 m2 (split_step_a st f).
Proof.
  intros m1 m2 [[a c] b] [k v2] [Ia [Ib Ic]] Hf. cbn in *. destruct (lookup k a) as [v1|] eqn:E.
  - split; [|split]; cbn.
    + intros f Hf'. apply Ia. eapply In_swap_remove; eauto.
    + exact Ib.
    + intros k' w1 w2 Hc. apply in_app_or in Hc as [Hc|[Hc|[]]]; [now apply Ic|].
      injection Hc as <- <- <-. split; [apply Ia; now apply lookup_In | exact Hf].
  - split; [|split]; cbn.
    + exact Ia.
    + intros f Hf'. apply in_app_or in Hf' as [Hf'|[<-|[]]]; auto.
    + exact Ic.
Qed.

Lemma step_b_inv : forall m1 m2 st f, SInv m1 m2 st -> In f m1 -> SInv m1 m2 (split_step_b st f).
Proof.
  intros m1 m2 [[a c] b] [k v1] [Ia [Ib Ic]] Hf. cbn in *. destruct (lookup k b) as [v2|] eqn:E.
  - split; [|split]; cbn.
    + exact Ia.
    + intros f Hf'. apply Ib. eapply In_swap_remove; eauto.
    + intros k' w1 w2 Hc. apply in_app_or in Hc as [Hc|[Hc|[]]]; [now apply Ic|].
      injection Hc as <- <- <-. split; [exact Hf | apply Ib; now apply lookup_In].
  - split; [|split]; cbn.
    + intros f Hf'. apply in_app_or in Hf' as [Hf'|[<-|[]]]; auto.
    + exact Ib.
    + exact Ic.
Qed.

Lemma fold_inv : forall m1 m2 (step : _ -> field -> _) (P : field -> Prop),
  (forall st f, SInv m1 m2 st -> P f -> SInv m1 m2 (step st f)) ->
  forall l st, SInv m1 m2 st -> (forall f, In f l -> P f) -> SInv m1 m2 (fold_left step l st).
Proof.
  intros m1 m2 step P HS. induction l as [|f l IH]; intros st Inv Hl; cbn; auto.
  apply IH; [apply HS; auto; apply Hl; now left | intros; apply Hl; now right].
Qed.

Lemma split_fields_from : forall m1 m2 lft ctrf rgt, split_fields m1 m2 = (lft, ctrf, rgt) ->
  (forall f, In f lft -> In f m1) /\ (forall f, In f rgt -> In f m2) /\
  (forall k v1 v2, In (k, (v1, v2)) ctrf -> In (k, v1) m1 /\ In (k, v2) m2).
Proof.
  intros m1 m2 lft ctrf rgt H. unfold split_fields in H.
  destruct (Nat.ltb (List.length m1) (List.length m2)).
  - pose proof (fold_inv m1 m2 split_step_a (fun x => In x m2) (step_a_inv m1 m2) m2 (m1, [], [])) as G.
    rewrite H in G. apply G; [|auto]. repeat split; cbn; auto; intros; contradiction.
  - pose proof (fold_inv m1 m2 split_step_b (fun x => In x m1) (step_b_inv m1 m2) m1 ([], [], m2)) as G.
    rewrite H in G. apply G; [|auto]. repeat split; cbn; auto; intros; contradiction.
Qed.

(** pending_tracked for merge: every field of the merged record is a field of one operand as it
    is (value and pending contracts), or the lazy merge of the two values under the pending
    contracts of *both* sides. *)
Theorem merge_tracked : forall m1 m2 fs, prim_record_merge m1 m2 = VRec fs ->
  Forall (merged_from m1 m2) fs.
Proof.
  intros m1 m2 fs H. unfold prim_record_merge in H.
  destruct m1 as [|a1 m1]; [injection H as <-; apply Forall_forall; intros; right; now left|].
  destruct m2 as [|a2 m2]; [injection H as <-; apply Forall_forall; intros; now left|].
  destruct (split_fields (a1 :: m1) (a2 :: m2)) as [[lft ctrf] rgt] eqn:E.
  destruct (split_fields_from _ _ _ _ _ E) as [Il [Ir Ic]].
  injection H as <-. apply Forall_forall. intros f Hf.
  apply in_app_or in Hf as [Hf|Hf]; [left; auto|].
  apply in_app_or in Hf as [Hf|Hf]; [right; left; auto|].
  apply in_map_iff in Hf as [[k [[x1 p1] [x2 p2]]] [<- Hc]].
  destruct (Ic _ _ _ Hc). right. right. exists k, x1, p1, x2, p2. auto.
Qed.

(** RecordRemove: the remaining fields are the operand's fields as they are. *)
Theorem remove_tracked : forall k fs fs', prim_record_remove k fs = Ok (VRec fs') ->
  forall f, In f fs' -> In f fs.
Proof.
  intros k fs fs' H f Hf. unfold prim_record_remove in H. destruct (has_key k fs); [|discriminate].
  injection H as <-. eapply In_swap_remove; eauto.
Qed.
