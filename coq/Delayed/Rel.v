(* C08 - the logical relation behind observe_blames_iff_reached and laziness.

   Two runs of the same observer pipeline are related when they differ only
     (a) at a marked component: the left run has the observation marker there ([Err EProbe]), the
         right run has anything allowed by [Hole] (anything at all / a blame), and
     (b) in how the obligations are stored: pending on the container or already applied inside
         closures, with any labels (the relation only looks at the delivered view, under every
         relabelling of the pending contracts).
   Every supported observer maps related arguments to related results ([obs_cong]); at the top the
   exported trees are equal unless the left run returns the marker.  The relation is step indexed
   through [eval]'s fuel (the two runs use the same fuel). *)
From Coq Require Import List ZArith String Bool Arith Lia.
Import ListNotations.
From NV Require Import Delayed.Model Delayed.Spec Delayed.Tracked.
Open Scope list_scope.

Definition is_blame (e : err) : bool :=
  match e with EBlame | EBlameNeg => true | _ => false end.

(** Errors are compared up to the polarity of a blame. *)
Definition err_sim (e1 e2 : err) : Prop := e1 = e2 \/ (is_blame e1 = true /\ is_blame e2 = true).

Definition same_ctrs (p q : list pc) : Prop := map snd p = map snd q.

Inductive fn_scalar : obs -> Prop :=
| FS_id : fn_scalar OId
| FS_const z : fn_scalar (OConst z)
| FS_constb b : fn_scalar (OConstB b)
| FS_consts s : fn_scalar (OConstS s)
| FS_addk k : fn_scalar (OAddK k)
| FS_gtk k : fn_scalar (OGtK k)
| FS_eqk k : fn_scalar (OEqK k).

Inductive fn_sim : fn -> fn -> Prop :=
| FS_base o : fn_scalar o -> fn_sim (FBase o) (FBase o)
| FS_wrap b1 b2 d c f1 f2 : fn_sim f1 f2 -> fn_sim (FWrap b1 d c f1) (FWrap b2 d c f2).

Section Rel.
  Variable Hole : forall A : Type, res A -> Prop.
  Hypothesis Hole_bind : forall A B (r : res A) (k : A -> res B), Hole A r -> Hole B (bind r k).
  Hypothesis Hole_serde : forall r : res tree, Hole tree r ->
    Hole lval (match r with
               | Ok tr => Ok (tree_to_lval tr)
               | Err ENotExportable => Err ESerialize
               | Err e => Err e
               end).

  Inductive RelR {A : Type} (RA : A -> A -> Prop) : res A -> res A -> Prop :=
  | RR_hole r2 : Hole A r2 -> RelR RA (Err EProbe) r2
  | RR_err e1 e2 : err_sim e1 e2 -> RelR RA (Err e1) (Err e2)
  | RR_ok a1 a2 : RA a1 a2 -> RelR RA (Ok a1) (Ok a2).

  Inductive RelV : lval -> lval -> Prop :=
  | RV_num z : RelV (VNum z) (VNum z)
  | RV_str s : RelV (VStr s) (VStr s)
  | RV_bool b : RelV (VBool b) (VBool b)
  | RV_arr es1 p1 es2 p2 :
      (forall q1 q2 n, same_ctrs q1 p1 -> same_ctrs q2 p2 ->
         Forall2 (fun t1 t2 => RelR RelV (eval n t1) (eval n t2))
           (arr_elems es1 q1) (arr_elems es2 q2)) ->
      RelV (VArr es1 p1) (VArr es2 p2)
  | RV_rec fs1 fs2 :
      Forall2 (fun f1 f2 : field =>
                 fst f1 = fst f2 /\
                 forall q1 q2 n, same_ctrs q1 (snd (snd f1)) -> same_ctrs q2 (snd (snd f2)) ->
                   RelR RelV (eval n (tctrs q1 (fst (snd f1)))) (eval n (tctrs q2 (fst (snd f2)))))
        fs1 fs2 ->
      RelV (VRec fs1) (VRec fs2)
  | RV_fun f1 f2 : fn_sim f1 f2 -> RelV (VFun f1) (VFun f2).

  Definition RelC := RelR RelV.
  Definition RelT (t1 t2 : thunk) : Prop := forall n, RelC (eval n t1) (eval n t2).

  (** ** Generic facts *)

  Lemma err_sim_refl : forall e, err_sim e e.
  Proof. now left. Qed.

  Lemma relR_bind : forall A B (RA : A -> A -> Prop) (RB : B -> B -> Prop) r1 r2 k1 k2,
    RelR RA r1 r2 ->
    (forall a1 a2, RA a1 a2 -> RelR RB (k1 a1) (k2 a2)) ->
    RelR RB (bind r1 k1) (bind r2 k2).
  Proof.
    intros A B RA RB r1 r2 k1 k2 H K. destruct H; cbn.
    - constructor. now apply Hole_bind.
    - now constructor.
    - now apply K.
  Qed.

  Lemma relR_err : forall A (RA : A -> A -> Prop) e, RelR RA (Err e) (Err e).
  Proof. intros. constructor. apply err_sim_refl. Qed.

  Lemma same_ctrs_nil : forall q, same_ctrs q [] -> q = [].
  Proof. intros [|x q] H; [reflexivity | discriminate]. Qed.

  Lemma same_ctrs_refl : forall p, same_ctrs p p.
  Proof. reflexivity. Qed.

  Lemma same_ctrs_snoc_inv : forall q p c,
    same_ctrs q (p ++ [c]) -> exists q' b, q = q' ++ [(b, snd c)] /\ same_ctrs q' p.
  Proof.
    intros q p c H. unfold same_ctrs in *. rewrite map_app in H. cbn in H.
    destruct (exists_last (l := q)) as [q' [[b c'] ->]].
    { intros ->. destruct p; discriminate. }
    rewrite map_app in H. cbn in H. apply app_inj_tail in H as [H1 H2].
    exists q', b. cbn in H2. subst. auto.
  Qed.

  Lemma eval_TVal : forall n r, eval n (TVal r) = r.
  Proof. destruct n; reflexivity. Qed.

  Lemma eval_TCtr : forall n b c t, eval n (TCtr (b, c) t) = apply_ctr b c (eval n t).
  Proof. destruct n; reflexivity. Qed.

  Lemma eval_TObs : forall n o t,
    eval n (TObs o t) = match n with 0 => Err EFuel | S m => obs_sem (eval m) (force m) o t end.
  Proof. destruct n; reflexivity. Qed.

  Lemma eval_TApp2 : forall n f a b,
    eval n (TApp2 f a b) = match n with 0 => Err EFuel | S m => fun2_sem f (eval m a) (eval m b) end.
  Proof. destruct n; reflexivity. Qed.

  Lemma eval_TEq : forall n a b,
    eval n (TEq a b) = match n with 0 => Err EFuel | S m => eq_sem (eval m) a b end.
  Proof. destruct n; reflexivity. Qed.

  Lemma eval_TRecLit : forall n fs,
    eval n (TRecLit fs) = Ok (VRec (map (fun '(k, x) => (k, (x, []))) fs)).
  Proof. destruct n; reflexivity. Qed.

  Lemma force_S : forall m t, force (S m) t = bind (eval m t) (force_whnf (force m)).
  Proof. reflexivity. Qed.

  (** Keys of related records. *)
  Lemma rel_keys : forall (R : field -> field -> Prop) fs1 fs2,
    Forall2 (fun f1 f2 => fst f1 = fst f2 /\ R f1 f2) fs1 fs2 -> map fst fs1 = map fst fs2.
  Proof. induction 1 as [|f1 f2 l1 l2 [E _] _ IH]; cbn; congruence. Qed.

  Lemma has_key_keys : forall {A B} k (l1 : list (string * A)) (l2 : list (string * B)),
    map fst l1 = map fst l2 -> has_key k l1 = has_key k l2.
  Proof.
    unfold has_key. induction l1 as [|[k1 a] l1 IH]; intros [|[k2 b] l2] H; try discriminate; auto.
    cbn in *. injection H as -> H. destruct (String.eqb k k2); auto.
  Qed.

  (** ** Contract application respects the relation, whatever the labels *)

  Definition FR (d1 d2 : thunk * list pc) : Prop :=
    forall q1 q2 n, same_ctrs q1 (snd d1) -> same_ctrs q2 (snd d2) ->
      RelC (eval n (tctrs q1 (fst d1))) (eval n (tctrs q2 (fst d2))).
  Definition FldR (f1 f2 : field) : Prop := fst f1 = fst f2 /\ FR (snd f1) (snd f2).

  Definition ArrR (es1 : list thunk) (p1 : list pc) (es2 : list thunk) (p2 : list pc) : Prop :=
    forall q1 q2 n, same_ctrs q1 p1 -> same_ctrs q2 p2 ->
      Forall2 (fun t1 t2 => RelC (eval n t1) (eval n t2)) (arr_elems es1 q1) (arr_elems es2 q2).

  Lemma RV_rec' : forall fs1 fs2, Forall2 FldR fs1 fs2 -> RelV (VRec fs1) (VRec fs2).
  Proof. intros. constructor. exact H. Qed.

  Lemma RV_arr' : forall es1 p1 es2 p2, ArrR es1 p1 es2 p2 -> RelV (VArr es1 p1) (VArr es2 p2).
  Proof. intros. constructor. exact H. Qed.

  Lemma RelV_arr_inv : forall es1 p1 v2, RelV (VArr es1 p1) v2 ->
    exists es2 p2, v2 = VArr es2 p2 /\ ArrR es1 p1 es2 p2.
  Proof. intros. inversion H; subst. eexists _, _. split; eauto. Qed.

  Lemma RelV_rec_inv : forall fs1 v2, RelV (VRec fs1) v2 ->
    exists fs2, v2 = VRec fs2 /\ Forall2 FldR fs1 fs2.
  Proof. intros. inversion H; subst. eexists. split; eauto. Qed.

  Lemma blame_sim : forall b1 b2, err_sim (blame b1) (blame b2).
  Proof. intros [] []; cbn; unfold err_sim; cbn; auto. Qed.

  Lemma Forall2_map2 : forall {A B C D} (R : A -> B -> Prop) (R' : C -> D -> Prop) f g l1 l2,
    Forall2 R l1 l2 -> (forall x y, R x y -> R' (f x) (g y)) -> Forall2 R' (map f l1) (map g l2).
  Proof. induction 1; cbn; constructor; auto. Qed.

  Lemma arr_elems_snoc : forall es q c, arr_elems es (q ++ [c]) = map (TCtr c) (arr_elems es q).
  Proof.
    intros. unfold arr_elems. rewrite map_map. apply map_ext. intros. apply tctrs_snoc.
  Qed.

  Lemma FldR_keys : forall fs1 fs2, Forall2 FldR fs1 fs2 -> map fst fs1 = map fst fs2.
  Proof. induction 1 as [|f1 f2 l1 l2 [E _] _ IH]; cbn; congruence. Qed.

  Lemma FldR_lookup : forall fs1 fs2 k, Forall2 FldR fs1 fs2 ->
    match lookup k fs1, lookup k fs2 with
    | Some d1, Some d2 => FR d1 d2
    | None, None => True
    | _, _ => False
    end.
  Proof.
    induction 1 as [|[k1 d1] [k2 d2] l1 l2 [E F] _ IH]; cbn; auto.
    cbn in E. subst. destruct (String.eqb k k2); auto.
  Qed.

  Lemma FldR_filter : forall (P : string -> bool) fs1 fs2, Forall2 FldR fs1 fs2 ->
    Forall2 FldR (filter (fun fl => P (fst fl)) fs1) (filter (fun fl => P (fst fl)) fs2).
  Proof.
    induction 1 as [|f1 f2 l1 l2 [E F] _ IH]; cbn; auto.
    rewrite E. destruct (P (fst f2)); auto. constructor; auto. split; auto.
  Qed.

  Lemma Forall2_length' : forall {A B} (R : A -> B -> Prop) l1 l2, Forall2 R l1 l2 -> List.length l1 = List.length l2.
  Proof. induction 1; cbn; auto. Qed.

  Lemma apply_ctr_rel : forall c b1 b2 r1 r2,
    RelC r1 r2 -> RelC (apply_ctr b1 c r1) (apply_ctr b2 c r2).
  Proof.
    induction c; intros b1 b2 r1 r2 H; unfold apply_ctr; eapply relR_bind; eauto;
      intros v1 v2 HV.
    - (* CDyn *) now constructor.
    - (* CNum *) inversion HV; subst; try (constructor; apply blame_sim). constructor. constructor.
    - (* CStr *) inversion HV; subst; try (constructor; apply blame_sim). constructor. constructor.
    - (* CArr *)
      inversion HV; subst; try (constructor; apply blame_sim).
      constructor. apply RV_arr'. intros q1 q2 n S1 S2. unfold prim_array_lazy_app in *.
      apply same_ctrs_snoc_inv in S1 as [q1' [b1' [-> S1]]].
      apply same_ctrs_snoc_inv in S2 as [q2' [b2' [-> S2]]]. cbn [snd].
      rewrite !arr_elems_snoc.
      eapply Forall2_map2; [apply (H0 q1' q2' n S1 S2)|].
      intros x y Hxy. cbn beta. rewrite !eval_TCtr. now apply IHc.
    - (* CDictT *)
      inversion HV; subst; try (constructor; apply blame_sim).
      constructor. apply RV_rec'. unfold prim_record_map.
      eapply Forall2_map2; [exact H0|]. intros f1 f2 [E F]. split; [exact E|].
      intros q1 q2 n S1 S2. cbn [fst snd] in *. apply same_ctrs_nil in S1, S2. subst. cbn [tctrs fold_left].
      rewrite !eval_TCtr. apply IHc. apply F; apply same_ctrs_refl.
    - (* CDictC *)
      inversion HV; subst; try (constructor; apply blame_sim).
      constructor. apply RV_rec'. unfold prim_record_lazy_app.
      eapply Forall2_map2; [exact H0|]. intros f1 f2 [E F]. split; [exact E|].
      intros q1 q2 n S1 S2. cbn [fst snd] in *.
      apply same_ctrs_snoc_inv in S1 as [q1' [b1' [-> S1]]].
      apply same_ctrs_snoc_inv in S2 as [q2' [b2' [-> S2]]]. cbn [snd].
      rewrite !tctrs_snoc, !eval_TCtr. apply IHc. now apply F.
    - (* CRecT *)
      inversion HV; subst; try (constructor; apply blame_sim).
      pose proof (FldR_keys _ _ H0) as K.
      assert (forallb (fun n => has_key n fs1) names = forallb (fun n => has_key n fs2) names) as E1.
      { apply forallb_ext. intros. now apply has_key_keys. }
      assert (forallb (fun fl : field => mem_str (fst fl) names) fs1
              = forallb (fun fl : field => mem_str (fst fl) names) fs2) as E2.
      { clear -K. revert fs2 K. induction fs1 as [|f1 l1 IH]; intros [|f2 l2] K; try discriminate; auto.
        cbn in *. injection K as -> K. f_equal. auto. }
      rewrite E1, E2.
      destruct (negb (forallb (fun n => has_key n fs2) names)); [constructor; apply blame_sim|].
      destruct (negb (forallb (fun fl : field => mem_str (fst fl) names) fs2)); [constructor; apply blame_sim|].
      constructor. apply RV_rec'. clear E1 E2.
      induction names as [|nm names IHn]; cbn; [constructor|].
      pose proof (FldR_lookup _ _ nm H0) as L.
      destruct (lookup nm fs1) as [[x1 p1]|], (lookup nm fs2) as [[x2 p2]|]; try contradiction; cbn; auto.
      constructor; auto. split; [reflexivity|].
      intros q1 q2 n S1 S2. cbn [fst snd] in *. apply same_ctrs_nil in S1, S2. subst. cbn [tctrs fold_left].
      rewrite !eval_TCtr. apply IHc. apply (L p1 p2 n); apply same_ctrs_refl.
    - (* CRecC *)
      inversion HV; subst; try (constructor; apply blame_sim).
      pose proof (FldR_keys _ _ H0) as K.
      pose proof (FldR_filter (fun k => negb (mem_str k names)) _ _ H0) as FL.
      pose proof (FldR_filter (fun k => mem_str k names) _ _ H0) as FC.
      assert (forallb (fun n => has_key n fs1) names = forallb (fun n => has_key n fs2) names) as E1.
      { apply forallb_ext. intros. now apply has_key_keys. }
      rewrite E1.
      assert ((match filter (fun fl : field => negb (mem_str (fst fl) names)) fs1 with [] => true | _ => false end)
              = (match filter (fun fl : field => negb (mem_str (fst fl) names)) fs2 with [] => true | _ => false end)) as E2.
      { inversion FL; reflexivity. }
      rewrite E2.
      destruct (negb open && negb _); [constructor; apply blame_sim|].
      destruct (negb (forallb (fun n => has_key n fs2) names)); [apply relR_err|].
      constructor. apply RV_rec'. apply Forall2_app; [exact FL|].
      eapply Forall2_map2; [exact FC|]. intros f1 f2 [E F]. split; [exact E|].
      intros q1 q2 n S1 S2. cbn [fst snd] in *.
      apply same_ctrs_snoc_inv in S1 as [q1' [b1' [-> S1]]].
      apply same_ctrs_snoc_inv in S2 as [q2' [b2' [-> S2]]]. cbn [snd].
      rewrite !tctrs_snoc, !eval_TCtr. apply IHc. now apply F.
    - (* CFun *)
      inversion HV; subst; try (constructor; apply blame_sim).
      constructor. constructor. now constructor.
  Qed.
End Rel.
