(* C08 - the logical relation behind observe_blames_iff_reached and laziness.

   Two runs of the same observer pipeline are related when they differ only
     (a) at a marked component: the left run has the observation marker there ([Err EProbe]), the
         right run has anything allowed by [Hole] (anything at all / a blame), and
     (b) in how the obligations are stored: pending on the container or already applied inside
         closures, with any labels (the relation only looks at the delivered view, under every
         relabelling of the pending contracts).
   Every supported observer maps related arguments to related results ([obs_cong]); at the top the
   exported trees are equal unless the left run returns the marker.  The relation is step indexed
   through [eval]'s fuel (the two runs use the same fuel). *)
From Coq Require Import List ZArith String Bool Arith Lia.
Import ListNotations.
From NV Require Import Delayed.Model Delayed.Spec Delayed.Tracked.
Open Scope list_scope.

Definition is_blame (e : err) : bool :=
  match e with EBlame | EBlameNeg => true | _ => false end.

(** Errors are compared up to the polarity of a blame. *)
Definition err_sim (e1 e2 : err) : Prop := e1 = e2 \/ (is_blame e1 = true /\ is_blame e2 = true).

Definition same_ctrs (p q : list pc) : Prop := map snd p = map snd q.

Inductive fn_scalar : obs -> Prop :=
| FS_id : fn_scalar OId
| FS_const z : fn_scalar (OConst z)
| FS_constb b : fn_scalar (OConstB b)
| FS_consts s : fn_scalar (OConstS s)
| FS_addk k : fn_scalar (OAddK k)
| FS_gtk k : fn_scalar (OGtK k)
| FS_eqk k : fn_scalar (OEqK k).

Inductive fn_sim : fn -> fn -> Prop :=
| FS_base o : fn_scalar o -> fn_sim (FBase o) (FBase o)
| FS_wrap b1 b2 d c f1 f2 : fn_sim f1 f2 -> fn_sim (FWrap b1 d c f1) (FWrap b2 d c f2).

(** Literal operands do not contain the specification's marker. *)
Definition lit_ok (l : lit) : Prop :=
  match l with
  | LArr xs _ => ~ In AProbe xs
  | LRec fs _ => ~ In AProbe (map snd fs)
  end.

(** The observers covered by the theorems: everything but record merge (a merged field is
    [(x & y) | contracts]: the merge looks at x before the check, see the report) and the
    deliberately broken primitives. *)
Inductive supported : obs -> Prop :=
| S_id : supported OId
| S_const z : supported (OConst z)
| S_constb b : supported (OConstB b)
| S_consts s : supported (OConstS s)
| S_addk k : supported (OAddK k)
| S_gtk k : supported (OGtK k)
| S_eqk k : supported (OEqK k)
| S_comp o1 o2 : supported o1 -> supported o2 -> supported (OComp o1 o2)
| S_atp i : supported (OAtP i)
| S_at i : supported (OAt i)
| S_first : supported OFirst
| S_last : supported OLast
| S_length : supported OLength
| S_map f : supported f -> supported (OMap f)
| S_concatr l : lit_ok l -> supported (OConcatR l)
| S_concatl l : lit_ok l -> supported (OConcatL l)
| S_slice s e : supported (OSlice s e)
| S_slicep s e : supported (OSliceP s e)
| S_foldl f i : supported (OFoldL f i)
| S_foldr f i : supported (OFoldR f i)
| S_filter p : supported p -> supported (OFilter p)
| S_any p : supported p -> supported (OAny p)
| S_all p : supported p -> supported (OAll p)
| S_elem z : supported (OElem z)
| S_reverse : supported OReverse
| S_flatten : supported OFlatten
| S_sort : supported OSort
| S_seq : supported OSeq
| S_deepseq : supported ODeepSeq
| S_serde : supported OSerde
| S_eqr l : lit_ok l -> supported (OEqR l)
| S_eql l : lit_ok l -> supported (OEqL l)
| S_ctr c : supported (OCtr c)
| S_eq2 o1 o2 : supported o1 -> supported o2 -> supported (OEq2 o1 o2)
| S_concat2 o1 o2 : supported o1 -> supported o2 -> supported (OConcat2 o1 o2)
| S_elemof o1 : supported o1 -> supported (OElemOf o1)
| S_access k : supported (OAccess k)
| S_get k : supported (OGet k)
| S_fields : supported OFields
| S_values : supported OValues
| S_recmap f : supported (ORecMap f)
| S_mapvalues f : supported f -> supported (OMapValues f)
| S_freeze : supported OFreeze
| S_insert k z : supported (OInsert k z)
| S_remove k : supported (ORemove k)
| S_hasfield k : supported (OHasField k)
| S_toarray : supported OToArray
| S_fromarray : supported OFromArray
| S_pathead : supported OPatHead
| S_pattail : supported OPatTail
| S_patfield k : supported (OPatField k)
| S_patrest k : supported (OPatRest k)
| S_recfilter q : supported (ORecFilter q)
| S_call a : a <> AProbe -> supported (OCall a).

(** Thunks without a reference to the enclosing record (outside literal values). The relation is
    about such thunks; the recursive environment is treated in RecEnv.v. *)
Fixpoint sf (t : thunk) : bool :=
  match t with
  | TVal _ => true
  | TCtr _ t' => sf t'
  | TObs _ t' => sf t'
  | TApp2 _ a b => sf a && sf b
  | TMerge a b => sf a && sf b
  | TEq a b => sf a && sf b
  | TRecLit fs => (fix go (fs : list (string * thunk)) : bool :=
                     match fs with [] => true | (_, x) :: fs' => sf x && go fs' end) fs
  | TSelf => false
  end.

Lemma subst_sf : forall v t, sf t = true -> subst_self v t = t.
Proof.
  intros v. fix IH 1. intros [r|c t|o t|f a b|a b|a b|fs|] H; cbn in *; try discriminate; auto.
  - now rewrite IH.
  - now rewrite IH.
  - apply andb_prop in H as [H1 H2]. now rewrite !IH.
  - apply andb_prop in H as [H1 H2]. now rewrite !IH.
  - apply andb_prop in H as [H1 H2]. now rewrite !IH.
  - f_equal. revert fs H. fix IHfs 1. intros [|[k x] fs] H; cbn in *; auto.
    apply andb_prop in H as [H1 H2]. rewrite IH by exact H1. f_equal. now apply IHfs.
Qed.

Lemma sf_tctrs : forall p t, sf (tctrs p t) = sf t.
Proof. induction p as [|c p IH]; intros t; cbn; auto. unfold tctrs in *. cbn. now rewrite IH. Qed.

Definition rsf (fs : list field) : bool := forallb (fun fl => sf (fst (snd fl))) fs.

Lemma close_sf : forall fs, rsf fs = true -> close_rec fs = fs.
Proof.
  intros fs H. unfold close_rec.
  assert (forall l v, rsf l = true -> map (fun fl : field => (fst fl, (subst_self v (fst (snd fl)), snd (snd fl)))) l = l) as G.
  { induction l as [|[k [x p]] l IH]; intros v Hl; cbn in *; auto.
    apply andb_prop in Hl as [H1 H2]. rewrite subst_sf by exact H1. f_equal. now apply IH. }
  now apply G.
Qed.

Lemma sf_atom : forall a, sf (thunk_of_atom a) = true.
Proof. intros []; reflexivity. Qed.

Lemma sf_tree : forall t, sf (thunk_of_tree t) = true.
Proof. intros [a|xs|fs]; cbn; auto. apply sf_atom. Qed.

Ltac sfx := cbn [fst snd] in *; unfold fld_thunk in *; cbn [fst snd] in *; rewrite ?sf_tctrs in *; cbn [sf andb]; rewrite ?sf_tctrs, ?sf_atom, ?sf_tree; auto.

Section Rel.
  Variable Hole : forall A : Type, res A -> Prop.
  Hypothesis Hole_bind : forall A B (r : res A) (k : A -> res B), Hole A r -> Hole B (bind r k).
  Hypothesis Hole_serde : forall r : res tree, Hole tree r ->
    Hole lval (match r with
               | Ok tr => Ok (tree_to_lval tr)
               | Err ENotExportable => Err ESerialize
               | Err e => Err e
               end).

  Inductive RelR {A : Type} (RA : A -> A -> Prop) : res A -> res A -> Prop :=
  | RR_hole r2 : Hole A r2 -> RelR RA (Err EProbe) r2
  | RR_err e1 e2 : e1 <> EProbe -> err_sim e1 e2 -> RelR RA (Err e1) (Err e2)
  | RR_ok a1 a2 : RA a1 a2 -> RelR RA (Ok a1) (Ok a2).

  Inductive RelV : lval -> lval -> Prop :=
  | RV_num z : RelV (VNum z) (VNum z)
  | RV_str s : RelV (VStr s) (VStr s)
  | RV_bool b : RelV (VBool b) (VBool b)
  | RV_arr es1 p1 es2 p2 :
      (forall q1 q2 n, same_ctrs q1 p1 -> same_ctrs q2 p2 ->
         Forall2 (fun t1 t2 => RelR RelV (eval n t1) (eval n t2))
           (arr_elems es1 q1) (arr_elems es2 q2)) ->
      RelV (VArr es1 p1) (VArr es2 p2)
  | RV_rec fs1 fs2 :
      Forall2 (fun f1 f2 : field =>
                 fst f1 = fst f2 /\
                 (sf (fst (snd f1)) = true /\ sf (fst (snd f2)) = true /\
                  forall q1 q2 n, same_ctrs q1 (snd (snd f1)) -> same_ctrs q2 (snd (snd f2)) ->
                    RelR RelV (eval n (tctrs q1 (fst (snd f1)))) (eval n (tctrs q2 (fst (snd f2))))))
        fs1 fs2 ->
      RelV (VRec fs1) (VRec fs2)
  | RV_fun f1 f2 : fn_sim f1 f2 -> RelV (VFun f1) (VFun f2).

  Definition RelC := RelR RelV.
  Definition RelT (t1 t2 : thunk) : Prop := forall n, RelC (eval n t1) (eval n t2).

  (** ** Generic facts *)

  Lemma err_sim_refl : forall e, err_sim e e.
  Proof. now left. Qed.

  Lemma relR_bind : forall A B (RA : A -> A -> Prop) (RB : B -> B -> Prop) r1 r2 k1 k2,
    RelR RA r1 r2 ->
    (forall a1 a2, RA a1 a2 -> RelR RB (k1 a1) (k2 a2)) ->
    RelR RB (bind r1 k1) (bind r2 k2).
  Proof.
    intros A B RA RB r1 r2 k1 k2 H K. destruct H; cbn.
    - constructor. now apply Hole_bind.
    - constructor; assumption.
    - now apply K.
  Qed.

  Lemma relR_err : forall A (RA : A -> A -> Prop) e, e <> EProbe -> RelR RA (Err e) (Err e).
  Proof. intros. constructor; [assumption | apply err_sim_refl]. Qed.

  Lemma same_ctrs_nil : forall q, same_ctrs q [] -> q = [].
  Proof. intros [|x q] H; [reflexivity | discriminate]. Qed.

  Lemma same_ctrs_refl : forall p, same_ctrs p p.
  Proof. reflexivity. Qed.

  Lemma same_ctrs_snoc_inv : forall q p c,
    same_ctrs q (p ++ [c]) -> exists q' b, q = q' ++ [(b, snd c)] /\ same_ctrs q' p.
  Proof.
    intros q p c H. unfold same_ctrs in *. rewrite map_app in H. cbn in H.
    destruct (exists_last (l := q)) as [q' [[b c'] ->]].
    { intros ->. destruct p; discriminate. }
    rewrite map_app in H. cbn in H. apply app_inj_tail in H as [H1 H2].
    exists q', b. cbn in H2. subst. auto.
  Qed.

  Lemma eval_TVal : forall n r, eval n (TVal r) = r.
  Proof. destruct n; reflexivity. Qed.

  Lemma eval_TCtr : forall n b c t, eval n (TCtr (b, c) t) = apply_ctr b c (eval n t).
  Proof. destruct n; reflexivity. Qed.

  Lemma eval_TObs : forall n o t,
    eval n (TObs o t) = match n with 0 => Err EFuel | S m => obs_sem (eval m) (force m) o t end.
  Proof. destruct n; reflexivity. Qed.

  Lemma eval_TApp2 : forall n f a b,
    eval n (TApp2 f a b) = match n with 0 => Err EFuel | S m => fun2_sem f (eval m a) (eval m b) end.
  Proof. destruct n; reflexivity. Qed.

  Lemma eval_TEq : forall n a b,
    eval n (TEq a b) = match n with 0 => Err EFuel | S m => eq_sem (eval m) a b end.
  Proof. destruct n; reflexivity. Qed.

  Lemma eval_TRecLit : forall n fs,
    eval n (TRecLit fs) = Ok (VRec (map (fun '(k, x) => (k, (x, []))) fs)).
  Proof. destruct n; reflexivity. Qed.

  Lemma force_S : forall m t, force (S m) t = bind (eval m t) (force_whnf (force m)).
  Proof. reflexivity. Qed.

  (** Keys of related records. *)
  Lemma rel_keys : forall (R : field -> field -> Prop) fs1 fs2,
    Forall2 (fun f1 f2 => fst f1 = fst f2 /\ R f1 f2) fs1 fs2 -> map fst fs1 = map fst fs2.
  Proof. induction 1 as [|f1 f2 l1 l2 [E _] _ IH]; cbn; congruence. Qed.

  Lemma has_key_keys : forall {A B} k (l1 : list (string * A)) (l2 : list (string * B)),
    map fst l1 = map fst l2 -> has_key k l1 = has_key k l2.
  Proof.
    unfold has_key. induction l1 as [|[k1 a] l1 IH]; intros [|[k2 b] l2] H; try discriminate; auto.
    cbn in *. injection H as -> H. destruct (String.eqb k k2); auto.
  Qed.

  (** ** Contract application respects the relation, whatever the labels *)

  Definition FR (d1 d2 : thunk * list pc) : Prop :=
    sf (fst d1) = true /\ sf (fst d2) = true /\
    forall q1 q2 n, same_ctrs q1 (snd d1) -> same_ctrs q2 (snd d2) ->
      RelC (eval n (tctrs q1 (fst d1))) (eval n (tctrs q2 (fst d2))).
  Definition FldR (f1 f2 : field) : Prop := fst f1 = fst f2 /\ FR (snd f1) (snd f2).

  Definition ArrR (es1 : list thunk) (p1 : list pc) (es2 : list thunk) (p2 : list pc) : Prop :=
    forall q1 q2 n, same_ctrs q1 p1 -> same_ctrs q2 p2 ->
      Forall2 (fun t1 t2 => RelC (eval n t1) (eval n t2)) (arr_elems es1 q1) (arr_elems es2 q2).

  Lemma RV_rec' : forall fs1 fs2, Forall2 FldR fs1 fs2 -> RelV (VRec fs1) (VRec fs2).
  Proof. intros. constructor. exact H. Qed.

  Lemma RV_arr' : forall es1 p1 es2 p2, ArrR es1 p1 es2 p2 -> RelV (VArr es1 p1) (VArr es2 p2).
  Proof. intros. constructor. exact H. Qed.

  Lemma RelV_arr_inv : forall es1 p1 v2, RelV (VArr es1 p1) v2 ->
    exists es2 p2, v2 = VArr es2 p2 /\ ArrR es1 p1 es2 p2.
  Proof. intros. inversion H; subst. eexists _, _. split; eauto. Qed.

  Lemma RelV_rec_inv : forall fs1 v2, RelV (VRec fs1) v2 ->
    exists fs2, v2 = VRec fs2 /\ Forall2 FldR fs1 fs2.
  Proof. intros. inversion H; subst. eexists. split; eauto. Qed.

  Lemma blame_sim : forall b1 b2, err_sim (blame b1) (blame b2).
  Proof. intros [] []; cbn; unfold err_sim; cbn; auto. Qed.

  Lemma relR_blame : forall A (RA : A -> A -> Prop) b1 b2, RelR RA (Err (blame b1)) (Err (blame b2)).
  Proof. intros. constructor; [destruct b1; discriminate | apply blame_sim]. Qed.

  Lemma Forall2_map2 : forall {A B C D} (R : A -> B -> Prop) (R' : C -> D -> Prop) f g l1 l2,
    Forall2 R l1 l2 -> (forall x y, R x y -> R' (f x) (g y)) -> Forall2 R' (map f l1) (map g l2).
  Proof. induction 1; cbn; constructor; auto. Qed.

  Lemma arr_elems_snoc : forall es q c, arr_elems es (q ++ [c]) = map (TCtr c) (arr_elems es q).
  Proof.
    intros. unfold arr_elems. rewrite map_map. apply map_ext. intros. apply tctrs_snoc.
  Qed.

  Lemma FldR_rsf : forall fs1 fs2, Forall2 FldR fs1 fs2 -> rsf fs1 = true /\ rsf fs2 = true.
  Proof.
    induction 1 as [|f1 f2 l1 l2 [E [S1 [S2 F]]] _ [IH1 IH2]]; cbn; auto.
    unfold rsf in *. rewrite S1, S2, IH1, IH2. auto.
  Qed.

  Lemma FldR_close : forall fs1 fs2, Forall2 FldR fs1 fs2 -> close_rec fs1 = fs1 /\ close_rec fs2 = fs2.
  Proof. intros fs1 fs2 H. destruct (FldR_rsf _ _ H). split; now apply close_sf. Qed.

  Lemma FldR_keys : forall fs1 fs2, Forall2 FldR fs1 fs2 -> map fst fs1 = map fst fs2.
  Proof. induction 1 as [|f1 f2 l1 l2 [E _] _ IH]; cbn; congruence. Qed.

  Lemma FldR_lookup : forall fs1 fs2 k, Forall2 FldR fs1 fs2 ->
    match lookup k fs1, lookup k fs2 with
    | Some d1, Some d2 => FR d1 d2
    | None, None => True
    | _, _ => False
    end.
  Proof.
    induction 1 as [|[k1 d1] [k2 d2] l1 l2 [E F] _ IH]; cbn; auto.
    cbn in E. subst. destruct (String.eqb k k2); auto.
  Qed.

  Lemma FldR_filter : forall (P : string -> bool) fs1 fs2, Forall2 FldR fs1 fs2 ->
    Forall2 FldR (filter (fun fl => P (fst fl)) fs1) (filter (fun fl => P (fst fl)) fs2).
  Proof.
    induction 1 as [|f1 f2 l1 l2 [E F] _ IH]; cbn; auto.
    rewrite E. destruct (P (fst f2)); auto. constructor; auto. split; auto.
  Qed.

  Lemma Forall2_length' : forall {A B} (R : A -> B -> Prop) l1 l2, Forall2 R l1 l2 -> List.length l1 = List.length l2.
  Proof. induction 1; cbn; auto. Qed.

  Lemma forallb_ext : forall {A} (f g : A -> bool) l, (forall x, f x = g x) -> forallb f l = forallb g l.
  Proof. induction l; cbn; intros; auto. rewrite H, IHl; auto. Qed.

  Lemma apply_ctr_rel : forall c b1 b2 r1 r2,
    RelC r1 r2 -> RelC (apply_ctr b1 c r1) (apply_ctr b2 c r2).
  Proof.
    induction c; intros b1 b2 r1 r2 H; unfold apply_ctr; eapply relR_bind; eauto;
      intros v1 v2 HV.
    - (* CDyn *) now constructor.
    - (* CNum *) inversion HV; subst; try (apply relR_blame). constructor. constructor.
    - (* CStr *) inversion HV; subst; try (apply relR_blame). constructor. constructor.
    - (* CGt *) inversion HV; subst; try (apply relR_blame).
      destruct (Z.ltb k z); [constructor; constructor | apply relR_blame].
    - (* CArr *)
      inversion HV; subst; try (apply relR_blame).
      constructor. apply RV_arr'. intros q1 q2 n S1 S2. unfold prim_array_lazy_app in *.
      apply same_ctrs_snoc_inv in S1 as [q1' [b1' [-> S1]]].
      apply same_ctrs_snoc_inv in S2 as [q2' [b2' [-> S2]]]. cbn [snd].
      rewrite !arr_elems_snoc.
      eapply Forall2_map2; [apply (H0 q1' q2' n S1 S2)|].
      intros x y Hxy. cbn beta. rewrite !eval_TCtr. now apply IHc.
    - (* CDictT *)
      inversion HV; subst; try (apply relR_blame).
      destruct (FldR_close _ _ H0) as [C1 C2]. rewrite C1, C2.
      constructor. apply RV_rec'. unfold prim_record_map.
      eapply Forall2_map2; [exact H0|]. intros f1 f2 [E F]. destruct F as [SF1 [SF2 F]]. split; [exact E|]. split; [sfx|]. split; [sfx|].
      intros q1 q2 n S1 S2. cbn [fst snd] in *. apply same_ctrs_nil in S1, S2. subst. cbn [tctrs fold_left].
      rewrite !eval_TCtr. apply IHc. apply F; apply same_ctrs_refl.
    - (* CDictC *)
      inversion HV; subst; try (apply relR_blame).
      constructor. apply RV_rec'. unfold prim_record_lazy_app.
      eapply Forall2_map2; [exact H0|]. intros f1 f2 [E F]. destruct F as [SF1 [SF2 F]]. split; [exact E|]. split; [sfx|]. split; [sfx|].
      intros q1 q2 n S1 S2. cbn [fst snd] in *.
      apply same_ctrs_snoc_inv in S1 as [q1' [b1' [-> S1]]].
      apply same_ctrs_snoc_inv in S2 as [q2' [b2' [-> S2]]]. cbn [snd].
      rewrite !tctrs_snoc, !eval_TCtr. apply IHc. now apply F.
    - (* CRecT *)
      inversion HV; subst; try (apply relR_blame). cbv zeta.
      destruct (FldR_close _ _ H0) as [C1 C2]. rewrite C1, C2.
      pose proof (FldR_keys _ _ H0) as K.
      assert (forallb (fun n => has_key n fs1) names = forallb (fun n => has_key n fs2) names) as E1.
      { apply forallb_ext. intros. now apply has_key_keys. }
      rewrite E1.
      match goal with |- context [forallb ?f fs1] => assert (forallb f fs1 = forallb f fs2) as E2 end.
      { clear -K. revert fs2 K. induction fs1 as [|f1 l1 IH]; intros [|f2 l2] K; try discriminate; auto.
        cbn in *. injection K as -> K. f_equal. auto. }
      rewrite E2.
      destruct (negb (forallb (fun n => has_key n fs2) names)); [apply relR_blame|].
      match goal with |- context [if ?b then _ else _] => destruct b; [apply relR_blame|] end.
      constructor. apply RV_rec'. clear E1 E2.
      induction names as [|nm names IHn]; cbn; [constructor|].
      pose proof (FldR_lookup _ _ nm H0) as L.
      destruct (lookup nm fs1) as [[x1 p1]|], (lookup nm fs2) as [[x2 p2]|]; try contradiction; cbn; auto.
      destruct L as [SL1 [SL2 L]].
      constructor; auto. split; [reflexivity|]. split; [sfx|]. split; [sfx|].
      intros q1 q2 n S1 S2. cbn [fst snd] in *. apply same_ctrs_nil in S1, S2. subst. cbn [tctrs fold_left].
      rewrite !eval_TCtr. apply IHc. apply (L p1 p2 n); apply same_ctrs_refl.
    - (* CRecC *)
      inversion HV; subst; try (apply relR_blame).
      pose proof (FldR_keys _ _ H0) as K.
      pose proof (FldR_filter (fun k => negb (mem_str k names)) _ _ H0) as FL.
      pose proof (FldR_filter (fun k => mem_str k names) _ _ H0) as FC.
      cbn beta in FL, FC.
      assert (forallb (fun n => has_key n fs1) names = forallb (fun n => has_key n fs2) names) as E1.
      { apply forallb_ext. intros. now apply has_key_keys. }
      rewrite E1. cbv zeta.
      assert (forall (l1 l2 : list field), Forall2 FldR l1 l2 ->
                (match l1 with [] => true | _ => false end) = (match l2 with [] => true | _ => false end)) as E2.
      { intros l1 l2 HF. inversion HF; reflexivity. }
      pose proof (E2 _ _ FL) as E3. unfold field in E3. rewrite E3. clear E3.
      match goal with |- context [if ?b then _ else _] => destruct b; [apply relR_blame|] end.
      destruct (negb (forallb (fun n => has_key n fs2) names)); [(apply relR_err; discriminate)|].
      constructor. apply RV_rec'. apply Forall2_app; [exact FL|].
      eapply Forall2_map2; [exact FC|]. intros f1 f2 [E F]. destruct F as [SF1 [SF2 F]]. split; [exact E|]. split; [sfx|]. split; [sfx|].
      intros q1 q2 n S1 S2. cbn [fst snd] in *.
      apply same_ctrs_snoc_inv in S1 as [q1' [b1' [-> S1]]].
      apply same_ctrs_snoc_inv in S2 as [q2' [b2' [-> S2]]]. cbn [snd].
      rewrite !tctrs_snoc, !eval_TCtr. apply IHc. now apply F.
    - (* CFun *)
      inversion HV; subst; try (apply relR_blame).
      constructor. constructor. now constructor.
  Qed.

  (** ** Thunk-level congruences *)

  Lemma relT_ctr : forall b1 b2 c t1 t2, RelT t1 t2 -> RelT (TCtr (b1, c) t1) (TCtr (b2, c) t2).
  Proof. intros b1 b2 c t1 t2 H n. rewrite !eval_TCtr. apply apply_ctr_rel, H. Qed.

  Lemma relT_ctrs : forall q1 q2, same_ctrs q1 q2 -> forall t1 t2, RelT t1 t2 -> RelT (tctrs q1 t1) (tctrs q2 t2).
  Proof.
    induction q1 as [|[b1 c1] q1 IH]; intros [|[b2 c2] q2] S t1 t2 H; try discriminate; auto.
    unfold same_ctrs in S. cbn in S. injection S as -> S.
    change (RelT (tctrs q1 (TCtr (b1, c2) t1)) (tctrs q2 (TCtr (b2, c2) t2))).
    apply IH; auto. now apply relT_ctr.
  Qed.

  Lemma relT_val : forall r1 r2, RelC r1 r2 -> RelT (TVal r1) (TVal r2).
  Proof. intros r1 r2 H n. now rewrite !eval_TVal. Qed.

  Lemma atom_rel : forall a, a <> AProbe -> RelT (thunk_of_atom a) (thunk_of_atom a).
  Proof.
    intros [] N; try congruence; cbn; apply relT_val; try (apply relR_err; discriminate); constructor; constructor.
  Qed.

  Lemma Forall2_forall : forall {A B} (R : nat -> A -> B -> Prop) l1 l2,
    (forall n, Forall2 (R n) l1 l2) -> Forall2 (fun x y => forall n, R n x y) l1 l2.
  Proof.
    induction l1 as [|x l1 IH]; intros l2 H.
    - specialize (H 0). inversion H. constructor.
    - destruct l2 as [|y l2]; [specialize (H 0); inversion H|].
      constructor.
      + intros n. specialize (H n). now inversion H.
      + apply IH. intros n. specialize (H n). now inversion H.
  Qed.

  Lemma Forall2_forall_inv : forall {A B} (R : nat -> A -> B -> Prop) l1 l2,
    Forall2 (fun x y => forall n, R n x y) l1 l2 -> forall n, Forall2 (R n) l1 l2.
  Proof. induction 1; intros; constructor; auto. Qed.

  Lemma ArrR_elems : forall es1 p1 es2 p2 q1 q2, ArrR es1 p1 es2 p2 ->
    same_ctrs q1 p1 -> same_ctrs q2 p2 -> Forall2 RelT (arr_elems es1 q1) (arr_elems es2 q2).
  Proof.
    intros. unfold RelT. apply (Forall2_forall (fun n t1 t2 => RelC (eval n t1) (eval n t2))).
    intros n. now apply H.
  Qed.

  Lemma ArrR_of_elems : forall l1 l2, Forall2 RelT l1 l2 -> ArrR l1 [] l2 [].
  Proof.
    intros l1 l2 H q1 q2 n S1 S2. apply same_ctrs_nil in S1, S2. subst.
    rewrite !arr_elems_nil_pend.
    now apply (Forall2_forall_inv (fun n t1 t2 => RelC (eval n t1) (eval n t2))).
  Qed.

  Lemma ArrR_length : forall es1 p1 es2 p2, ArrR es1 p1 es2 p2 -> List.length es1 = List.length es2.
  Proof.
    intros. pose proof (ArrR_elems _ _ _ _ p1 p2 H (same_ctrs_refl _) (same_ctrs_refl _)) as F.
    apply Forall2_length' in F. unfold arr_elems in F. now rewrite !map_length in F.
  Qed.

  Lemma lit_rel : forall l, lit_ok l -> RelT (thunk_of_lit l) (thunk_of_lit l).
  Proof.
    intros [xs c|fs c] OK; cbn in *.
    - assert (RelT (TVal (Ok (VArr (map thunk_of_atom xs) []))) (TVal (Ok (VArr (map thunk_of_atom xs) [])))) as H.
      { apply relT_val. constructor. apply RV_arr'. apply ArrR_of_elems.
        induction xs as [|x xs IH]; cbn; constructor.
        - apply atom_rel. intros ->. apply OK. now left.
        - apply IH. intros C. apply OK. now right. }
      destruct c; auto. now apply relT_ctr.
    - assert (RelT (TVal (Ok (VRec (map (fun '(k, a) => (k, (thunk_of_atom a, []))) fs))))
                (TVal (Ok (VRec (map (fun '(k, a) => (k, (thunk_of_atom a, []))) fs))))) as H.
      { apply relT_val. constructor. apply RV_rec'.
        induction fs as [|[k a] fs IH]; cbn in *; constructor.
        - split; [reflexivity|]. split; [sfx|]. split; [sfx|].
          intros q1 q2 n S1 S2. cbn [fst snd] in *. apply same_ctrs_nil in S1, S2. subst. apply atom_rel.
          intros ->. apply OK. now left.
        - apply IH. intros C. apply OK. now right. }
      destruct c; auto. now apply relT_ctr.
  Qed.

  (** ** Scalars *)

  Lemma as_num_rel : forall v1 v2, RelV v1 v2 -> RelR eq (as_num v1) (as_num v2).
  Proof. intros v1 v2 H. inversion H; subst; cbn; try (apply relR_err; discriminate). now constructor. Qed.

  Lemma as_bool_rel : forall v1 v2, RelV v1 v2 -> RelR eq (as_bool v1) (as_bool v2).
  Proof. intros v1 v2 H. inversion H; subst; cbn; try (apply relR_err; discriminate). now constructor. Qed.

  Definition ArrR' (x y : list thunk * list pc) : Prop := ArrR (fst x) (snd x) (fst y) (snd y).

  Lemma as_arr_rel : forall e, e <> EProbe -> forall v1 v2, RelV v1 v2 -> RelR ArrR' (as_arr e v1) (as_arr e v2).
  Proof. intros e N v1 v2 H. inversion H; subst; cbn; try (apply relR_err; assumption). constructor. exact H0. Qed.

  Lemma as_rec_rel : forall e, e <> EProbe -> forall v1 v2, RelV v1 v2 -> RelR (Forall2 FldR) (as_rec e v1) (as_rec e v2).
  Proof.
    intros e N v1 v2 H. inversion H; subst; cbn; try (apply relR_err; assumption). constructor.
    destruct (FldR_close fs1 fs2 H0) as [-> ->]. exact H0.
  Qed.

  Lemma fun2_rel : forall f a1 a2 b1 b2,
    RelC a1 a2 -> RelC b1 b2 -> RelC (fun2_sem f a1 b1) (fun2_sem f a2 b2).
  Proof.
    intros f a1 a2 b1 b2 HA HB. destruct f; cbn; auto.
    - eapply relR_bind; [exact HA|]. intros va1 va2 Hva.
      eapply relR_bind; [exact HB|]. intros vb1 vb2 Hvb.
      eapply relR_bind; [apply as_num_rel, Hva|]. intros x ? <-.
      eapply relR_bind; [apply as_num_rel, Hvb|]. intros y ? <-. constructor. constructor.
    - eapply relR_bind; [exact HA|]. intros va1 va2 Hva.
      eapply relR_bind; [apply as_num_rel, Hva|]. intros x ? <-. constructor. constructor.
    - eapply relR_bind; [exact HB|]. intros vb1 vb2 Hvb.
      eapply relR_bind; [apply as_num_rel, Hvb|]. intros y ? <-. constructor. constructor.
    - constructor. constructor.
  Qed.

  Lemma relT_app2 : forall f a1 a2 b1 b2, RelT a1 a2 -> RelT b1 b2 -> RelT (TApp2 f a1 b1) (TApp2 f a2 b2).
  Proof.
    intros f a1 a2 b1 b2 HA HB n. rewrite !eval_TApp2. destruct n; [(apply relR_err; discriminate)|].
    apply fun2_rel; auto.
  Qed.

  (** ** Force *)

  Lemma force_list_rel : forall fo l1 l2,
    Forall2 (fun t1 t2 => RelR eq (fo t1) (fo t2)) l1 l2 ->
    RelR eq (force_list fo l1) (force_list fo l2).
  Proof.
    induction 1 as [|t1 t2 l1 l2 H _ IH]; cbn; [now constructor|].
    eapply relR_bind; [exact IH|]. intros xs ? <-.
    eapply relR_bind; [exact H|]. intros x ? <-. now constructor.
  Qed.

  Lemma FldR_thunks : forall fs1 fs2, Forall2 FldR fs1 fs2 -> Forall2 RelT (map fld_thunk fs1) (map fld_thunk fs2).
  Proof.
    intros. eapply Forall2_map2; [exact H|]. intros f1 f2 [_ F] n. apply F; apply same_ctrs_refl.
  Qed.

  Lemma force_rel : forall n t1 t2, RelT t1 t2 -> RelR eq (force n t1) (force n t2).
  Proof.
    induction n as [|m IH]; intros t1 t2 H; [(apply relR_err; discriminate)|].
    rewrite !force_S. eapply relR_bind; [apply (H m)|]. intros v1 v2 HV.
    inversion HV; subst; cbn; try (now constructor); try (apply relR_err; discriminate).
    - eapply relR_bind with (RA := eq).
      + apply force_list_rel.
        pose proof (ArrR_elems _ _ _ _ p1 p2 H0 (same_ctrs_refl _) (same_ctrs_refl _)) as F.
        clear -F IH. induction F; constructor; auto.
      + intros xs ? <-. now constructor.
    - destruct (FldR_close _ _ H0) as [C1 C2]. rewrite C1, C2.
      eapply relR_bind with (RA := eq).
      + apply force_list_rel. pose proof (FldR_thunks _ _ H0) as F.
        clear -F IH. induction F; constructor; auto.
      + intros xs ? <-. rewrite (FldR_keys _ _ H0). now constructor.
  Qed.

  (** ** Equality *)

  Definition PairR (x y : thunk * thunk) : Prop := RelT (fst x) (fst y) /\ RelT (snd x) (snd y).

  Lemma eq_pairs_rel : forall ev,
    (forall a1 a2 b1 b2, RelT a1 a2 -> RelT b1 b2 -> RelC (ev (TEq a1 b1)) (ev (TEq a2 b2))) ->
    forall ps1 ps2, Forall2 PairR ps1 ps2 -> RelC (eq_pairs ev ps1) (eq_pairs ev ps2).
  Proof.
    intros ev HE. induction 1 as [|[x1 y1] [x2 y2] l1 l2 [Hx Hy] _ IH]; cbn.
    - constructor. constructor.
    - unfold ev_bool. eapply relR_bind with (RA := eq).
      + eapply relR_bind; [apply HE; eauto|]. intros. now apply as_bool_rel.
      + intros b ? <-. destruct b; auto. constructor. constructor.
  Qed.

  Lemma Forall2_combine : forall {A B} (R1 : A -> A -> Prop) (R2 : B -> B -> Prop) l1 l2 m1 m2,
    Forall2 R1 l1 l2 -> Forall2 R2 m1 m2 ->
    Forall2 (fun x y => R1 (fst x) (fst y) /\ R2 (snd x) (snd y)) (combine l1 m1) (combine l2 m2).
  Proof.
    intros A B R1 R2 l1 l2 m1 m2 H. revert m1 m2. induction H; intros m1 m2 HM; cbn; [constructor|].
    destruct HM; constructor; auto.
  Qed.

  Lemma Forall2_rev : forall {A B} (R : A -> B -> Prop) l1 l2, Forall2 R l1 l2 -> Forall2 R (rev l1) (rev l2).
  Proof. induction 1; cbn; [constructor|]. apply Forall2_app; auto. Qed.

  Lemma eq_center_rel : forall a1 a2 b1 b2, Forall2 FldR a1 a2 -> Forall2 FldR b1 b2 ->
    Forall2 PairR (eq_center a1 b1) (eq_center a2 b2).
  Proof.
    intros a1 a2 b1 b2 HA HB. unfold eq_center.
    rewrite (Forall2_length' _ _ _ HA), (Forall2_length' _ _ _ HB).
    destruct (Nat.ltb (List.length a2) (List.length b2)).
    - clear -HA HB. induction HB as [|f1 f2 l1 l2 [E F] _ IH]; cbn; [constructor|].
      rewrite E. pose proof (FldR_lookup _ _ (fst f2) HA) as L.
      destruct (lookup (fst f2) a1) as [[x1 p1]|], (lookup (fst f2) a2) as [[x2 p2]|]; try contradiction; cbn; auto.
      constructor; auto. split; cbn; intros n.
      + apply (proj2 (proj2 L) p1 p2 n); apply same_ctrs_refl.
      + apply F; apply same_ctrs_refl.
    - clear -HA HB. induction HA as [|f1 f2 l1 l2 [E F] _ IH]; cbn; [constructor|].
      rewrite E. pose proof (FldR_lookup _ _ (fst f2) HB) as L.
      destruct (lookup (fst f2) b1) as [[x1 p1]|], (lookup (fst f2) b2) as [[x2 p2]|]; try contradiction; cbn; auto.
      constructor; auto. split; cbn; intros n.
      + apply F; apply same_ctrs_refl.
      + apply (proj2 (proj2 L) p1 p2 n); apply same_ctrs_refl.
  Qed.

  Lemma forallb_keys : forall (fs1 fs2 : list field) (g1 g2 : list field),
    map fst fs1 = map fst fs2 -> map fst g1 = map fst g2 ->
    forallb (fun f : field => has_key (fst f) g1) fs1 = forallb (fun f : field => has_key (fst f) g2) fs2.
  Proof.
    induction fs1 as [|f1 l1 IH]; intros [|f2 l2] g1 g2 K G; try discriminate; auto.
    cbn in *. injection K as E K. rewrite E. rewrite (has_key_keys _ g1 g2 G). f_equal. auto.
  Qed.

  Lemma eq_whnf_rel : forall ev,
    (forall a1 a2 b1 b2, RelT a1 a2 -> RelT b1 b2 -> RelC (ev (TEq a1 b1)) (ev (TEq a2 b2))) ->
    forall v1 v2 w1 w2, RelV v1 v2 -> RelV w1 w2 -> RelC (eq_whnf ev v1 w1) (eq_whnf ev v2 w2).
  Proof.
    intros ev HE v1 v2 w1 w2 HV HW.
    inversion HV; subst; inversion HW; subst; cbn [eq_whnf]; try (apply relR_err; discriminate);
      try solve [constructor; constructor].
    - (* arrays *)
      rewrite (ArrR_length _ _ _ _ H), (ArrR_length _ _ _ _ H0).
      destruct (Nat.eqb (List.length es2) (List.length es3)); [|constructor; constructor].
      apply eq_pairs_rel; auto. apply Forall2_rev.
      apply (Forall2_combine RelT RelT); eapply ArrR_elems; eauto; apply same_ctrs_refl.
    - (* records *)
      pose proof (FldR_keys _ _ H) as K1. pose proof (FldR_keys _ _ H0) as K2.
      assert (same_keys fs1 fs0 = same_keys fs2 fs3) as ->.
      { unfold same_keys. f_equal; apply forallb_keys; auto. }
      destruct (negb _); [constructor; constructor|].
      destruct (FldR_close _ _ H) as [C1 C2]. destruct (FldR_close _ _ H0) as [C3 C4]. rewrite C1, C2, C3, C4.
      pose proof (eq_center_rel _ _ _ _ H H0) as C.
      destruct C as [|p1 p2 l1 l2 HP C]; [constructor; constructor|].
      apply eq_pairs_rel; auto. constructor; auto. now apply Forall2_rev.
  Qed.

  Lemma relT_eq : forall n a1 a2 b1 b2, RelT a1 a2 -> RelT b1 b2 -> RelC (eval n (TEq a1 b1)) (eval n (TEq a2 b2)).
  Proof.
    induction n as [|m IH]; intros; rewrite !eval_TEq; [(apply relR_err; discriminate)|].
    unfold eq_sem. eapply relR_bind; [apply (H m)|]. intros v1 v2 HV.
    eapply relR_bind; [apply (H0 m)|]. intros w1 w2 HW.
    apply eq_whnf_rel; auto.
  Qed.

  (** ** Scalar observers and function application *)

  Lemma eq_whnf_num_rel : forall ev v1 v2 z, RelV v1 v2 -> RelC (eq_whnf ev v1 (VNum z)) (eq_whnf ev v2 (VNum z)).
  Proof. intros ev v1 v2 z H. inversion H; subst; cbn; constructor; constructor. Qed.

  Lemma scalar_cong : forall o, fn_scalar o -> forall t1 t2, RelT t1 t2 -> RelT (TObs o t1) (TObs o t2).
  Proof.
    intros o Ho t1 t2 H n. rewrite !eval_TObs. destruct n as [|m]; [(apply relR_err; discriminate)|].
    destruct Ho; cbn [obs_sem]; try (constructor; constructor); try apply (H m).
    - eapply relR_bind; [apply (H m)|]. intros v1 v2 HV.
      eapply relR_bind; [apply as_num_rel, HV|]. intros x ? <-. constructor. constructor.
    - eapply relR_bind; [apply (H m)|]. intros v1 v2 HV.
      eapply relR_bind; [apply as_num_rel, HV|]. intros x ? <-. constructor. constructor.
    - eapply relR_bind; [apply (H m)|]. intros v1 v2 HV. now apply eq_whnf_num_rel.
  Qed.

  Lemma app_rel : forall f1 f2, fn_sim f1 f2 -> forall m a1 a2, RelT a1 a2 ->
    RelC (app (eval m) f1 a1) (app (eval m) f2 a2).
  Proof.
    induction 1; intros m a1 a2 HA; cbn [app].
    - now apply scalar_cong.
    - apply apply_ctr_rel. apply IHfn_sim. now apply relT_ctr.
  Qed.

  (** ** Array primitives and combinators *)

  Lemma Forall2_nth_error : forall {A B} (R : A -> B -> Prop) l1 l2 i, Forall2 R l1 l2 ->
    match nth_error l1 i, nth_error l2 i with
    | Some x, Some y => R x y
    | None, None => True
    | _, _ => False
    end.
  Proof.
    intros A B R l1 l2 i H. revert i. induction H; intros [|i]; cbn; auto. apply IHForall2.
  Qed.

  Lemma Forall2_firstn : forall {A B} (R : A -> B -> Prop) n l1 l2, Forall2 R l1 l2 -> Forall2 R (firstn n l1) (firstn n l2).
  Proof. induction n; intros; cbn; [constructor|]. destruct H; constructor; auto. Qed.

  Lemma Forall2_skipn : forall {A B} (R : A -> B -> Prop) n l1 l2, Forall2 R l1 l2 -> Forall2 R (skipn n l1) (skipn n l2).
  Proof. induction n; intros; cbn; auto. destruct H; [constructor|]; auto. Qed.

  Lemma at_rel : forall m es1 p1 es2 p2 i, ArrR es1 p1 es2 p2 ->
    RelC (bind (prim_array_at es1 p1 i) (eval m)) (bind (prim_array_at es2 p2 i) (eval m)).
  Proof.
    intros m es1 p1 es2 p2 i H. rewrite !at_tracked. cbn [view_arr].
    pose proof (Forall2_nth_error _ _ _ i (ArrR_elems _ _ _ _ p1 p2 H (same_ctrs_refl _) (same_ctrs_refl _))) as N.
    destruct (nth_error (arr_elems es1 p1) i), (nth_error (arr_elems es2 p2) i); try contradiction; cbn.
    - apply N.
    - (apply relR_err; discriminate).
  Qed.

  Lemma concat_is_arr : forall es1 p1 es2 p2, exists es p, prim_array_concat es1 p1 es2 p2 = VArr es p.
  Proof. intros. unfold prim_array_concat. repeat destruct (_ : bool); eexists _, _; reflexivity. Qed.

  Lemma arr_elems_nil : forall q, arr_elems [] q = [].
  Proof. reflexivity. Qed.

  Lemma same_ctrs_trans : forall a b c, same_ctrs a b -> same_ctrs b c -> same_ctrs a c.
  Proof. unfold same_ctrs. congruence. Qed.

  Lemma concat_view : forall es1 p1 es2 p2 es p, prim_array_concat es1 p1 es2 p2 = VArr es p ->
    forall q, same_ctrs q p -> exists qa qb, same_ctrs qa p1 /\ same_ctrs qb p2 /\
      arr_elems es q = arr_elems es1 qa ++ arr_elems es2 qb.
  Proof.
    intros es1 p1 es2 p2 es p H q S. unfold prim_array_concat in H.
    destruct (is_inline_empty es1 p1) eqn:E1.
    { destruct es1, p1; try discriminate. injection H as <- <-. exists [], q. repeat split; auto. }
    destruct (is_inline_empty es2 p2) eqn:E2.
    { destruct es2, p2; try discriminate. injection H as <- <-. exists q, []. repeat split; auto.
      now rewrite arr_elems_nil, app_nil_r. }
    destruct (pend_eqb p1 p2) eqn:E.
    - injection H as <- <-. exists q, q. repeat split; auto.
      + eapply same_ctrs_trans; [exact S|]. now apply pend_eqb_contracts.
      + apply arr_elems_app.
    - injection H as <- <-. apply same_ctrs_nil in S. subst. exists p1, p2. repeat split; try reflexivity.
      apply arr_elems_nil_pend.
  Qed.

  Lemma concat_rel : forall a1 pa1 a2 pa2 b1 pb1 b2 pb2, ArrR a1 pa1 a2 pa2 -> ArrR b1 pb1 b2 pb2 ->
    RelV (prim_array_concat a1 pa1 b1 pb1) (prim_array_concat a2 pa2 b2 pb2).
  Proof.
    intros a1 pa1 a2 pa2 b1 pb1 b2 pb2 HA HB.
    destruct (concat_is_arr a1 pa1 b1 pb1) as [e1 [q1 E1]], (concat_is_arr a2 pa2 b2 pb2) as [e2 [q2 E2]].
    rewrite E1, E2. apply RV_arr'. intros r1 r2 n S1 S2.
    destruct (concat_view _ _ _ _ _ _ E1 r1 S1) as [x1 [y1 [Sx1 [Sy1 ->]]]].
    destruct (concat_view _ _ _ _ _ _ E2 r2 S2) as [x2 [y2 [Sx2 [Sy2 ->]]]].
    apply Forall2_app; [apply HA | apply HB]; auto.
  Qed.

  Lemma slice_rel : forall s e es1 p1 es2 p2, ArrR es1 p1 es2 p2 ->
    RelC (prim_array_slice s e es1 p1) (prim_array_slice s e es2 p2).
  Proof.
    intros s e es1 p1 es2 p2 H. unfold prim_array_slice. rewrite (ArrR_length _ _ _ _ H).
    destruct (_ || _); [(apply relR_err; discriminate)|]. constructor. apply RV_arr'. intros q1 q2 n S1 S2.
    unfold arr_elems. rewrite <- !firstn_map, <- !skipn_map.
    apply Forall2_firstn, Forall2_skipn. now apply H.
  Qed.

  Section Combinators.
    Variable m : nat.
    Let ev := eval m.

    Lemma foldl_rel : forall f xs1 xs2, Forall2 RelT xs1 xs2 -> forall acc1 acc2, RelV acc1 acc2 ->
      RelC (foldl_go ev f xs1 acc1) (foldl_go ev f xs2 acc2).
    Proof.
      induction 1 as [|x1 x2 l1 l2 H _ IH]; intros acc1 acc2 HA; cbn; [now constructor|].
      eapply relR_bind; [|exact IH]. apply fun2_rel; [now constructor | apply H].
    Qed.

    Lemma foldr_rel : forall f init xs1 xs2, Forall2 RelT xs1 xs2 ->
      RelC (foldr_go ev f xs1 (VNum init)) (foldr_go ev f xs2 (VNum init)).
    Proof.
      induction 1 as [|x1 x2 l1 l2 H _ IH]; cbn; [constructor; constructor|].
      apply fun2_rel; [apply H | exact IH].
    Qed.

    Definition PairL (x y : list thunk * list thunk) : Prop :=
      Forall2 RelT (fst x) (fst y) /\ Forall2 RelT (snd x) (snd y).

    Lemma partition_rel : forall f1 f2, RelT f1 f2 -> forall xs1 xs2, Forall2 RelT xs1 xs2 ->
      forall r1 r2 w1 w2, Forall2 RelT r1 r2 -> Forall2 RelT w1 w2 ->
      RelR PairL (partition_go ev f1 xs1 r1 w1) (partition_go ev f2 xs2 r2 w2).
    Proof.
      intros f1 f2 HF. induction 1 as [|x1 x2 l1 l2 H _ IH]; intros r1 r2 w1 w2 HR HW; cbn.
      - constructor. split; assumption.
      - eapply relR_bind; [apply (H m)|]. intros vx1 vx2 HVx.
        eapply relR_bind; [apply as_num_rel, HVx|]. intros a ? <-.
        eapply relR_bind; [apply (HF m)|]. intros vf1 vf2 HVf.
        eapply relR_bind; [apply as_num_rel, HVf|]. intros b ? <-.
        destruct (Z.ltb a b); apply IH; auto; apply Forall2_app; auto.
    Qed.

    Lemma sort_rel : forall fuel e1 e2, Forall2 RelT e1 e2 ->
      RelR (Forall2 RelT) (sort_go ev fuel e1) (sort_go ev fuel e2).
    Proof.
      induction fuel as [|fuel IH]; intros e1 e2 H.
      - destruct H as [|x1 x2 l1 l2 Hx Hl]; cbn; [constructor; constructor|].
        destruct Hl; [constructor; auto | (apply relR_err; discriminate)].
      - destruct H as [|x1 x2 l1 l2 Hx Hl]; cbn; [constructor; constructor|].
        destruct Hl as [|y1 y2 l1 l2 Hy Hl]; [constructor; auto|].
        eapply relR_bind; [apply partition_rel; auto; constructor; auto|].
        intros [rg1 wr1] [rg2 wr2] [HR HW]. cbn [fst snd] in *.
        eapply relR_bind; [apply IH, HR|]. intros sr1 sr2 HSR.
        eapply relR_bind; [apply IH, HW|]. intros sw1 sw2 HSW.
        constructor. apply Forall2_app; auto.
    Qed.

    Variable q : obs.
    Hypothesis q_cong : forall t1 t2, RelT t1 t2 -> RelT (TObs q t1) (TObs q t2).

    Lemma ev_bool_rel : forall x1 x2, RelT x1 x2 -> RelR eq (ev_bool ev (TObs q x1)) (ev_bool ev (TObs q x2)).
    Proof.
      intros. unfold ev_bool. eapply relR_bind; [apply (q_cong _ _ H m)|]. intros. now apply as_bool_rel.
    Qed.

    Lemma any_rel : forall xs1 xs2, Forall2 RelT xs1 xs2 -> RelC (any_go ev q xs1) (any_go ev q xs2).
    Proof.
      induction 1 as [|x1 x2 l1 l2 H _ IH]; cbn; [constructor; constructor|].
      eapply relR_bind; [now apply ev_bool_rel|]. intros b ? <-. destruct b; auto. constructor. constructor.
    Qed.

    Lemma all_rel : forall xs1 xs2, Forall2 RelT xs1 xs2 -> RelC (all_go ev q xs1) (all_go ev q xs2).
    Proof.
      induction 1 as [|x1 x2 l1 l2 H _ IH]; cbn; [constructor; constructor|].
      eapply relR_bind; [now apply ev_bool_rel|]. intros b ? <-. destruct b; auto. constructor. constructor.
    Qed.

    Lemma filter_rel : forall xs1 xs2, Forall2 RelT xs1 xs2 -> forall acc1 acc2, Forall2 RelT acc1 acc2 ->
      RelC (filter_go ev q xs1 acc1) (filter_go ev q xs2 acc2).
    Proof.
      induction 1 as [|x1 x2 l1 l2 H _ IH]; intros acc1 acc2 HA; cbn.
      - constructor. apply RV_arr'. now apply ArrR_of_elems.
      - eapply relR_bind; [now apply ev_bool_rel|]. intros b ? <-. apply IH.
        destruct b; auto. apply Forall2_app; auto.
    Qed.
  End Combinators.

  Lemma elem_rel : forall m e1 e2, RelT e1 e2 -> forall xs1 xs2, Forall2 RelT xs1 xs2 ->
    RelC (elem_go (eval m) e1 xs1) (elem_go (eval m) e2 xs2).
  Proof.
    intros m e1 e2 HE. induction 1 as [|x1 x2 l1 l2 H _ IH]; cbn; [constructor; constructor|].
    unfold ev_bool. eapply relR_bind with (RA := eq).
    - eapply relR_bind; [apply relT_eq; auto|]. intros. now apply as_bool_rel.
    - intros b ? <-. destruct b; auto. constructor. constructor.
  Qed.

  Lemma flatten_rel : forall m rows1 rows2, Forall2 RelT rows1 rows2 ->
    forall a1 pa1 a2 pa2, ArrR a1 pa1 a2 pa2 ->
    RelC (flatten_go (eval m) rows1 a1 pa1) (flatten_go (eval m) rows2 a2 pa2).
  Proof.
    intros m. induction 1 as [|r1 r2 l1 l2 H _ IH]; intros a1 pa1 a2 pa2 HA; cbn.
    - constructor. now apply RV_arr'.
    - eapply relR_bind; [apply (H m)|]. intros v1 v2 HV.
      eapply relR_bind; [apply (as_arr_rel ETypeErr); [discriminate | exact HV]|]. intros [es1 p1] [es2 p2] HR.
      pose proof (concat_rel _ _ _ _ _ _ _ _ HA HR) as C.
      destruct (concat_is_arr a1 pa1 es1 p1) as [e1 [q1 E1]], (concat_is_arr a2 pa2 es2 p2) as [e2 [q2 E2]].
      cbn [fst snd] in *. rewrite E1, E2 in *. apply IH. inversion C; subst. exact H1.
  Qed.

  (** ** Record primitives *)

  Lemma insert_sorted_rel : forall f1 f2 l1 l2, FldR f1 f2 -> Forall2 FldR l1 l2 ->
    Forall2 FldR (insert_sorted f1 l1) (insert_sorted f2 l2).
  Proof.
    intros f1 f2 l1 l2 HF H. induction H as [|g1 g2 l1 l2 HG HL IH]; cbn; [constructor; auto|].
    pose proof HF as [E F]. pose proof HG as [E' F']. rewrite E, E'.
    destruct (String.ltb (fst f2) (fst g2)).
    - repeat (constructor; auto).
    - constructor; auto.
  Qed.

  Lemma sort_fields_rel : forall l1 l2, Forall2 FldR l1 l2 -> Forall2 FldR (sort_fields l1) (sort_fields l2).
  Proof.
    intros l1 l2 H. unfold sort_fields.
    assert (forall a1 a2, Forall2 FldR a1 a2 ->
              Forall2 FldR (fold_left (fun acc x => insert_sorted x acc) l1 a1)
                (fold_left (fun acc x => insert_sorted x acc) l2 a2)) as G.
    { induction H; intros; cbn; auto. apply IHForall2. now apply insert_sorted_rel. }
    apply G. constructor.
  Qed.

  Lemma Forall2_last : forall l1 l2 (d1 d2 : field), Forall2 FldR l1 l2 -> FldR d1 d2 -> FldR (last l1 d1) (last l2 d2).
  Proof.
    induction 1 as [|x y l1 l2 H HL IH]; intros; [cbn; auto|].
    destruct HL as [|x' y' l1' l2' H' HL']; [cbn; auto|].
    change (FldR (last (x' :: l1') d1) (last (y' :: l2') d2)). now apply IH.
  Qed.

  Lemma Forall2_removelast : forall (l1 l2 : list field), Forall2 FldR l1 l2 -> Forall2 FldR (removelast l1) (removelast l2).
  Proof.
    induction 1 as [|x y l1 l2 H HL IH]; [constructor|].
    destruct HL as [|x' y' l1' l2' H' HL']; [cbn; constructor|].
    change (Forall2 FldR (x :: removelast (x' :: l1')) (y :: removelast (y' :: l2'))). constructor; auto.
  Qed.

  Lemma replace_key_rel : forall k (x1 x2 : field) l1 l2, FldR x1 x2 -> Forall2 FldR l1 l2 ->
    Forall2 FldR (replace_key k x1 l1) (replace_key k x2 l2).
  Proof.
    intros k x1 x2 l1 l2 HX H. induction H as [|[k1 d1] [k2 d2] l1 l2 [E F] HL IH]; cbn; [constructor|].
    cbn in E. subst. destruct (String.eqb k k2); constructor; auto. split; auto.
  Qed.

  Lemma swap_remove_rel : forall k l1 l2, Forall2 FldR l1 l2 -> Forall2 FldR (swap_remove k l1) (swap_remove k l2).
  Proof.
    intros k l1 l2 H. unfold swap_remove. destruct H as [|d1 d2 l1 l2 HD HL]; [constructor|].
    assert (Forall2 FldR (d1 :: l1) (d2 :: l2)) as H by (constructor; auto).
    cbv beta iota zeta.
    rewrite (has_key_keys k _ _ (FldR_keys _ _ H)).
    destruct (has_key k (d2 :: l2)); auto.
    pose proof (Forall2_last _ _ _ _ H HD) as [EL FL]. unfold field in *. rewrite EL.
    destruct (String.eqb k (fst (last (d2 :: l2) d2))).
    - now apply Forall2_removelast.
    - apply replace_key_rel; [split; auto|]. now apply Forall2_removelast.
  Qed.

  Lemma strs_rel : forall ks : list string,
    RelV (VArr (map (fun k => TVal (Ok (VStr k))) ks) []) (VArr (map (fun k => TVal (Ok (VStr k))) ks) []).
  Proof.
    intros. apply RV_arr', ArrR_of_elems. induction ks; cbn; constructor; auto.
    apply relT_val. constructor. constructor.
  Qed.

  (** Data read back from an exported tree is related to itself. *)
  Lemma tree_rel : forall t, RelV (tree_to_lval t) (tree_to_lval t).
  Proof.
    fix IH 1. intros [z|s|b|xs|fs]; cbn.
    - constructor.
    - constructor.
    - constructor.
    - apply RV_arr', ArrR_of_elems.
      revert xs. fix IHxs 1. intros [|x xs]; cbn; constructor.
      + apply relT_val. constructor. apply IH.
      + apply IHxs.
    - apply RV_rec'.
      revert fs. fix IHfs 1. intros [|[k x] fs]; cbn; constructor.
      + split; [reflexivity|]. split; [sfx|]. split; [sfx|]. intros q1 q2 n S1 S2. cbn [fst snd] in *.
        apply same_ctrs_nil in S1, S2. subst. apply relT_val. constructor. apply IH.
      + apply IHfs.
  Qed.

  (** ** The fundamental lemma: supported observers preserve the relation *)

  Lemma access_cong : forall k t1 t2, RelT t1 t2 -> RelT (TObs (OAccess k) t1) (TObs (OAccess k) t2).
  Proof.
    intros k t1 t2 H n. rewrite !eval_TObs. destruct n as [|m]; [(apply relR_err; discriminate)|]. cbn [obs_sem].
    eapply relR_bind; [apply (H m)|]. intros v1 v2 HV.
    eapply relR_bind; [apply (as_rec_rel ETypeErr); [discriminate | exact HV]|]. intros fs1 fs2 HF.
    unfold prim_record_access. pose proof (FldR_lookup _ _ k HF) as L.
    destruct (lookup k fs1) as [[x1 p1]|], (lookup k fs2) as [[x2 p2]|]; try contradiction; cbn.
    - apply (proj2 (proj2 L) p1 p2 m); apply same_ctrs_refl.
    - (apply relR_err; discriminate).
  Qed.

  Definition RelTS (t1 t2 : thunk) : Prop := sf t1 = true /\ sf t2 = true /\ RelT t1 t2.

  Lemma access_prim_rel : forall k fs1 fs2, Forall2 FldR fs1 fs2 ->
    RelR RelTS (prim_record_access k fs1) (prim_record_access k fs2).
  Proof.
    intros k fs1 fs2 HF. unfold prim_record_access. pose proof (FldR_lookup _ _ k HF) as L.
    destruct (lookup k fs1) as [[x1 p1]|], (lookup k fs2) as [[x2 p2]|]; try contradiction.
    - destruct L as [SL1 [SL2 L]]. constructor. split; [sfx|]. split; [sfx|].
      intros n. apply (L p1 p2 n); apply same_ctrs_refl.
    - apply relR_err. discriminate.
  Qed.

  Lemma from_array_rel : forall m e1 e2, Forall2 RelT e1 e2 -> forall a1 a2, Forall2 FldR a1 a2 ->
    RelC (from_array_go (eval m) e1 a1) (from_array_go (eval m) e2 a2).
  Proof.
    intros m. induction 1 as [|x1 x2 l1 l2 H _ IH]; intros a1 a2 HA; cbn [from_array_go].
    - constructor. now apply RV_rec'.
    - eapply relR_bind; [apply (H m)|]. intros v1 v2 HV.
      eapply relR_bind; [apply (as_rec_rel EBlameNeg); [discriminate | exact HV]|]. intros fs1 fs2 HF.
      assert (is_binding fs1 = is_binding fs2) as ->.
      { unfold is_binding. rewrite (Forall2_length' _ _ _ HF).
        rewrite !(has_key_keys _ fs1 fs2 (FldR_keys _ _ HF)). reflexivity. }
      destruct (negb (is_binding fs2)); [apply relR_err; discriminate|].
      eapply relR_bind.
      { eapply relR_bind; [apply access_prim_rel, HF|]. intros t1 t2 HT. apply (proj2 (proj2 HT) m). }
      intros vn1 vn2 HVN. inversion HVN; subst; try (apply relR_err; discriminate).
      eapply relR_bind; [apply access_prim_rel, HF|]. intros y1 y2 [SY1 [SY2 HY]].
      unfold prim_record_insert. rewrite (has_key_keys s _ _ (FldR_keys _ _ HA)).
      destruct (has_key s a2); [apply relR_err; discriminate|].
      apply IH. apply Forall2_app; auto. constructor; [|constructor].
      split; [reflexivity|]. split; [sfx|]. split; [sfx|]. intros q1 q2 n S1 S2. cbn [fst snd] in *.
      apply same_ctrs_nil in S1, S2. subst. apply HY.
  Qed.

  Lemma rec_filter_rel : forall m q (b1 b2 : list (string * thunk)),
    Forall2 (fun x y => fst x = fst y /\ sf (snd x) = true /\ sf (snd y) = true /\ RelT (snd x) (snd y)) b1 b2 ->
    forall a1 a2, Forall2 FldR a1 a2 ->
    RelC (rec_filter_go (eval m) q b1 a1) (rec_filter_go (eval m) q b2 a2).
  Proof.
    intros m q. induction 1 as [|[n1 x1] [n2 x2] l1 l2 [E [SX1 [SX2 HX]]] _ IH]; intros a1 a2 HA; cbn [rec_filter_go].
    - constructor. now apply RV_rec'.
    - cbn [fst snd] in *. subst n2. eapply relR_bind with (RA := eq).
      + destruct q; cbn [pred2_sem]; try (constructor; reflexivity).
        eapply relR_bind; [apply (HX m)|]. intros v1 v2 HV.
        eapply relR_bind; [apply as_num_rel, HV|]. intros z ? <-. now constructor.
      + intros b ? <-. apply IH. destruct b; auto. apply Forall2_app; auto. constructor; [|constructor].
        split; [reflexivity|]. split; [sfx|]. split; [sfx|]. intros q1 q2 n S1 S2. cbn [fst snd] in *.
        apply same_ctrs_nil in S1, S2. subst. apply HX.
  Qed.

  Ltac arr_arg H m e :=
    eapply relR_bind; [apply (H m)|]; intros ?v1 ?v2 ?HV;
    eapply relR_bind; [apply (as_arr_rel e); [discriminate | eassumption]|]; intros [?es1 ?p1] [?es2 ?p2] ?HA;
    unfold ArrR' in *; cbn [fst snd] in *.

  Ltac rec_arg H m e :=
    eapply relR_bind; [apply (H m)|]; intros ?v1 ?v2 ?HV;
    eapply relR_bind; [apply (as_rec_rel e); [discriminate | eassumption]|]; intros ?fs1 ?fs2 ?HF.

  Theorem obs_cong : forall o, supported o -> forall t1 t2, RelT t1 t2 -> RelT (TObs o t1) (TObs o t2).
  Proof.
    induction 1; intros t1 t2 HT;
      try (apply scalar_cong; [constructor | exact HT]);
      intros n; rewrite !eval_TObs; (destruct n as [|m]; [(apply relR_err; discriminate)|]); cbn [obs_sem].
    - (* comp *)
      pose proof (IHsupported2 _ _ (IHsupported1 _ _ HT) (S m)) as G. now rewrite !eval_TObs in G.
    - (* atp *) arr_arg HT m ETypeErr. now apply at_rel.
    - (* at *) arr_arg HT m EBlameNeg. rewrite (ArrR_length _ _ _ _ HA).
      destruct (Nat.ltb i (List.length es2)); [now apply at_rel | (apply relR_err; discriminate)].
    - (* first *) arr_arg HT m EBlameNeg. pose proof (ArrR_length _ _ _ _ HA) as L.
      destruct es1, es2; try discriminate; [(apply relR_err; discriminate) | now apply at_rel].
    - (* last *) arr_arg HT m EBlameNeg. pose proof (ArrR_length _ _ _ _ HA) as L.
      destruct es1, es2; try discriminate; [(apply relR_err; discriminate)|].
      unfold prim_array_length. rewrite L. now apply at_rel.
    - (* length *) arr_arg HT m EBlameNeg. unfold prim_array_length. rewrite (ArrR_length _ _ _ _ HA).
      constructor. constructor.
    - (* map *) arr_arg HT m EBlameNeg. constructor. apply RV_arr', ArrR_of_elems.
      pose proof (map_tracked f es1 p1) as M1. pose proof (map_tracked f es2 p2) as M2.
      unfold prim_array_map in *. cbn [view_arr] in M1, M2. rewrite arr_elems_nil_pend in M1, M2.
      rewrite M1, M2. eapply Forall2_map2; [eapply ArrR_elems; eauto; apply same_ctrs_refl|].
      intros x y Hxy. now apply IHsupported.
    - (* concatr *) arr_arg HT m ETypeErr.
      eapply relR_bind; [apply (lit_rel l H m)|]. intros w1 w2 HW.
      eapply relR_bind; [apply (as_arr_rel ETypeErr); [discriminate | exact HW]|]. intros [a1 q1] [a2 q2] HB.
      constructor. now apply concat_rel.
    - (* concatl *)
      eapply relR_bind; [apply (lit_rel l H m)|]. intros w1 w2 HW.
      eapply relR_bind; [apply (as_arr_rel ETypeErr); [discriminate | exact HW]|]. intros [a1 q1] [a2 q2] HB.
      arr_arg HT m ETypeErr. constructor. now apply concat_rel.
    - (* slice *) arr_arg HT m EBlameNeg.
      pose proof (slice_rel s e _ _ _ _ HA) as S. unfold prim_array_slice in *.
      rewrite (ArrR_length _ _ _ _ HA) in *.
      match type of S with context [if ?b then _ else _] => destruct b end; [(apply relR_err; discriminate) | exact S].
    - (* slicep *) arr_arg HT m ETypeErr. now apply slice_rel.
    - (* foldl *) arr_arg HT m EBlameNeg. apply foldl_rel; [|constructor].
      eapply ArrR_elems; eauto; apply same_ctrs_refl.
    - (* foldr *) arr_arg HT m EBlameNeg. apply foldr_rel. eapply ArrR_elems; eauto; apply same_ctrs_refl.
    - (* filter *) arr_arg HT m EBlameNeg.
      apply filter_rel; [exact IHsupported | eapply ArrR_elems; eauto; apply same_ctrs_refl | constructor].
    - (* any *) arr_arg HT m EBlameNeg.
      apply any_rel; [exact IHsupported | eapply ArrR_elems; eauto; apply same_ctrs_refl].
    - (* all *) arr_arg HT m EBlameNeg.
      apply all_rel; [exact IHsupported | eapply ArrR_elems; eauto; apply same_ctrs_refl].
    - (* elem *) arr_arg HT m EBlameNeg.
      apply any_rel; [intros; apply scalar_cong; [constructor | assumption]
                     | eapply ArrR_elems; eauto; apply same_ctrs_refl].
    - (* reverse *) arr_arg HT m EBlameNeg. constructor. apply RV_arr', ArrR_of_elems, Forall2_rev.
      eapply ArrR_elems; eauto; apply same_ctrs_refl.
    - (* flatten *) arr_arg HT m EBlameNeg. apply flatten_rel.
      + eapply ArrR_elems; eauto; apply same_ctrs_refl.
      + apply ArrR_of_elems. constructor.
    - (* sort *) arr_arg HT m EBlameNeg. pose proof (ArrR_length _ _ _ _ HA) as L.
      destruct es1 as [|a1 [|b1 l1]], es2 as [|a2 [|b2 l2]]; try discriminate;
        try (constructor; apply RV_arr'; exact HA).
      cbn [List.length] in *. rewrite L.
      eapply relR_bind; [apply sort_rel; eapply ArrR_elems; eauto; apply same_ctrs_refl|].
      intros r1 r2 HR. constructor. apply RV_arr'. now apply ArrR_of_elems.
    - (* seq *) apply (HT m).
    - (* deepseq *) eapply relR_bind with (RA := eq); [now apply force_rel|]. intros. apply (HT m).
    - (* serde *)
      pose proof (force_rel m _ _ HT) as F. inversion F as [r2 HH E1 E2|e1 e2 NP HS E1 E2|a1 a2 HE E1 E2]; subst.
      + constructor. now apply Hole_serde.
      + destruct HS as [->|[B1 B2]].
        * destruct e2; try (apply relR_err; discriminate). congruence.
        * destruct e1, e2; try discriminate; (constructor; [discriminate | right; auto]).
      + constructor. apply tree_rel.
    - (* eqr *) pose proof (relT_eq (S m) _ _ _ _ HT (lit_rel l H)) as G. now rewrite !eval_TEq in G.
    - (* eql *) pose proof (relT_eq (S m) _ _ _ _ (lit_rel l H) HT) as G. now rewrite !eval_TEq in G.
    - (* ctr *) apply apply_ctr_rel. apply (HT m).
    - (* eq2 *)
      pose proof (relT_eq (S m) _ _ _ _ (IHsupported1 _ _ HT) (IHsupported2 _ _ HT)) as G.
      now rewrite !eval_TEq in G.
    - (* concat2 *)
      eapply relR_bind; [apply (IHsupported1 _ _ HT m)|]. intros v1 v2 HV.
      eapply relR_bind; [apply (as_arr_rel ETypeErr); [discriminate | exact HV]|]. intros [a1 q1] [a2 q2] HA.
      eapply relR_bind; [apply (IHsupported2 _ _ HT m)|]. intros w1 w2 HW.
      eapply relR_bind; [apply (as_arr_rel ETypeErr); [discriminate | exact HW]|]. intros [b1 r1] [b2 r2] HB.
      constructor. now apply concat_rel.
    - (* elemof *) arr_arg HT m EBlameNeg. apply elem_rel; [now apply IHsupported|].
      eapply ArrR_elems; eauto; apply same_ctrs_refl.
    - (* access *) pose proof (access_cong k _ _ HT (S m)) as G. now rewrite !eval_TObs in G.
    - (* get *) rec_arg HT m EBlameNeg.
      unfold prim_record_access. pose proof (FldR_lookup _ _ k HF) as L.
      destruct (lookup k fs1) as [[x1 p1]|], (lookup k fs2) as [[x2 p2]|]; try contradiction; cbn.
      + apply (proj2 (proj2 L) p1 p2 m); apply same_ctrs_refl.
      + (apply relR_err; discriminate).
    - (* fields *) rec_arg HT m EBlameNeg. constructor.
      rewrite (fields_names_only fs1 fs2 (FldR_keys _ _ HF)). unfold prim_record_fields.
      rewrite <- (map_map fst (fun k => TVal (Ok (VStr k)))). apply strs_rel.
    - (* values *) rec_arg HT m EBlameNeg. constructor. apply RV_arr', ArrR_of_elems.
      apply FldR_thunks. now apply sort_fields_rel.
    - (* recmap *) rec_arg HT m EBlameNeg. constructor. apply RV_rec'. unfold prim_record_map.
      eapply Forall2_map2; [exact HF|]. intros f1 f2 [E F]. destruct F as [SF1 [SF2 F]]. split; [exact E|]. split; [sfx|]. split; [sfx|].
      intros q1 q2 n S1 S2. cbn [fst snd] in *. apply same_ctrs_nil in S1, S2. subst. cbn [tctrs fold_left].
      rewrite E. apply relT_app2; [apply relT_val; constructor; constructor|].
      intros n'. apply F; apply same_ctrs_refl.
    - (* mapvalues *) rec_arg HT m EBlameNeg. constructor. apply RV_rec'. unfold prim_record_map.
      eapply Forall2_map2; [exact HF|]. intros f1 f2 [E F]. destruct F as [SF1 [SF2 F]]. split; [exact E|]. split; [sfx|]. split; [sfx|].
      intros q1 q2 n S1 S2. cbn [fst snd] in *. apply same_ctrs_nil in S1, S2. subst. cbn [tctrs fold_left].
      apply IHsupported. intros n'. apply F; apply same_ctrs_refl.
    - (* freeze *) rec_arg HT m ETypeErr. constructor. apply RV_rec'. unfold prim_record_freeze.
      eapply Forall2_map2; [exact HF|]. intros f1 f2 [E F]. destruct F as [SF1 [SF2 F]]. split; [exact E|]. split; [sfx|]. split; [sfx|].
      intros q1 q2 n S1 S2. cbn [fst snd] in *. apply same_ctrs_nil in S1, S2. subst. cbn [tctrs fold_left].
      apply F; apply same_ctrs_refl.
    - (* insert *) rec_arg HT m EBlameNeg.
      assert (Forall2 FldR (prim_record_freeze fs1) (prim_record_freeze fs2)) as HF'.
      { unfold prim_record_freeze. eapply Forall2_map2; [exact HF|]. intros f1 f2 [E F]. destruct F as [SF1 [SF2 F]]. split; [exact E|]. split; [sfx|]. split; [sfx|].
        intros q1 q2 n S1 S2. cbn [fst snd] in *. apply same_ctrs_nil in S1, S2. subst. cbn [tctrs fold_left].
        apply F; apply same_ctrs_refl. }
      unfold prim_record_insert. rewrite (has_key_keys k _ _ (FldR_keys _ _ HF')).
      destruct (has_key k (prim_record_freeze fs2)); [(apply relR_err; discriminate)|].
      constructor. apply RV_rec'. apply Forall2_app; auto. constructor; [|constructor].
      split; [reflexivity|]. split; [sfx|]. split; [sfx|]. intros q1 q2 n S1 S2. cbn [fst snd] in *. apply same_ctrs_nil in S1, S2. subst.
      apply relT_val. constructor. constructor.
    - (* remove *) rec_arg HT m EBlameNeg.
      assert (Forall2 FldR (prim_record_freeze fs1) (prim_record_freeze fs2)) as HF'.
      { unfold prim_record_freeze. eapply Forall2_map2; [exact HF|]. intros f1 f2 [E F]. destruct F as [SF1 [SF2 F]]. split; [exact E|]. split; [sfx|]. split; [sfx|].
        intros q1 q2 n S1 S2. cbn [fst snd] in *. apply same_ctrs_nil in S1, S2. subst. cbn [tctrs fold_left].
        apply F; apply same_ctrs_refl. }
      unfold prim_record_remove. rewrite (has_key_keys k _ _ (FldR_keys _ _ HF')).
      destruct (has_key k (prim_record_freeze fs2)); [|(apply relR_err; discriminate)].
      constructor. apply RV_rec'. now apply swap_remove_rel.
    - (* hasfield *) rec_arg HT m EBlameNeg. rewrite (has_key_keys k _ _ (FldR_keys _ _ HF)).
      constructor. constructor.
    - (* toarray *) rec_arg HT m EBlameNeg. constructor. apply RV_arr', ArrR_of_elems.
      eapply Forall2_map2; [apply sort_fields_rel, HF|]. intros f1 f2 [E F] n. rewrite !eval_TRecLit.
      constructor. apply RV_rec'. cbn [map]. constructor; [|constructor; [|constructor]].
      + split; [reflexivity|]. split; [sfx|]. split; [sfx|]. intros q1 q2 n' S1 S2. cbn [fst snd] in *. apply same_ctrs_nil in S1, S2. subst.
        rewrite E. apply relT_val. constructor. constructor.
      + split; [reflexivity|]. split; [sfx|]. split; [sfx|]. intros q1 q2 n' S1 S2. cbn [fst snd] in *. apply same_ctrs_nil in S1, S2. subst.
        cbn [tctrs fold_left]. rewrite E. apply access_cong. apply relT_val. constructor. now apply RV_rec'.
    - (* fromarray *) arr_arg HT m EBlameNeg. apply from_array_rel; [|constructor].
      eapply ArrR_elems; eauto; apply same_ctrs_refl.
    - (* pathead *)
      eapply relR_bind; [apply (HT m)|]. intros v1 v2 HV.
      inversion HV as [| | |es1 p1 es2 p2 HA| |]; subst; try (apply relR_err; discriminate).
      pose proof (ArrR_length _ _ _ _ HA) as L.
      destruct es1, es2; try discriminate; [apply relR_err; discriminate | now apply at_rel].
    - (* pattail *)
      eapply relR_bind; [apply (HT m)|]. intros v1 v2 HV.
      inversion HV as [| | |es1 p1 es2 p2 HA| |]; subst; try (apply relR_err; discriminate).
      pose proof (ArrR_length _ _ _ _ HA) as L.
      destruct es1 as [|a1 l1], es2 as [|a2 l2]; try discriminate; [apply relR_err; discriminate|].
      rewrite L. now apply slice_rel.
    - (* patfield *)
      eapply relR_bind; [apply (HT m)|]. intros v1 v2 HV.
      inversion HV as [| | | |fs1 fs2 HF|]; subst; try (apply relR_err; discriminate).
      rewrite (has_key_keys k _ _ (FldR_keys _ _ HF)).
      destruct (has_key k fs2); [|apply relR_err; discriminate].
      destruct (FldR_close _ _ HF) as [C1 C2]. rewrite C1, C2.
      eapply relR_bind; [apply access_prim_rel, HF|]. intros t1' t2' HT'. apply (proj2 (proj2 HT') m).
    - (* patrest *)
      eapply relR_bind; [apply (HT m)|]. intros v1 v2 HV.
      inversion HV as [| | | |fs1 fs2 HF|]; subst; try (apply relR_err; discriminate).
      rewrite (has_key_keys k _ _ (FldR_keys _ _ HF)).
      destruct (has_key k fs2) eqn:E; [|apply relR_err; discriminate].
      destruct (FldR_close _ _ HF) as [C1 C2]. rewrite C1, C2.
      unfold prim_record_remove. rewrite (has_key_keys k _ _ (FldR_keys _ _ HF)), E.
      constructor. apply RV_rec'. now apply swap_remove_rel.
    - (* recfilter *) rec_arg HT m EBlameNeg. apply rec_filter_rel; [|constructor].
      eapply Forall2_map2; [apply sort_fields_rel, HF|]. intros f1 f2 [E F]. cbn [fst snd]. destruct F as [SF1 [SF2 F]]. split; [exact E|]. split; [sfx|]. split; [sfx|].
      rewrite E. apply access_cong. apply relT_val. constructor. now apply RV_rec'.
    - (* call *)
      eapply relR_bind; [apply (HT m)|]. intros v1 v2 HV.
      inversion HV; subst; try (apply relR_err; discriminate). apply app_rel; auto. now apply atom_rel.
  Qed.
End Rel.
