(* C08 - the recursive environment: a field observed through a sibling's recursive reference.

   A field definition refers to a sibling [j] as [TObs (OAccess j) TSelf]; [close_rec] (the model of
   fixpoint.rs [rec_env]) binds [TSelf] to the record *as it is delivered*, so the reference is a
   field access on that record and goes through the sibling's pending contracts exactly like a
   direct access ([sibling_ref_guarded]).  Consequently a dependent field under a lazily applied
   contract blames when the sibling it reads violates ([dependent_blames]).  The variant where
   literal constants are handed to the recursive environment without their pending contracts is
   refuted ([constraw_refuted]).  [dict_type_ref_unguarded] records what the model (like nickel)
   does for [{_ : T}], which goes through %record/map% on the evaluated record: the reference
   sees the sibling unchecked (known finding type-contract-recursive-reference-unguarded). *)
From Coq Require Import List ZArith String Bool Arith Lia.
Import ListNotations.
From NV Require Import Delayed.Model Delayed.Spec Delayed.Tracked Delayed.Rel Delayed.Main Delayed.Stack.
Open Scope string_scope.
Open Scope list_scope.

Lemma lookup_close : forall k fs x p, lookup k fs = Some (x, p) ->
  lookup k (close_rec fs) = Some (subst_self (VRec fs) x, p).
Proof.
  intros k fs x p H. unfold close_rec. generalize (VRec fs) as v. intros v.
  induction fs as [|[k' [x' p']] fs IH]; cbn in *; [discriminate|].
  destruct (String.eqb k k'); [injection H as -> ->; reflexivity | auto].
Qed.

(** T: a recursive reference to the sibling [j] evaluates the sibling's definition (itself bound
    to the same environment) under the sibling's pending contracts - exactly what a direct access
    [r.j] evaluates. *)
Theorem sibling_ref_guarded : forall n fs j x p, lookup j fs = Some (x, p) ->
  eval (S n) (subst_self (VRec fs) (TObs (OAccess j) TSelf))
  = eval n (tctrs p (subst_self (VRec fs) x))
  /\ eval (S n) (TObs (OAccess j) (TVal (Ok (VRec fs)))) = eval n (tctrs p (subst_self (VRec fs) x)).
Proof.
  intros n fs j x p H. cbn [subst_self]. split; rewrite eval_TObs; cbn [obs_sem]; rewrite eval_TVal;
    cbn [bind as_rec]; unfold prim_record_access; rewrite (lookup_close _ _ _ _ H); reflexivity.
Qed.

(** Records built from field definitions. *)
Definition fields_of_defs (ds : list (string * fdef)) : list field :=
  map (fun '(k, d) => (k, (thunk_of_fdef d, []))) ds.

Lemma lookup_defs : forall k ds d, lookup k ds = Some d ->
  lookup k (fields_of_defs ds) = Some (thunk_of_fdef d, []).
Proof.
  induction ds as [|[k' d'] ds IH]; intros d H; cbn in *; [discriminate|].
  destruct (String.eqb k k'); [injection H as ->; reflexivity | auto].
Qed.

Lemma lookup_lazy_app : forall k c fs x p, lookup k fs = Some (x, p) ->
  match prim_record_lazy_app c fs with
  | VRec fs' => lookup k fs' = Some (x, p ++ [c])
  | _ => False
  end.
Proof.
  intros k c fs x p H. cbn. induction fs as [|[k' [x' p']] fs IH]; cbn in *; [discriminate|].
  destruct (String.eqb k k'); [injection H as -> ->; reflexivity | auto].
Qed.

Definition strict_scalar (o : obs) : bool :=
  match o with OId | OAddK _ | OGtK _ | OEqK _ => true | _ => false end.

Lemma strict_on_error : forall n o t e, strict_scalar o = true -> eval n t = Err e ->
  eval (S n) (TObs o t) = Err e.
Proof.
  intros n o t e S E. rewrite eval_TObs. destruct o; try discriminate; cbn [obs_sem]; rewrite E; reflexivity.
Qed.

(** T: under a dictionary contract [{_ | c}] (c flat), observing only the dependent field [k],
    whose definition is a strict function of the sibling [j], blames when the sibling - a literal
    constant or a computed value - is rejected by [c]. *)
Theorem dependent_blames : forall n ds k j o a c v,
  lookup k ds = Some (DDep o j) ->
  (lookup j ds = Some (DAtom a) \/ lookup j ds = Some (DComp a)) ->
  strict_scalar o = true -> flat c = true ->
  atom_val a = Some v -> accepts c v = false ->
  run (S (S (S (S (S n))))) (KRecR ds) (Some (CDictC c)) (OAccess k) = Err EBlame.
Proof.
  intros n ds k j o a c v Hk Hj So Fc Av Rej.
  unfold run, program. rewrite force_S, eval_TObs. cbn [annotate thunk_of_container obs_sem].
  rewrite eval_TCtr, eval_TVal. cbn [apply_ctr bind].
  fold (fields_of_defs ds).
  pose proof (lookup_lazy_app k (true, c) _ _ _ (lookup_defs _ _ _ Hk)) as Lk.
  assert (exists dj, lookup j ds = Some dj /\ (dj = DAtom a \/ dj = DComp a)) as [dj [Hdj Dj]].
  { destruct Hj; eexists; split; eauto. }
  pose proof (lookup_lazy_app j (true, c) _ _ _ (lookup_defs _ _ _ Hdj)) as Lj.
  destruct (prim_record_lazy_app (true, c) (fields_of_defs ds)) as [| | | |fs1|] eqn:E1; try contradiction.
  cbn [as_rec bind]. unfold prim_record_access. rewrite (lookup_close _ _ _ _ Lk). cbn [bind Datatypes.app].
  cbn [tctrs fold_left thunk_of_fdef subst_self]. rewrite eval_TCtr.
  assert (eval (S (S n)) (TObs (OAccess j) (TVal (Ok (VRec fs1)))) = Err EBlame) as Ref.
  { destruct (sibling_ref_guarded (S n) fs1 j _ _ Lj) as [_ ->]. cbn [Datatypes.app tctrs fold_left]. rewrite eval_TCtr.
    assert (eval (S n) (subst_self (VRec fs1) (thunk_of_fdef dj)) = Ok v) as ->.
    { destruct Dj as [-> | ->]; cbn [thunk_of_fdef subst_self].
      - destruct a; try discriminate; cbn in *; injection Av as <-; reflexivity.
      - rewrite eval_TObs. cbn [obs_sem]. destruct a; try discriminate; cbn in *; injection Av as <-; apply eval_TVal. }
    rewrite (flat_apply true c v Fc), Rej. reflexivity. }
  rewrite (strict_on_error _ o _ EBlame So Ref). reflexivity.
Qed.

Example dependent_blames_ex :
  run 8 (KRecR [("a", DAtom (ANum 1)); ("b", DDep (OAddK 1) "a")]) (Some (CDictC CStr)) (OAccess "b") = Err EBlame
  /\ run 8 (KRecR [("a", DAtom (ANum 1)); ("b", DDep (OConst 0) "a")]) (Some (CDictC CStr)) (OAccess "a") = Err EBlame
  /\ run 8 (KRecR [("a", DAtom (ANum 1)); ("b", DDep (OAddK 1) "a")]) None (OAccess "b") = Ok (TrNum 2).
Proof. vm_compute. auto. Qed.

(** Refuted: the recursive environment that hands literal constants over without their pending
    contracts (the dependent no longer blames; a computed value still does). *)
Definition access_constraw (n : nat) (k : string) (fs : list field) : res lval :=
  bind (prim_record_access k (close_rec_constraw fs)) (eval n).

Lemma constraw_refuted :
  exists n fs k,
    bind (prim_record_access k (close_rec fs)) (eval n) = Err EBlame /\
    access_constraw n k fs = Ok (VNum 2).
Proof.
  exists 6, [("a", (TVal (Ok (VNum 1)), [(true, CStr)])); ("b", (TObs (OAddK 1) (TObs (OAccess "a") TSelf), []))], "b".
  vm_compute. auto.
Qed.

Example constraw_computed_still_guarded :
  access_constraw 6 "b"
    [("a", (TObs OId (TVal (Ok (VNum 1))), [(true, CStr)])); ("b", (TObs (OAddK 1) (TObs (OAccess "a") TSelf), []))]
  = Err EBlame.
Proof. vm_compute. reflexivity. Qed.

(** What [{_ : T}] does (model and nickel alike): %record/map% works on the evaluated record, whose
    recursive references are already bound to the siblings *before* the contract is mapped onto
    them; the dependent sees the sibling unchecked. *)
Lemma dict_type_ref_unguarded :
  run 8 (KRecR [("a", DAtom (ANum 1)); ("b", DDep (OAddK 1) "a")]) (Some (CDictT (CGt 1))) (OAccess "b") = Ok (TrNum 2)
  /\ run 8 (KRecR [("a", DAtom (ANum 1)); ("b", DDep (OAddK 1) "a")]) (Some (CDictC (CGt 1))) (OAccess "b") = Err EBlame.
Proof. vm_compute. auto. Qed.
