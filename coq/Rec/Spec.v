(* C07, part B -- the specification S: "the record obtained by textually substituting the winning
   definitions".

   An S-record is plain data: for every field a priority and the definition that won so far.  A
   definition is the text of a body together with the record literal it was written in (its lexical
   scope: the field names of that literal), or the merge [d1 & d2] of two definitions of equal
   priority (a piecewise definition), and the contracts attached to it by all the merged records.  There is no heap, no thunk, no caching, no reverting:
   a field is read by evaluating its definition with every sibling name bound, late, to the field of
   the SAME final record [R].  Definitions only. *)
From Coq Require Import List NArith ZArith Bool.
Import ListNotations.
From NV Require Import Rec.Lang.

Inductive sbody : Type :=
| SLeaf (scope : list N) (s : src)
| SMerge2 (l r : sbody).

Record sfld : Type := { sprio : prio; sval : option sbody; sctrs : list (ckind * sbody) }.
Definition srec : Type := list (N * sfld).

Fixpoint slookup (k : N) (R : srec) : option sfld :=
  match R with
  | [] => None
  | (k', f) :: R' => if N.eqb k k' then Some f else slookup k R'
  end.

Definition skeys (R : srec) : list N := map fst R.

(* [scoped]: a name outside the lexical scope of the literal is not bound by the record *)
Fixpoint seval_body (look : N -> outcome) (b : sbody) : outcome :=
  match b with
  | SLeaf scope s => eval_src (scoped scope look) s
  | SMerge2 l r => merge_out (seval_body look l) (seval_body look r)
  end.

(* reading field [k] of the record [R]; the fuel bounds the depth of the chain of field references *)
Fixpoint sfield (fuel : nat) (R : srec) (k : N) : outcome :=
  match slookup k R with
  | None => Err FieldMissing
  | Some f =>
      match sval f with
      | None => Err MissingDef
      | Some b =>
          match fuel with
          | O => OutOfFuel
          | S n =>
              let look := fun x => var_out (sfield n R x) in
              apply_ctrs (seval_body look b) (map (fun kc => (fst kc, seval_body look (snd kc))) (sctrs f))
          end
      end
  end.

(* ---- merging S-records: per field, the higher priority wins; equal priorities give the
   piecewise definition; a field without definition loses to any definition *)
Definition smerge_fld (f1 f2 : sfld) : sfld :=
  let cs := sctrs f1 ++ sctrs f2 in      (* the contracts of both sides, whatever the priorities *)
  match sval f1, sval f2 with
  | Some b1, Some b2 =>
      match pcmp (sprio f1) (sprio f2) with
      | Eq => {| sprio := sprio f1; sval := Some (SMerge2 b1 b2); sctrs := cs |}
      | Gt => {| sprio := sprio f1; sval := sval f1; sctrs := cs |}
      | Lt => {| sprio := sprio f2; sval := sval f2; sctrs := cs |}
      end
  | Some _, None => {| sprio := sprio f1; sval := sval f1; sctrs := cs |}
  | None, Some _ => {| sprio := sprio f2; sval := sval f2; sctrs := cs |}
  | None, None => {| sprio := PNeut; sval := None; sctrs := cs |}
  end.

Definition smerge_opt (o1 o2 : option sfld) : option sfld :=
  match o1, o2 with
  | Some f1, Some f2 => Some (smerge_fld f1 f2)
  | Some f, None | None, Some f => Some f
  | None, None => None
  end.

Definition smerge (R1 R2 : srec) : srec :=
  let ks := skeys R1 ++ filter (fun k => negb (mem k (skeys R1))) (skeys R2) in
  flat_map (fun k => match smerge_opt (slookup k R1) (slookup k R2) with
                     | Some f => [(k, f)]
                     | None => []
                     end) ks.

(* ---- the S-record a literal denotes: every body is scoped by the statically named fields of
   its literal (a dynamically named field is a field like any other, but no body can name it) *)
Definition sden_lit (l : literal) : srec :=
  map (fun kd => (fst kd, {| sprio := fprio (snd kd);
                             sval := option_map (SLeaf (lit_scope l)) (fbody (snd kd));
                             sctrs := map (fun c => (fst c, SLeaf (lit_scope l) (STm (snd c)))) (fctrs (snd kd)) |})) l.

(* ---- the S-records an override history denotes, one per step ([None]: the step refers to a
   step that does not exist) *)
Definition sstep (done : list (option srec)) (s : step) : option srec :=
  match s with
  | SLit l => Some (sden_lit l)
  | SMerge i j =>
      match nth_error done i, nth_error done j with
      | Some (Some R1), Some (Some R2) => Some (smerge R1 R2)
      | _, _ => None
      end
  end.

Fixpoint srun_from (done : list (option srec)) (h : history) : list (option srec) :=
  match h with
  | [] => done
  | s :: h' => srun_from (done ++ [sstep done s]) h'
  end.

Definition srun (h : history) : list (option srec) := srun_from [] h.
