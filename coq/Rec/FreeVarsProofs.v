(* C07, part A -- proofs about the model of free_vars.rs: [collect] computes exactly the free
   variables of the independent specification [free]; consequently the dependency table of a record
   literal contains every recursive field that occurs free in a field definition (value or
   annotations).  The analysis before fix a9a5295 ([bug = true]) violates this. *)
From Coq Require Import List NArith Bool Lia Arith.
Import ListNotations.
From NV Require Import Rec.FreeVars.

(* ------------------------------------------------------------------------- lists as sets *)
Lemma mem_In : forall x l, mem x l = true <-> In x l.
Proof.
  intros x l. unfold mem. rewrite existsb_exists. split.
  - intros [y [Hy He]]. apply N.eqb_eq in He. subst. exact Hy.
  - intros H. exists x. split; [exact H | apply N.eqb_refl].
Qed.

Lemma mem_false : forall x l, mem x l = false <-> ~ In x l.
Proof.
  intros x l. rewrite <- mem_In. destruct (mem x l); split; intros H.
  - discriminate.
  - exfalso. apply H. reflexivity.
  - intros H'. discriminate.
  - reflexivity.
Qed.

Lemma In_minus : forall x l r, In x (minus l r) <-> In x l /\ ~ In x r.
Proof.
  intros x l r. unfold minus. rewrite filter_In. rewrite negb_true_iff, mem_false. reflexivity.
Qed.

Lemma In_inter : forall x l r, In x (inter l r) <-> In x l /\ In x r.
Proof.
  intros x l r. unfold inter. rewrite filter_In, mem_In. reflexivity.
Qed.

(* ------------------------------------------------------------------------- sizes *)
Fixpoint size (t : tm) : nat :=
  match t with
  | Var _ | Leaf => 1
  | Fun _ b => S (size b)
  | Let _ bs b => S (list_sum (map (fun p => size (snd p)) bs) + size b)
  | App f a => S (size f + size a)
  | Op1 a => S (size a)
  | Op2 a b => S (size a + size b)
  | OpN args => S (list_sum (map size args))
  | Arr es => S (list_sum (map size es))
  | EnumV None => 1
  | EnumV (Some a) => S (size a)
  | Chunks cs => S (list_sum (map (fun c => match c with Some e => size e | None => 0 end) cs))
  | Annot ts e => S (list_sum (map size_ty ts) + size e)
  | Sealed e => S (size e)
  | Closurize e => S (size e)
  | RecVal fs => S (list_sum (map (fun p => size_field (snd p)) fs))
  | RecRec stat incl dyn =>
      S (list_sum (map (fun p => size_field (snd p)) stat)
         + list_sum (map (fun p => list_sum (map size_ty (snd p))) incl)
         + list_sum (map (fun p => size (fst p) + size_field (snd p)) dyn))
  | CustomCtr e => S (size e)
  | TypeV t c => S (size_ty t + size c)
  end
with size_ty (t : ty) : nat :=
  match t with
  | TAtom | TVar _ => 1
  | TForall _ b => S (size_ty b)
  | TDict b => S (size_ty b)
  | TArray b => S (size_ty b)
  | TArrow a b => S (size_ty a + size_ty b)
  | TRecord r => S (size_rrows r)
  | TEnum e => S (size_erows e)
  | TContract c => S (size c)
  end
with size_rrows (r : rrows) : nat :=
  match r with
  | RREmpty | RRDyn | RRVar _ => 1
  | RRExt _ t tl => S (size_ty t + size_rrows tl)
  end
with size_erows (e : erows) : nat :=
  match e with
  | EREmpty | ERVar _ => 1
  | ERExt _ None tl => S (size_erows tl)
  | ERExt _ (Some t) tl => S (size_ty t + size_erows tl)
  end
with size_field (f : field) : nat :=
  match f with
  | Fld anns v => S (list_sum (map size_ty anns) + match v with Some t => size t | None => 0 end)
  end.

Lemma In_list_sum : forall {A} (f : A -> nat) (a : A) (l : list A),
  In a l -> f a <= list_sum (map f l).
Proof.
  intros A f a l. induction l as [|b l IH]; intros H; [destruct H|].
  cbn [map list_sum fold_right]. fold (list_sum (map f l)). destruct H as [H|H]; [subst; lia | specialize (IH H); lia].
Qed.

(* ------------------------------------------------------------------------- soundness and completeness *)
Definition P (n : nat) (x : N) : Prop :=
  ((forall t, size t < n -> (In x (collect false t) <-> free x t)) /\
   (forall t, size_ty t < n -> (In x (collect_ty false t) <-> free_ty x t)) /\
   (forall r, size_rrows r < n -> (In x (collect_rrows false r) <-> free_rrows x r)) /\
   (forall e, size_erows e < n -> (In x (collect_erows false e) <-> free_erows x e)) /\
   (forall f, size_field f < n -> (In x (collect_field false f) <-> free_field x f))).

Lemma collect_all : forall n x, P n x.
Proof.
  unfold P. induction n as [|n IH]; intros x.
  { split; [|split; [|split; [|split]]]; intros; lia. }
  destruct (IH x) as (IHt & IHty & IHr & IHe & IHf).
  split; [|split; [|split; [|split]]].
  - (* terms *)
    intros t Hs. destruct t as [y| |y b|r bs b|f a|a|a b|args|es|arg|cs|ts e|e|e|fs|stat incl dyn|e|ty c]; cbn [collect].
    + (* Var *) split; intros H.
      * destruct H as [H|[]]. subst. constructor.
      * inversion H; subst. left. reflexivity.
    + (* Leaf *) split; intros H; [destruct H | inversion H].
    + (* Fun *) cbn [size] in Hs. rewrite In_minus, IHt by lia. split; intros H.
      * destruct H as [H1 H2]. constructor; [exact H1|]. intros ->. apply H2. left. reflexivity.
      * inversion H; subst. split; [assumption|]. intros [E|[]]. congruence.
    + (* Let *) cbn [size] in Hs. destruct r.
      * rewrite In_minus, in_app_iff, in_flat_map. split; intros H.
        -- destruct H as [[[[y e] [Hin Hx]]|Hb] Hn].
           ++ cbn [snd] in Hx. apply IHt in Hx.
              ** eapply F_LetRecBound; eassumption.
              ** pose proof (In_list_sum (fun p => size (snd p)) _ _ Hin) as Hle. cbn [snd] in Hle. lia.
           ++ apply IHt in Hb; [|lia]. apply F_LetRecBody; assumption.
        -- inversion H; subst.
           ++ split; [|assumption]. left. exists (y, e). split; [assumption|]. cbn [snd].
              apply IHt; [|assumption].
              match goal with Hin : In (y, e) _ |- _ =>
                pose proof (In_list_sum (fun p => size (snd p)) _ _ Hin) as Hle end. cbn [snd] in Hle. lia.
           ++ split; [|assumption]. right. apply IHt; [lia|assumption].
      * rewrite in_app_iff, in_flat_map, In_minus. split; intros H.
        -- destruct H as [[[y e] [Hin Hx]]|[Hb Hn]].
           ++ cbn [snd] in Hx. apply IHt in Hx.
              ** eapply F_LetBound; eassumption.
              ** pose proof (In_list_sum (fun p => size (snd p)) _ _ Hin) as Hle. cbn [snd] in Hle. lia.
           ++ apply IHt in Hb; [|lia]. apply F_LetBody; assumption.
        -- inversion H; subst.
           ++ left. exists (y, e). split; [assumption|]. cbn [snd].
              apply IHt; [|assumption].
              match goal with Hin : In (y, e) _ |- _ =>
                pose proof (In_list_sum (fun p => size (snd p)) _ _ Hin) as Hle end. cbn [snd] in Hle. lia.
           ++ right. split; [|assumption]. apply IHt; [lia|assumption].
    + (* App *) cbn [size] in Hs. rewrite in_app_iff, !IHt by lia. split; intros H.
      * destruct H; [apply F_AppL | apply F_AppR]; assumption.
      * inversion H; subst; [left|right]; assumption.
    + (* Op1 *) cbn [size] in Hs. rewrite IHt by lia. split; intros H; [constructor; assumption | inversion H; assumption].
    + (* Op2 *) cbn [size] in Hs. rewrite in_app_iff, !IHt by lia. split; intros H.
      * destruct H; [apply F_Op2L | apply F_Op2R]; assumption.
      * inversion H; subst; [left|right]; assumption.
    + (* OpN *) cbn [size] in Hs. rewrite in_flat_map. split; intros H.
      * destruct H as [a [Hin Hx]]. pose proof (In_list_sum size _ _ Hin).
        apply IHt in Hx; [|lia]. eapply F_OpN; eassumption.
      * inversion H; subst. exists a. split; [assumption|].
        match goal with Hin : In a _ |- _ => pose proof (In_list_sum size _ _ Hin) end.
        apply IHt; [lia|assumption].
    + (* Arr *) cbn [size] in Hs. rewrite in_flat_map. split; intros H.
      * destruct H as [a [Hin Hx]]. pose proof (In_list_sum size _ _ Hin).
        apply IHt in Hx; [|lia]. eapply F_Arr; eassumption.
      * inversion H; subst. exists e. split; [assumption|].
        match goal with Hin : In e _ |- _ => pose proof (In_list_sum size _ _ Hin) end.
        apply IHt; [lia|assumption].
    + (* EnumV *) destruct arg as [a|]; cbn [size] in Hs.
      * rewrite IHt by lia. split; intros H; [constructor; assumption | inversion H; assumption].
      * split; intros H; [destruct H | inversion H].
    + (* Chunks *) cbn [size] in Hs. rewrite in_flat_map. split; intros H.
      * destruct H as [[e|] [Hin Hx]]; [|destruct Hx].
        pose proof (In_list_sum (fun c => match c with Some e => size e | None => 0 end) _ _ Hin) as Hle.
        cbn in Hle. apply IHt in Hx; [|lia]. eapply F_Chunk; eassumption.
      * inversion H; subst. exists (Some e). split; [assumption|].
        match goal with Hin : In (Some e) _ |- _ =>
          pose proof (In_list_sum (fun c => match c with Some e => size e | None => 0 end) _ _ Hin) as Hle end.
        cbn in Hle. apply IHt; [lia|assumption].
    + (* Annot *) cbn [size] in Hs. rewrite in_app_iff, in_flat_map. split; intros H.
      * destruct H as [[t [Hin Hx]]|H].
        -- pose proof (In_list_sum size_ty _ _ Hin). apply IHty in Hx; [|lia]. eapply F_AnnotTy; eassumption.
        -- apply IHt in H; [|lia]. apply F_AnnotTm. assumption.
      * inversion H; subst.
        -- left. exists t. split; [assumption|].
           match goal with Hin : In t _ |- _ => pose proof (In_list_sum size_ty _ _ Hin) end.
           apply IHty; [lia|assumption].
        -- right. apply IHt; [lia|assumption].
    + (* Sealed *) cbn [size] in Hs. rewrite IHt by lia. split; intros H; [constructor; assumption | inversion H; assumption].
    + (* Closurize *) cbn [size] in Hs. rewrite IHt by lia. split; intros H; [constructor; assumption | inversion H; assumption].
    + (* RecVal *) cbn [size] in Hs. rewrite in_flat_map. split; intros H.
      * destruct H as [[k f] [Hin Hx]]. cbn [snd] in Hx.
        pose proof (In_list_sum (fun p => size_field (snd p)) _ _ Hin) as Hle. cbn [snd] in Hle.
        apply IHf in Hx; [|lia]. eapply F_RecVal; eassumption.
      * inversion H; subst. exists (k, f). split; [assumption|]. cbn [snd].
        match goal with Hin : In (k, f) _ |- _ =>
          pose proof (In_list_sum (fun p => size_field (snd p)) _ _ Hin) as Hle end. cbn [snd] in Hle.
        apply IHf; [lia|assumption].
    + (* RecRec *) cbn [size] in Hs. cbv zeta. rewrite !in_app_iff, !in_flat_map. split; intros H.
      * destruct H as [[[k ts] [Hin Hx]]|[[[k f] [Hin Hx]]|[[nm f] [Hin Hx]]]].
        -- cbn [fst snd] in Hx. rewrite in_app_iff, In_minus, in_flat_map in Hx.
           destruct Hx as [[[t [Ht Hx]] Hn]|[E|[]]].
           ++ pose proof (In_list_sum (fun p => list_sum (map size_ty (snd p))) _ _ Hin) as Hle. cbn [snd] in Hle.
              pose proof (In_list_sum size_ty _ _ Ht).
              apply IHty in Hx; [|lia]. eapply F_RecInclAnn; eassumption.
           ++ subst. eapply F_RecInclName. eassumption.
        -- cbn [snd] in Hx. rewrite In_minus in Hx. destruct Hx as [Hx Hn].
           pose proof (In_list_sum (fun p => size_field (snd p)) _ _ Hin) as Hle. cbn [snd] in Hle.
           apply IHf in Hx; [|lia]. eapply F_RecStat; eassumption.
        -- cbn [fst snd] in Hx. rewrite in_app_iff, In_minus in Hx.
           pose proof (In_list_sum (fun p => size (fst p) + size_field (snd p)) _ _ Hin) as Hle. cbn [fst snd] in Hle.
           destruct Hx as [Hx|[Hx Hn]].
           ++ apply IHt in Hx; [|lia]. eapply F_RecDynName; eassumption.
           ++ apply IHf in Hx; [|lia]. eapply F_RecDynField; eassumption.
      * inversion H; subst.
        -- left. exists (x, ts). split; [assumption|]. cbn [fst snd]. rewrite in_app_iff. right. left. reflexivity.
        -- left. exists (k, ts). split; [assumption|]. cbn [fst snd]. rewrite in_app_iff, In_minus, in_flat_map.
           left. split; [|assumption]. exists t. split; [assumption|].
           match goal with Hin : In (k, ts) _ |- _ =>
             pose proof (In_list_sum (fun p => list_sum (map size_ty (snd p))) _ _ Hin) as Hle end. cbn [snd] in Hle.
           match goal with Ht : In t ts |- _ => pose proof (In_list_sum size_ty _ _ Ht) end.
           apply IHty; [lia|assumption].
        -- right. left. exists (k, f). split; [assumption|]. cbn [snd]. rewrite In_minus. split; [|assumption].
           match goal with Hin : In (k, f) _ |- _ =>
             pose proof (In_list_sum (fun p => size_field (snd p)) _ _ Hin) as Hle end. cbn [snd] in Hle.
           apply IHf; [lia|assumption].
        -- match goal with Hin : In (?nm, ?f) dyn |- _ =>
             right; right; exists (nm, f); split; [assumption|]; cbn [fst snd]; rewrite in_app_iff; left;
             pose proof (In_list_sum (fun p => size (fst p) + size_field (snd p)) _ _ Hin) as Hle end. cbn [fst snd] in Hle.
           apply IHt; [lia|assumption].
        -- match goal with Hin : In (?nm, ?f) dyn |- _ =>
             right; right; exists (nm, f); split; [assumption|]; cbn [fst snd]; rewrite in_app_iff, In_minus; right;
             split; [|assumption];
             pose proof (In_list_sum (fun p => size (fst p) + size_field (snd p)) _ _ Hin) as Hle end. cbn [fst snd] in Hle.
           apply IHf; [lia|assumption].
    + (* CustomCtr *) cbn [size] in Hs. rewrite IHt by lia. split; intros H; [constructor; assumption | inversion H; assumption].
    + (* TypeV *) cbn [size] in Hs. rewrite in_app_iff, IHty, IHt by lia. split; intros H.
      * destruct H; [apply F_TypeVTy | apply F_TypeVCtr]; assumption.
      * inversion H; subst; [left|right]; assumption.
  - (* types *)
    intros t Hs. destruct t as [|y|y b|b|b|a b|r|e|c]; cbn [collect_ty]; cbn [size_ty] in Hs.
    + split; intros H; [destruct H | inversion H].
    + split; intros H; [destruct H | inversion H].
    + rewrite IHty by lia. split; intros H; [constructor; assumption | inversion H; assumption].
    + rewrite IHty by lia. split; intros H; [constructor; assumption | inversion H; assumption].
    + rewrite IHty by lia. split; intros H; [constructor; assumption | inversion H; assumption].
    + rewrite in_app_iff, !IHty by lia. split; intros H.
      * destruct H; [apply FT_ArrowL | apply FT_ArrowR]; assumption.
      * inversion H; subst; [left|right]; assumption.
    + rewrite IHr by lia. split; intros H; [constructor; assumption | inversion H; assumption].
    + rewrite IHe by lia. split; intros H; [constructor; assumption | inversion H; assumption].
    + rewrite IHt by lia. split; intros H; [constructor; assumption | inversion H; assumption].
  - (* record rows *)
    intros r Hs. destruct r as [| |y|id t tl]; cbn [collect_rrows]; cbn [size_rrows] in Hs;
      try (split; intros H; [destruct H | inversion H]).
    rewrite in_app_iff, IHty, IHr by lia. split; intros H.
    + destruct H; [apply FR_Here | apply FR_Next]; assumption.
    + inversion H; subst; [left|right]; assumption.
  - (* enum rows *)
    intros e Hs. destruct e as [| |id [t|] tl]; cbn [collect_erows]; cbn [size_erows] in Hs;
      try (split; intros H; [destruct H | inversion H]).
    + rewrite in_app_iff, IHty, IHe by lia. split; intros H.
      * destruct H; [apply FE_Here | apply FE_Next]; assumption.
      * inversion H; subst; [left|right]; assumption.
    + rewrite IHe by lia. split; intros H; [apply FE_Next; assumption | inversion H; assumption].
  - (* fields *)
    intros f Hs. destruct f as [anns v]. cbn [collect_field]. cbn [size_field] in Hs.
    rewrite in_app_iff, in_flat_map. split; intros H.
    + destruct H as [[t [Hin Hx]]|H].
      * pose proof (In_list_sum size_ty _ _ Hin). apply IHty in Hx; [|lia]. eapply FF_Ann; eassumption.
      * destruct v as [e|]; [|destruct H]. apply IHt in H; [|lia]. apply FF_Val. assumption.
    + inversion H; subst.
      * left. exists t. split; [assumption|].
        match goal with Hin : In t anns |- _ => pose proof (In_list_sum size_ty _ _ Hin) end.
        apply IHty; [lia|assumption].
      * right. apply IHt; [lia|assumption].
Qed.

Theorem collect_sound_complete : forall t x, In x (collect false t) <-> free x t.
Proof. intros t x. apply (proj1 (collect_all (S (size t)) x)). lia. Qed.

Theorem collect_ty_sound_complete : forall t x, In x (collect_ty false t) <-> free_ty x t.
Proof. intros t x. apply (proj1 (proj2 (collect_all (S (size_ty t)) x))). lia. Qed.

Theorem collect_field_sound_complete : forall f x, In x (collect_field false f) <-> free_field x f.
Proof. intros f x. apply (proj2 (proj2 (proj2 (proj2 (collect_all (S (size_field f)) x))))). lia. Qed.

(* ------------------------------------------------------------------------- the dependency tables *)
(* the dependencies recorded for a field are exactly the recursive fields free in its definition *)
Theorem field_deps_exact : forall recf f x,
  In x (inter (collect_field false f) recf) <-> free_field x f /\ In x recf.
Proof. intros. rewrite In_inter, collect_field_sound_complete. reflexivity. Qed.

Theorem deps_complete_stat : forall stat incl k f x,
  In (k, f) stat -> free_field x f -> In x (rec_fields stat incl) ->
  exists d, In (k, d) (deps_stat false stat incl) /\ In x d.
Proof.
  intros stat incl k f x Hin Hfree Hrec.
  exists (inter (collect_field false f) (rec_fields stat incl)). split.
  - unfold deps_stat. rewrite in_app_iff. right. apply in_map_iff. exists (k, f). split; [reflexivity|assumption].
  - apply field_deps_exact. split; assumption.
Qed.

Theorem deps_complete_incl : forall stat incl k ts t x,
  In (k, ts) incl -> In t ts -> free_ty x t -> In x (rec_fields stat incl) ->
  exists d, In (k, d) (deps_stat false stat incl) /\ In x d.
Proof.
  intros stat incl k ts t x Hin Ht Hfree Hrec.
  exists (inter (collect_annots false ts) (rec_fields stat incl)). split.
  - unfold deps_stat. rewrite in_app_iff. left. apply in_map_iff. exists (k, ts). split; [reflexivity|assumption].
  - apply In_inter. split; [|assumption]. unfold collect_annots. apply in_flat_map. exists t. split; [assumption|].
    apply collect_ty_sound_complete. assumption.
Qed.

Theorem deps_complete_dyn : forall stat incl dyn i nm f x,
  nth_error dyn i = Some (nm, f) -> free_field x f -> In x (rec_fields stat incl) ->
  exists d, nth_error (deps_dyn false stat incl dyn) i = Some d /\ In x d.
Proof.
  intros stat incl dyn i nm f x Hnth Hfree Hrec.
  exists (inter (collect_field false f) (rec_fields stat incl)). split.
  - unfold deps_dyn. rewrite nth_error_map, Hnth. reflexivity.
  - apply field_deps_exact. split; assumption.
Qed.

(* conversely nothing else is recorded: every recorded dependency is a recursive field that occurs
   free in the definition (so that a field without free recursive fields gets a standard thunk) *)
Theorem deps_sound_stat : forall stat incl k d x,
  In (k, d) (deps_stat false stat incl) -> In x d ->
  In x (rec_fields stat incl) /\
  ((exists f, In (k, f) stat /\ free_field x f) \/ (exists ts t, In (k, ts) incl /\ In t ts /\ free_ty x t)).
Proof.
  intros stat incl k d x Hin Hx. unfold deps_stat in Hin. rewrite in_app_iff, !in_map_iff in Hin.
  destruct Hin as [[[k' ts] [E Hin]]|[[k' f] [E Hin]]]; cbn [fst snd] in E; inversion E; subst; clear E.
  - apply In_inter in Hx. destruct Hx as [Hx Hr]. split; [assumption|]. right.
    unfold collect_annots in Hx. apply in_flat_map in Hx. destruct Hx as [t [Ht Hx]].
    exists ts, t. repeat split; try assumption. apply collect_ty_sound_complete. assumption.
  - apply field_deps_exact in Hx. destruct Hx as [Hx Hr]. split; [assumption|]. left. exists f. split; assumption.
Qed.

(* ------------------------------------------------------------------------- the defect fixed by a9a5295
   { Ctr = Number, x | [| 'A Ctr |] = 'A 1 }   with Ctr = 0, x = 1, Number (a Type value whose
   contract is the variable $number = 2), 'A = 3 *)
Definition enum_witness_stat : list (N * field) :=
  [ (0%N, Fld [] (Some (TypeV TAtom (CustomCtr (Var 2%N)))));
    (1%N, Fld [TEnum (ERExt 3%N (Some (TContract (Var 0%N))) EREmpty)] (Some (Closurize (EnumV (Some Leaf))))) ].

Theorem deps_pre_fix_refuted :
  exists stat incl k f x,
    In (k, f) stat /\ free_field x f /\ In x (rec_fields stat incl) /\
    ~ (exists d, In (k, d) (deps_stat true stat incl) /\ In x d).
Proof.
  exists enum_witness_stat, [], 1%N,
    (Fld [TEnum (ERExt 3%N (Some (TContract (Var 0%N))) EREmpty)] (Some (Closurize (EnumV (Some Leaf))))), 0%N.
  split; [right; left; reflexivity|]. split.
  { eapply FF_Ann; [left; reflexivity|]. constructor. apply FE_Here. constructor. constructor. }
  split; [left; reflexivity|].
  intros [d [Hin Hx]]. vm_compute in Hin.
  destruct Hin as [E|[E|[]]]; inversion E; subst; destruct Hx.
Qed.

(* the same record with the current analysis *)
Example enum_witness_fixed :
  deps_stat false enum_witness_stat [] = [(0%N, []); (1%N, [0%N])].
Proof. reflexivity. Qed.

(* ------------------------------------------------------------------------- satisfiability examples *)
(* { a = 1, b = fun a => a, c = a + d, "%{a}" = c, include e | a }  (a..e = 0..4) *)
Example deps_example :
  let stat := [ (0%N, Fld [] (Some Leaf)); (1%N, Fld [] (Some (Fun 0%N (Var 0%N))));
                (2%N, Fld [] (Some (Op2 (Var 0%N) (Var 3%N)))) ] in
  let incl := [ (4%N, [TContract (Var 0%N)]) ] in
  let dyn := [ (Chunks [Some (Var 0%N)], Fld [] (Some (Var 2%N))) ] in
  deps_stat false stat incl = [(4%N, [0%N]); (0%N, []); (1%N, []); (2%N, [0%N])]
  /\ deps_dyn false stat incl dyn = [[2%N]]
  /\ collect false (RecRec stat incl dyn) = [4%N; 3%N; 0%N].
Proof. repeat split. Qed.
