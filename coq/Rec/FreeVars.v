(* C07, part A -- the dependency analysis of recursive records.

   Mirrors core/src/transform/free_vars.rs ([CollectFreeVars] for NickelValue, Term, Type,
   RecordRows, EnumRows, TypeAnnotation, Field, Include, FunData, LetData, RecRecordData, Op1Data,
   Op2Data, OpNData, AnnotatedData, AppData) on a syntax that has one constructor per case the Rust
   code distinguishes.  The Rust functions add to a mutable [HashSet]; here [collect t] is the list of
   identifiers added (order and multiplicity are irrelevant: every consumer below is [In]).

   Identifiers are numbers (the harness interns [Ident]s).  This file contains definitions only
   (it is extracted); the specification [free] is an independent inductive predicate; the proofs
   are in FreeVarsProofs.v. *)
From Coq Require Import List NArith Bool.
Import ListNotations.

(* ------------------------------------------------------------------------- syntax *)
Inductive tm : Type :=
| Var (x : N)                                    (* Term::Var *)
| Leaf                                           (* Null Bool Number String Label ForeignId SealingKey,
                                                    empty Array/Record containers, Term::ParseError
                                                    RuntimeError Import ResolvedImport *)
| Fun (x : N) (b : tm)                           (* Term::Fun *)
| Let (r : bool) (bs : list (N * tm)) (b : tm)   (* Term::Let, attrs.rec *)
| App (f a : tm)                                 (* Term::App *)
| Op1 (a : tm)                                   (* Term::Op1 *)
| Op2 (a b : tm)                                 (* Term::Op2 *)
| OpN (args : list tm)                           (* Term::OpN *)
| Arr (es : list tm)                             (* value Array(Alloc) : the elements *)
| EnumV (arg : option tm)                        (* value EnumVariant *)
| Chunks (cs : list (option tm))                 (* Term::StrChunks; None = literal chunk *)
| Annot (ts : list ty) (e : tm)                  (* Term::Annotated: annot.iter() then inner *)
| Sealed (e : tm)                                (* Term::Sealed *)
| Closurize (e : tm)                             (* Term::Closurize *)
| RecVal (fs : list (N * field))                 (* value Record(Alloc): not recursive *)
| RecRec (stat : list (N * field))               (* Term::RecRecord: record.fields, *)
         (incl : list (N * list ty))             (*   includes (ident, metadata.annotation), *)
         (dyn : list (tm * field))               (*   dyn_fields *)
| CustomCtr (e : tm)                             (* value CustomContract *)
| TypeV (t : ty) (c : tm)                        (* value Type: typ and contract *)
with ty : Type :=
| TAtom                                          (* Dyn Number Bool String ForeignId Symbol Wildcard *)
| TVar (x : N)                                   (* TypeF::Var: a type variable, not a term variable *)
| TForall (x : N) (t : ty)
| TDict (t : ty)
| TArray (t : ty)
| TArrow (a b : ty)
| TRecord (r : rrows)
| TEnum (e : erows)
| TContract (t : tm)
with rrows : Type :=
| RREmpty | RRDyn | RRVar (x : N)
| RRExt (id : N) (t : ty) (tl : rrows)
with erows : Type :=
| EREmpty | ERVar (x : N)
| ERExt (id : N) (t : option ty) (tl : erows)
with field : Type :=
| Fld (anns : list ty) (v : option tm).          (* metadata.annotation.iter(), value *)

(* ------------------------------------------------------------------------- finite sets as lists *)
Definition mem (x : N) (l : list N) : bool := existsb (N.eqb x) l.
Definition minus (l r : list N) : list N := filter (fun x => negb (mem x r)) l.    (* &l - &r *)
Definition inter (l r : list N) : list N := filter (fun x => mem x r) l.           (* &l & &r *)

(* ------------------------------------------------------------------------- the analysis
   [bug = true] is the code before fix a9a5295 ([TypeF::Enum(_) => ()]). *)
Section Collect.
Variable bug : bool.

Fixpoint collect (t : tm) : list N :=
  match t with
  | Var x => [x]
  | Leaf => []
  | Fun x b => minus (collect b) [x]
  | Let false bs b =>
      (* values go to the outer set, the body to a fresh set from which the bound names are removed *)
      flat_map (fun p => collect (snd p)) bs ++ minus (collect b) (map fst bs)
  | Let true bs b =>
      minus (flat_map (fun p => collect (snd p)) bs ++ collect b) (map fst bs)
  | App f a => collect f ++ collect a
  | Op1 a => collect a
  | Op2 a b => collect a ++ collect b
  | OpN args => flat_map collect args
  | Arr es => flat_map collect es
  | EnumV None => []
  | EnumV (Some a) => collect a
  | Chunks cs => flat_map (fun c => match c with Some e => collect e | None => [] end) cs
  | Annot ts e => flat_map collect_ty ts ++ collect e
  | Sealed e => collect e
  | Closurize e => collect e
  | RecVal fs => flat_map (fun p => collect_field (snd p)) fs
  | RecRec stat incl dyn =>
      let recf := map fst stat ++ map fst incl in
      flat_map (fun p => minus (flat_map collect_ty (snd p)) recf ++ [fst p]) incl
      ++ flat_map (fun p => minus (collect_field (snd p)) recf) stat
      ++ flat_map (fun p => collect (fst p) ++ minus (collect_field (snd p)) recf) dyn
  | CustomCtr e => collect e
  | TypeV t c => collect_ty t ++ collect c
  end
with collect_ty (t : ty) : list N :=
  match t with
  | TAtom | TVar _ => []
  | TForall _ b => collect_ty b
  | TDict b => collect_ty b
  | TArray b => collect_ty b
  | TArrow a b => collect_ty a ++ collect_ty b
  | TRecord r => collect_rrows r
  | TEnum e => if bug then [] else collect_erows e
  | TContract c => collect c
  end
with collect_rrows (r : rrows) : list N :=
  match r with
  | RREmpty | RRDyn | RRVar _ => []
  | RRExt _ t tl => collect_ty t ++ collect_rrows tl
  end
with collect_erows (e : erows) : list N :=
  match e with
  | EREmpty | ERVar _ => []
  | ERExt _ None tl => collect_erows tl
  | ERExt _ (Some t) tl => collect_ty t ++ collect_erows tl
  end
with collect_field (f : field) : list N :=
  match f with
  | Fld anns v => flat_map collect_ty anns ++ match v with Some t => collect t | None => [] end
  end.

Definition collect_annots (ts : list ty) : list N := flat_map collect_ty ts.

(* The [RecordDeps] stored by [CollectFreeVars for RecRecordData]: stat_fields (includes first,
   then the static fields) and dyn_fields (by index). *)
Definition rec_fields (stat : list (N * field)) (incl : list (N * list ty)) : list N :=
  map fst stat ++ map fst incl.

Definition deps_stat (stat : list (N * field)) (incl : list (N * list ty)) : list (N * list N) :=
  let recf := rec_fields stat incl in
  map (fun p => (fst p, inter (collect_annots (snd p)) recf)) incl
  ++ map (fun p => (fst p, inter (collect_field (snd p)) recf)) stat.

Definition deps_dyn (stat : list (N * field)) (incl : list (N * list ty)) (dyn : list (tm * field))
  : list (list N) :=
  let recf := rec_fields stat incl in
  map (fun p => inter (collect_field (snd p)) recf) dyn.

(* every record literal of a term with its dependency table, in a fixed traversal order (used by
   the correspondence run only) *)
Fixpoint all_deps (t : tm) : list (list (N * list N) * list (list N)) :=
  match t with
  | Var _ | Leaf => []
  | Fun _ b => all_deps b
  | Let _ bs b => flat_map (fun p => all_deps (snd p)) bs ++ all_deps b
  | App f a => all_deps f ++ all_deps a
  | Op1 a => all_deps a
  | Op2 a b => all_deps a ++ all_deps b
  | OpN args => flat_map all_deps args
  | Arr es => flat_map all_deps es
  | EnumV None => []
  | EnumV (Some a) => all_deps a
  | Chunks cs => flat_map (fun c => match c with Some e => all_deps e | None => [] end) cs
  | Annot ts e => flat_map all_deps_ty ts ++ all_deps e
  | Sealed e => all_deps e
  | Closurize e => all_deps e
  | RecVal fs => flat_map (fun p => all_deps_field (snd p)) fs
  | RecRec stat incl dyn =>
      (deps_stat stat incl, deps_dyn stat incl dyn)
      :: flat_map (fun p => flat_map all_deps_ty (snd p)) incl
      ++ flat_map (fun p => all_deps_field (snd p)) stat
      ++ flat_map (fun p => all_deps (fst p) ++ all_deps_field (snd p)) dyn
  | CustomCtr e => all_deps e
  | TypeV t c => all_deps_ty t ++ all_deps c
  end
with all_deps_ty (t : ty) : list (list (N * list N) * list (list N)) :=
  match t with
  | TAtom | TVar _ => []
  | TForall _ b => all_deps_ty b
  | TDict b => all_deps_ty b
  | TArray b => all_deps_ty b
  | TArrow a b => all_deps_ty a ++ all_deps_ty b
  | TRecord r => all_deps_rrows r
  | TEnum e => all_deps_erows e
  | TContract c => all_deps c
  end
with all_deps_rrows (r : rrows) : list (list (N * list N) * list (list N)) :=
  match r with
  | RREmpty | RRDyn | RRVar _ => []
  | RRExt _ t tl => all_deps_ty t ++ all_deps_rrows tl
  end
with all_deps_erows (e : erows) : list (list (N * list N) * list (list N)) :=
  match e with
  | EREmpty | ERVar _ => []
  | ERExt _ None tl => all_deps_erows tl
  | ERExt _ (Some t) tl => all_deps_ty t ++ all_deps_erows tl
  end
with all_deps_field (f : field) : list (list (N * list N) * list (list N)) :=
  match f with
  | Fld anns v => flat_map all_deps_ty anns ++ match v with Some t => all_deps t | None => [] end
  end.

End Collect.

(* ------------------------------------------------------------------------- specification
   [free x t]: the term variable [x] occurs in [t] at a variable position that is not under a
   binder for [x].  One rule per syntactic position.  Binders: [Fun], [Let] (a non-recursive let
   binds in the body only, a recursive one in the bound terms too), and record literals, which
   bind the names of their static and included fields in the annotations and values of all their
   fields -- but not in the name expressions of dynamic fields.  [include x] is an occurrence of
   the outer [x].  Types bind no term variable ([forall] binds type variables only). *)
Inductive free (x : N) : tm -> Prop :=
| F_Var : free x (Var x)
| F_Fun : forall y b, free x b -> x <> y -> free x (Fun y b)
| F_LetBound : forall bs b y e, In (y, e) bs -> free x e -> free x (Let false bs b)
| F_LetBody : forall bs b, free x b -> ~ In x (map fst bs) -> free x (Let false bs b)
| F_LetRecBound : forall bs b y e, In (y, e) bs -> free x e -> ~ In x (map fst bs) -> free x (Let true bs b)
| F_LetRecBody : forall bs b, free x b -> ~ In x (map fst bs) -> free x (Let true bs b)
| F_AppL : forall f a, free x f -> free x (App f a)
| F_AppR : forall f a, free x a -> free x (App f a)
| F_Op1 : forall a, free x a -> free x (Op1 a)
| F_Op2L : forall a b, free x a -> free x (Op2 a b)
| F_Op2R : forall a b, free x b -> free x (Op2 a b)
| F_OpN : forall args a, In a args -> free x a -> free x (OpN args)
| F_Arr : forall es e, In e es -> free x e -> free x (Arr es)
| F_EnumV : forall a, free x a -> free x (EnumV (Some a))
| F_Chunk : forall cs e, In (Some e) cs -> free x e -> free x (Chunks cs)
| F_AnnotTy : forall ts e t, In t ts -> free_ty x t -> free x (Annot ts e)
| F_AnnotTm : forall ts e, free x e -> free x (Annot ts e)
| F_Sealed : forall e, free x e -> free x (Sealed e)
| F_Closurize : forall e, free x e -> free x (Closurize e)
| F_RecVal : forall fs k f, In (k, f) fs -> free_field x f -> free x (RecVal fs)
| F_RecInclName : forall stat incl dyn ts, In (x, ts) incl -> free x (RecRec stat incl dyn)
| F_RecInclAnn : forall stat incl dyn k ts t,
    In (k, ts) incl -> In t ts -> free_ty x t -> ~ In x (map fst stat ++ map fst incl) ->
    free x (RecRec stat incl dyn)
| F_RecStat : forall stat incl dyn k f,
    In (k, f) stat -> free_field x f -> ~ In x (map fst stat ++ map fst incl) ->
    free x (RecRec stat incl dyn)
| F_RecDynName : forall stat incl dyn n f,
    In (n, f) dyn -> free x n -> free x (RecRec stat incl dyn)
| F_RecDynField : forall stat incl dyn n f,
    In (n, f) dyn -> free_field x f -> ~ In x (map fst stat ++ map fst incl) ->
    free x (RecRec stat incl dyn)
| F_CustomCtr : forall e, free x e -> free x (CustomCtr e)
| F_TypeVTy : forall t c, free_ty x t -> free x (TypeV t c)
| F_TypeVCtr : forall t c, free x c -> free x (TypeV t c)
with free_ty (x : N) : ty -> Prop :=
| FT_Forall : forall y b, free_ty x b -> free_ty x (TForall y b)
| FT_Dict : forall b, free_ty x b -> free_ty x (TDict b)
| FT_Array : forall b, free_ty x b -> free_ty x (TArray b)
| FT_ArrowL : forall a b, free_ty x a -> free_ty x (TArrow a b)
| FT_ArrowR : forall a b, free_ty x b -> free_ty x (TArrow a b)
| FT_Record : forall r, free_rrows x r -> free_ty x (TRecord r)
| FT_Enum : forall e, free_erows x e -> free_ty x (TEnum e)
| FT_Contract : forall c, free x c -> free_ty x (TContract c)
with free_rrows (x : N) : rrows -> Prop :=
| FR_Here : forall id t tl, free_ty x t -> free_rrows x (RRExt id t tl)
| FR_Next : forall id t tl, free_rrows x tl -> free_rrows x (RRExt id t tl)
with free_erows (x : N) : erows -> Prop :=
| FE_Here : forall id t tl, free_ty x t -> free_erows x (ERExt id (Some t) tl)
| FE_Next : forall id t tl, free_erows x tl -> free_erows x (ERExt id t tl)
with free_field (x : N) : field -> Prop :=
| FF_Ann : forall anns v t, In t anns -> free_ty x t -> free_field x (Fld anns v)
| FF_Val : forall anns e, free x e -> free_field x (Fld anns (Some e)).
