(* C07, part B -- facts about the specification S (Spec.v): reading a field only depends on which
   of the variables that occur in a body its scope contains ([sb_sim]); merging is computed per
   field name ([slookup_smerge]) and respects that equivalence. *)
From Coq Require Import List NArith ZArith Bool Lia.
Import ListNotations.
From NV Require Import Rec.Lang Rec.Spec.

(* ------------------------------------------------------------------------- lists as sets *)
Lemma mem_In : forall x l, mem x l = true <-> In x l.
Proof.
  intros x l. unfold mem. rewrite existsb_exists. split.
  - intros [y [Hy He]]. apply N.eqb_eq in He. subst. exact Hy.
  - intros H. exists x. split; [exact H | apply N.eqb_refl].
Qed.

Lemma mem_false : forall x l, mem x l = false <-> ~ In x l.
Proof.
  intros x l. rewrite <- mem_In. destruct (mem x l); split; intros H.
  - discriminate.
  - exfalso. apply H. reflexivity.
  - intros H'. discriminate.
  - reflexivity.
Qed.

Lemma mem_ext : forall x l l', (In x l <-> In x l') -> mem x l = mem x l'.
Proof.
  intros x l l' H. destruct (mem x l) eqn:E1; destruct (mem x l') eqn:E2; try reflexivity.
  - apply mem_In in E1. apply H in E1. apply mem_In in E1. congruence.
  - apply mem_In in E2. apply H in E2. apply mem_In in E2. congruence.
Qed.

Lemma mem_filter : forall x p l, mem x (filter p l) = mem x l && p x.
Proof.
  intros x p l. induction l as [|a l IH]; [reflexivity|].
  cbn [filter]. destruct (p a) eqn:Ep.
  - unfold mem in *. cbn [existsb]. rewrite IH. destruct (N.eqb x a) eqn:E.
    + apply N.eqb_eq in E. subst. rewrite Ep. cbn. reflexivity.
    + cbn. reflexivity.
  - unfold mem in *. cbn [existsb]. rewrite IH. destruct (N.eqb x a) eqn:E.
    + apply N.eqb_eq in E. subst. rewrite Ep. cbn. rewrite andb_false_r. reflexivity.
    + cbn. reflexivity.
Qed.

(* ------------------------------------------------------------------------- evaluation *)
Lemma eval_tm_ext : forall t look look',
  (forall x, In x (vars t) -> look x = look' x) -> eval_tm look t = eval_tm look' t.
Proof.
  induction t as [z|x|o|a IHa b IHb|a IHa b IHb|a IHa b IHb t IHt e IHe]; intros look look' H; cbn [eval_tm].
  - reflexivity.
  - apply H. left. reflexivity.
  - reflexivity.
  - cbn [vars] in H. rewrite (IHa look look'), (IHb look look'); [reflexivity| |];
      intros x Hx; apply H; rewrite !in_app_iff; tauto.
  - cbn [vars] in H. rewrite (IHa look look'), (IHb look look'); [reflexivity| |];
      intros x Hx; apply H; rewrite !in_app_iff; tauto.
  - cbn [vars] in H.
    rewrite (IHa look look'), (IHb look look'), (IHt look look'), (IHe look look'); [reflexivity| | | |];
      intros x Hx; apply H; rewrite !in_app_iff; tauto.
Qed.

Lemma eval_src_ext : forall s look look',
  (forall x, In x (svars s) -> look x = look' x) -> eval_src look s = eval_src look' s.
Proof.
  intros [t|l] look look' H; cbn [eval_src]; [apply eval_tm_ext; exact H | reflexivity].
Qed.

(* ------------------------------------------------------------------------- the equivalence *)
Inductive sb_sim : sbody -> sbody -> Prop :=
| sim_leaf : forall sc sc' t,
    (forall x, In x (svars t) -> mem x sc = mem x sc') -> sb_sim (SLeaf sc t) (SLeaf sc' t)
| sim_merge : forall l l' r r', sb_sim l l' -> sb_sim r r' -> sb_sim (SMerge2 l r) (SMerge2 l' r').

Definition osb_sim (o o' : option sbody) : Prop :=
  match o, o' with
  | Some b, Some b' => sb_sim b b'
  | None, None => True
  | _, _ => False
  end.

Definition ctrs_sim (cs cs' : list (ckind * sbody)) : Prop :=
  Forall2 (fun kc kc' => fst kc = fst kc' /\ sb_sim (snd kc) (snd kc')) cs cs'.

Definition sfld_sim (f f' : sfld) : Prop :=
  sprio f = sprio f' /\ osb_sim (sval f) (sval f') /\ ctrs_sim (sctrs f) (sctrs f').

Definition opt_sim (o o' : option sfld) : Prop :=
  match o, o' with
  | Some f, Some f' => sfld_sim f f'
  | None, None => True
  | _, _ => False
  end.

Definition srec_sim (R R' : srec) : Prop := forall k, opt_sim (slookup k R) (slookup k R').

Lemma sb_sim_refl : forall b, sb_sim b b.
Proof. induction b; constructor; auto. Qed.

Lemma sb_sim_sym : forall b b', sb_sim b b' -> sb_sim b' b.
Proof. induction 1; constructor; auto. intros x Hx. symmetry. auto. Qed.

Lemma sb_sim_trans : forall b1 b2 b3, sb_sim b1 b2 -> sb_sim b2 b3 -> sb_sim b1 b3.
Proof.
  intros b1 b2 b3 H. revert b3. induction H; intros b3 H3; inversion H3; subst; constructor; auto.
  intros x Hx. rewrite H by assumption. auto.
Qed.

Lemma osb_sim_refl : forall o, osb_sim o o.
Proof. destruct o; cbn; auto using sb_sim_refl. Qed.

Lemma ctrs_sim_refl : forall cs, ctrs_sim cs cs.
Proof. induction cs; constructor; auto using sb_sim_refl. Qed.

Lemma ctrs_sim_sym : forall cs cs', ctrs_sim cs cs' -> ctrs_sim cs' cs.
Proof. induction 1 as [|a b l l' [H1 H2] _ IH]; constructor; auto using sb_sim_sym. Qed.

Lemma ctrs_sim_trans : forall c1 c2 c3, ctrs_sim c1 c2 -> ctrs_sim c2 c3 -> ctrs_sim c1 c3.
Proof.
  intros c1 c2 c3 H. revert c3. induction H as [|a b l l' [H1 H2] _ IH]; intros c3 H3; inversion H3 as [|b' c l2 l3 [H1' H2'] HF]; subst; constructor.
  - split; [congruence | eapply sb_sim_trans; eassumption].
  - apply IH. assumption.
Qed.

Lemma ctrs_sim_app : forall a a' b b', ctrs_sim a a' -> ctrs_sim b b' -> ctrs_sim (a ++ b) (a' ++ b').
Proof. intros. apply Forall2_app; assumption. Qed.

Lemma sfld_sim_refl : forall f, sfld_sim f f.
Proof. intros f. split; [reflexivity | split; [apply osb_sim_refl | apply ctrs_sim_refl]]. Qed.

Lemma opt_sim_refl : forall o, opt_sim o o.
Proof. destruct o; cbn; auto using sfld_sim_refl. Qed.

Lemma srec_sim_refl : forall R, srec_sim R R.
Proof. intros R k. apply opt_sim_refl. Qed.

Lemma opt_sim_sym : forall o o', opt_sim o o' -> opt_sim o' o.
Proof.
  intros [f|] [f'|]; cbn; auto. intros (Hp & Hv & Hc). split; [auto|]. split; [|apply ctrs_sim_sym; exact Hc].
  destruct (sval f), (sval f'); cbn in *; auto using sb_sim_sym.
Qed.

Lemma srec_sim_sym : forall R R', srec_sim R R' -> srec_sim R' R.
Proof. intros R R' H k. apply opt_sim_sym. apply H. Qed.

Lemma opt_sim_trans : forall o1 o2 o3, opt_sim o1 o2 -> opt_sim o2 o3 -> opt_sim o1 o3.
Proof.
  intros [f1|] [f2|] [f3|]; cbn; auto; try tauto.
  intros (Hp & Hv & Hc) (Hp' & Hv' & Hc'). split; [congruence|]. split; [|eapply ctrs_sim_trans; eassumption].
  destruct (sval f1), (sval f2), (sval f3); cbn in *; try tauto. eauto using sb_sim_trans.
Qed.

Lemma srec_sim_trans : forall R1 R2 R3, srec_sim R1 R2 -> srec_sim R2 R3 -> srec_sim R1 R3.
Proof. intros R1 R2 R3 H1 H2 k. eapply opt_sim_trans; [apply H1 | apply H2]. Qed.

Lemma seval_sim : forall b b', sb_sim b b' -> forall look look',
  (forall x, look x = look' x) -> seval_body look b = seval_body look' b'.
Proof.
  induction 1 as [sc sc' t H|l l' r r' Hl IHl Hr IHr]; intros look look' Hlook; cbn [seval_body].
  - apply eval_src_ext. intros x Hx. unfold scoped. rewrite (H x Hx), Hlook. reflexivity.
  - rewrite (IHl look look' Hlook), (IHr look look' Hlook). reflexivity.
Qed.

(* the specification does not distinguish equivalent records *)
Lemma map_seval_sim : forall cs cs' look look',
  ctrs_sim cs cs' -> (forall x, look x = look' x) ->
  map (fun kc => (fst kc, seval_body look (snd kc))) cs = map (fun kc => (fst kc, seval_body look' (snd kc))) cs'.
Proof.
  intros cs cs' look look' H Hl. induction H as [|a b l l' [H1 H2] _ IH]; [reflexivity|].
  cbn [map]. rewrite H1, (seval_sim _ _ H2 look look' Hl), IH. reflexivity.
Qed.

Theorem sfield_sim : forall R R', srec_sim R R' -> forall fuel k, sfield fuel R k = sfield fuel R' k.
Proof.
  intros R R' H. induction fuel as [|n IH]; intros k; cbn [sfield].
  - specialize (H k). destruct (slookup k R) as [f|], (slookup k R') as [f'|]; cbn in H; try tauto; try reflexivity.
    destruct H as (_ & Hv & _). destruct (sval f) as [b|], (sval f') as [b'|]; cbn in Hv; try tauto; reflexivity.
  - specialize (H k). destruct (slookup k R) as [f|], (slookup k R') as [f'|]; cbn in H; try tauto; try reflexivity.
    destruct H as (_ & Hv & Hc). destruct (sval f) as [b|], (sval f') as [b'|]; cbn in Hv; try tauto; try reflexivity.
    assert (Hl : forall x, var_out (sfield n R x) = var_out (sfield n R' x)) by (intros x; rewrite IH; reflexivity).
    cbv zeta. rewrite (seval_sim _ _ Hv _ _ Hl), (map_seval_sim _ _ _ _ Hc Hl). reflexivity.
Qed.

(* ------------------------------------------------------------------------- lookup *)
Lemma slookup_None : forall k R, slookup k R = None <-> ~ In k (skeys R).
Proof.
  intros k R. induction R as [|[k' f] R IH]; cbn [slookup skeys map fst].
  - split; [intros _ []|reflexivity].
  - destruct (N.eqb k k') eqn:E.
    + apply N.eqb_eq in E. subst. split; [discriminate|]. intros H. exfalso. apply H. left. reflexivity.
    + apply N.eqb_neq in E. rewrite IH. unfold skeys. split.
      * intros H [H'|H']; [congruence|auto].
      * intros H H'. apply H. right. exact H'.
Qed.

Lemma slookup_In : forall k R f, slookup k R = Some f -> In (k, f) R.
Proof.
  intros k R f. induction R as [|[k' f'] R IH]; cbn [slookup]; [discriminate|].
  destruct (N.eqb k k') eqn:E.
  - apply N.eqb_eq in E. intros H. inversion H; subst. left. reflexivity.
  - intros H. right. auto.
Qed.

Lemma slookup_app : forall k R1 R2,
  slookup k (R1 ++ R2) = match slookup k R1 with Some f => Some f | None => slookup k R2 end.
Proof.
  intros k R1 R2. induction R1 as [|[k' f] R1 IH]; cbn [slookup app]; [reflexivity|].
  destruct (N.eqb k k'); [reflexivity | exact IH].
Qed.

(* ------------------------------------------------------------------------- merge, per field *)
Lemma slookup_flat_keys : forall (h : N -> option sfld) ks k,
  slookup k (flat_map (fun k' => match h k' with Some f => [(k', f)] | None => [] end) ks)
  = if mem k ks then h k else None.
Proof.
  intros h ks k. induction ks as [|k' ks IH]; [reflexivity|].
  cbn [flat_map]. rewrite slookup_app, IH. unfold mem. cbn [existsb]. fold (mem k ks).
  destruct (N.eqb k k') eqn:E.
  - apply N.eqb_eq in E. subst k'. cbn [orb]. destruct (h k) as [f|] eqn:Eh.
    + cbn [slookup]. rewrite N.eqb_refl. reflexivity.
    + cbn [slookup]. destruct (mem k ks); reflexivity.
  - cbn [orb]. destruct (h k') as [f|]; cbn [slookup]; [rewrite E|]; reflexivity.
Qed.

Theorem slookup_smerge : forall R1 R2 k,
  slookup k (smerge R1 R2) = smerge_opt (slookup k R1) (slookup k R2).
Proof.
  intros R1 R2 k. unfold smerge.
  rewrite (slookup_flat_keys (fun k => smerge_opt (slookup k R1) (slookup k R2))).
  destruct (mem k _) eqn:Em; [reflexivity|].
  apply mem_false in Em. rewrite in_app_iff, filter_In in Em.
  assert (H1 : ~ In k (skeys R1)) by tauto.
  assert (H2 : ~ In k (skeys R2)).
  { intros H. apply Em. right. split; [exact H|]. apply negb_true_iff. apply mem_false. exact H1. }
  apply slookup_None in H1. apply slookup_None in H2. rewrite H1, H2. reflexivity.
Qed.

Lemma smerge_fld_sim : forall f1 f1' f2 f2',
  sfld_sim f1 f1' -> sfld_sim f2 f2' -> sfld_sim (smerge_fld f1 f2) (smerge_fld f1' f2').
Proof.
  intros f1 f1' f2 f2' (Hp1 & Hv1 & Hc1) (Hp2 & Hv2 & Hc2). unfold smerge_fld.
  pose proof (ctrs_sim_app _ _ _ _ Hc1 Hc2) as Hc.
  destruct (sval f1) as [b1|] eqn:E1, (sval f1') as [b1'|] eqn:E1'; cbn in Hv1; try tauto;
  destruct (sval f2) as [b2|] eqn:E2, (sval f2') as [b2'|] eqn:E2'; cbn in Hv2; try tauto.
  - assert (Hcmp : pcmp (sprio f1') (sprio f2') = pcmp (sprio f1) (sprio f2)) by congruence.
    rewrite Hcmp. destruct (pcmp (sprio f1) (sprio f2)); (split; [cbn; assumption|]); (split; [cbn|cbn; exact Hc]).
    + constructor; assumption.
    + exact Hv2.
    + exact Hv1.
  - split; [cbn; assumption|]. split; [cbn; exact Hv1 | cbn; exact Hc].
  - split; [cbn; assumption|]. split; [cbn; exact Hv2 | cbn; exact Hc].
  - split; [reflexivity|]. split; [exact I | cbn; exact Hc].
Qed.

Lemma smerge_opt_sim : forall o1 o1' o2 o2',
  opt_sim o1 o1' -> opt_sim o2 o2' -> opt_sim (smerge_opt o1 o2) (smerge_opt o1' o2').
Proof.
  intros [f1|] [f1'|] [f2|] [f2'|]; cbn; try tauto. apply smerge_fld_sim.
Qed.

Theorem smerge_sim : forall R1 R1' R2 R2',
  srec_sim R1 R1' -> srec_sim R2 R2' -> srec_sim (smerge R1 R2) (smerge R1' R2').
Proof.
  intros R1 R1' R2 R2' H1 H2 k. rewrite !slookup_smerge. apply smerge_opt_sim; [apply H1 | apply H2].
Qed.

(* the empty record is neutral, exactly *)
Lemma smerge_nil_l : forall R k, slookup k (smerge [] R) = slookup k R.
Proof. intros. rewrite slookup_smerge. cbn. destruct (slookup k R); reflexivity. Qed.

Lemma smerge_nil_r : forall R k, slookup k (smerge R []) = slookup k R.
Proof. intros. rewrite slookup_smerge. cbn. destruct (slookup k R); reflexivity. Qed.
