(* C07, part B -- the fragment shared by the specification (Spec.v) and the mechanism (Mech.v):
   flat recursive records whose field bodies are integer expressions that refer to sibling fields by
   name, merge priorities, record literals, and override histories (let-bound literals and merges,
   a later step may use any earlier step, several times).  Definitions only. *)
From Coq Require Import List NArith ZArith Bool.
Import ListNotations.

(* field bodies; Nickel: n | x | a + b | a * b | if a <= b then t else e *)
Inductive tm : Type :=
| Num (z : Z)
| Var (x : N)
| Add (a b : tm)
| Mul (a b : tm)
| IfLe (a b t e : tm).

(* parser/src/ast/mod.rs MergePriority: Bottom (| default), Neutral (nothing), Numeral n
   (| priority n), Top (| force).  [pcmp] is MergePriority::cmp: Neutral is Numeral 0. *)
Inductive prio : Type := PBot | PNeut | PNum (z : Z) | PTop.

Definition pcmp (p1 p2 : prio) : comparison :=
  match p1, p2 with
  | PBot, PBot | PTop, PTop | PNeut, PNeut => Eq
  | PNum a, PNum b => Z.compare a b
  | PBot, _ => Lt
  | _, PTop => Lt
  | PTop, _ => Gt
  | _, PBot => Gt
  | PNeut, PNum n => Z.compare 0 n
  | PNum n, PNeut => Z.compare n 0
  end.

(* error classes of the harness (harness/src/eval.rs classify_eval) that this fragment can reach *)
Inductive err : Type := UnboundId | FieldMissing | MissingDef | NonMergeable | Blame.

(* [OutOfFuel]: the fuel of the evaluators ran out (the real evaluator reports an infinite
   recursion through its black-holing); [Panic]: the Rust code would panic (a revertible thunk
   without cached value is read, or [init_cached] finds a cached value already there). *)
Inductive outcome : Type := Ok (z : Z) | Err (e : err) | OutOfFuel | Panic.

(* evaluation of a body given the meaning of its variables: strict, left to right, the first
   failure wins (Op2 evaluates its first argument, then the second) *)
Fixpoint eval_tm (look : N -> outcome) (t : tm) : outcome :=
  match t with
  | Num z => Ok z
  | Var x => look x
  | Add a b =>
      match eval_tm look a with
      | Ok x => match eval_tm look b with Ok y => Ok (x + y)%Z | o => o end
      | o => o
      end
  | Mul a b =>
      match eval_tm look a with
      | Ok x => match eval_tm look b with Ok y => Ok (x * y)%Z | o => o end
      | o => o
      end
  | IfLe a b t e =>
      match eval_tm look a with
      | Ok x => match eval_tm look b with
                | Ok y => if (x <=? y)%Z then eval_tm look t else eval_tm look e
                | o => o
                end
      | o => o
      end
  end.

(* merge of two evaluated field values (merge.rs, the Number/Number case); operands in order *)
Definition merge_out (o1 o2 : outcome) : outcome :=
  match o1 with
  | Ok x => match o2 with
            | Ok y => if (x =? y)%Z then Ok x else Err NonMergeable
            | o => o
            end
  | o => o
  end.

(* a recursive field that is looked up through the recursive environment: a name that is not a
   field of the record is an unbound identifier there *)
Definition var_out (o : outcome) : outcome :=
  match o with Err FieldMissing => Err UnboundId | o => o end.

Definition mem (x : N) (l : list N) : bool := existsb (N.eqb x) l.

(* a lookup restricted to a set of names: a name outside the set is not bound by the record *)
Definition scoped (scope : list N) (look : N -> outcome) (x : N) : outcome :=
  if mem x scope then look x else Err UnboundId.

(* variables occurring in a body *)
Fixpoint vars (t : tm) : list N :=
  match t with
  | Num _ => []
  | Var x => [x]
  | Add a b | Mul a b => vars a ++ vars b
  | IfLe a b t e => vars a ++ vars b ++ vars t ++ vars e
  end.

(* contracts that depend on fields: [x | std.contract.from_predicate (fun v => v >= e)] and
   [... (fun v => v != e)] with [e] an expression over the sibling fields *)
Inductive ckind : Type := CGe | CNe.
Definition ctr : Type := (ckind * tm)%type.

Definition check_ctr (k : ckind) (v z : Z) : bool :=
  match k with
  | CGe => (z <=? v)%Z
  | CNe => negb (v =? z)%Z
  end.

(* RuntimeContract::apply_all: the pending contracts of a field are applied one after the other to
   its value; the value is evaluated first, then the bound of the first contract, and so on; the
   first failure wins *)
Fixpoint apply_ctrs (o : outcome) (cs : list (ckind * outcome)) : outcome :=
  match cs with
  | [] => o
  | (k, oc) :: cs' =>
      match o with
      | Ok v => match oc with
                | Ok z => if check_ctr k v z then apply_ctrs (Ok v) cs' else Err Blame
                | e => e
                end
      | e => e
      end
  end.

(* record literals: field name, priority annotation, optional definition; [fdyn]: the name is
   written as an interpolated string ("%{n}" = ...), so it is not in scope of the bodies of the
   literal (free_vars.rs: rec_fields are the static fields; eval/mod.rs: "the recursive environment
   only contains the static fields, and not the dynamic fields") *)
Record fdef : Type := { fprio : prio; fbody : option tm; fdyn : bool; fctrs : list ctr }.
Definition literal : Type := list (N * fdef).
Definition lit_names (l : literal) : list N := map fst l.
Definition lit_scope (l : literal) : list N :=
  map fst (filter (fun kd => negb (fdyn (snd kd))) l).

(* override histories: step [i] may use the results of steps [< i] *)
Inductive step : Type :=
| SLit (l : literal)
| SMerge (i j : nat).
Definition history : Type := list step.
