(* C07, part B -- the fragment shared by the specification (Spec.v) and the mechanism (Mech.v):
   flat recursive records whose field bodies are integer expressions that refer to sibling fields by
   name, merge priorities, record literals, and override histories (let-bound literals and merges,
   a later step may use any earlier step, several times).  Definitions only. *)
From Coq Require Import List NArith ZArith Bool.
Import ListNotations.

(* error classes of the harness (harness/src/eval.rs classify_eval) that this fragment can reach *)
Inductive err : Type := UnboundId | FieldMissing | MissingDef | NonMergeable | Blame | TypeErr.

(* [IsRec]: the value is a record (nested records: a field whose definition is a record literal);
   it is a type error in arithmetic.  [OutOfFuel]: the fuel of the evaluators ran out (the real
   evaluator reports an infinite recursion through its black-holing); [Panic]: the Rust code would
   panic (a revertible thunk without cached value is read, or [init_cached] finds a cached value
   already there).  [Opaque]: outside the modelled fragment (the structural comparison of two
   records by a contract). *)
Inductive outcome : Type := Ok (z : Z) | IsRec | Err (e : err) | OutOfFuel | Panic | Opaque.

(* field bodies; Nickel: n | x | a + b | a * b | if a <= b then t else e.  [Const o] does not occur
   in source programs: it stands for a variable of an enclosing record whose outcome is already
   fixed (used when a nested record literal is instantiated, see Nested.v). *)
Inductive tm : Type :=
| Num (z : Z)
| Var (x : N)
| Const (o : outcome)
| Add (a b : tm)
| Mul (a b : tm)
| IfLe (a b t e : tm).

(* parser/src/ast/mod.rs MergePriority: Bottom (| default), Neutral (nothing), Numeral n
   (| priority n), Top (| force).  [pcmp] is MergePriority::cmp: Neutral is Numeral 0. *)
Inductive prio : Type := PBot | PNeut | PNum (z : Z) | PTop.

Definition pcmp (p1 p2 : prio) : comparison :=
  match p1, p2 with
  | PBot, PBot | PTop, PTop | PNeut, PNeut => Eq
  | PNum a, PNum b => Z.compare a b
  | PBot, _ => Lt
  | _, PTop => Lt
  | PTop, _ => Gt
  | _, PBot => Gt
  | PNeut, PNum n => Z.compare 0 n
  | PNum n, PNeut => Z.compare n 0
  end.

(* evaluation of a body given the meaning of its variables: strict, left to right, the first
   failure wins (Op2 evaluates its first argument, then the second) *)
(* a number is expected *)
Definition num_out (o : outcome) : outcome :=
  match o with IsRec => Err TypeErr | o => o end.

(* a binary arithmetic primitive: both operands are evaluated (first failure wins), then their types
   are checked (operation.rs: process_binary_operation matches on the two evaluated operands) *)
Definition arith2 (f : Z -> Z -> outcome) (o1 o2 : outcome) : outcome :=
  match o1 with
  | Ok x => match o2 with Ok y => f x y | IsRec => Err TypeErr | e => e end
  | IsRec => match o2 with Ok _ | IsRec => Err TypeErr | e => e end
  | e => e
  end.

Fixpoint eval_tm (look : N -> outcome) (t : tm) : outcome :=
  match t with
  | Num z => Ok z
  | Var x => look x
  | Const o => o
  | Add a b => arith2 (fun x y => Ok (x + y)%Z) (eval_tm look a) (eval_tm look b)
  | Mul a b => arith2 (fun x y => Ok (x * y)%Z) (eval_tm look a) (eval_tm look b)
  | IfLe a b t e =>
      arith2 (fun x y => if (x <=? y)%Z then eval_tm look t else eval_tm look e) (eval_tm look a) (eval_tm look b)
  end.

(* merge of two evaluated field values (merge.rs, the Number/Number case); operands in order *)
Definition merge_out (o1 o2 : outcome) : outcome :=
  match o1 with
  | Ok x => match o2 with
            | Ok y => if (x =? y)%Z then Ok x else Err NonMergeable
            | IsRec => Err NonMergeable
            | o => o
            end
  | IsRec => match o2 with
             | Ok _ => Err NonMergeable
             | o => o                       (* record & record: a record, merged when its fields are read *)
             end
  | o => o
  end.

(* a recursive field that is looked up through the recursive environment: a name that is not a
   field of the record is an unbound identifier there *)
Definition var_out (o : outcome) : outcome :=
  match o with Err FieldMissing => Err UnboundId | o => o end.

Definition mem (x : N) (l : list N) : bool := existsb (N.eqb x) l.

(* a lookup restricted to a set of names: a name outside the set is not bound by the record *)
Definition scoped (scope : list N) (look : N -> outcome) (x : N) : outcome :=
  if mem x scope then look x else Err UnboundId.

(* variables occurring in a body *)
Fixpoint vars (t : tm) : list N :=
  match t with
  | Num _ | Const _ => []
  | Var x => [x]
  | Add a b | Mul a b => vars a ++ vars b
  | IfLe a b t e => vars a ++ vars b ++ vars t ++ vars e
  end.

(* contracts that depend on fields: [x | std.contract.from_predicate (fun v => v >= e)] and
   [... (fun v => v != e)] with [e] an expression over the sibling fields *)
Inductive ckind : Type := CGe | CNe.
Definition ctr : Type := (ckind * tm)%type.

(* RuntimeContract::apply_all: the pending contracts of a field are applied one after the other to
   its value; the value is evaluated first, then the bound of the first contract, and so on; the
   first failure wins.  [>=] needs numbers; [!=] compares any two values (a record differs from a
   number; two records are compared structurally, which is outside this fragment). *)
Fixpoint apply_ctrs (o : outcome) (cs : list (ckind * outcome)) : outcome :=
  match cs with
  | [] => o
  | (CGe, oc) :: cs' => arith2 (fun v z => if (z <=? v)%Z then apply_ctrs o cs' else Err Blame) o oc
  | (CNe, oc) :: cs' =>
      match o with
      | Ok v => match oc with
                | Ok z => if negb (v =? z)%Z then apply_ctrs o cs' else Err Blame
                | IsRec => apply_ctrs o cs'
                | e => e
                end
      | IsRec => match oc with
                 | Ok _ => apply_ctrs o cs'
                 | IsRec => Opaque
                 | e => e
                 end
      | e => e
      end
  end.

(* ---- record literals.  Two levels: the definition of a field of a top-level literal is an
   expression or a (flat) record literal whose definitions are expressions. *)

(* field name, priority annotation, optional definition, contracts; [f0dyn]: the name is written as
   an interpolated string ("%{n}" = ...), so it is not in scope of the bodies of the literal
   (free_vars.rs: rec_fields are the static fields; eval/mod.rs: "the recursive environment only
   contains the static fields, and not the dynamic fields") *)
Record fdef0 : Type := { f0prio : prio; f0body : option tm; f0dyn : bool; f0ctrs : list ctr }.
Definition ilit : Type := list (N * fdef0).
Definition ilit_scope (l : ilit) : list N :=
  map fst (filter (fun kd => negb (f0dyn (snd kd))) l).

(* the definition of a field of a top-level literal *)
Inductive src : Type :=
| STm (t : tm)
| SSub (l : ilit).

Definition minus (l r : list N) : list N := filter (fun x => negb (mem x r)) l.

Definition fdef0_vars (d : fdef0) : list N :=
  flat_map (fun kc => vars (snd kc)) (f0ctrs d) ++ match f0body d with Some t => vars t | None => [] end.

(* the variables of a definition that refer to the enclosing record: for a record literal, those of
   its bodies and contracts that are not (statically named) fields of the literal itself *)
Definition svars (s : src) : list N :=
  match s with
  | STm t => vars t
  | SSub l => minus (flat_map (fun kd => fdef0_vars (snd kd)) l) (ilit_scope l)
  end.

(* evaluating a definition to weak head normal form: a record literal is a record *)
Definition eval_src (look : N -> outcome) (s : src) : outcome :=
  match s with
  | STm t => eval_tm look t
  | SSub _ => IsRec
  end.

Record fdef : Type := { fprio : prio; fbody : option src; fdyn : bool; fctrs : list ctr }.
Definition literal : Type := list (N * fdef).
Definition lit_names (l : literal) : list N := map fst l.
Definition lit_scope (l : literal) : list N :=
  map fst (filter (fun kd => negb (fdyn (snd kd))) l).

(* a flat literal as a top-level literal *)
Definition lift_fdef (d : fdef0) : fdef :=
  {| fprio := f0prio d; fbody := option_map STm (f0body d); fdyn := f0dyn d; fctrs := f0ctrs d |}.
Definition lift_lit (l : ilit) : literal := map (fun kd => (fst kd, lift_fdef (snd kd))) l.

(* ---- instantiating a nested literal: the variables that refer to the enclosing record are
   replaced by their (already determined) outcomes; the names of the literal itself shadow them *)
Fixpoint subst_tm (f : N -> option outcome) (t : tm) : tm :=
  match t with
  | Num _ | Const _ => t
  | Var x => match f x with Some o => Const o | None => Var x end
  | Add a b => Add (subst_tm f a) (subst_tm f b)
  | Mul a b => Mul (subst_tm f a) (subst_tm f b)
  | IfLe a b t e => IfLe (subst_tm f a) (subst_tm f b) (subst_tm f t) (subst_tm f e)
  end.

Definition subst_fdef0 (f : N -> option outcome) (d : fdef0) : fdef0 :=
  {| f0prio := f0prio d; f0body := option_map (subst_tm f) (f0body d); f0dyn := f0dyn d;
     f0ctrs := map (fun kc => (fst kc, subst_tm f (snd kc))) (f0ctrs d) |}.

Definition subst_ilit (f : N -> option outcome) (l : ilit) : ilit :=
  let f' := fun x => if mem x (ilit_scope l) then None else f x in
  map (fun kd => (fst kd, subst_fdef0 f' (snd kd))) l.

(* override histories: step [i] may use the results of steps [< i] *)
Inductive step : Type :=
| SLit (l : literal)
| SMerge (i j : nat).
Definition history : Type := list step.
