(* C07, part B -- the mechanism I: revertible thunks, record instances, merge, as the Rust code does it.

   Mirrors (by reading; tied by the correspondence run):
   - core/src/eval/cache/lazy.rs  InnerThunkData::{Standard, Revertible{orig, cached, deps}},
     Thunk::new_rev (empty deps => standard thunk), ThunkData::init_cached (+ its assertion),
     ThunkData::revert, Thunk::saturate, ThunkData::closure (panic without cached value);
   - core/src/closurize.rs  closurize_rec_record, mk_binding_type (hook H4: FieldDeps::Unknown);
   - core/src/eval/fixpoint.rs  rec_env, patch_field;  core/src/eval/mod.rs  the Term::RecRecord arm;
   - core/src/eval/merge.rs  merge (record/record case, empty-record shortcut), split_ref,
     RevertClosurize, merge_fields, fields_merge_closurize, field_deps, FieldDeps::union.

   A thunk is [Std body] or [Rev orig deps cached].  [cached = Some rid] stands for "the closure
   [orig] extended with the recursive environment of record instance [rid], filtered by [deps]"
   (what [init_cached] builds); [None] is a reverted / not yet patched thunk.  The body of the thunk
   that [fields_merge_closurize] allocates is [BMerge b1 d1 b2 d2]: [saturate] turns each side into a
   function of ITS OWN dependencies applied to variables named like the fields, so each side keeps
   its own filter [d1]/[d2] on top of the filter of the enclosing thunk.

   The configuration [cfg] selects the faithful behaviour ([cfg_real], [cfg_unknown] for hook H4)
   or one of the deliberately broken variants used by the refutation lemmas.  Definitions only. *)
From Coq Require Import List NArith ZArith Bool.
Import ListNotations.
From NV Require Import Rec.Lang.

Inductive body : Type :=
| BSrc (s : src)
| BMerge (b1 : body) (d1 : list N) (b2 : body) (d2 : list N)
| BInd (tid : nat).        (* the closure of a term that is another thunk (an indirection) *)

Inductive thunk : Type :=
| Std (b : body)
| Rev (orig : body) (deps : option (list N)) (cached : option nat).   (* deps None = FieldDeps::Unknown *)

(* a field: priority, value (a thunk id), pending contracts (kind and the thunk id of the closure of
   the contract) *)
Record ifld : Type := { iprio : prio; ival : option nat; ictrs : list (ckind * nat) }.
Definition irec : Type := list (N * ifld).
Record state : Type := { thunks : list thunk; recs : list irec }.

Definition empty_state : state := {| thunks := []; recs := [] |}.

Inductive revert_mode : Type :=
| RevFresh       (* lazy.rs: a NEW thunk {orig, deps, cached: None}; the original is untouched *)
| RevShare       (* broken: revert = clone, the same thunk with its cached environment *)
| RevInPlace.    (* broken: revert resets the operand's own thunk *)

Inductive patch_mode : Type :=
| PAssert        (* lazy.rs: init_cached asserts cached.is_none() *)
| PSkip          (* broken: keep a cached value that is already there *)
| POverwrite.    (* broken: rebuild the cached value unconditionally *)

Record cfg : Type := {
  c_an : src -> list N;          (* the dependency analysis (part A restricted to this fragment) *)
  c_unknown : bool;              (* hook H4: every field FieldDeps::Unknown *)
  c_revert : revert_mode;
  c_patch : patch_mode;
  c_wrap_dyn : bool }.           (* operation.rs, BinaryOp::RecordInsert closurizes the value it pops;
                                    closurize.rs wraps a thunk that has dependencies in a new
                                    standard thunk: this is what happens to the value of a
                                    dynamically named field (false: RecordInsert keeps a thunk as
                                    it is, the proposed patch) *)

(* the Rust code as it is *)
Definition cfg_current : cfg :=
  {| c_an := svars; c_unknown := false; c_revert := RevFresh; c_patch := PAssert; c_wrap_dyn := true |}.
(* the Rust code with the patch proposed for RecordInsert (a popped thunk is stored as it is) *)
Definition cfg_fixed : cfg :=
  {| c_an := svars; c_unknown := false; c_revert := RevFresh; c_patch := PAssert; c_wrap_dyn := false |}.
Definition with_unknown (c : cfg) : cfg :=
  {| c_an := c_an c; c_unknown := true; c_revert := c_revert c; c_patch := c_patch c; c_wrap_dyn := c_wrap_dyn c |}.

Fixpoint set_nth {A} (i : nat) (x : A) (l : list A) : list A :=
  match l, i with
  | [], _ => []
  | _ :: l', O => x :: l'
  | y :: l', S i' => y :: set_nth i' x l'
  end.

Fixpoint ilookup (k : N) (r : irec) : option ifld :=
  match r with
  | [] => None
  | (k', f) :: r' => if N.eqb k k' then Some f else ilookup k r'
  end.

Definition ikeys (r : irec) : list N := map fst r.

(* Thunk::new_rev: known empty dependencies give a standard thunk *)
Definition mk_thunk (b : body) (deps : option (list N)) : thunk :=
  match deps with
  | Some [] => Std b
  | _ => Rev b deps None
  end.

(* ---------------------------------------------------------------- evaluation of a record literal *)
(* closurize_rec_record: Field::closurize_as_btype gives the value and every pending contract of a
   field the SAME binding type, Revertible(deps of the field) -- the dependencies of a field are the
   recursive fields free in its annotations and its value (free_vars.rs, Field) -- unless they are
   known to be empty.  Constants are not closurized at all (they behave as standard thunks). *)
Definition field_deps (c : cfg) (names : list N) (d : fdef) : option (list N) :=
  if c_unknown c then None
  else Some (filter (fun x => mem x names)
               (flat_map (fun kc => c_an c (STm (snd kc))) (fctrs d)
                ++ match fbody d with Some t => c_an c t | None => [] end)).

Definition lit_thunk (deps : option (list N)) (t : src) : thunk :=
  match t with
  | STm (Num _) => Std (BSrc t)
  | _ => mk_thunk (BSrc t) deps
  end.

(* the contract `std.contract.from_predicate (fun v => v >= e)` is never a constant *)
Definition ctr_thunk (deps : option (list N)) (t : tm) : thunk := mk_thunk (BSrc (STm t)) deps.

Fixpoint alloc_ctrs (deps : option (list N)) (ths : list thunk) (cs : list ctr) : list thunk * list (ckind * nat) :=
  match cs with
  | [] => (ths, [])
  | (k, t) :: cs' =>
      let (ths', r) := alloc_ctrs deps (ths ++ [ctr_thunk deps t]) cs' in
      (ths', (k, length ths) :: r)
  end.

Definition alloc_fld (c : cfg) (names : list N) (ths : list thunk) (d : fdef) : list thunk * ifld :=
  let deps := field_deps c names d in
  let (ths1, v) := match fbody d with
                   | None => (ths, None)
                   | Some t => (ths ++ [lit_thunk deps t], Some (length ths))
                   end in
  let (ths2, cs) := alloc_ctrs deps ths1 (fctrs d) in
  (ths2, {| iprio := fprio d; ival := v; ictrs := cs |}).

Fixpoint alloc_lit (c : cfg) (names : list N) (ths : list thunk) (l : literal) : list thunk * irec :=
  match l with
  | [] => (ths, [])
  | (k, d) :: l' =>
      let (ths1, f) := alloc_fld c names ths d in
      let (ths2, r) := alloc_lit c names ths1 l' in
      (ths2, (k, f) :: r)
  end.

(* init_cached on one thunk for the record instance [rid]; None = the assertion fails (panic) *)
Definition patch_thunk (pm : patch_mode) (rid : nat) (th : thunk) : option thunk :=
  match th with
  | Std _ => Some th
  | Rev o d None => Some (Rev o d (Some rid))
  | Rev o d (Some c) =>
      match pm with
      | PAssert => None
      | PSkip => Some th
      | POverwrite => Some (Rev o d (Some rid))
      end
  end.

(* all the thunks of a field: the value, then the pending contracts *)
Definition ftids (f : ifld) : list nat :=
  match ival f with Some t => [t] | None => [] end ++ map snd (ictrs f).

Fixpoint patch_tids (pm : patch_mode) (rid : nat) (ths : list thunk) (ts : list nat) : option (list thunk) :=
  match ts with
  | [] => Some ths
  | tid :: ts' =>
      match nth_error ths tid with
      | None => None
      | Some th =>
          match patch_thunk pm rid th with
          | None => None
          | Some th' => patch_tids pm rid (set_nth tid th' ths) ts'
          end
      end
  end.

(* patch_field (value, then every pending contract) over the fields of the record, in order *)
Definition patch_all (pm : patch_mode) (rid : nat) (ths : list thunk) (r : irec) : option (list thunk) :=
  patch_tids pm rid ths (flat_map (fun kf => ftids (snd kf)) r).

(* Closurize for NickelValue with BindingType::Normal, applied by %record/insert% to the value of a
   dynamically named field: a thunk without dependencies is reused, any other thunk is wrapped *)
Definition closurize_dyn (c : cfg) (ths : list thunk) (tid : nat) : list thunk * nat :=
  match nth_error ths tid with
  | Some (Rev _ _ _) => if c_wrap_dyn c then (ths ++ [Std (BInd tid)], length ths) else (ths, tid)
  | _ => (ths, tid)
  end.

(* the dynamically named fields are inserted one by one into the record of the static fields; the
   model keeps all fields in one record and only performs the closurization of the inserted values
   (the pending contracts travel inside the RecordInsert operation, they are not closurized again) *)
Fixpoint insert_dyn (c : cfg) (ths : list thunk) (l : literal) (r : irec) : list thunk * irec :=
  match l, r with
  | (_, d) :: l', (k, f) :: r' =>
      let (ths1, f1) :=
        match fdyn d, ival f with
        | true, Some tid => let (ths1, tid1) := closurize_dyn c ths tid in
                            (ths1, {| iprio := iprio f; ival := Some tid1; ictrs := ictrs f |})
        | _, _ => (ths, f)
        end in
      let (ths2, r2) := insert_dyn c ths1 l' r' in
      (ths2, (k, f1) :: r2)
  | _, _ => (ths, r)
  end.

(* the Term::RecRecord arm for a record out of the parser; None = panic.  All fields (static and
   dynamic) are closurized with the dependencies computed with respect to the static names, patched
   with the recursive environment of the static fields, then the dynamic ones are inserted. *)
Definition eval_literal (c : cfg) (st : state) (l : literal) : option (state * nat) :=
  let (ths, r) := alloc_lit c (lit_scope l) (thunks st) l in
  let rid := length (recs st) in
  match patch_all (c_patch c) rid ths r with
  | None => None
  | Some ths' =>
      let (ths'', r') := insert_dyn c ths' l r in
      Some ({| thunks := ths''; recs := recs st ++ [r'] |}, rid)
  end.

(* ---------------------------------------------------------------- merge *)
(* ThunkData::revert *)
Definition revert_tid (m : revert_mode) (ths : list thunk) (tid : nat) : list thunk * nat :=
  match nth_error ths tid with
  | Some (Rev o d c) =>
      match m with
      | RevFresh => (ths ++ [Rev o d None], length ths)
      | RevShare => (ths, tid)
      | RevInPlace => (set_nth tid (Rev o d None) ths, tid)
      end
  | _ => (ths, tid)
  end.

Fixpoint revert_ctrs (m : revert_mode) (ths : list thunk) (cs : list (ckind * nat)) : list thunk * list (ckind * nat) :=
  match cs with
  | [] => (ths, [])
  | (k, tid) :: cs' =>
      let (ths1, tid') := revert_tid m ths tid in
      let (ths2, r) := revert_ctrs m ths1 cs' in
      (ths2, (k, tid') :: r)
  end.

Definition revert_val (m : revert_mode) (ths : list thunk) (v : option nat) : list thunk * option nat :=
  match v with
  | None => (ths, None)
  | Some tid => let (ths', tid') := revert_tid m ths tid in (ths', Some tid')
  end.

(* RevertClosurize for Field: the value, then the pending contracts *)
Definition revert_fld (m : revert_mode) (ths : list thunk) (f : ifld) : list thunk * ifld :=
  let (ths1, v) := revert_val m ths (ival f) in
  let (ths2, cs) := revert_ctrs m ths1 (ictrs f) in
  (ths2, {| iprio := iprio f; ival := v; ictrs := cs |}).

Fixpoint revert_all (m : revert_mode) (ths : list thunk) (r : irec) : list thunk * irec :=
  match r with
  | [] => (ths, [])
  | (k, f) :: r' =>
      let (ths1, f') := revert_fld m ths f in
      let (ths2, r'') := revert_all m ths1 r' in
      (ths2, (k, f') :: r'')
  end.

(* field_deps *)
Definition deps_of (ths : list thunk) (tid : nat) : option (list N) :=
  match nth_error ths tid with
  | Some (Rev _ d _) => d
  | _ => Some []
  end.

(* FieldDeps::union *)
Definition union_deps (d1 d2 : option (list N)) : option (list N) :=
  match d1, d2 with
  | Some a, Some b => Some (a ++ filter (fun x => negb (mem x a)) b)
  | _, _ => None
  end.

(* Thunk::saturate with the field names of the record being built: the original expression
   abstracted over the names it depends on (all names when the dependencies are unknown) and applied
   to the variables of the same names = the original expression under its own filter *)
Definition saturate (ths : list thunk) (names : list N) (tid : nat) : body * list N :=
  match nth_error ths tid with
  | Some (Std b) => (b, [])
  | Some (Rev o (Some d) _) => (o, filter (fun x => mem x d) names)
  | Some (Rev o None _) => (o, names)
  | None => (BSrc (STm (Num 0)), [])    (* dangling thunk id: no such value in Rust *)
  end.

(* merge_fields: the (value1, value2) x priority match for the value, then
   combine_dedup(revert(pending_contracts1), revert(pending_contracts2)) (the contracts of this
   fragment are functions, which contract_eq never identifies: nothing is dropped) *)
Definition merge_val (c : cfg) (names : list N) (ths : list thunk) (f1 f2 : ifld) : list thunk * (prio * option nat) :=
  match ival f1, ival f2 with
  | Some t1, Some t2 =>
      match pcmp (iprio f1) (iprio f2) with
      | Eq =>
          (* fields_merge_closurize *)
          let (b1, d1) := saturate ths names t1 in
          let (b2, d2) := saturate ths names t2 in
          let th := mk_thunk (BMerge b1 d1 b2 d2) (union_deps (deps_of ths t1) (deps_of ths t2)) in
          (ths ++ [th], (iprio f1, Some (length ths)))
      | Gt => let (ths', v) := revert_val (c_revert c) ths (ival f1) in (ths', (iprio f1, v))
      | Lt => let (ths', v) := revert_val (c_revert c) ths (ival f2) in (ths', (iprio f2, v))
      end
  | Some _, None => let (ths', v) := revert_val (c_revert c) ths (ival f1) in (ths', (iprio f1, v))
  | None, Some _ => let (ths', v) := revert_val (c_revert c) ths (ival f2) in (ths', (iprio f2, v))
  | None, None => (ths, (PNeut, None))
  end.

Definition merge_fld (c : cfg) (names : list N) (ths : list thunk) (f1 f2 : ifld) : list thunk * ifld :=
  let (ths1, pv) := merge_val c names ths f1 f2 in
  let (ths2, cs1) := revert_ctrs (c_revert c) ths1 (ictrs f1) in
  let (ths3, cs2) := revert_ctrs (c_revert c) ths2 (ictrs f2) in
  (ths3, {| iprio := fst pv; ival := snd pv; ictrs := cs1 ++ cs2 |}).

Fixpoint merge_all (c : cfg) (names : list N) (ths : list thunk) (ctr : list (N * (ifld * ifld)))
  : list thunk * irec :=
  match ctr with
  | [] => (ths, [])
  | (k, (f1, f2)) :: ctr' =>
      let (ths1, f) := merge_fld c names ths f1 f2 in
      let (ths2, r) := merge_all c names ths1 ctr' in
      (ths2, (k, f) :: r)
  end.

(* split_ref, up to the order inside the three parts *)
Definition split_left (r1 r2 : irec) : irec := filter (fun kf => negb (mem (fst kf) (ikeys r2))) r1.
Definition split_center (r1 r2 : irec) : list (N * (ifld * ifld)) :=
  flat_map (fun kf => match ilookup (fst kf) r2 with
                      | Some f2 => [(fst kf, (snd kf, f2))]
                      | None => []
                      end) r1.

(* the record/record case of merge for two non-empty records, followed by the evaluation of the
   resulting (already closurized) RecRecord: rec_env + patch_field of every field; None = panic *)
Definition merge_general (c : cfg) (st : state) (r1 r2 : irec) : option (state * nat) :=
  let L := split_left r1 r2 in
  let R := split_left r2 r1 in
  let C := split_center r1 r2 in
  let names := ikeys L ++ map fst C ++ ikeys R in
  let (ths1, L') := revert_all (c_revert c) (thunks st) L in
  let (ths2, R') := revert_all (c_revert c) ths1 R in
  let (ths3, C') := merge_all c names ths2 C in
  let newrec := L' ++ R' ++ C' in
  let rid := length (recs st) in
  match patch_all (c_patch c) rid ths3 newrec with
  | None => None
  | Some ths4 => Some ({| thunks := ths4; recs := recs st ++ [newrec] |}, rid)
  end.

Definition merge (c : cfg) (st : state) (rid1 rid2 : nat) : option (state * nat) :=
  match nth_error (recs st) rid1, nth_error (recs st) rid2 with
  | Some r1, Some r2 =>
      match r1, r2 with
      | [], _ => Some (st, rid2)            (* the empty record is neutral: the other operand itself *)
      | _, [] => Some (st, rid1)
      | _, _ => merge_general c st r1 r2
      end
  | _, _ => None
  end.

(* ---------------------------------------------------------------- reading a field *)
Fixpoint ievalb (ind : nat -> outcome) (look : N -> outcome) (b : body) : outcome :=
  match b with
  | BSrc s => eval_src look s
  | BMerge b1 d1 b2 d2 => merge_out (ievalb ind (scoped d1 look) b1) (ievalb ind (scoped d2 look) b2)
  | BInd tid => ind tid
  end.

Definition in_deps (x : N) (d : option (list N)) : bool :=
  match d with
  | None => true
  | Some l => mem x l
  end.

(* field [k] of record instance [rid], given how thunks evaluate: the value with the pending
   contracts applied (what rec_env binds the name to, and what an access or the export observes) *)
Definition field_via (ith : nat -> outcome) (st : state) (rid : nat) (k : N) : outcome :=
  match nth_error (recs st) rid with
  | None => Panic
  | Some r =>
      match ilookup k r with
      | None => Err FieldMissing
      | Some f =>
          match ival f with
          | None => Err MissingDef
          | Some tid => apply_ctrs (ith tid) (map (fun kc => (fst kc, ith (snd kc))) (ictrs f))
          end
      end
  end.

Fixpoint ithunk (fuel : nat) (st : state) (tid : nat) : outcome :=
  match fuel with
  | O => OutOfFuel
  | S n =>
      match nth_error (thunks st) tid with
      | None => Panic
      | Some (Std b) => ievalb (ithunk n st) (fun _ => Err UnboundId) b
      | Some (Rev _ _ None) => Panic          (* REVTHUNK_NO_CACHED_VALUE_MSG *)
      | Some (Rev o d (Some c)) =>
          ievalb (ithunk n st)
                 (fun x => if in_deps x d then var_out (field_via (ithunk n st) st c x) else Err UnboundId) o
      end
  end.

Definition ifield (fuel : nat) (st : state) (rid : nat) (k : N) : outcome :=
  field_via (ithunk fuel st) st rid k.

(* ---------------------------------------------------------------- histories *)
Inductive slot : Type := Rid (n : nat) | BadRef | Panicked.

Definition istep (c : cfg) (sd : state * list slot) (s : step) : state * list slot :=
  let (st, done) := sd in
  match s with
  | SLit l =>
      match eval_literal c st l with
      | Some (st', rid) => (st', done ++ [Rid rid])
      | None => (st, done ++ [Panicked])
      end
  | SMerge i j =>
      match nth_error done i, nth_error done j with
      | Some (Rid r1), Some (Rid r2) =>
          match merge c st r1 r2 with
          | Some (st', rid) => (st', done ++ [Rid rid])
          | None => (st, done ++ [Panicked])
          end
      | Some Panicked, Some _ | Some _, Some Panicked => (st, done ++ [Panicked])
      | _, _ => (st, done ++ [BadRef])
      end
  end.

Definition irun_from (c : cfg) (sd : state * list slot) (h : history) : state * list slot :=
  fold_left (istep c) h sd.

Definition irun (c : cfg) (h : history) : state * list slot := irun_from c (empty_state, []) h.

(* all fields of a record instance with their values (what the harness prints) *)
Definition ifields (fuel : nat) (st : state) (rid : nat) : list (N * outcome) :=
  match nth_error (recs st) rid with
  | None => []
  | Some r => map (fun kf => (fst kf, ifield fuel st rid (fst kf))) r
  end.
