(* C07, part B -- the invariant of the mechanism, the abstraction function, and the refinement of
   field reads: in a coherent record instance every field read follows the cached pointers of the
   thunks back to the SAME instance, which is the late binding of the specification. *)
From Coq Require Import List NArith ZArith Bool Lia Arith.
Import ListNotations.
From NV Require Import Rec.Lang Rec.Spec Rec.Mech Rec.SpecProofs.

(* ------------------------------------------------------------------------- invariant *)
(* the filters of the sides of a merged body are within the filter of what encloses them *)
Fixpoint wf_body (d : list N) (b : body) : Prop :=
  match b with
  | BSrc _ => True
  | BMerge b1 d1 b2 d2 => incl d1 d /\ incl d2 d /\ wf_body d1 b1 /\ wf_body d2 b2
  | BInd _ => False          (* no indirection in front of the thunk of a field *)
  end.

(* every variable of every leaf is let through by the filter right above it *)
Fixpoint closed_in (d : list N) (b : body) : Prop :=
  match b with
  | BSrc t => incl (svars t) d
  | BMerge b1 d1 b2 d2 => closed_in d1 b1 /\ closed_in d2 b2
  | BInd _ => False
  end.

(* The invariant comes in two modes.  [u = false]: the dependencies of every revertible thunk are
   known (the normal operation).  [u = true]: they are all unknown (FieldDeps::Unknown, hook H4); all
   the field names of the record then play the role of the dependencies, and the bodies must be closed
   under them (no variable that is not a field of the record). *)
Section Mode.
Variable u : bool.

(* a thunk of record instance [rid] whose field names are [keys]: revertible thunks are cached on
   THEIR OWN record; known dependencies are field names of the record *)
Definition thunk_ok (rid : nat) (keys : list N) (th : thunk) : Prop :=
  match th with
  | Std b => wf_body [] b /\ (u = true -> closed_in [] b)
  | Rev o (Some d) (Some c) => u = false /\ c = rid /\ wf_body d o /\ incl d keys
  | Rev o None (Some c) => u = true /\ c = rid /\ wf_body keys o /\ closed_in keys o
  | _ => False
  end.

Definition tid_ok (ths : list thunk) (rid : nat) (keys : list N) (tid : nat) : Prop :=
  exists th, nth_error ths tid = Some th /\ thunk_ok rid keys th.

(* the value and every pending contract of a field *)
Definition fld_ok (ths : list thunk) (rid : nat) (keys : list N) (f : ifld) : Prop :=
  forall tid, In tid (ftids f) -> tid_ok ths rid keys tid.

Definition coherent (st : state) (rid : nat) : Prop :=
  exists r, nth_error (recs st) rid = Some r /\ NoDup (ikeys r) /\
            forall k f, In (k, f) r -> fld_ok (thunks st) rid (ikeys r) f.

(* the configurations the theorems are about: the Rust code as it is, with any dependency analysis
   that returns exactly the variables occurring in a body (part A proves this of free_vars.rs) *)
Definition faithful (c : cfg) : Prop :=
  c_unknown c = u /\ c_revert c = RevFresh /\ c_patch c = PAssert /\ c_wrap_dyn c = false /\
  (u = false -> forall t x, In x (c_an c t) <-> In x (svars t)).

(* ------------------------------------------------------------------------- abstraction *)
Fixpoint abs_body (d : list N) (b : body) : sbody :=
  match b with
  | BSrc t => SLeaf d t
  | BMerge b1 d1 b2 d2 => SMerge2 (abs_body d1 b1) (abs_body d2 b2)
  | BInd _ => SLeaf [] (STm (Num 0))    (* outside the invariant *)
  end.

(* [keys]: the field names of the record the thunk belongs to (the scope of a thunk whose
   dependencies are unknown) *)
Definition abs_thunk (keys : list N) (th : thunk) : sbody :=
  match th with
  | Std b => abs_body [] b
  | Rev o (Some d) _ => abs_body d o
  | Rev o None _ => abs_body keys o
  end.

Definition abs_tid (ths : list thunk) (keys : list N) (tid : nat) : sbody :=
  match nth_error ths tid with
  | Some th => abs_thunk keys th
  | None => SLeaf [] (STm (Num 0))       (* dangling: outside the invariant *)
  end.

Definition abs_fld (ths : list thunk) (keys : list N) (f : ifld) : sfld :=
  {| sprio := iprio f;
     sval := option_map (abs_tid ths keys) (ival f);
     sctrs := map (fun kc => (fst kc, abs_tid ths keys (snd kc))) (ictrs f) |}.

Definition abs_rec (ths : list thunk) (r : irec) : srec :=
  map (fun kf => (fst kf, abs_fld ths (ikeys r) (snd kf))) r.

(* the S-record a record instance denotes *)
Definition abs (st : state) (rid : nat) : srec :=
  match nth_error (recs st) rid with
  | None => []
  | Some r => abs_rec (thunks st) r
  end.

(* ------------------------------------------------------------------------- lists *)
Lemma ilookup_In : forall k r f, ilookup k r = Some f -> In (k, f) r.
Proof.
  intros k r f. induction r as [|[k' f'] r IH]; cbn [ilookup]; [discriminate|].
  destruct (N.eqb k k') eqn:E.
  - apply N.eqb_eq in E. intros H. inversion H; subst. left. reflexivity.
  - intros H. right. auto.
Qed.

Lemma ilookup_None : forall k r, ilookup k r = None <-> ~ In k (ikeys r).
Proof.
  intros k r. induction r as [|[k' f] r IH]; cbn [ilookup ikeys map fst].
  - split; [intros _ []|reflexivity].
  - destruct (N.eqb k k') eqn:E.
    + apply N.eqb_eq in E. subst. split; [discriminate|]. intros H. exfalso. apply H. left. reflexivity.
    + apply N.eqb_neq in E. rewrite IH. unfold ikeys. split.
      * intros H [H'|H']; [congruence|auto].
      * intros H H'. apply H. right. exact H'.
Qed.

Lemma ilookup_NoDup : forall k r f, NoDup (ikeys r) -> In (k, f) r -> ilookup k r = Some f.
Proof.
  intros k r f. induction r as [|[k' f'] r IH]; intros Hnd Hin; [destruct Hin|].
  cbn [ikeys map fst] in Hnd. inversion Hnd as [|? ? Hni Hnd']; subst. cbn [ilookup].
  destruct Hin as [E|Hin].
  - inversion E; subst. rewrite N.eqb_refl. reflexivity.
  - destruct (N.eqb k k') eqn:E.
    + apply N.eqb_eq in E. subst. exfalso. apply Hni. apply in_map_iff. exists (k', f). split; [reflexivity|assumption].
    + apply IH; assumption.
Qed.

Lemma ilookup_app : forall k r1 r2,
  ilookup k (r1 ++ r2) = match ilookup k r1 with Some f => Some f | None => ilookup k r2 end.
Proof.
  intros k r1 r2. induction r1 as [|[k' f] r1 IH]; cbn [ilookup app]; [reflexivity|].
  destruct (N.eqb k k'); [reflexivity | exact IH].
Qed.

Lemma slookup_abs_rec : forall ths r k,
  slookup k (abs_rec ths r) = option_map (abs_fld ths (ikeys r)) (ilookup k r).
Proof.
  intros ths r k. unfold abs_rec. generalize (ikeys r) as keys. intros keys.
  induction r as [|[k' f] r IH]; [reflexivity|].
  cbn [map fst snd slookup ilookup]. destruct (N.eqb k k'); [reflexivity | exact IH].
Qed.

(* ------------------------------------------------------------------------- bodies *)
Lemma scoped_incl : forall d1 d look x,
  incl d1 d -> scoped d1 (scoped d look) x = scoped d1 look x.
Proof.
  intros d1 d look x H. unfold scoped. destruct (mem x d1) eqn:E; [|reflexivity].
  apply mem_In in E. apply H in E. apply mem_In in E. rewrite E. reflexivity.
Qed.

Lemma ievalb_ext : forall ind b rho rho', (forall x, rho x = rho' x) -> ievalb ind rho b = ievalb ind rho' b.
Proof.
  intros ind. induction b as [t|b1 IH1 d1 b2 IH2 d2|tid]; intros rho rho' H; cbn [ievalb].
  - apply eval_src_ext. intros x _. apply H.
  - rewrite (IH1 (scoped d1 rho) (scoped d1 rho')), (IH2 (scoped d2 rho) (scoped d2 rho')); [reflexivity| |];
      intros x; unfold scoped; rewrite H; reflexivity.
  - reflexivity.
Qed.

(* a body evaluated by the mechanism under the stacked filters is the abstracted definition
   evaluated by the specification *)
Lemma ievalb_abs : forall ind b d rho look,
  wf_body d b -> (forall x, rho x = scoped d look x) ->
  ievalb ind rho b = seval_body look (abs_body d b).
Proof.
  intros ind. induction b as [t|b1 IH1 d1 b2 IH2 d2|tid]; intros d rho look Hwf Hrho; cbn [ievalb abs_body seval_body].
  - apply eval_src_ext. intros x _. apply Hrho.
  - cbn [wf_body] in Hwf. destruct Hwf as (Hi1 & Hi2 & Hw1 & Hw2).
    rewrite (IH1 d1 (scoped d1 rho) look Hw1), (IH2 d2 (scoped d2 rho) look Hw2); [reflexivity| |].
    + intros x. unfold scoped at 1. rewrite Hrho. fold (scoped d2 (scoped d look) x). apply scoped_incl. exact Hi2.
    + intros x. unfold scoped at 1. rewrite Hrho. fold (scoped d1 (scoped d look) x). apply scoped_incl. exact Hi1.
  - destruct Hwf.
Qed.

(* ------------------------------------------------------------------------- refinement of reads *)
Lemma apply_ctrs_fuel : forall cs, apply_ctrs OutOfFuel cs = OutOfFuel.
Proof. destruct cs as [|[[|] oc] cs]; reflexivity. Qed.

Lemma ithunk_abs : forall st rid r n tid,
  nth_error (recs st) rid = Some r ->
  (forall k, field_via (ithunk n st) st rid k = sfield n (abs_rec (thunks st) r) k) ->
  tid_ok (thunks st) rid (ikeys r) tid ->
  ithunk (S n) st tid
  = seval_body (fun x => var_out (sfield n (abs_rec (thunks st) r) x)) (abs_tid (thunks st) (ikeys r) tid).
Proof.
  intros st rid r n tid Hr IH (th & Hth & Htok). unfold abs_tid. cbn [ithunk]. rewrite Hth.
  destruct th as [b|o [d|] [c|]]; cbn [thunk_ok] in Htok; try contradiction; cbn [abs_thunk].
  - apply ievalb_abs; [exact (proj1 Htok)|]. intros x. reflexivity.
  - destruct Htok as (_ & -> & Hwf & _). apply ievalb_abs; [exact Hwf|].
    intros x. unfold scoped, in_deps. rewrite IH. reflexivity.
  - (* unknown dependencies: no filter, but a name that is not a field of the record is unbound anyway *)
    destruct Htok as (_ & -> & Hwf & _). apply ievalb_abs; [exact Hwf|].
    intros x. unfold scoped, in_deps. rewrite IH. destruct (mem x (ikeys r)) eqn:Em; [reflexivity|].
    destruct n as [|n']; cbn [sfield]; rewrite slookup_abs_rec;
      apply mem_false in Em; apply ilookup_None in Em; rewrite Em; reflexivity.
Qed.

Theorem override_refines : forall st rid, coherent st rid ->
  forall fuel k, ifield fuel st rid k = sfield fuel (abs st rid) k.
Proof.
  intros st rid (r & Hr & Hnd & Hok). unfold abs. rewrite Hr. unfold ifield.
  induction fuel as [|n IH]; intros k; unfold field_via; cbn [sfield]; rewrite Hr, slookup_abs_rec;
    (destruct (ilookup k r) as [f|] eqn:El; cbn [option_map]; [|reflexivity]);
    specialize (Hok k f (ilookup_In _ _ _ El)); unfold fld_ok in Hok; cbn [abs_fld sval sctrs];
    (destruct (ival f) as [tid|] eqn:Ev; cbn [option_map]; [|reflexivity]); [cbn [ithunk]; apply apply_ctrs_fuel|].
  assert (Hv : tid_ok (thunks st) rid (ikeys r) tid).
  { apply Hok. unfold ftids. rewrite Ev. left. reflexivity. }
  cbv zeta. rewrite (ithunk_abs st rid r n tid Hr IH Hv). f_equal.
  rewrite map_map. apply map_ext_in. intros [kd ct] Hin. cbn [fst snd]. f_equal.
  apply (ithunk_abs st rid r n ct Hr IH). apply Hok. unfold ftids. apply in_or_app. right.
  apply in_map_iff. exists (kd, ct). split; [reflexivity | exact Hin].
Qed.

End Mode.

Lemma cfg_fixed_faithful : faithful false cfg_fixed.
Proof. unfold faithful. cbn. repeat split; auto. Qed.

Lemma cfg_fixed_unknown_faithful : faithful true (with_unknown cfg_fixed).
Proof. unfold faithful. cbn. split; [reflexivity|]. split; [reflexivity|]. split; [reflexivity|]. split; [reflexivity|]. intros H. discriminate. Qed.
