(* C07, part B -- [merge] and [eval_literal] of the faithful configuration preserve the invariant,
   never panic on coherent operands, denote the merge of the specification, and leave every
   existing record instance untouched. *)
From Coq Require Import List NArith ZArith Bool Lia Arith Sorted.
Import ListNotations.
From NV Require Import Rec.Lang Rec.Spec Rec.Mech Rec.SpecProofs Rec.MechInv.

(* ------------------------------------------------------------------------- lists *)
Lemma length_set_nth : forall A (l : list A) i x, length (set_nth i x l) = length l.
Proof.
  intros A l. induction l as [|y l IH]; intros i x; [destruct i; reflexivity|].
  destruct i; cbn [set_nth length]; [reflexivity | rewrite IH; reflexivity].
Qed.

Lemma nth_error_set_nth_eq : forall A (l : list A) i x y,
  nth_error l i = Some y -> nth_error (set_nth i x l) i = Some x.
Proof.
  intros A l. induction l as [|z l IH]; intros i x y H; destruct i; cbn in *; try discriminate; eauto.
Qed.

Lemma nth_error_set_nth_neq : forall A (l : list A) i j x,
  i <> j -> nth_error (set_nth i x l) j = nth_error l j.
Proof.
  intros A l. induction l as [|z l IH]; intros i j x H; [destruct i; reflexivity|].
  destruct i, j; cbn [set_nth nth_error]; try reflexivity; [congruence|]. apply IH. congruence.
Qed.

Lemma set_nth_same : forall A (l : list A) i x, nth_error l i = Some x -> set_nth i x l = l.
Proof.
  intros A l. induction l as [|z l IH]; intros i x H; [destruct i; reflexivity|].
  destruct i; cbn in *; [congruence | rewrite IH; auto].
Qed.

Lemma nth_error_app_l : forall A (l e : list A) i x, nth_error l i = Some x -> nth_error (l ++ e) i = Some x.
Proof.
  intros A l e i x H. rewrite nth_error_app1; [exact H|]. apply nth_error_Some. congruence.
Qed.

Lemma NoDup_app_disj : forall A (l1 l2 : list A),
  NoDup l1 -> NoDup l2 -> (forall x, In x l1 -> In x l2 -> False) -> NoDup (l1 ++ l2).
Proof.
  intros A l1 l2 H1 H2 Hd. induction H1 as [|a l1 Hni H1 IH]; [exact H2|].
  cbn [app]. constructor.
  - rewrite in_app_iff. intros [H|H]; [auto|]. apply (Hd a); [left; reflexivity | exact H].
  - apply IH. intros x Hx. apply Hd. right. exact Hx.
Qed.

Lemma NoDup_app_l : forall A (l1 l2 : list A), NoDup (l1 ++ l2) -> NoDup l1.
Proof.
  intros A l1 l2. induction l1 as [|a l1 IH]; intros H; [constructor|].
  cbn [app] in H. inversion H as [|? ? Hni Hnd]; subst. constructor; [|apply IH; exact Hnd].
  intros Hin. apply Hni. apply in_or_app. left. exact Hin.
Qed.

Lemma NoDup_app_r : forall A (l1 l2 : list A), NoDup (l1 ++ l2) -> NoDup l2.
Proof.
  intros A l1 l2. induction l1 as [|a l1 IH]; intros H; [exact H|].
  cbn [app] in H. inversion H; subst. apply IH. assumption.
Qed.

Lemma filter_mem_nil : forall (l : list N), filter (fun x => mem x []) l = [].
Proof. induction l as [|a l IH]; [reflexivity | exact IH]. Qed.

Lemma incl_nil_eq : forall (l : list N), incl l [] -> l = [].
Proof. intros [|a l] H; [reflexivity|]. exfalso. apply (H a). left. reflexivity. Qed.

(* ------------------------------------------------------------------------- bodies *)
Lemma wf_body_mono : forall b d d', incl d d' -> wf_body d b -> wf_body d' b.
Proof.
  destruct b as [t|b1 d1 b2 d2|tid]; intros d d' H Hwf; cbn [wf_body] in *; [exact I| |exact Hwf].
  destruct Hwf as (H1 & H2 & H3 & H4). repeat split; try assumption; eapply incl_tran; eassumption.
Qed.

Lemma abs_body_sim : forall b d d', (forall x, mem x d = mem x d') -> sb_sim (abs_body d b) (abs_body d' b).
Proof.
  destruct b as [t|b1 d1 b2 d2|tid]; intros d d' H; cbn [abs_body].
  - constructor. intros x _. apply H.
  - apply sb_sim_refl.
  - apply sb_sim_refl.
Qed.

(* ------------------------------------------------------------------------- phase 1: what merge allocates *)
Lemma closed_in_mono : forall b d d', incl d d' -> closed_in d b -> closed_in d' b.
Proof.
  destruct b as [t|b1 d1 b2 d2|tid]; intros d d' H Hc; cbn [closed_in] in *; [|exact Hc|exact Hc].
  eapply incl_tran; eassumption.
Qed.

(* a closed body denotes the same definition under any larger scope *)
Lemma abs_body_closed : forall b d d', incl d d' -> closed_in d b -> sb_sim (abs_body d' b) (abs_body d b).
Proof.
  destruct b as [t|b1 d1 b2 d2|tid]; intros d d' H Hc; cbn [abs_body closed_in] in *.
  - constructor. intros x Hx. apply Hc in Hx. pose proof (H x Hx) as Hx'.
    apply mem_In in Hx. apply mem_In in Hx'. rewrite Hx, Hx'. reflexivity.
  - apply sb_sim_refl.
  - apply sb_sim_refl.
Qed.

(* ------------------------------------------------------------------------- fresh thunk ids
   Thunks are allocated one after the other.  Of the thunk ids that a piece of the new record
   mentions, those that are fresh (>= n0) form an increasing sequence inside the interval of ids
   handed out while that piece was built; hence no fresh thunk occurs twice in the new record. *)
Definition isfresh (n0 : nat) (t : nat) : bool := n0 <=? t.

Definition fresh_seq (n0 lo hi : nat) (ts : list nat) : Prop :=
  StronglySorted lt (filter (isfresh n0) ts) /\ Forall (fun t => lo <= t < hi) (filter (isfresh n0) ts).

Lemma fresh_seq_nil : forall n0 lo hi, fresh_seq n0 lo hi [].
Proof. intros. split; constructor. Qed.

Lemma fresh_seq_widen : forall n0 lo hi lo' hi' ts,
  fresh_seq n0 lo hi ts -> lo' <= lo -> hi <= hi' -> fresh_seq n0 lo' hi' ts.
Proof.
  intros n0 lo hi lo' hi' ts [H1 H2] Hl Hh. split; [exact H1|].
  eapply Forall_impl; [|exact H2]. cbn. intros t Ht. lia.
Qed.

Lemma fresh_seq_app : forall n0 lo mid hi ts1 ts2,
  fresh_seq n0 lo mid ts1 -> fresh_seq n0 mid hi ts2 -> lo <= mid -> mid <= hi ->
  fresh_seq n0 lo hi (ts1 ++ ts2).
Proof.
  intros n0 lo mid hi ts1 ts2 [S1 R1] [S2 R2] Hl Hh. unfold fresh_seq. rewrite filter_app.
  split.
  - induction (filter (isfresh n0) ts1) as [|a l IH]; [exact S2|].
    cbn [app]. inversion S1 as [|? ? Sl Hal]; subst. inversion R1 as [|? ? Ha Rl]; subst. constructor.
    + apply IH; assumption.
    + apply Forall_app. split; [exact Hal|]. eapply Forall_impl; [|exact R2]. cbn. intros t Ht. lia.
  - apply Forall_app. split; (eapply Forall_impl; [|eassumption]); cbn; intros t Ht; lia.
Qed.

Lemma fresh_seq_app' : forall n0 lo hi lo1 hi1 lo2 hi2 ts1 ts2,
  fresh_seq n0 lo1 hi1 ts1 -> fresh_seq n0 lo2 hi2 ts2 ->
  lo <= lo1 -> lo <= lo2 -> lo2 <= hi -> hi2 <= hi -> hi1 <= lo2 ->
  fresh_seq n0 lo hi (ts1 ++ ts2).
Proof.
  intros n0 lo hi lo1 hi1 lo2 hi2 ts1 ts2 H1 H2 A B C D E.
  apply (fresh_seq_app n0 lo lo2 hi); [| |lia|lia].
  - eapply fresh_seq_widen; [exact H1 | lia | lia].
  - eapply fresh_seq_widen; [exact H2 | lia | lia].
Qed.

Ltac fs_len := repeat rewrite app_length; cbn [length]; lia.
Ltac fs_app Ha Hb := eapply (fresh_seq_app' _ _ _ _ _ _ _ _ _ Ha Hb); fs_len.
Ltac fs_exact H := eapply fresh_seq_widen; [exact H | fs_len | fs_len].

Lemma fresh_seq_old : forall n0 lo hi t, t < n0 -> fresh_seq n0 lo hi [t].
Proof.
  intros n0 lo hi t H. unfold fresh_seq, isfresh. cbn [filter].
  assert (E : (n0 <=? t) = false) by (apply Nat.leb_gt; exact H). rewrite E. split; constructor.
Qed.

Lemma fresh_seq_one : forall n0 lo hi t, lo <= t < hi -> fresh_seq n0 lo hi [t].
Proof.
  intros n0 lo hi t H. unfold fresh_seq. cbn [filter]. destruct (isfresh n0 t); split; repeat constructor; lia.
Qed.

Lemma fresh_seq_NoDup : forall n0 lo hi ts, fresh_seq n0 lo hi ts -> NoDup (filter (isfresh n0) ts).
Proof.
  intros n0 lo hi ts [S _]. induction S as [|a l S IH Hal]; constructor; [|exact IH].
  intros Hin. rewrite Forall_forall in Hal. specialize (Hal a Hin). lia.
Qed.

(* ------------------------------------------------------------------------- phase 1: what merge allocates *)
Definition tids (r : irec) : list nat := flat_map (fun kf => ftids (snd kf)) r.

(* everything below is proved for both modes of the invariant (known / unknown dependencies) *)
Section Mode.
Variable u : bool.
Local Notation thunk_ok := (thunk_ok u).
Local Notation tid_ok := (tid_ok u).
Local Notation fld_ok := (fld_ok u).
Local Notation coherent := (coherent u).
Local Notation faithful := (faithful u).

(* a thunk of the record being built, before it is patched: either a standard thunk, or a fresh
   revertible thunk without cached value *)
Definition pre_thunk (n0 : nat) (keys : list N) (tid : nat) (th : thunk) : Prop :=
  match th with
  | Std b => wf_body [] b /\ (u = true -> closed_in [] b)
  | Rev o (Some d) None => u = false /\ n0 <= tid /\ wf_body d o /\ incl d keys
  | Rev o None None => u = true /\ n0 <= tid /\ wf_body keys o /\ closed_in keys o
  | _ => False
  end.

Definition pre_tid (n0 : nat) (keys : list N) (ths : list thunk) (tid : nat) : Prop :=
  exists th, nth_error ths tid = Some th /\ pre_thunk n0 keys tid th.

(* thunk [tid] of the record being built denotes the definition [sb] *)
Definition slot_ok (n0 : nat) (keys : list N) (ths : list thunk) (tid : nat) (sb : sbody) : Prop :=
  exists th, nth_error ths tid = Some th /\ pre_thunk n0 keys tid th /\ sb_sim (abs_thunk keys th) sb.

Definition ctrs_ok (n0 : nat) (keys : list N) (ths : list thunk)
  (cs : list (ckind * nat)) (tg : list (ckind * sbody)) : Prop :=
  Forall2 (fun kc ks => fst kc = fst ks /\ slot_ok n0 keys ths (snd kc) (snd ks)) cs tg.

Definition val_ok (n0 : nat) (keys : list N) (ths : list thunk) (v : option nat) (tg : option sbody) : Prop :=
  match v, tg with
  | Some tid, Some sb => slot_ok n0 keys ths tid sb
  | None, None => True
  | _, _ => False
  end.

(* field [f] of the record being built denotes [tgt] *)
Definition out_ok (n0 : nat) (keys : list N) (ths : list thunk) (tgt : sfld) (f : ifld) : Prop :=
  iprio f = sprio tgt /\ val_ok n0 keys ths (ival f) (sval tgt) /\ ctrs_ok n0 keys ths (ictrs f) (sctrs tgt).

Lemma slot_ok_app : forall n0 keys ths e tid sb, slot_ok n0 keys ths tid sb -> slot_ok n0 keys (ths ++ e) tid sb.
Proof.
  intros n0 keys ths e tid sb (th & Hth & H). exists th. split; [apply nth_error_app_l; exact Hth | exact H].
Qed.

Lemma ctrs_ok_app : forall n0 keys ths e cs tg, ctrs_ok n0 keys ths cs tg -> ctrs_ok n0 keys (ths ++ e) cs tg.
Proof.
  intros n0 keys ths e cs tg H. induction H as [|a b l l' [H1 H2] _ IH]; constructor; [|exact IH].
  split; [exact H1 | apply slot_ok_app; exact H2].
Qed.

Lemma val_ok_app : forall n0 keys ths e v tg, val_ok n0 keys ths v tg -> val_ok n0 keys (ths ++ e) v tg.
Proof. intros n0 keys ths e [tid|] [sb|] H; cbn [val_ok] in *; auto using slot_ok_app. Qed.

Lemma out_ok_app : forall n0 keys ths e tgt f, out_ok n0 keys ths tgt f -> out_ok n0 keys (ths ++ e) tgt f.
Proof.
  intros n0 keys ths e tgt f (Hp & Hv & Hc). split; [exact Hp|]. split; [apply val_ok_app; exact Hv | apply ctrs_ok_app; exact Hc].
Qed.

(* the same facts for any later state of the heap *)
Definition prefix (ths ths' : list thunk) : Prop := exists e, ths' = ths ++ e.

Lemma val_ok_prefix : forall n0 keys ths ths' v tg, prefix ths ths' -> val_ok n0 keys ths v tg -> val_ok n0 keys ths' v tg.
Proof. intros n0 keys ths ths' v tg [e ->]. apply val_ok_app. Qed.

Lemma ctrs_ok_prefix : forall n0 keys ths ths' cs tg, prefix ths ths' -> ctrs_ok n0 keys ths cs tg -> ctrs_ok n0 keys ths' cs tg.
Proof. intros n0 keys ths ths' cs tg [e ->]. apply ctrs_ok_app. Qed.

Lemma out_ok_prefix : forall n0 keys ths ths' tgt f, prefix ths ths' -> out_ok n0 keys ths tgt f -> out_ok n0 keys ths' tgt f.
Proof. intros n0 keys ths ths' tgt f [e ->]. apply out_ok_app. Qed.

Ltac solve_prefix :=
  unfold prefix;
  first [ exists []; rewrite app_nil_r; repeat rewrite <- app_assoc; reflexivity
        | eexists; repeat rewrite <- app_assoc; reflexivity ].

Lemma slot_ok_pre : forall n0 keys ths tid sb, slot_ok n0 keys ths tid sb -> pre_tid n0 keys ths tid.
Proof. intros n0 keys ths tid sb (th & Hth & Hpre & _). exists th. split; assumption. Qed.

Lemma out_ok_pre : forall n0 keys ths tgt f, out_ok n0 keys ths tgt f ->
  forall tid, In tid (ftids f) -> pre_tid n0 keys ths tid.
Proof.
  intros n0 keys ths tgt f (_ & Hv & Hc) tid Hin. unfold ftids in Hin. apply in_app_or in Hin. destruct Hin as [Hin|Hin].
  - destruct (ival f) as [t|]; [|destruct Hin]. destruct Hin as [->|[]].
    destruct (sval tgt) as [sb|]; cbn [val_ok] in Hv; [|contradiction]. eapply slot_ok_pre. exact Hv.
  - apply in_map_iff in Hin. destruct Hin as [[k t] [E Hin]]. cbn [snd] in E. subst t.
    clear Hv. induction Hc as [|a b l l' [H1 H2] _ IH]; [destruct Hin|].
    destruct Hin as [->|Hin]; [eapply slot_ok_pre; exact H2 | apply IH; exact Hin].
Qed.

(* ---- ThunkData::revert on one thunk *)
Lemma revert_tid_ok : forall ths0 e rid kin keys tid ths' tid',
  tid_ok ths0 rid kin tid -> incl kin keys ->
  revert_tid RevFresh (ths0 ++ e) tid = (ths', tid') ->
  exists e', ths' = (ths0 ++ e) ++ e' /\
             slot_ok (length ths0) keys ths' tid' (abs_tid ths0 kin tid) /\
             fresh_seq (length ths0) (length (ths0 ++ e)) (length ths') [tid'].
Proof.
  intros ths0 e rid kin keys tid ths' tid' (th & Hth & Htok) Hinc Hrev. unfold revert_tid in Hrev.
  rewrite (nth_error_app_l _ _ e _ _ Hth) in Hrev. unfold abs_tid. rewrite Hth.
  assert (Hlt : tid < length ths0) by (apply nth_error_Some; congruence).
  destruct th as [b|o [d|] [c|]]; cbn [thunk_ok] in Htok; try contradiction.
  - (* standard thunk: shared *)
    inversion Hrev; subst. exists []. rewrite app_nil_r. split; [reflexivity|]. split.
    + exists (Std b). split; [apply nth_error_app_l; exact Hth|]. split; [exact Htok | apply sb_sim_refl].
    + apply fresh_seq_old. exact Hlt.
  - (* revertible thunk: a new one without cached value *)
    destruct Htok as (Hu & -> & Hwf & Hd). inversion Hrev; subst. exists [Rev o (Some d) None]. split; [reflexivity|]. split.
    + exists (Rev o (Some d) None). rewrite nth_error_app2 by lia. rewrite Nat.sub_diag. split; [reflexivity|].
      split; [|apply sb_sim_refl]. cbn [pre_thunk]. rewrite app_length. repeat split; [exact Hu | lia | exact Hwf | eapply incl_tran; eassumption].
    + apply fresh_seq_one. rewrite !app_length. cbn [length]. lia.
  - (* the same with unknown dependencies: the scope becomes the field names of the new record *)
    destruct Htok as (Hu & -> & Hwf & Hcl). inversion Hrev; subst. exists [Rev o None None]. split; [reflexivity|]. split.
    + exists (Rev o None None). rewrite nth_error_app2 by lia. rewrite Nat.sub_diag. split; [reflexivity|].
      split; [|cbn [abs_thunk]; apply abs_body_closed; assumption].
      cbn [pre_thunk]. rewrite app_length. repeat split; [exact Hu | lia | eapply wf_body_mono; eassumption | eapply closed_in_mono; eassumption].
    + apply fresh_seq_one. rewrite !app_length. cbn [length]. lia.
Qed.

Lemma revert_ctrs_ok : forall cs ths0 e rid kin keys ths' cs',
  (forall kc, In kc cs -> tid_ok ths0 rid kin (snd kc)) -> incl kin keys ->
  revert_ctrs RevFresh (ths0 ++ e) cs = (ths', cs') ->
  exists e', ths' = (ths0 ++ e) ++ e' /\
             ctrs_ok (length ths0) keys ths' cs' (map (fun kc => (fst kc, abs_tid ths0 kin (snd kc))) cs) /\
             fresh_seq (length ths0) (length (ths0 ++ e)) (length ths') (map snd cs').
Proof.
  induction cs as [|[k tid] cs IH]; intros ths0 e rid kin keys ths' cs' Hok Hinc Hrev; cbn [revert_ctrs] in Hrev.
  - inversion Hrev; subst. exists []. rewrite app_nil_r. split; [reflexivity|]. split; [constructor | apply fresh_seq_nil].
  - destruct (revert_tid RevFresh (ths0 ++ e) tid) as [ths1 tid1] eqn:E1.
    destruct (revert_ctrs RevFresh ths1 cs) as [ths2 r] eqn:E2. inversion Hrev; subst. clear Hrev.
    destruct (revert_tid_ok _ _ _ _ _ _ _ _ (Hok (k, tid) (or_introl eq_refl)) Hinc E1) as (e1 & -> & Hs1 & Hf1).
    rewrite <- app_assoc in E2.
    destruct (IH ths0 (e ++ e1) rid kin keys ths' r (fun kc H => Hok kc (or_intror H)) Hinc E2) as (e2 & -> & Hc & Hf2).
    exists (e1 ++ e2). split; [rewrite !app_assoc; reflexivity|]. split.
    + cbn [map fst snd]. constructor; [|exact Hc]. split; [reflexivity|]. cbn [snd].
      apply slot_ok_app. rewrite app_assoc. exact Hs1.
    + cbn [map snd]. change (tid1 :: map snd r) with ([tid1] ++ map snd r).
      eapply fresh_seq_app; [exact Hf1 | rewrite <- app_assoc; exact Hf2 | |]; rewrite !app_length; lia.
Qed.

Lemma revert_val_ok : forall ths0 e rid kin keys v ths' v',
  (forall tid, v = Some tid -> tid_ok ths0 rid kin tid) -> incl kin keys ->
  revert_val RevFresh (ths0 ++ e) v = (ths', v') ->
  exists e', ths' = (ths0 ++ e) ++ e' /\
             val_ok (length ths0) keys ths' v' (option_map (abs_tid ths0 kin) v) /\
             fresh_seq (length ths0) (length (ths0 ++ e)) (length ths') (match v' with Some t => [t] | None => [] end).
Proof.
  intros ths0 e rid kin keys [tid|] ths' v' Hok Hinc Hrev; cbn [revert_val] in Hrev.
  - destruct (revert_tid RevFresh (ths0 ++ e) tid) as [ths1 tid1] eqn:E1. inversion Hrev; subst.
    destruct (revert_tid_ok _ _ _ _ _ _ _ _ (Hok tid eq_refl) Hinc E1) as (e1 & -> & Hs1 & Hf1).
    exists e1. split; [reflexivity|]. split; [exact Hs1 | exact Hf1].
  - inversion Hrev; subst. exists []. rewrite app_nil_r. split; [reflexivity|]. split; [exact I | apply fresh_seq_nil].
Qed.

Lemma fld_ok_val : forall ths rid keys f tid, fld_ok ths rid keys f -> ival f = Some tid -> tid_ok ths rid keys tid.
Proof. intros ths rid keys f tid H E. apply H. unfold ftids. rewrite E. left. reflexivity. Qed.

Lemma fld_ok_ctr : forall ths rid keys f kc, fld_ok ths rid keys f -> In kc (ictrs f) -> tid_ok ths rid keys (snd kc).
Proof.
  intros ths rid keys f kc H Hin. apply H. unfold ftids. apply in_or_app. right. apply in_map. exact Hin.
Qed.

Lemma revert_fld_ok : forall ths0 e rid kin keys f ths' f',
  fld_ok ths0 rid kin f -> incl kin keys ->
  revert_fld RevFresh (ths0 ++ e) f = (ths', f') ->
  exists e', ths' = (ths0 ++ e) ++ e' /\
             out_ok (length ths0) keys ths' (abs_fld ths0 kin f) f' /\
             fresh_seq (length ths0) (length (ths0 ++ e)) (length ths') (ftids f').
Proof.
  intros ths0 e rid kin keys f ths' f' Hok Hinc Hrev. unfold revert_fld in Hrev.
  destruct (revert_val RevFresh (ths0 ++ e) (ival f)) as [ths1 v] eqn:E1.
  destruct (revert_ctrs RevFresh ths1 (ictrs f)) as [ths2 cs] eqn:E2. inversion Hrev; subst. clear Hrev.
  destruct (revert_val_ok _ _ _ _ _ _ _ _ (fun tid E => fld_ok_val _ _ _ _ _ Hok E) Hinc E1) as (e1 & -> & Hv & Hf1).
  rewrite <- app_assoc in E2.
  destruct (revert_ctrs_ok _ _ _ _ _ _ _ _ (fun kc H => fld_ok_ctr _ _ _ _ _ Hok H) Hinc E2) as (e2 & -> & Hc & Hf2).
  exists (e1 ++ e2). split; [rewrite !app_assoc; reflexivity|]. split.
  - split; [reflexivity|]. cbn [ival ictrs abs_fld sval sctrs]. split; [|exact Hc].
    apply val_ok_app. rewrite app_assoc. exact Hv.
  - unfold ftids. cbn [ival ictrs].
    eapply fresh_seq_app; [exact Hf1 | rewrite <- app_assoc; exact Hf2 | |]; rewrite !app_length; lia.
Qed.

(* ---- state-threading maps over the fields of a record (revert_all, merge_all, alloc_lit) *)
Section Thread.
  Variable X : Type.
  Variable step : list thunk -> X -> list thunk * ifld.

  Fixpoint thread (ths : list thunk) (l : list (N * X)) : list thunk * irec :=
    match l with
    | [] => (ths, [])
    | (k, x) :: l' =>
        let (ths1, f) := step ths x in
        let (ths2, r) := thread ths1 l' in
        (ths2, (k, f) :: r)
    end.

  Variable tgt : X -> sfld.
  Variable ths0 : list thunk.
  Variable keys : list N.
  Variable P : X -> Prop.

  Definition fld_rel (ths : list thunk) (kx : N * X) (kf' : N * ifld) : Prop :=
    fst kf' = fst kx /\ out_ok (length ths0) keys ths (tgt (snd kx)) (snd kf').

  Lemma fld_rel_app : forall ths e l l',
    Forall2 (fld_rel ths) l l' -> Forall2 (fld_rel (ths ++ e)) l l'.
  Proof.
    intros ths e l l' H. induction H as [|a b l l' [H1 H2] _ IH]; constructor; [|exact IH].
    split; [exact H1 | apply out_ok_app; exact H2].
  Qed.

  Hypothesis step_ok : forall e x ths' f',
    P x -> step (ths0 ++ e) x = (ths', f') ->
    exists e', ths' = (ths0 ++ e) ++ e' /\
               out_ok (length ths0) keys ths' (tgt x) f' /\
               fresh_seq (length ths0) (length (ths0 ++ e)) (length ths') (ftids f').

  Lemma thread_ok : forall L e ths' L',
    (forall k x, In (k, x) L -> P x) ->
    thread (ths0 ++ e) L = (ths', L') ->
    exists e', ths' = (ths0 ++ e) ++ e' /\
               Forall2 (fld_rel ths') L L' /\
               fresh_seq (length ths0) (length (ths0 ++ e)) (length ths') (tids L').
  Proof.
    induction L as [|[k x] L IH]; intros e ths' L' HP Hrun; cbn [thread] in Hrun.
    - inversion Hrun; subst. exists []. rewrite app_nil_r.
      split; [reflexivity|]. split; [constructor | apply fresh_seq_nil].
    - destruct (step (ths0 ++ e) x) as [ths1 f1] eqn:E1.
      destruct (thread ths1 L) as [ths2 L2] eqn:E2. inversion Hrun; subst. clear Hrun.
      destruct (step_ok _ _ _ _ (HP k x (or_introl eq_refl)) E1) as (e1 & -> & Ho1 & Hf1).
      rewrite <- app_assoc in E2.
      destruct (IH (e ++ e1) ths' L2 (fun k' x' H => HP k' x' (or_intror H)) E2) as (e2 & -> & HF & Hfr).
      exists (e1 ++ e2). split; [rewrite !app_assoc; reflexivity|]. split.
      + constructor; [|exact HF]. split; [reflexivity|]. cbn [snd].
        apply out_ok_app. rewrite app_assoc. exact Ho1.
      + cbn [tids flat_map snd]. fold (tids L2).
        eapply fresh_seq_app; [exact Hf1 | rewrite <- app_assoc; exact Hfr | |]; rewrite !app_length; lia.
  Qed.
End Thread.

Lemma revert_all_thread : forall m ths L, revert_all m ths L = thread ifld (revert_fld m) ths L.
Proof.
  intros m ths L. revert ths. induction L as [|[k f] L IH]; intros ths; cbn [revert_all thread]; [reflexivity|].
  destruct (revert_fld m ths f) as [ths1 f1]. rewrite IH. reflexivity.
Qed.

Lemma merge_all_thread : forall c names ths C,
  merge_all c names ths C = thread (ifld * ifld) (fun ths x => merge_fld c names ths (fst x) (snd x)) ths C.
Proof.
  intros c names ths C. revert ths. induction C as [|[k [f1 f2]] C IH]; intros ths; cbn [merge_all thread fst snd]; [reflexivity|].
  destruct (merge_fld c names ths f1 f2) as [ths1 f]. rewrite IH. reflexivity.
Qed.

(* ---- saturate and merge_fields *)
(* the scope of a thunk: its dependencies, or all the field names when they are unknown *)
Definition fil (keys : list N) (deps : option (list N)) : list N :=
  match deps with Some d => d | None => keys end.

Lemma mk_thunk_pre : forall n0 keys tid b deps,
  n0 <= tid -> wf_body (fil keys deps) b ->
  match deps with
  | Some d => incl d keys /\ (d = [] \/ u = false) /\ (u = true -> closed_in [] b)
  | None => u = true /\ closed_in keys b
  end ->
  pre_thunk n0 keys tid (mk_thunk b deps).
Proof.
  intros n0 keys tid b deps Hge Hwf H. unfold mk_thunk. destruct deps as [[|x d]|]; cbn [pre_thunk fil] in *.
  - destruct H as (_ & _ & Hc). split; assumption.
  - destruct H as (Hi & [E|Hu] & _); [discriminate|]. repeat split; assumption.
  - destruct H as (Hu & Hc). repeat split; assumption.
Qed.

Lemma mk_thunk_abs : forall keys b deps, abs_thunk keys (mk_thunk b deps) = abs_body (fil keys deps) b.
Proof. intros keys b deps. unfold mk_thunk. destruct deps as [[|x d]|]; reflexivity. Qed.

Lemma saturate_ok : forall ths0 e rid kin names tid th,
  nth_error ths0 tid = Some th -> thunk_ok rid kin th -> incl kin names ->
  exists b d' dop, saturate (ths0 ++ e) names tid = (b, d') /\ deps_of (ths0 ++ e) tid = dop /\
                   incl d' (fil names dop) /\ wf_body d' b /\ sb_sim (abs_body d' b) (abs_thunk kin th) /\
                   match dop with
                   | Some d => incl d kin /\ (d = [] \/ u = false) /\ (u = true -> closed_in d' b)
                   | None => u = true /\ closed_in d' b
                   end.
Proof.
  intros ths0 e rid kin names tid th Hth Hok Hinc. unfold saturate, deps_of.
  rewrite (nth_error_app_l _ _ e _ _ Hth).
  destruct th as [b|o [d|] [c|]]; cbn [thunk_ok] in Hok; try contradiction.
  - destruct Hok as [Hwf Hc]. exists b, [], (Some []). cbn [fil].
    repeat split; try reflexivity; try (intros x []); try assumption; [apply sb_sim_refl | left; reflexivity].
  - destruct Hok as (Hu & _ & Hwf & Hd). exists o, (filter (fun x => mem x d) names), (Some d). cbn [fil].
    assert (Hsub : incl d (filter (fun x => mem x d) names)).
    { intros x Hx. apply filter_In. split; [apply Hinc, Hd, Hx | apply mem_In, Hx]. }
    split; [reflexivity|]. split; [reflexivity|]. split; [|split; [|split]].
    + intros x Hx. apply filter_In in Hx. apply mem_In. tauto.
    + eapply wf_body_mono; eassumption.
    + cbn [abs_thunk]. apply abs_body_sim. intros x. rewrite mem_filter.
      destruct (mem x d) eqn:E; [|rewrite andb_false_r; reflexivity].
      apply mem_In in E. apply Hd, Hinc in E. apply mem_In in E. rewrite E. reflexivity.
    + split; [exact Hd|]. split; [right; exact Hu|]. intros Hu'. congruence.
  - destruct Hok as (Hu & _ & Hwf & Hcl). exists o, names, None. cbn [fil].
    split; [reflexivity|]. split; [reflexivity|]. split; [apply incl_refl|]. split; [|split].
    + eapply wf_body_mono; eassumption.
    + cbn [abs_thunk]. apply abs_body_closed; assumption.
    + split; [exact Hu | eapply closed_in_mono; eassumption].
Qed.

(* the value part of merge_fields *)
Lemma merge_val_ok : forall c ths0 e rid1 rid2 k1 k2 names f1 f2 ths' p v,
  c_revert c = RevFresh ->
  fld_ok ths0 rid1 k1 f1 -> fld_ok ths0 rid2 k2 f2 -> incl k1 names -> incl k2 names ->
  merge_val c names (ths0 ++ e) f1 f2 = (ths', (p, v)) ->
  let tg := smerge_fld (abs_fld ths0 k1 f1) (abs_fld ths0 k2 f2) in
  exists e', ths' = (ths0 ++ e) ++ e' /\ p = sprio tg /\
             val_ok (length ths0) names ths' v (sval tg) /\
             fresh_seq (length ths0) (length (ths0 ++ e)) (length ths') (match v with Some t => [t] | None => [] end).
Proof.
  intros c ths0 e rid1 rid2 k1 k2 names f1 f2 ths' p v Hrev Hok1 Hok2 Hi1 Hi2 Hm. cbv zeta.
  unfold merge_val in Hm. rewrite Hrev in Hm. unfold smerge_fld. cbn [abs_fld sval sprio].
  destruct (ival f1) as [t1|] eqn:Ev1; destruct (ival f2) as [t2|] eqn:Ev2; cbn [option_map].
  - destruct (pcmp (iprio f1) (iprio f2)) eqn:Ec; cbn [sprio sval].
    + (* equal priorities: fields_merge_closurize *)
      destruct (fld_ok_val _ _ _ _ _ Hok1 Ev1) as (th1 & Hth1 & Htok1).
      destruct (fld_ok_val _ _ _ _ _ Hok2 Ev2) as (th2 & Hth2 & Htok2).
      destruct (saturate_ok ths0 e rid1 k1 names t1 th1 Hth1 Htok1 Hi1) as (b1 & d1' & dop1 & Hs1 & Hd1 & Hsub1 & Hw1 & Hsim1 & Hm1).
      destruct (saturate_ok ths0 e rid2 k2 names t2 th2 Hth2 Htok2 Hi2) as (b2 & d2' & dop2 & Hs2 & Hd2 & Hsub2 & Hw2 & Hsim2 & Hm2).
      rewrite Hs1, Hs2, Hd1, Hd2 in Hm. inversion Hm; subst ths' p v. clear Hm.
      set (U := union_deps dop1 dop2).
      assert (HF1 : incl (fil names dop1) (fil names U)).
      { unfold U. destruct dop1 as [d1|], dop2 as [d2|]; cbn [union_deps fil]; try apply incl_refl.
        - intros x Hx. apply in_or_app. left. exact Hx.
        - destruct Hm1 as (Hk & _). intros x Hx. apply Hi1, Hk, Hx. }
      assert (HF2 : incl (fil names dop2) (fil names U)).
      { unfold U. destruct dop1 as [d1|], dop2 as [d2|]; cbn [union_deps fil]; try apply incl_refl.
        - intros x Hx. apply in_or_app. destruct (mem x d1) eqn:E; [left; apply mem_In; exact E|].
          right. apply filter_In. split; [exact Hx | rewrite E; reflexivity].
        - destruct Hm2 as (Hk & _). intros x Hx. apply Hi2, Hk, Hx. }
      exists [mk_thunk (BMerge b1 d1' b2 d2') U]. split; [reflexivity|]. split; [reflexivity|]. split.
      * cbn [val_ok]. exists (mk_thunk (BMerge b1 d1' b2 d2') U).
        rewrite nth_error_app2 by lia. rewrite Nat.sub_diag. split; [reflexivity|]. split.
        -- apply mk_thunk_pre; [rewrite app_length; lia | |].
           ++ cbn [wf_body]. repeat split; try assumption; eapply incl_tran; eassumption.
           ++ unfold U. destruct dop1 as [d1|], dop2 as [d2|]; cbn [union_deps closed_in].
              ** destruct Hm1 as (Hk1 & Hz1 & Hc1). destruct Hm2 as (Hk2 & Hz2 & Hc2). split; [|split].
                 --- intros x Hx. apply in_app_or in Hx. destruct Hx as [Hx|Hx]; [apply Hi1, Hk1, Hx|].
                     apply filter_In in Hx. apply Hi2, Hk2. tauto.
                 --- destruct Hz1 as [->|Hu]; [|right; exact Hu]. destruct Hz2 as [->|Hu]; [left; reflexivity | right; exact Hu].
                 --- intros Hu. destruct Hz1 as [->|Hu1]; [|congruence]. destruct Hz2 as [->|Hu2]; [|congruence].
                     apply incl_nil_eq in Hsub1. apply incl_nil_eq in Hsub2. subst d1' d2'. split; auto.
              ** destruct Hm1 as (_ & _ & Hc1). destruct Hm2 as (Hu & Hc2). split; [exact Hu|]. split; auto.
              ** destruct Hm1 as (Hu & Hc1). destruct Hm2 as (_ & _ & Hc2). split; [exact Hu|]. split; auto.
              ** destruct Hm1 as (Hu & Hc1). destruct Hm2 as (_ & Hc2). split; [exact Hu|]. split; assumption.
        -- rewrite mk_thunk_abs. cbn [abs_body]. unfold abs_tid. rewrite Hth1, Hth2. constructor; assumption.
      * apply fresh_seq_one. rewrite !app_length. cbn [length]. lia.
    + (* the right side wins *)
      destruct (revert_val RevFresh (ths0 ++ e) (Some t2)) as [ths1 v1] eqn:E1. inversion Hm; subst.
      destruct (revert_val_ok _ _ _ _ _ _ _ _
                  (fun tid E => fld_ok_val _ _ _ _ _ Hok2 (eq_trans Ev2 E)) Hi2 E1) as (e' & -> & Hv & Hf).
      exists e'. split; [reflexivity|]. split; [reflexivity|]. split; assumption.
    + destruct (revert_val RevFresh (ths0 ++ e) (Some t1)) as [ths1 v1] eqn:E1. inversion Hm; subst.
      destruct (revert_val_ok _ _ _ _ _ _ _ _
                  (fun tid E => fld_ok_val _ _ _ _ _ Hok1 (eq_trans Ev1 E)) Hi1 E1) as (e' & -> & Hv & Hf).
      exists e'. split; [reflexivity|]. split; [reflexivity|]. split; assumption.
  - destruct (revert_val RevFresh (ths0 ++ e) (Some t1)) as [ths1 v1] eqn:E1. inversion Hm; subst.
    destruct (revert_val_ok _ _ _ _ _ _ _ _
                (fun tid E => fld_ok_val _ _ _ _ _ Hok1 (eq_trans Ev1 E)) Hi1 E1) as (e' & -> & Hv & Hf).
    exists e'. split; [reflexivity|]. split; [reflexivity|]. split; assumption.
  - destruct (revert_val RevFresh (ths0 ++ e) (Some t2)) as [ths1 v1] eqn:E1. inversion Hm; subst.
    destruct (revert_val_ok _ _ _ _ _ _ _ _
                (fun tid E => fld_ok_val _ _ _ _ _ Hok2 (eq_trans Ev2 E)) Hi2 E1) as (e' & -> & Hv & Hf).
    exists e'. split; [reflexivity|]. split; [reflexivity|]. split; assumption.
  - inversion Hm; subst. exists []. rewrite app_nil_r. split; [reflexivity|]. split; [reflexivity|].
    split; [exact I | apply fresh_seq_nil].
Qed.

Lemma smerge_fld_ctrs : forall f1 f2, sctrs (smerge_fld f1 f2) = sctrs f1 ++ sctrs f2.
Proof.
  intros f1 f2. unfold smerge_fld. destruct (sval f1), (sval f2); try reflexivity.
  destruct (pcmp (sprio f1) (sprio f2)); reflexivity.
Qed.

Lemma merge_fld_ok : forall c ths0 e rid1 rid2 k1 k2 names f1 f2 ths' f',
  c_revert c = RevFresh ->
  fld_ok ths0 rid1 k1 f1 -> fld_ok ths0 rid2 k2 f2 -> incl k1 names -> incl k2 names ->
  merge_fld c names (ths0 ++ e) f1 f2 = (ths', f') ->
  exists e', ths' = (ths0 ++ e) ++ e' /\
             out_ok (length ths0) names ths' (smerge_fld (abs_fld ths0 k1 f1) (abs_fld ths0 k2 f2)) f' /\
             fresh_seq (length ths0) (length (ths0 ++ e)) (length ths') (ftids f').
Proof.
  intros c ths0 e rid1 rid2 k1 k2 names f1 f2 ths' f' Hrev Hok1 Hok2 Hi1 Hi2 Hm. unfold merge_fld in Hm.
  destruct (merge_val c names (ths0 ++ e) f1 f2) as [ths1 [p v]] eqn:E0.
  rewrite Hrev in Hm.
  destruct (revert_ctrs RevFresh ths1 (ictrs f1)) as [ths2 cs1] eqn:E1.
  destruct (revert_ctrs RevFresh ths2 (ictrs f2)) as [ths3 cs2] eqn:E2. inversion Hm; subst. clear Hm.
  destruct (merge_val_ok _ _ _ _ _ _ _ _ _ _ _ _ _ Hrev Hok1 Hok2 Hi1 Hi2 E0) as (e0 & -> & Hp & Hv & Hf0).
  rewrite <- app_assoc in E1.
  destruct (revert_ctrs_ok _ _ _ _ _ _ _ _ (fun kc H => fld_ok_ctr _ _ _ _ _ Hok1 H) Hi1 E1) as (e1 & -> & Hc1 & Hf1).
  rewrite <- app_assoc in E2.
  destruct (revert_ctrs_ok _ _ _ _ _ _ _ _ (fun kc H => fld_ok_ctr _ _ _ _ _ Hok2 H) Hi2 E2) as (e2 & -> & Hc2 & Hf2).
  exists (e0 ++ e1 ++ e2). split; [rewrite !app_assoc; reflexivity|]. split.
  - split; [cbn [iprio fst]; exact Hp|]. cbn [ival ictrs snd]. split.
    + eapply val_ok_prefix; [|exact Hv]. solve_prefix.
    + rewrite smerge_fld_ctrs. cbn [abs_fld sctrs]. apply Forall2_app.
      * eapply ctrs_ok_prefix; [|exact Hc1]. solve_prefix.
      * eapply ctrs_ok_prefix; [|exact Hc2]. solve_prefix.
  - unfold ftids. cbn [ival ictrs snd]. rewrite map_app.
    assert (Hf12 : fresh_seq (length ths0) (length ((ths0 ++ e) ++ e0)) (length (ths0 ++ e ++ e0 ++ e1 ++ e2)) (map snd cs1 ++ map snd cs2))
      by (fs_app Hf1 Hf2).
    fs_app Hf0 Hf12.
Qed.

(* ------------------------------------------------------------------------- phase 2: patching *)
Definition patch1 (rid : nat) (th : thunk) : thunk :=
  match th with
  | Rev o d None => Rev o d (Some rid)
  | _ => th
  end.

Definition in_nat (i : nat) (l : list nat) : bool := existsb (Nat.eqb i) l.

Lemma in_nat_In : forall i l, in_nat i l = true <-> In i l.
Proof.
  intros i l. unfold in_nat. rewrite existsb_exists. split.
  - intros [y [Hy He]]. apply Nat.eqb_eq in He. subst. exact Hy.
  - intros H. exists i. split; [exact H | apply Nat.eqb_refl].
Qed.

Lemma in_nat_false : forall i l, in_nat i l = false <-> ~ In i l.
Proof.
  intros i l. rewrite <- in_nat_In. destruct (in_nat i l); split; intros H.
  - discriminate.
  - exfalso. apply H. reflexivity.
  - intros H'. discriminate.
  - reflexivity.
Qed.


Lemma pre_thunk_fresh : forall n0 keys tid o dd c, pre_thunk n0 keys tid (Rev o dd c) -> c = None /\ n0 <= tid.
Proof.
  intros n0 keys tid o [d|] [c|] H; cbn [pre_thunk] in H; try contradiction; split; try reflexivity; tauto.
Qed.

Lemma patch_tids_ok : forall rid n0 keys ts ths,
  (forall tid, In tid ts -> pre_tid n0 keys ths tid) ->
  NoDup (filter (isfresh n0) ts) ->
  exists ths', patch_tids PAssert rid ths ts = Some ths' /\ length ths' = length ths /\
    forall i, nth_error ths' i
              = option_map (fun th => if in_nat i ts then patch1 rid th else th) (nth_error ths i).
Proof.
  intros rid n0 keys. induction ts as [|tid ts IH]; intros ths Hpre Hnd.
  - exists ths. split; [reflexivity|]. split; [reflexivity|]. intros i. destruct (nth_error ths i); reflexivity.
  - cbn [patch_tids]. destruct (Hpre tid (or_introl eq_refl)) as (th & Hth & Hpt). rewrite Hth.
    destruct th as [b|o dd c].
    + (* standard thunk: nothing to do *)
      cbn [patch_thunk]. rewrite (set_nth_same _ _ _ _ Hth).
      assert (Hnd' : NoDup (filter (isfresh n0) ts)).
      { cbn [filter] in Hnd. destruct (isfresh n0 tid); [inversion Hnd; assumption | exact Hnd]. }
      destruct (IH ths (fun t H => Hpre t (or_intror H)) Hnd') as (ths' & Hp & Hlen & Hnth).
      exists ths'. split; [exact Hp|]. split; [exact Hlen|]. intros i. rewrite Hnth.
      unfold in_nat at 2. cbn [existsb]. fold (in_nat i ts).
      destruct (Nat.eqb i tid) eqn:E; [|reflexivity]. apply Nat.eqb_eq in E. subst i. rewrite Hth.
      cbn [option_map orb]. destruct (in_nat tid ts); reflexivity.
    + (* fresh revertible thunk: set its cached value *)
      destruct (pre_thunk_fresh _ _ _ _ _ _ Hpt) as [-> Hge]. cbn [patch_thunk].
      assert (Hfil : filter (isfresh n0) (tid :: ts) = tid :: filter (isfresh n0) ts).
      { cbn [filter]. unfold isfresh at 1. apply Nat.leb_le in Hge. rewrite Hge. reflexivity. }
      rewrite Hfil in Hnd. inversion Hnd as [|? ? Hni Hnd']; subst.
      assert (Hni' : ~ In tid ts).
      { intros H. apply Hni. apply filter_In. split; [exact H | apply Nat.leb_le; exact Hge]. }
      set (ths1 := set_nth tid (Rev o dd (Some rid)) ths).
      assert (Hpre1 : forall t, In t ts -> pre_tid n0 keys ths1 t).
      { intros t Hin. destruct (Hpre t (or_intror Hin)) as (th' & Hth' & Hpt').
        exists th'. split; [|exact Hpt']. unfold ths1. rewrite nth_error_set_nth_neq; [exact Hth'|].
        intros ->. contradiction. }
      destruct (IH ths1 Hpre1 Hnd') as (ths' & Hp & Hlen & Hnth).
      exists ths'. split; [exact Hp|]. split; [rewrite Hlen; apply length_set_nth|]. intros i. rewrite Hnth.
      unfold in_nat at 2. cbn [existsb]. fold (in_nat i ts).
      destruct (Nat.eqb i tid) eqn:E.
      * apply Nat.eqb_eq in E. subst i. unfold ths1. rewrite (nth_error_set_nth_eq _ _ _ _ _ Hth), Hth.
        cbn [option_map orb]. apply in_nat_false in Hni'. rewrite Hni'. reflexivity.
      * apply Nat.eqb_neq in E. unfold ths1. rewrite nth_error_set_nth_neq by congruence. reflexivity.
Qed.

Lemma patch_prefix : forall rid n0 keys ts ths3 ths4,
  (forall i, nth_error ths4 i
             = option_map (fun th => if in_nat i ts then patch1 rid th else th) (nth_error ths3 i)) ->
  (forall tid, In tid ts -> pre_tid n0 keys ths3 tid) ->
  forall i, i < n0 -> nth_error ths4 i = nth_error ths3 i.
Proof.
  intros rid n0 keys ts ths3 ths4 Hnth Hpre i Hi. rewrite Hnth.
  destruct (nth_error ths3 i) as [th|] eqn:Eth; [|reflexivity]. cbn [option_map].
  destruct (in_nat i ts) eqn:Em; [|reflexivity].
  apply in_nat_In in Em. destruct (Hpre i Em) as (th' & Hth' & Hpt).
  rewrite Eth in Hth'. inversion Hth'; subst th'.
  destruct th as [b|o dd c]; [reflexivity|].
  destruct (pre_thunk_fresh _ _ _ _ _ _ Hpt) as [_ Hge]. lia.
Qed.

(* ------------------------------------------------------------------------- lookups through split *)
Fixpoint alookup {X} (k : N) (l : list (N * X)) : option X :=
  match l with
  | [] => None
  | (k', x) :: l' => if N.eqb k k' then Some x else alookup k l'
  end.

Lemma ilookup_alookup : forall k r, ilookup k r = alookup k r.
Proof. intros k r. induction r as [|[k' f] r IH]; cbn [ilookup alookup]; [reflexivity | rewrite IH; reflexivity]. Qed.

Lemma Forall2_lookup : forall X (Q : X -> ifld -> Prop) (l : list (N * X)) (l' : irec),
  Forall2 (fun kx kf' => fst kf' = fst kx /\ Q (snd kx) (snd kf')) l l' ->
  forall k, match alookup k l with
            | Some x => exists f', ilookup k l' = Some f' /\ Q x f'
            | None => ilookup k l' = None
            end.
Proof.
  intros X Q l l' H k. induction H as [|[k1 x] [k2 f'] l l' [H1 H2] _ IH]; [reflexivity|].
  cbn [fst snd] in H1, H2. subst k2. cbn [alookup ilookup]. destruct (N.eqb k k1); [|exact IH].
  exists f'. split; [reflexivity | exact H2].
Qed.

Lemma Forall2_keys : forall X (Q : X -> ifld -> Prop) (l : list (N * X)) (l' : irec),
  Forall2 (fun kx kf' => fst kf' = fst kx /\ Q (snd kx) (snd kf')) l l' -> ikeys l' = map fst l.
Proof.
  intros X Q l l' H. induction H as [|a b l l' [H1 _] _ IH]; [reflexivity|].
  cbn [ikeys map]. rewrite H1. f_equal. exact IH.
Qed.

Lemma Forall2_In_r : forall X (Q : X -> ifld -> Prop) (l : list (N * X)) (l' : irec),
  Forall2 (fun kx kf' => fst kf' = fst kx /\ Q (snd kx) (snd kf')) l l' ->
  forall k f', In (k, f') l' -> exists x, In (k, x) l /\ Q x f'.
Proof.
  intros X Q l l' H. induction H as [|[k1 x] [k2 f2] l l' [H1 H2] _ IH]; intros k f' Hin; [destruct Hin|].
  cbn [fst snd] in H1, H2. subst k2. destruct Hin as [E|Hin].
  - inversion E; subst. exists x. split; [left; reflexivity | exact H2].
  - destruct (IH k f' Hin) as (x' & Hx & HQ). exists x'. split; [right; exact Hx | exact HQ].
Qed.

Lemma mem_keys_lookup : forall k r, mem k (ikeys r) = false <-> ilookup k r = None.
Proof. intros k r. rewrite mem_false, ilookup_None. reflexivity. Qed.

Lemma alookup_split_left : forall k r1 r2,
  alookup k (split_left r1 r2) = if mem k (ikeys r2) then None else ilookup k r1.
Proof.
  intros k r1 r2. unfold split_left. induction r1 as [|[k' f] r1 IH]; cbn [filter ilookup fst].
  - destruct (mem k (ikeys r2)); reflexivity.
  - destruct (negb (mem k' (ikeys r2))) eqn:Em; cbn [alookup]; destruct (N.eqb k k') eqn:E.
    + apply N.eqb_eq in E. subst k'. apply negb_true_iff in Em. rewrite Em. reflexivity.
    + exact IH.
    + apply N.eqb_eq in E. subst k'. apply negb_false_iff in Em. rewrite Em in *. exact IH.
    + exact IH.
Qed.

Lemma alookup_app : forall X k (l1 l2 : list (N * X)),
  alookup k (l1 ++ l2) = match alookup k l1 with Some x => Some x | None => alookup k l2 end.
Proof.
  intros X k l1 l2. induction l1 as [|[k' x] l1 IH]; cbn [alookup app]; [reflexivity|].
  destruct (N.eqb k k'); [reflexivity | exact IH].
Qed.

Lemma alookup_split_center : forall k r1 r2,
  alookup k (split_center r1 r2)
  = match ilookup k r1, ilookup k r2 with Some f1, Some f2 => Some (f1, f2) | _, _ => None end.
Proof.
  intros k r1 r2. unfold split_center. induction r1 as [|[k' f] r1 IH]; cbn [flat_map ilookup fst snd].
  - reflexivity.
  - rewrite alookup_app, IH. destruct (N.eqb k k') eqn:E.
    + apply N.eqb_eq in E. subst k'. destruct (ilookup k r2) as [f2|] eqn:E2.
      * cbn [alookup]. rewrite N.eqb_refl. reflexivity.
      * cbn [alookup]. destruct (ilookup k r1); reflexivity.
    + destruct (ilookup k' r2) as [f2|]; cbn [alookup]; [rewrite E|]; reflexivity.
Qed.

Lemma keys_split_left : forall r1 r2,
  ikeys (split_left r1 r2) = filter (fun k => negb (mem k (ikeys r2))) (ikeys r1).
Proof.
  intros r1 r2. unfold split_left, ikeys. induction r1 as [|[k f] r1 IH]; [reflexivity|].
  cbn [filter map fst]. destruct (negb (mem k (map fst r2))); cbn [map fst]; rewrite IH; reflexivity.
Qed.

Lemma keys_split_center : forall r1 r2,
  map fst (split_center r1 r2) = filter (fun k => mem k (ikeys r2)) (ikeys r1).
Proof.
  intros r1 r2. unfold split_center, ikeys. induction r1 as [|[k f] r1 IH]; [reflexivity|].
  cbn [flat_map filter map fst snd]. rewrite map_app, IH.
  destruct (ilookup k r2) as [f2|] eqn:E.
  - assert (Hm : mem k (map fst r2) = true).
    { destruct (mem k (map fst r2)) eqn:Em; [reflexivity|]. apply mem_keys_lookup in Em. congruence. }
    rewrite Hm. reflexivity.
  - apply mem_keys_lookup in E. unfold ikeys in E. rewrite E. reflexivity.
Qed.

Lemma NoDup_filter : forall A (p : A -> bool) l, NoDup l -> NoDup (filter p l).
Proof.
  intros A p l H. induction H as [|a l Hni H IH]; [constructor|].
  cbn [filter]. destruct (p a); [|exact IH]. constructor; [|exact IH].
  intros Hin. apply filter_In in Hin. tauto.
Qed.

(* ------------------------------------------------------------------------- frames *)
Definition extends (st st' : state) : Prop :=
  (exists rs, recs st' = recs st ++ rs) /\
  forall i, i < length (thunks st) -> nth_error (thunks st') i = nth_error (thunks st) i.

Lemma extends_refl : forall st, extends st st.
Proof. intros st. split; [exists []; rewrite app_nil_r; reflexivity | reflexivity]. Qed.

Lemma extends_trans : forall st1 st2 st3, extends st1 st2 -> extends st2 st3 -> extends st1 st3.
Proof.
  intros st1 st2 st3 [[rs1 H1] H1'] [[rs2 H2] H2']. split.
  - exists (rs1 ++ rs2). rewrite H2, H1, app_assoc. reflexivity.
  - intros i Hi. assert (Hlen : i < length (thunks st2)).
    { apply nth_error_Some. rewrite H1' by exact Hi. apply nth_error_Some. exact Hi. }
    rewrite H2' by exact Hlen. apply H1'. exact Hi.
Qed.

Lemma extends_rec : forall st st' rid r,
  extends st st' -> nth_error (recs st) rid = Some r -> nth_error (recs st') rid = Some r.
Proof. intros st st' rid r [[rs H] _] Hr. rewrite H. apply nth_error_app_l. exact Hr. Qed.


Lemma extends_tid_ok : forall st st' rid keys tid,
  extends st st' -> tid_ok (thunks st) rid keys tid -> tid_ok (thunks st') rid keys tid.
Proof.
  intros st st' rid keys tid [_ H] (th & Hth & Htok). exists th. split; [|exact Htok]. rewrite H; [exact Hth|].
  apply nth_error_Some. congruence.
Qed.

Lemma extends_abs_tid : forall st st' rid keys tid,
  extends st st' -> tid_ok (thunks st) rid keys tid -> abs_tid (thunks st') keys tid = abs_tid (thunks st) keys tid.
Proof.
  intros st st' rid keys tid [_ H] (th & Hth & _). unfold abs_tid. rewrite H; [reflexivity|]. apply nth_error_Some. congruence.
Qed.

Lemma extends_fld_ok : forall st st' rid keys f,
  extends st st' -> fld_ok (thunks st) rid keys f -> fld_ok (thunks st') rid keys f.
Proof. intros st st' rid keys f Hext Hok tid Hin. eapply extends_tid_ok; [exact Hext | apply Hok; exact Hin]. Qed.

Lemma extends_abs_fld : forall st st' rid keys f,
  extends st st' -> fld_ok (thunks st) rid keys f -> abs_fld (thunks st') keys f = abs_fld (thunks st) keys f.
Proof.
  intros st st' rid keys f Hext Hok. unfold abs_fld. f_equal.
  - destruct (ival f) as [tid|] eqn:Ev; [|reflexivity]. cbn [option_map]. f_equal.
    eapply extends_abs_tid; [exact Hext | eapply fld_ok_val; eassumption].
  - apply map_ext_in. intros kc Hin. f_equal. eapply extends_abs_tid; [exact Hext | eapply fld_ok_ctr; eassumption].
Qed.

(* existing record instances are not affected by what happens later *)
Theorem extends_coherent : forall st st' rid,
  extends st st' -> coherent st rid -> coherent st' rid /\ abs st' rid = abs st rid.
Proof.
  intros st st' rid Hext (r & Hr & Hnd & Hok). split.
  - exists r. split; [eapply extends_rec; eassumption|]. split; [exact Hnd|].
    intros k f Hin. eapply extends_fld_ok; [exact Hext | apply (Hok k f Hin)].
  - unfold abs. rewrite Hr, (extends_rec _ _ _ _ Hext Hr). unfold abs_rec. apply map_ext_in.
    intros [k f] Hin. cbn [fst snd]. f_equal. eapply extends_abs_fld; [exact Hext | apply (Hok k f Hin)].
Qed.

(* ------------------------------------------------------------------------- merge *)
Lemma abs_thunk_patch1 : forall keys rid th, abs_thunk keys (patch1 rid th) = abs_thunk keys th.
Proof. intros keys rid [b|o [d|] [c|]]; reflexivity. Qed.

(* a thunk of the new record after patching *)
Lemma slot_patched : forall n0 keys ths3 ths4 rid ts tid sb,
  (forall i, nth_error ths4 i
             = option_map (fun th => if in_nat i ts then patch1 rid th else th) (nth_error ths3 i)) ->
  In tid ts -> slot_ok n0 keys ths3 tid sb ->
  sb_sim (abs_tid ths4 keys tid) sb /\ tid_ok ths4 rid keys tid.
Proof.
  intros n0 keys ths3 ths4 rid ts tid sb Hnth Hin (th & Hth & Hpre & Hsim).
  apply in_nat_In in Hin. unfold abs_tid, MechInv.tid_ok. rewrite Hnth, Hth. cbn [option_map]. rewrite Hin. split.
  - rewrite abs_thunk_patch1. exact Hsim.
  - exists (patch1 rid th). split; [reflexivity|].
    destruct th as [b|o [d|] [c|]]; cbn [pre_thunk] in Hpre; try contradiction; cbn [patch1 MechInv.thunk_ok].
    + exact Hpre.
    + destruct Hpre as (Hu & _ & Hwf & Hd). repeat split; assumption.
    + destruct Hpre as (Hu & _ & Hwf & Hc). repeat split; assumption.
Qed.

Lemma out_ok_patched : forall n0 keys ths3 ths4 rid outs tgt k f,
  (forall i, nth_error ths4 i
             = option_map (fun th => if in_nat i (tids outs) then patch1 rid th else th) (nth_error ths3 i)) ->
  In (k, f) outs -> out_ok n0 keys ths3 tgt f ->
  sfld_sim (abs_fld ths4 keys f) tgt /\ fld_ok ths4 rid keys f.
Proof.
  intros n0 keys ths3 ths4 rid outs tgt k f Hnth Hin (Hp & Hv & Hc).
  assert (Hsub : forall tid, In tid (ftids f) -> In tid (tids outs)).
  { intros tid Ht. unfold tids. apply in_flat_map. exists (k, f). split; [exact Hin | exact Ht]. }
  assert (Hval : forall tid sb, ival f = Some tid -> sval tgt = Some sb ->
                 sb_sim (abs_tid ths4 keys tid) sb /\ tid_ok ths4 rid keys tid).
  { intros tid sb Ev Es. rewrite Ev, Es in Hv. cbn [val_ok] in Hv.
    apply (slot_patched n0 keys ths3 ths4 rid (tids outs) tid sb Hnth); [|exact Hv].
    apply Hsub. unfold ftids. rewrite Ev. left. reflexivity. }
  assert (Hctr : Forall2 (fun kc ks => fst kc = fst ks /\ sb_sim (abs_tid ths4 keys (snd kc)) (snd ks) /\ tid_ok ths4 rid keys (snd kc))
                         (ictrs f) (sctrs tgt)).
  { assert (Hsubc : forall kc, In kc (ictrs f) -> In (snd kc) (tids outs)).
    { intros kc Hkc. apply Hsub. unfold ftids. apply in_or_app. right. apply in_map. exact Hkc. }
    clear Hv Hval. induction Hc as [|a b l l' [H1 H2] _ IH]; constructor.
    - split; [exact H1|]. apply (slot_patched n0 keys ths3 ths4 rid (tids outs) (snd a) (snd b) Hnth); [|exact H2].
      apply Hsubc. left. reflexivity.
    - apply IH. intros kc Hkc. apply Hsubc. right. exact Hkc. }
  split.
  - split; [exact Hp|]. cbn [abs_fld sval sctrs]. split.
    + destruct (ival f) as [tid|] eqn:Ev; destruct (sval tgt) as [sb|] eqn:Es; cbn [val_ok] in Hv; try contradiction; cbn [option_map osb_sim]; [|exact I].
      exact (proj1 (Hval tid sb eq_refl eq_refl)).
    + unfold ctrs_sim. clear Hc. induction Hctr as [|a b l l' (H1 & H2 & _) _ IH]; cbn [map]; constructor; [|exact IH].
      split; [exact H1 | exact H2].
  - intros tid Ht. unfold ftids in Ht. apply in_app_or in Ht. destruct Ht as [Ht|Ht].
    + destruct (ival f) as [t|] eqn:Ev; [|destruct Ht]. destruct Ht as [->|[]].
      destruct (sval tgt) as [sb|] eqn:Es; cbn [val_ok] in Hv; [|contradiction].
      exact (proj2 (Hval tid sb eq_refl eq_refl)).
    + apply in_map_iff in Ht. destruct Ht as [[kk t] [E Hkc]]. cbn [snd] in E. subst t.
      clear Hc. induction Hctr as [|a b l l' (_ & _ & H3) _ IH]; [destruct Hkc|].
      destruct Hkc as [->|Hkc]; [exact H3 | apply IH; exact Hkc].
Qed.

Lemma incl_keys_names_l : forall r1 r2,
  incl (ikeys r1) (ikeys (split_left r1 r2) ++ map fst (split_center r1 r2) ++ ikeys (split_left r2 r1)).
Proof.
  intros r1 r2 k Hk. rewrite keys_split_left, keys_split_center. rewrite !in_app_iff, !filter_In.
  destruct (mem k (ikeys r2)) eqn:E.
  - right. left. split; [exact Hk | reflexivity].
  - left. split; [exact Hk | reflexivity].
Qed.

Lemma incl_keys_names_r : forall r1 r2,
  incl (ikeys r2) (ikeys (split_left r1 r2) ++ map fst (split_center r1 r2) ++ ikeys (split_left r2 r1)).
Proof.
  intros r1 r2 k Hk. rewrite keys_split_left, keys_split_center, keys_split_left. rewrite !in_app_iff, !filter_In.
  destruct (mem k (ikeys r1)) eqn:E.
  - right. left. apply mem_In in E. split; [exact E | apply mem_In; exact Hk].
  - right. right. split; [exact Hk | reflexivity].
Qed.

Lemma sfld_sim_trans : forall f1 f2 f3, sfld_sim f1 f2 -> sfld_sim f2 f3 -> sfld_sim f1 f3.
Proof.
  intros f1 f2 f3 H1 H2. exact (opt_sim_trans (Some f1) (Some f2) (Some f3) H1 H2).
Qed.

(* only the membership in the field names matters *)
Lemma abs_tid_keys_sim : forall ths k1 k2 tid, (forall x, mem x k1 = mem x k2) -> sb_sim (abs_tid ths k1 tid) (abs_tid ths k2 tid).
Proof.
  intros ths k1 k2 tid H. unfold abs_tid. destruct (nth_error ths tid) as [[b|o [d|] c]|]; cbn [abs_thunk]; try apply sb_sim_refl.
  apply abs_body_sim. exact H.
Qed.

Lemma abs_fld_keys_sim : forall ths k1 k2 f, (forall x, mem x k1 = mem x k2) -> sfld_sim (abs_fld ths k1 f) (abs_fld ths k2 f).
Proof.
  intros ths k1 k2 f H. split; [reflexivity|]. cbn [abs_fld sval sctrs]. split.
  - destruct (ival f) as [tid|]; cbn [option_map osb_sim]; [apply abs_tid_keys_sim; exact H | exact I].
  - unfold ctrs_sim. induction (ictrs f) as [|kc cs IH]; cbn [map]; constructor; [|exact IH].
    split; [reflexivity | apply abs_tid_keys_sim; exact H].
Qed.

(* a coherent field denotes the same under any larger set of field names *)
Lemma abs_tid_scope_sim : forall ths rid names keys' tid,
  incl names keys' -> tid_ok ths rid names tid -> sb_sim (abs_tid ths keys' tid) (abs_tid ths names tid).
Proof.
  intros ths rid names keys' tid Hinc (th & Hth & Htok). unfold abs_tid. rewrite Hth.
  destruct th as [b|o [d|] [c|]]; cbn [MechInv.thunk_ok] in Htok; try contradiction; cbn [abs_thunk]; try apply sb_sim_refl.
  destruct Htok as (_ & _ & _ & Hcl). apply abs_body_closed; assumption.
Qed.

Lemma abs_fld_scope_sim : forall ths rid names keys' f,
  incl names keys' -> fld_ok ths rid names f -> sfld_sim (abs_fld ths keys' f) (abs_fld ths names f).
Proof.
  intros ths rid names keys' f Hinc Hok. split; [reflexivity|]. cbn [abs_fld sval sctrs]. split.
  - destruct (ival f) as [tid|] eqn:Ev; cbn [option_map osb_sim]; [|exact I].
    eapply abs_tid_scope_sim; [exact Hinc | eapply fld_ok_val; eassumption].
  - unfold ctrs_sim. assert (Hc : forall kc, In kc (ictrs f) -> tid_ok ths rid names (snd kc)) by (intros kc H; eapply fld_ok_ctr; eassumption).
    induction (ictrs f) as [|kc cs IH]; cbn [map]; constructor.
    + split; [reflexivity|]. eapply abs_tid_scope_sim; [exact Hinc | apply Hc; left; reflexivity].
    + apply IH. intros kc' H. apply Hc. right. exact H.
Qed.

Lemma wf_body_equiv : forall b d d', (forall x, mem x d' = mem x d) -> wf_body d b -> wf_body d' b.
Proof.
  intros b d d' H. apply wf_body_mono. intros x Hx. apply mem_In. rewrite H. apply mem_In. exact Hx.
Qed.

Lemma fld_ok_keys_equiv : forall ths rid keys keys' f,
  (forall x, mem x keys' = mem x keys) -> fld_ok ths rid keys f -> fld_ok ths rid keys' f.
Proof.
  intros ths rid keys keys' f H Hok tid Ht. destruct (Hok tid Ht) as (th & Hth & Htok). exists th. split; [exact Hth|].
  assert (Hinc : incl keys keys') by (intros x Hx; apply mem_In; rewrite H; apply mem_In; exact Hx).
  destruct th as [b|o [d|] [c0|]]; cbn [MechInv.thunk_ok] in *; try contradiction; [exact Htok| |].
  - destruct Htok as (Hu & Hc & Hwf & Hd). repeat split; try assumption. eapply incl_tran; eassumption.
  - destruct Htok as (Hu & Hc & Hwf & Hcl). repeat split; try assumption.
    + eapply wf_body_mono; eassumption.
    + eapply closed_in_mono; eassumption.
Qed.

Theorem merge_general_ok : forall c st rid1 rid2 r1 r2,
  faithful c ->
  nth_error (recs st) rid1 = Some r1 -> nth_error (recs st) rid2 = Some r2 ->
  coherent st rid1 -> coherent st rid2 ->
  exists st', merge_general c st r1 r2 = Some (st', length (recs st)) /\
              extends st st' /\ coherent st' (length (recs st)) /\
              srec_sim (abs st' (length (recs st))) (smerge (abs st rid1) (abs st rid2)).
Proof.
  intros c st rid1 rid2 r1 r2 (_ & Hrev & Hpm & _ & _) Hr1 Hr2 (r1' & Hr1' & Hnd1 & Hok1) (r2' & Hr2' & Hnd2 & Hok2).
  rewrite Hr1 in Hr1'. inversion Hr1'; subst r1'. clear Hr1'.
  rewrite Hr2 in Hr2'. inversion Hr2'; subst r2'. clear Hr2'.
  unfold merge_general. rewrite Hrev, Hpm.
  set (ths0 := thunks st) in *.
  set (L := split_left r1 r2). set (R := split_left r2 r1). set (C := split_center r1 r2).
  set (names := ikeys L ++ map fst C ++ ikeys R).
  assert (Hin1 : incl (ikeys r1) names) by apply incl_keys_names_l.
  assert (Hin2 : incl (ikeys r2) names) by apply incl_keys_names_r.
  (* phase 1 *)
  rewrite (revert_all_thread RevFresh ths0 L).
  destruct (thread ifld (revert_fld RevFresh) ths0 L) as [ths1 L'] eqn:E1.
  rewrite <- (app_nil_r ths0) in E1.
  destruct (thread_ok ifld (revert_fld RevFresh) (abs_fld ths0 (ikeys r1)) ths0 names (fun f => fld_ok ths0 rid1 (ikeys r1) f)
              (fun e x ths' f' HP Hs => revert_fld_ok ths0 e rid1 (ikeys r1) names x ths' f' HP Hin1 Hs)
              L [] ths1 L') as (e1 & -> & HF1 & Hfr1); [|exact E1|].
  { intros k f Hin. apply (Hok1 k f). unfold L, split_left in Hin. apply filter_In in Hin. tauto. }
  rewrite (revert_all_thread RevFresh _ R). rewrite app_nil_r in *.
  destruct (thread ifld (revert_fld RevFresh) (ths0 ++ e1) R) as [ths2 R'] eqn:E2.
  destruct (thread_ok ifld (revert_fld RevFresh) (abs_fld ths0 (ikeys r2)) ths0 names (fun f => fld_ok ths0 rid2 (ikeys r2) f)
              (fun e x ths' f' HP Hs => revert_fld_ok ths0 e rid2 (ikeys r2) names x ths' f' HP Hin2 Hs)
              R e1 ths2 R') as (e2 & -> & HF2 & Hfr2); [|exact E2|].
  { intros k f Hin. apply (Hok2 k f). unfold R, split_left in Hin. apply filter_In in Hin. tauto. }
  rewrite (merge_all_thread c names _ C). rewrite <- app_assoc in *.
  destruct (thread (ifld * ifld) (fun ths x => merge_fld c names ths (fst x) (snd x)) (ths0 ++ e1 ++ e2) C)
    as [ths3 C'] eqn:E3.
  destruct (thread_ok (ifld * ifld) (fun ths x => merge_fld c names ths (fst x) (snd x))
              (fun x => smerge_fld (abs_fld ths0 (ikeys r1) (fst x)) (abs_fld ths0 (ikeys r2) (snd x))) ths0 names
              (fun x => fld_ok ths0 rid1 (ikeys r1) (fst x) /\ fld_ok ths0 rid2 (ikeys r2) (snd x))
              (fun e x ths' f' HP Hs => merge_fld_ok c ths0 e rid1 rid2 (ikeys r1) (ikeys r2) names (fst x) (snd x) ths' f'
                                          Hrev (proj1 HP) (proj2 HP) Hin1 Hin2 Hs)
              C (e1 ++ e2) ths3 C') as (e3 & -> & HF3 & Hfr3); [|exact E3|].
  { intros k [f1 f2] Hin. unfold C, split_center in Hin. apply in_flat_map in Hin.
    destruct Hin as [[k' f1'] [Hin1' Hin2']]. cbn [fst snd] in Hin2'.
    destruct (ilookup k' r2) as [f2'|] eqn:El; [|destruct Hin2'].
    destruct Hin2' as [E|[]]. inversion E; subst. cbn [fst snd]. split.
    - apply (Hok1 k f1). exact Hin1'.
    - apply (Hok2 k f2). apply ilookup_In. exact El. }
  set (ths3 := (ths0 ++ e1 ++ e2) ++ e3) in *.
  (* everything stated for the final pre-patch heap *)
  assert (HF1' : Forall2 (fld_rel ifld (abs_fld ths0 (ikeys r1)) ths0 names ths3) L L').
  { unfold ths3. rewrite (app_assoc ths0 e1 e2), <- app_assoc. apply fld_rel_app. exact HF1. }
  assert (HF2' : Forall2 (fld_rel ifld (abs_fld ths0 (ikeys r2)) ths0 names ths3) R R').
  { unfold ths3. apply fld_rel_app. exact HF2. }
  clear HF1 HF2.
  set (newrec := L' ++ R' ++ C').
  set (Q1 := fun (x : ifld) (f' : ifld) => out_ok (length ths0) names ths3 (abs_fld ths0 (ikeys r1) x) f').
  set (Q2 := fun (x : ifld) (f' : ifld) => out_ok (length ths0) names ths3 (abs_fld ths0 (ikeys r2) x) f').
  set (Q3 := fun (x : ifld * ifld) (f' : ifld) =>
               out_ok (length ths0) names ths3 (smerge_fld (abs_fld ths0 (ikeys r1) (fst x)) (abs_fld ths0 (ikeys r2) (snd x))) f').
  (* keys *)
  assert (HkL : ikeys L' = ikeys L) by (apply (Forall2_keys ifld Q1 _ _ HF1')).
  assert (HkR : ikeys R' = ikeys R) by (apply (Forall2_keys ifld Q2 _ _ HF2')).
  assert (HkC : ikeys C' = map fst C) by (apply (Forall2_keys (ifld * ifld) Q3 _ _ HF3)).
  assert (Hkeys : ikeys newrec = ikeys L ++ ikeys R ++ map fst C).
  { unfold newrec, ikeys. rewrite !map_app. fold (ikeys L') (ikeys R') (ikeys C'). rewrite HkL, HkR, HkC. reflexivity. }
  assert (Hnames_keys : incl names (ikeys newrec)).
  { rewrite Hkeys. unfold names. intros x Hx. rewrite !in_app_iff in *. tauto. }
  assert (Hmem : forall x, mem x (ikeys newrec) = mem x names).
  { intros x. apply mem_ext. rewrite Hkeys. unfold names. rewrite !in_app_iff. tauto. }
  assert (Hndk : NoDup (ikeys newrec)).
  { rewrite Hkeys. unfold L, R, C. rewrite !keys_split_left, keys_split_center.
    apply NoDup_app_disj; [apply NoDup_filter; exact Hnd1 | apply NoDup_app_disj; [apply NoDup_filter; exact Hnd2 | apply NoDup_filter; exact Hnd1 |] |].
    - intros x Hx Hy. apply filter_In in Hx. apply filter_In in Hy. destruct Hx as [_ Hx], Hy as [Hy _].
      apply negb_true_iff, mem_false in Hx. contradiction.
    - intros x Hx Hy. apply filter_In in Hx. destruct Hx as [Hx1 Hx2]. apply negb_true_iff in Hx2.
      apply in_app_or in Hy. destruct Hy as [Hy|Hy]; apply filter_In in Hy; destruct Hy as [Hy1 Hy2].
      + apply negb_true_iff, mem_false in Hy2. contradiction.
      + congruence. }
  (* every thunk of the new record is ready to be patched *)
  assert (Htids : tids newrec = tids L' ++ tids R' ++ tids C').
  { unfold newrec, tids. rewrite !flat_map_app. reflexivity. }
  assert (Hpre : forall tid, In tid (tids newrec) -> pre_tid (length ths0) names ths3 tid).
  { intros tid Hin. rewrite Htids in Hin. rewrite !in_app_iff in Hin.
    assert (Hgen : forall (X : Type) (Q : X -> ifld -> Prop) (l : list (N * X)) (l' : irec),
              Forall2 (fun kx kf' => fst kf' = fst kx /\ Q (snd kx) (snd kf')) l l' ->
              (forall x f', Q x f' -> exists tg, out_ok (length ths0) names ths3 tg f') ->
              In tid (tids l') -> pre_tid (length ths0) names ths3 tid).
    { intros X Q l l' HF HQ Ht. unfold tids in Ht. apply in_flat_map in Ht. destruct Ht as [[k f] [Hkf Ht]].
      destruct (Forall2_In_r X Q l l' HF k f Hkf) as (x & _ & Hq). destruct (HQ x f Hq) as (tg & Ho).
      eapply out_ok_pre; eassumption. }
    destruct Hin as [Hin|[Hin|Hin]].
    - apply (Hgen ifld Q1 L L' HF1'); [|exact Hin]. intros x f' Hq. eexists. exact Hq.
    - apply (Hgen ifld Q2 R R' HF2'); [|exact Hin]. intros x f' Hq. eexists. exact Hq.
    - apply (Hgen (ifld * ifld)%type Q3 C C' HF3); [|exact Hin]. intros x f' Hq. eexists. exact Hq. }
  assert (Hndt : NoDup (filter (isfresh (length ths0)) (tids newrec))).
  { rewrite Htids. apply (fresh_seq_NoDup (length ths0) (length ths0) (length ths3)). unfold ths3 in Hfr3 |- *.
    assert (H23 : fresh_seq (length ths0) (length (ths0 ++ e1)) (length ((ths0 ++ e1 ++ e2) ++ e3)) (tids R' ++ tids C')) by (fs_app Hfr2 Hfr3).
    fs_app Hfr1 H23. }
  (* phase 2 *)
  destruct (patch_tids_ok (length (recs st)) (length ths0) names (tids newrec) ths3 Hpre Hndt) as (ths4 & Hpatch & Hlen4 & Hnth4).
  fold newrec. unfold patch_all. fold (tids newrec). rewrite Hpatch.
  exists {| thunks := ths4; recs := recs st ++ [newrec] |}. split; [reflexivity|].
  assert (Hfld : forall k f, In (k, f) newrec ->
            exists tgt, sfld_sim (abs_fld ths4 names f) tgt /\ fld_ok ths4 (length (recs st)) names f /\
                        ((exists f1, ilookup k L = Some f1 /\ tgt = abs_fld ths0 (ikeys r1) f1 /\ In (k, f) L') \/
                         (exists f2, ilookup k R = Some f2 /\ tgt = abs_fld ths0 (ikeys r2) f2 /\ In (k, f) R') \/
                         (exists x, In (k, x) C /\ tgt = smerge_fld (abs_fld ths0 (ikeys r1) (fst x)) (abs_fld ths0 (ikeys r2) (snd x)) /\ In (k, f) C'))).
  { intros k f Hin. pose proof Hin as Hin'. unfold newrec in Hin'. rewrite !in_app_iff in Hin'.
    destruct Hin' as [HinX|[HinX|HinX]].
    - pose proof (Forall2_lookup ifld Q1 _ _ HF1' k) as Hl.
      destruct (Forall2_In_r ifld Q1 _ _ HF1' k f HinX) as (x & Hx & Ho).
      destruct (out_ok_patched _ _ _ _ _ _ _ _ _ Hnth4 Hin Ho) as [Hs Hf].
      exists (abs_fld ths0 (ikeys r1) x). split; [exact Hs|]. split; [exact Hf|]. left. exists x.
      split; [|split; [reflexivity | exact HinX]].
      apply ilookup_NoDup; [|exact Hx]. rewrite <- HkL. unfold newrec in Hndk. unfold ikeys in Hndk. rewrite map_app in Hndk.
      apply NoDup_app_l in Hndk. exact Hndk.
    - destruct (Forall2_In_r ifld Q2 _ _ HF2' k f HinX) as (x & Hx & Ho).
      destruct (out_ok_patched _ _ _ _ _ _ _ _ _ Hnth4 Hin Ho) as [Hs Hf].
      exists (abs_fld ths0 (ikeys r2) x). split; [exact Hs|]. split; [exact Hf|]. right. left. exists x.
      split; [|split; [reflexivity | exact HinX]].
      apply ilookup_NoDup; [|exact Hx]. rewrite <- HkR. unfold newrec in Hndk. unfold ikeys in Hndk. rewrite !map_app in Hndk.
      apply NoDup_app_r in Hndk. apply NoDup_app_l in Hndk. exact Hndk.
    - destruct (Forall2_In_r (ifld * ifld) Q3 _ _ HF3 k f HinX) as (x & Hx & Ho).
      destruct (out_ok_patched _ _ _ _ _ _ _ _ _ Hnth4 Hin Ho) as [Hs Hf].
      exists (smerge_fld (abs_fld ths0 (ikeys r1) (fst x)) (abs_fld ths0 (ikeys r2) (snd x))). split; [exact Hs|]. split; [exact Hf|].
      right. right. exists x. split; [exact Hx|]. split; [reflexivity | exact HinX]. }
  split; [|split].
  - (* nothing that existed before changes *)
    split; [exists [newrec]; reflexivity|]. cbn [thunks]. fold ths0. intros i Hi.
    rewrite (patch_prefix _ _ _ _ _ _ Hnth4 Hpre i Hi). unfold ths3. rewrite <- !app_assoc. apply nth_error_app1. exact Hi.
  - (* the new record instance is coherent *)
    exists newrec. cbn [recs thunks]. split; [rewrite nth_error_app2 by lia; rewrite Nat.sub_diag; reflexivity|].
    split; [exact Hndk|]. intros k f Hin. destruct (Hfld k f Hin) as (tgt & _ & Hf & _).
    eapply fld_ok_keys_equiv; [|exact Hf]. exact Hmem.
  - (* it denotes the merge of the denotations of the operands *)
    intros k. unfold abs at 1. cbn [recs thunks]. rewrite nth_error_app2 by lia. rewrite Nat.sub_diag. cbn [nth_error].
    rewrite slookup_abs_rec, slookup_smerge. unfold abs. rewrite Hr1, Hr2, !slookup_abs_rec.
    pose proof (alookup_split_left k r1 r2) as HlL. fold L in HlL.
    pose proof (alookup_split_left k r2 r1) as HlR. fold R in HlR.
    pose proof (alookup_split_center k r1 r2) as HlC. fold C in HlC.
    pose proof (Forall2_lookup ifld Q1 _ _ HF1' k) as HL. pose proof (Forall2_lookup ifld Q2 _ _ HF2' k) as HR.
    pose proof (Forall2_lookup (ifld * ifld) Q3 _ _ HF3 k) as HC.
    unfold newrec. rewrite !ilookup_app.
    destruct (ilookup k r1) as [f1|] eqn:El1; destruct (ilookup k r2) as [f2|] eqn:El2; cbn [option_map smerge_opt].
    + (* a common field *)
      assert (Hm2 : mem k (ikeys r2) = true).
      { destruct (mem k (ikeys r2)) eqn:Em; [reflexivity|]. apply mem_keys_lookup in Em. congruence. }
      assert (Hm1 : mem k (ikeys r1) = true).
      { destruct (mem k (ikeys r1)) eqn:Em; [reflexivity|]. apply mem_keys_lookup in Em. congruence. }
      rewrite Hm2 in HlL. rewrite Hm1 in HlR. rewrite HlL in HL. rewrite HlR in HR. rewrite HlC in HC.
      rewrite HL, HR. destruct HC as (f' & Hf' & Ho). rewrite Hf'. cbn [option_map opt_sim].
      assert (Hin : In (k, f') newrec).
      { unfold newrec. rewrite !in_app_iff. right. right. apply ilookup_In. exact Hf'. }
      cbn [fst snd] in Ho. eapply sfld_sim_trans; [apply abs_fld_keys_sim; exact Hmem|]. exact (proj1 (out_ok_patched _ _ _ _ _ _ _ _ _ Hnth4 Hin Ho)).
    + (* only on the left *)
      apply mem_keys_lookup in El2. rewrite El2 in HlL. rewrite HlL in HL.
      destruct HL as (f' & Hf' & Ho). rewrite Hf'. cbn [option_map opt_sim].
      assert (Hin : In (k, f') newrec).
      { unfold newrec. rewrite !in_app_iff. left. apply ilookup_In. exact Hf'. }
      eapply sfld_sim_trans; [apply abs_fld_keys_sim; exact Hmem|]. exact (proj1 (out_ok_patched _ _ _ _ _ _ _ _ _ Hnth4 Hin Ho)).
    + (* only on the right *)
      pose proof El1 as El1'. apply mem_keys_lookup in El1'. rewrite El1' in HlR. rewrite HlR in HR.
      assert (HlL' : alookup k L = None) by (rewrite HlL; destruct (mem k (ikeys r2)); reflexivity).
      rewrite HlL' in HL. rewrite HL.
      destruct HR as (f' & Hf' & Ho). rewrite Hf'. cbn [option_map opt_sim].
      assert (Hin : In (k, f') newrec).
      { unfold newrec. rewrite !in_app_iff. right. left. apply ilookup_In. exact Hf'. }
      eapply sfld_sim_trans; [apply abs_fld_keys_sim; exact Hmem|]. exact (proj1 (out_ok_patched _ _ _ _ _ _ _ _ _ Hnth4 Hin Ho)).
    + (* nowhere *)
      assert (HlL' : alookup k L = None) by (rewrite HlL; destruct (mem k (ikeys r2)); reflexivity).
      assert (HlR' : alookup k R = None) by (rewrite HlR; destruct (mem k (ikeys r1)); reflexivity).
      rewrite HlL' in HL. rewrite HlR' in HR. rewrite HlC in HC. rewrite HL, HR, HC. exact I.
Qed.

(* merge, including the shortcut for an empty operand *)
Theorem merge_ok : forall c st rid1 rid2,
  faithful c -> coherent st rid1 -> coherent st rid2 ->
  exists st' rid', merge c st rid1 rid2 = Some (st', rid') /\
                   extends st st' /\ coherent st' rid' /\
                   srec_sim (abs st' rid') (smerge (abs st rid1) (abs st rid2)).
Proof.
  intros c st rid1 rid2 Hc Hc1 Hc2.
  pose proof Hc1 as (r1 & Hr1 & _). pose proof Hc2 as (r2 & Hr2 & _).
  unfold merge. rewrite Hr1, Hr2.
  destruct r1 as [|a r1']; [|destruct r2 as [|b r2']].
  - exists st, rid2. split; [reflexivity|]. split; [apply extends_refl|]. split; [exact Hc2|].
    intros k. unfold abs at 2. rewrite Hr1. cbn [abs_rec map]. rewrite smerge_nil_l. apply opt_sim_refl.
  - exists st, rid1. split; [reflexivity|]. split; [apply extends_refl|]. split; [exact Hc1|].
    intros k. unfold abs at 3. rewrite Hr2. cbn [abs_rec map]. rewrite smerge_nil_r. apply opt_sim_refl.
  - destruct (merge_general_ok c st rid1 rid2 _ _ Hc Hr1 Hr2 Hc1 Hc2) as (st' & Hm & He & Hco & Hs).
    exists st', (length (recs st)). split; [exact Hm|]. split; [exact He|]. split; [exact Hco | exact Hs].
Qed.


(* ------------------------------------------------------------------------- record literals *)
Lemma alloc_lit_thread : forall c names ths l, alloc_lit c names ths l = thread fdef (alloc_fld c names) ths l.
Proof.
  intros c names ths l. revert ths. induction l as [|[k d] l IH]; intros ths; cbn [alloc_lit thread]; [reflexivity|].
  destruct (alloc_fld c names ths d) as [ths1 f]. rewrite IH. reflexivity.
Qed.

Definition lit_tgt (names : list N) (d : fdef) : sfld :=
  {| sprio := fprio d; sval := option_map (SLeaf names) (fbody d);
     sctrs := map (fun kc => (fst kc, SLeaf names (STm (snd kc)))) (fctrs d) |}.

(* what the allocation of a thunk for a term [t] of the literal needs to know about the dependencies
   [dop] of its field: known and exact on the variables of [t], or unknown with [t] closed *)
Definition leaf_ok (names : list N) (dop : option (list N)) (t : src) : Prop :=
  match dop with
  | Some deps => u = false /\ incl deps names /\ (forall x, In x (svars t) -> mem x deps = mem x names)
  | None => u = true /\ incl (svars t) names
  end.

Lemma mk_thunk_leaf : forall n0 names tid t dop,
  n0 <= tid -> leaf_ok names dop t ->
  pre_thunk n0 names tid (mk_thunk (BSrc t) dop) /\
  sb_sim (abs_thunk names (mk_thunk (BSrc t) dop)) (SLeaf names t).
Proof.
  intros n0 names tid t dop Hge Hl. split.
  - apply mk_thunk_pre; [exact Hge | exact I |]. destruct dop as [deps|]; cbn [leaf_ok] in Hl.
    + destruct Hl as (Hu & Hinc & _). split; [exact Hinc|]. split; [right; exact Hu|]. intros Hu'. congruence.
    + destruct Hl as (Hu & Hc). split; [exact Hu | exact Hc].
  - rewrite mk_thunk_abs. cbn [abs_body]. destruct dop as [deps|]; cbn [leaf_ok fil] in *.
    + constructor. exact (proj2 (proj2 Hl)).
    + apply sb_sim_refl.
Qed.

Lemma alloc_ctrs_ok : forall n0 names dop cs ths0 e ths' r,
  n0 = length ths0 ->
  (forall kc, In kc cs -> leaf_ok names dop (STm (snd kc))) ->
  alloc_ctrs dop (ths0 ++ e) cs = (ths', r) ->
  exists e', ths' = (ths0 ++ e) ++ e' /\
             ctrs_ok n0 names ths' r (map (fun kc => (fst kc, SLeaf names (STm (snd kc)))) cs) /\
             fresh_seq n0 (length (ths0 ++ e)) (length ths') (map snd r).
Proof.
  intros n0 names dop. induction cs as [|[k t] cs IH]; intros ths0 e ths' r Hn0 Hv Ha; cbn [alloc_ctrs] in Ha.
  - inversion Ha; subst. exists []. rewrite app_nil_r. split; [reflexivity|]. split; [constructor | apply fresh_seq_nil].
  - destruct (alloc_ctrs dop ((ths0 ++ e) ++ [ctr_thunk dop t]) cs) as [ths1 r1] eqn:E1.
    inversion Ha; subst ths' r. clear Ha. rewrite <- app_assoc in E1.
    destruct (IH ths0 (e ++ [ctr_thunk dop t]) ths1 r1 Hn0 (fun kc H => Hv kc (or_intror H)) E1) as (e2 & -> & Hc & Hf).
    exists ([ctr_thunk dop t] ++ e2). split; [rewrite !app_assoc; reflexivity|]. split.
    + cbn [map fst snd]. constructor; [|exact Hc]. split; [reflexivity|]. cbn [snd].
      assert (Hlt : n0 <= length (ths0 ++ e)) by (subst n0; rewrite app_length; lia).
      destruct (mk_thunk_leaf n0 names (length (ths0 ++ e)) (STm t) dop Hlt (Hv (k, t) (or_introl eq_refl))) as [Hp Hs].
      exists (ctr_thunk dop t). split; [|split; [exact Hp | exact Hs]].
      rewrite <- !app_assoc. rewrite (app_assoc ths0 e). rewrite nth_error_app2 by lia. rewrite Nat.sub_diag. reflexivity.
    + cbn [map snd]. change (length (ths0 ++ e) :: map snd r1) with ([length (ths0 ++ e)] ++ map snd r1).
      assert (H1 : fresh_seq n0 (length (ths0 ++ e)) (S (length (ths0 ++ e))) [length (ths0 ++ e)]) by (apply fresh_seq_one; lia).
      fs_app H1 Hf.
Qed.

(* a literal all of whose bodies and contracts mention statically named fields of the literal only *)
Definition fdef_closed (scope : list N) (d : fdef) : Prop :=
  (forall t, fbody d = Some t -> incl (svars t) scope) /\
  (forall kc, In kc (fctrs d) -> incl (vars (snd kc)) scope).

Definition lit_closed (l : literal) : Prop := forall k d, In (k, d) l -> fdef_closed (lit_scope l) d.

Lemma alloc_fld_ok : forall c names ths0 e d ths' f',
  faithful c -> (u = true -> fdef_closed names d) ->
  alloc_fld c names (ths0 ++ e) d = (ths', f') ->
  exists e', ths' = (ths0 ++ e) ++ e' /\
             out_ok (length ths0) names ths' (lit_tgt names d) f' /\
             fresh_seq (length ths0) (length (ths0 ++ e)) (length ths') (ftids f').
Proof.
  intros c names ths0 e d ths' f' (Hu & _ & _ & _ & Han) Hcl Ha. unfold alloc_fld in Ha.
  set (dop := field_deps c names d) in *.
  assert (Hleaf : (forall t, fbody d = Some t -> leaf_ok names dop t) /\
                  (forall kc, In kc (fctrs d) -> leaf_ok names dop (STm (snd kc)))).
  { unfold dop, field_deps. rewrite Hu. destruct u eqn:Eu; cbn [leaf_ok].
    - destruct (Hcl eq_refl) as [Hb Hc]. split.
      + intros t Hbt. split; [exact Eu | apply Hb; exact Hbt].
      + intros kc Hkc. split; [exact Eu | apply Hc; exact Hkc].
    - specialize (Han eq_refl).
      set (deps := filter (fun x => mem x names)
                     (flat_map (fun kc => c_an c (STm (snd kc))) (fctrs d) ++ match fbody d with Some t => c_an c t | None => [] end)).
      assert (Hinc : incl deps names).
      { intros x Hx. unfold deps in Hx. apply filter_In in Hx. apply mem_In. tauto. }
      split.
      + intros t Hb. split; [exact Eu|]. split; [exact Hinc|]. intros x Hx. unfold deps. rewrite mem_filter, Hb.
        assert (Hm : mem x (flat_map (fun kc => c_an c (STm (snd kc))) (fctrs d) ++ c_an c t) = true).
        { apply mem_In. apply in_or_app. right. apply Han. exact Hx. }
        rewrite Hm. reflexivity.
      + intros kc Hkc. split; [exact Eu|]. split; [exact Hinc|]. intros x Hx. unfold deps. rewrite mem_filter.
        assert (Hm : mem x (flat_map (fun kc => c_an c (STm (snd kc))) (fctrs d) ++ match fbody d with Some t => c_an c t | None => [] end) = true).
        { apply mem_In. apply in_or_app. left. apply in_flat_map. exists kc. split; [exact Hkc | apply Han; exact Hx]. }
        rewrite Hm. reflexivity. }
  destruct Hleaf as [Hval Hctr].
  destruct (fbody d) as [t|] eqn:Eb.
  - destruct (alloc_ctrs dop ((ths0 ++ e) ++ [lit_thunk dop t]) (fctrs d)) as [ths2 cs] eqn:E2.
    inversion Ha; subst ths' f'. clear Ha. rewrite <- app_assoc in E2.
    destruct (alloc_ctrs_ok (length ths0) names dop _ _ _ _ _ eq_refl Hctr E2) as (e2 & -> & Hc & Hf).
    exists ([lit_thunk dop t] ++ e2). split; [rewrite !app_assoc; reflexivity|]. split.
    + split; [reflexivity|]. cbn [ival ictrs lit_tgt sval sctrs]. rewrite Eb. cbn [option_map]. split; [|exact Hc].
      cbn [val_ok]. exists (lit_thunk dop t). split.
      * rewrite <- !app_assoc. rewrite (app_assoc ths0 e). rewrite nth_error_app2 by lia. rewrite Nat.sub_diag. reflexivity.
      * assert (Hlt : length ths0 <= length (ths0 ++ e)) by (rewrite app_length; lia).
        destruct (mk_thunk_leaf (length ths0) names (length (ths0 ++ e)) t dop Hlt (Hval t eq_refl)) as [Hp Hs].
        unfold lit_thunk. destruct t as [[z|x|o|a b|a b|a b t0 e0]|l0]; try (split; [exact Hp | exact Hs]).
        split; [split; [exact I | intros _ x []]|]. cbn [abs_thunk abs_body]. constructor. intros x [].
    + unfold ftids. cbn [ival ictrs].
      assert (H1 : fresh_seq (length ths0) (length (ths0 ++ e)) (S (length (ths0 ++ e))) [length (ths0 ++ e)])
        by (apply fresh_seq_one; lia).
      fs_app H1 Hf.
  - destruct (alloc_ctrs dop (ths0 ++ e) (fctrs d)) as [ths2 cs] eqn:E2.
    inversion Ha; subst ths' f'. clear Ha.
    destruct (alloc_ctrs_ok (length ths0) names dop _ _ _ _ _ eq_refl Hctr E2) as (e2 & -> & Hc & Hf).
    exists e2. split; [reflexivity|]. split.
    + split; [reflexivity|]. cbn [ival ictrs lit_tgt sval sctrs]. rewrite Eb. cbn [option_map]. split; [exact I | exact Hc].
    + unfold ftids. cbn [ival ictrs app]. exact Hf.
Qed.

Lemma slookup_sden_lit : forall l k, slookup k (sden_lit l) = option_map (lit_tgt (lit_scope l)) (alookup k l).
Proof.
  intros l k. unfold sden_lit. generalize (lit_scope l) as names. intros names.
  induction l as [|[k' d] l IH]; [reflexivity|]. cbn [map fst snd slookup alookup].
  destruct (N.eqb k k'); [reflexivity | exact IH].
Qed.

Lemma lit_scope_names : forall l, incl (lit_scope l) (lit_names l).
Proof.
  intros l x Hx. unfold lit_scope in Hx. apply in_map_iff in Hx. destruct Hx as [[k d] [E Hin]].
  apply filter_In in Hin. cbn [fst] in E. subst x. apply in_map_iff. exists (k, d). split; [reflexivity | tauto].
Qed.

Lemma fld_ok_mono : forall ths rid keys keys' f, incl keys keys' -> fld_ok ths rid keys f -> fld_ok ths rid keys' f.
Proof.
  intros ths rid keys keys' f Hinc H tid Ht. destruct (H tid Ht) as (th & Hth & Htok). exists th. split; [exact Hth|].
  destruct th as [b|o [d|] [c|]]; cbn [MechInv.thunk_ok] in *; try contradiction; [exact Htok| |].
  - destruct Htok as (Hu & Hc & Hwf & Hd). repeat split; try assumption. eapply incl_tran; eassumption.
  - destruct Htok as (Hu & Hc & Hwf & Hcl). repeat split; try assumption.
    + eapply wf_body_mono; eassumption.
    + eapply closed_in_mono; eassumption.
Qed.

(* with the proposed patch the insertion of the dynamically named fields adds no indirection *)
Lemma insert_dyn_id : forall c l ths r, c_wrap_dyn c = false -> insert_dyn c ths l r = (ths, r).
Proof.
  intros c. induction l as [|[k0 d] l IH]; intros ths r Hw; [destruct r; reflexivity|].
  destruct r as [|[k f] r]; [reflexivity|]. cbn [insert_dyn].
  assert (Hstep : (match fdyn d, ival f with
                   | true, Some tid => let (ths1, tid1) := closurize_dyn c ths tid in
                                       (ths1, {| iprio := iprio f; ival := Some tid1; ictrs := ictrs f |})
                   | _, _ => (ths, f)
                   end) = (ths, f)).
  { destruct (fdyn d); [|reflexivity]. destruct f as [p [tid|] cs]; cbn [ival iprio ictrs]; [|reflexivity].
    unfold closurize_dyn. rewrite Hw. destruct (nth_error ths tid) as [[b|o dd cc]|]; reflexivity. }
  rewrite Hstep, (IH ths r Hw). reflexivity.
Qed.

Theorem eval_literal_ok : forall c st l,
  faithful c -> NoDup (lit_names l) -> (u = true -> lit_closed l) ->
  exists st', eval_literal c st l = Some (st', length (recs st)) /\
              extends st st' /\ coherent st' (length (recs st)) /\
              srec_sim (abs st' (length (recs st))) (sden_lit l).
Proof.
  intros c st l Hc Hnd Hcl. pose proof Hc as (Hu & _ & Hpm & Hw & Han). unfold eval_literal. rewrite Hpm.
  set (ths0 := thunks st). set (names := lit_scope l).
  rewrite alloc_lit_thread.
  destruct (thread fdef (alloc_fld c names) ths0 l) as [ths3 r] eqn:E1.
  rewrite <- (app_nil_r ths0) in E1.
  destruct (thread_ok fdef (alloc_fld c names) (lit_tgt names) ths0 names (fun d => u = true -> fdef_closed names d)
              (fun e x ths' f' HP Hs => alloc_fld_ok c names ths0 e x ths' f' Hc HP Hs)
              l [] ths3 r (fun k d Hin Hu' => Hcl Hu' k d Hin) E1) as (e1 & -> & HF & Hfr).
  rewrite app_nil_r in *.
  set (Q := fun (d : fdef) (f' : ifld) => out_ok (length ths0) names (ths0 ++ e1) (lit_tgt names d) f').
  assert (Hk : ikeys r = lit_names l) by (apply (Forall2_keys fdef Q _ _ HF)).
  assert (Hsc : incl names (ikeys r)) by (rewrite Hk; apply lit_scope_names).
  assert (Hpre : forall tid, In tid (tids r) -> pre_tid (length ths0) names (ths0 ++ e1) tid).
  { intros tid Ht. unfold tids in Ht. apply in_flat_map in Ht. destruct Ht as [[k f] [Hkf Ht]].
    destruct (Forall2_In_r fdef Q _ _ HF k f Hkf) as (x & _ & Ho). eapply out_ok_pre; eassumption. }
  pose proof (fresh_seq_NoDup _ _ _ _ Hfr) as Hndt.
  destruct (patch_tids_ok (length (recs st)) (length ths0) names (tids r) (ths0 ++ e1) Hpre Hndt) as (ths4 & Hpatch & Hlen4 & Hnth4).
  unfold patch_all. fold (tids r). rewrite Hpatch, (insert_dyn_id c l ths4 r Hw).
  exists {| thunks := ths4; recs := recs st ++ [r] |}. split; [reflexivity|]. split; [|split].
  - split; [exists [r]; reflexivity|]. cbn [thunks]. fold ths0. intros i Hi.
    rewrite (patch_prefix _ _ _ _ _ _ Hnth4 Hpre i Hi). apply nth_error_app1. exact Hi.
  - exists r. cbn [recs thunks]. split; [rewrite nth_error_app2 by lia; rewrite Nat.sub_diag; reflexivity|].
    split; [rewrite Hk; exact Hnd|]. intros k f Hin.
    destruct (Forall2_In_r fdef Q _ _ HF k f Hin) as (x & _ & Ho).
    eapply fld_ok_mono; [exact Hsc|]. exact (proj2 (out_ok_patched _ _ _ _ _ _ _ _ _ Hnth4 Hin Ho)).
  - intros k. unfold abs. cbn [recs thunks]. rewrite nth_error_app2 by lia. rewrite Nat.sub_diag. cbn [nth_error].
    rewrite slookup_abs_rec, slookup_sden_lit. fold names.
    pose proof (Forall2_lookup fdef Q _ _ HF k) as Hl. destruct (alookup k l) as [d|] eqn:Eal; cbn [option_map].
    + destruct Hl as (f' & Hf' & Ho). rewrite Hf'. cbn [option_map opt_sim].
      destruct (out_ok_patched _ _ _ _ _ _ _ _ _ Hnth4 (ilookup_In _ _ _ Hf') Ho) as [Hsim Hfok].
      eapply sfld_sim_trans; [|exact Hsim].
      (* the scope of the literal vs all the names of the record: the same for thunks that are closed *)
      apply abs_fld_scope_sim with (rid := length (recs st)); [exact Hsc | exact Hfok].
    + rewrite Hl. exact I.
Qed.

End Mode.
