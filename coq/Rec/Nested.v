(* C07, part B -- nested records (two levels): a field of a top-level record whose definition is a
   record literal, with bodies that refer to fields of the enclosing record.

   The numeric view of such a field is [IsRec] (Lang.v).  Reading INTO it instantiates the literal:
   the evaluation of the field's thunk allocates an inner record instance whose closures see the
   fields of the enclosing record instance [ro] through the dependencies of the thunk (Mech: the
   inner literal is evaluated in the environment [orig.env + rec_env(ro) filtered by deps]).  Because
   record instances are immutable, the variables that refer to the enclosing record can be replaced
   by their outcomes in [ro] ([subst_ilit], [Const]); what remains is a flat literal, evaluated by
   [eval_literal]; a piecewise definition [d1 & d2] whose sides are records instantiates both sides
   and merges the two instances with [merge].  Definitions only. *)
From Coq Require Import List NArith ZArith Bool.
Import ListNotations.
From NV Require Import Rec.Lang Rec.Spec Rec.Mech.

Fixpoint nodup_names (l : list N) : bool :=
  match l with
  | [] => true
  | x :: l' => negb (mem x l') && nodup_names l'
  end.

(* ---------------------------------------------------------------- aliases
   An expression whose value is a record is a variable (`b = a` with [a] a record-valued field), or
   a conditional one of whose branches is: its value is the very record of that field.  [alias_tm]
   finds the field, given the numeric meaning of the variables (for the conditions). *)
Fixpoint alias_tm (look : N -> outcome) (t : tm) : option N :=
  match t with
  | Var x => Some x
  | IfLe a b t e =>
      match arith2 (fun x y => if (x <=? y)%Z then Ok 1 else Ok 0) (eval_tm look a) (eval_tm look b) with
      | Ok 1%Z => alias_tm look t
      | Ok 0%Z => alias_tm look e
      | _ => None
      end
  | _ => None
  end.

(* ---------------------------------------------------------------- mechanism *)
(* what a closure of the inner literal finds for a variable of the enclosing record: the field of
   the enclosing instance, if the dependencies of the thunk let it through *)
Definition outer_I (F : nat) (st : state) (ro : nat) (filt : list N) (x : N) : option outcome :=
  if mem x filt then Some (var_out (ifield F st ro x)) else None.

(* evaluating the body of the thunk of a record-valued field to a record instance; [st0]: the state
   in which the enclosing instance is read; [alias]: how a field of the enclosing instance is read as
   a record; None: not a record (or a literal the parser would not produce: duplicate names), or a
   panic *)
Fixpoint inst_body (c : cfg) (F : nat) (st0 : state) (ro : nat) (alias : state -> N -> option (state * nat))
  (filt : list N) (st : state) (b : body) : option (state * nat) :=
  match b with
  | BSrc (SSub l) =>
      if nodup_names (map fst l)
      then eval_literal c st (lift_lit (subst_ilit (outer_I F st0 ro filt) l))
      else None
  | BSrc (STm t) =>
      match alias_tm (fun x => if mem x filt then var_out (ifield F st0 ro x) else Err UnboundId) t with
      | Some x => if mem x filt then alias st x else None
      | None => None
      end
  | BMerge b1 d1 b2 d2 =>
      match inst_body c F st0 ro alias (filter (fun x => mem x filt) d1) st b1 with
      | Some (st1, r1) =>
          match inst_body c F st0 ro alias (filter (fun x => mem x filt) d2) st1 b2 with
          | Some (st2, r2) => merge c st2 r1 r2
          | None => None
          end
      | None => None
      end
  | BInd _ => None
  end.

(* field [k] of record instance [ro], read as a record, in state [st] (an extension of the state
   [st0] in which the numeric view is taken); the fuel bounds the chain of aliases *)
Fixpoint inst_at (fuel : nat) (c : cfg) (F : nat) (st0 : state) (ro : nat) (st : state) (k : N) : option (state * nat) :=
  match fuel with
  | O => None
  | S n =>
      match nth_error (recs st0) ro with
      | None => None
      | Some r =>
          match ilookup k r with
          | None => None
          | Some f =>
              match ifield F st0 ro k with
              | IsRec =>
                  match ival f with
                  | None => None
                  | Some tid =>
                      match nth_error (thunks st0) tid with
                      | Some (Std b) => inst_body c F st0 ro (fun st' x => inst_at n c F st0 ro st' x) [] st b
                      | Some (Rev o (Some d) (Some ro')) => inst_body c F st0 ro' (fun st' x => inst_at n c F st0 ro' st' x) d st o
                      | Some (Rev o None (Some ro')) => inst_body c F st0 ro' (fun st' x => inst_at n c F st0 ro' st' x) (ikeys r) st o
                      | _ => None
                      end
                  end
              | _ => None               (* not a record, or its contracts fail *)
              end
          end
      end
  end.

Definition inst (c : cfg) (F : nat) (st : state) (ro : nat) (k : N) : option (state * nat) :=
  inst_at F c F st ro st k.

(* ---------------------------------------------------------------- specification *)
Definition outer_S (F : nat) (R : srec) (scope : list N) (x : N) : option outcome :=
  if mem x scope then Some (var_out (sfield F R x)) else None.

(* the record a definition denotes inside the final record [R]: the literal with the variables of
   the enclosing record bound, late, to the fields of [R]; a piecewise definition is the merge; an
   alias is the record of the field it names *)
Fixpoint sinst_body (F : nat) (R : srec) (alias : N -> option srec) (b : sbody) : option srec :=
  match b with
  | SLeaf scope (SSub l) =>
      if nodup_names (map fst l)
      then Some (sden_lit (lift_lit (subst_ilit (outer_S F R scope) l)))
      else None
  | SLeaf scope (STm t) =>
      match alias_tm (fun x => if mem x scope then var_out (sfield F R x) else Err UnboundId) t with
      | Some x => if mem x scope then alias x else None
      | None => None
      end
  | SMerge2 a b =>
      match sinst_body F R alias a, sinst_body F R alias b with
      | Some r1, Some r2 => Some (smerge r1 r2)
      | _, _ => None
      end
  end.

Fixpoint sinst_at (fuel : nat) (F : nat) (R : srec) (k : N) : option srec :=
  match fuel with
  | O => None
  | S n =>
      match slookup k R with
      | None => None
      | Some f =>
          match sfield F R k with
          | IsRec => match sval f with None => None | Some b => sinst_body F R (sinst_at n F R) b end
          | _ => None
          end
      end
  end.

Definition sinst (F : nat) (R : srec) (k : N) : option srec := sinst_at F F R k.
