(* C07, part B -- nested records (two levels): a field of a top-level record whose definition is a
   record literal, with bodies that refer to fields of the enclosing record.

   The numeric view of such a field is [IsRec] (Lang.v).  Reading INTO it instantiates the literal:
   the evaluation of the field's thunk allocates an inner record instance whose closures see the
   fields of the enclosing record instance [ro] through the dependencies of the thunk (Mech: the
   inner literal is evaluated in the environment [orig.env + rec_env(ro) filtered by deps]).  Because
   record instances are immutable, the variables that refer to the enclosing record can be replaced
   by their outcomes in [ro] ([subst_ilit], [Const]); what remains is a flat literal, evaluated by
   [eval_literal]; a piecewise definition [d1 & d2] whose sides are records instantiates both sides
   and merges the two instances with [merge].  Definitions only. *)
From Coq Require Import List NArith ZArith Bool.
Import ListNotations.
From NV Require Import Rec.Lang Rec.Spec Rec.Mech.

Fixpoint nodup_names (l : list N) : bool :=
  match l with
  | [] => true
  | x :: l' => negb (mem x l') && nodup_names l'
  end.

(* ---------------------------------------------------------------- mechanism *)
(* what a closure of the inner literal finds for a variable of the enclosing record: the field of
   the enclosing instance, if the dependencies of the thunk let it through *)
Definition outer_I (F : nat) (st : state) (ro : nat) (filt : list N) (x : N) : option outcome :=
  if mem x filt then Some (var_out (ifield F st ro x)) else None.

(* evaluating the body of the thunk of a record-valued field to a record instance; [st0]: the state
   in which the enclosing instance is read; None: not a record (or a literal the parser would
   not produce: duplicate names), or a panic *)
Fixpoint inst_body (c : cfg) (F : nat) (st0 : state) (ro : nat) (filt : list N) (st : state) (b : body)
  : option (state * nat) :=
  match b with
  | BSrc (SSub l) =>
      if nodup_names (map fst l)
      then eval_literal c st (lift_lit (subst_ilit (outer_I F st0 ro filt) l))
      else None
  | BSrc (STm _) => None
  | BMerge b1 d1 b2 d2 =>
      match inst_body c F st0 ro (filter (fun x => mem x filt) d1) st b1 with
      | Some (st1, r1) =>
          match inst_body c F st0 ro (filter (fun x => mem x filt) d2) st1 b2 with
          | Some (st2, r2) => merge c st2 r1 r2
          | None => None
          end
      | None => None
      end
  | BInd _ => None
  end.

(* field [k] of record instance [ro], read as a record *)
Definition inst (c : cfg) (F : nat) (st : state) (ro : nat) (k : N) : option (state * nat) :=
  match nth_error (recs st) ro with
  | None => None
  | Some r =>
      match ilookup k r with
      | None => None
      | Some f =>
          match ival f with
          | None => None
          | Some tid =>
              match nth_error (thunks st) tid with
              | Some (Std b) => inst_body c F st ro [] st b
              | Some (Rev o (Some d) (Some ro')) => inst_body c F st ro' d st o
              | Some (Rev o None (Some ro')) => inst_body c F st ro' (ikeys r) st o
              | _ => None
              end
          end
      end
  end.

(* ---------------------------------------------------------------- specification *)
Definition outer_S (F : nat) (R : srec) (scope : list N) (x : N) : option outcome :=
  if mem x scope then Some (var_out (sfield F R x)) else None.

(* the record a definition denotes inside the final record [R]: the literal with the variables of
   the enclosing record bound, late, to the fields of [R]; a piecewise definition is the merge *)
Fixpoint sinst_body (F : nat) (R : srec) (b : sbody) : option srec :=
  match b with
  | SLeaf scope (SSub l) =>
      if nodup_names (map fst l)
      then Some (sden_lit (lift_lit (subst_ilit (outer_S F R scope) l)))
      else None
  | SLeaf _ (STm _) => None
  | SMerge2 a b =>
      match sinst_body F R a, sinst_body F R b with
      | Some r1, Some r2 => Some (smerge r1 r2)
      | _, _ => None
      end
  end.

Definition sinst (F : nat) (R : srec) (k : N) : option srec :=
  match slookup k R with
  | None => None
  | Some f => match sval f with None => None | Some b => sinst_body F R b end
  end.
