(* C07, part B -- override histories: for every history (literals, merges of any earlier steps,
   re-merging, an operand used several times) the mechanism never panics, every record instance it
   has built stays coherent, and reading ANY field of ANY step in the final state -- results and
   operands alike -- gives what the specification gives for the S-record of that step. *)
From Coq Require Import List NArith ZArith Bool Lia Arith.
Import ListNotations.
From NV Require Import Rec.Lang Rec.Spec Rec.Mech Rec.SpecProofs Rec.MechInv Rec.MechMerge.

(* operands stay usable with their own values: a merge changes no field of any existing record *)
Theorem operands_unchanged : forall c st rid1 rid2 st' rid',
  faithful c -> coherent st rid1 -> coherent st rid2 ->
  merge c st rid1 rid2 = Some (st', rid') ->
  forall r, coherent st r -> forall fuel k, ifield fuel st' r k = ifield fuel st r k.
Proof.
  intros c st rid1 rid2 st' rid' Hc H1 H2 Hm r Hr fuel k.
  destruct (merge_ok c st rid1 rid2 Hc H1 H2) as (st2 & rid2' & Hm' & Hext & _).
  rewrite Hm in Hm'. inversion Hm'; subst st2 rid2'.
  destruct (extends_coherent st st' r Hext Hr) as [Hr' Habs].
  rewrite (override_refines st' r Hr'), (override_refines st r Hr), Habs. reflexivity.
Qed.

(* the result of a merge, read through the mechanism, is the merge of the specification *)
Theorem merge_refines : forall c st rid1 rid2 st' rid',
  faithful c -> coherent st rid1 -> coherent st rid2 ->
  merge c st rid1 rid2 = Some (st', rid') ->
  forall fuel k, ifield fuel st' rid' k = sfield fuel (smerge (abs st rid1) (abs st rid2)) k.
Proof.
  intros c st rid1 rid2 st' rid' Hc H1 H2 Hm fuel k.
  destruct (merge_ok c st rid1 rid2 Hc H1 H2) as (st2 & rid2' & Hm' & _ & Hco & Hsim).
  rewrite Hm in Hm'. inversion Hm'; subst st2 rid2'.
  rewrite (override_refines st' rid' Hco). apply sfield_sim. exact Hsim.
Qed.

(* ------------------------------------------------------------------------- histories *)
Definition lits_ok (h : history) : Prop :=
  forall l, In (SLit l) h -> NoDup (lit_names l).

Definition slot_ok (st : state) (sl : slot) (os : option srec) : Prop :=
  match sl, os with
  | Rid r, Some R => coherent st r /\ srec_sim (abs st r) R
  | BadRef, None => True
  | _, _ => False
  end.

Lemma slot_ok_extends : forall st st' sl os, extends st st' -> slot_ok st sl os -> slot_ok st' sl os.
Proof.
  intros st st' [r| |] [R|] Hext H; cbn [slot_ok] in *; try exact H.
  destruct H as [Hco Hsim]. destruct (extends_coherent st st' r Hext Hco) as [Hco' Habs].
  split; [exact Hco'|]. rewrite Habs. exact Hsim.
Qed.

Lemma Forall2_nth_error : forall A B (P : A -> B -> Prop) l l' i,
  Forall2 P l l' ->
  match nth_error l i, nth_error l' i with
  | Some a, Some b => P a b
  | None, None => True
  | _, _ => False
  end.
Proof.
  intros A B P l l' i H. revert i. induction H as [|a b l l' Hab _ IH]; intros [|i]; cbn [nth_error]; auto.
  apply IH.
Qed.

Lemma Forall2_snoc : forall A B (P : A -> B -> Prop) l l' a b,
  Forall2 P l l' -> P a b -> Forall2 P (l ++ [a]) (l' ++ [b]).
Proof. intros A B P l l' a b H Hab. apply Forall2_app; [exact H|]. constructor; [exact Hab | constructor]. Qed.

Lemma Forall2_impl2 : forall A B (P Q : A -> B -> Prop) l l',
  (forall a b, P a b -> Q a b) -> Forall2 P l l' -> Forall2 Q l l'.
Proof. intros A B P Q l l' H HF. induction HF; constructor; auto. Qed.

Lemma istep_ok : forall c st done sdone s,
  faithful c -> (forall l, s = SLit l -> NoDup (lit_names l)) ->
  Forall2 (slot_ok st) done sdone ->
  let (st', done') := istep c (st, done) s in
  extends st st' /\ Forall2 (slot_ok st') done' (sdone ++ [sstep sdone s]).
Proof.
  intros c st done sdone s Hc Hl HF. unfold istep, sstep. destruct s as [l|i j].
  - destruct (eval_literal_ok c st l Hc (Hl l eq_refl)) as (st' & He & Hext & Hco & Hsim). rewrite He.
    split; [exact Hext|]. apply Forall2_snoc.
    + eapply Forall2_impl2; [|exact HF]. intros a b. apply slot_ok_extends. exact Hext.
    + cbn [slot_ok]. split; assumption.
  - pose proof (Forall2_nth_error _ _ _ _ _ i HF) as Hi. pose proof (Forall2_nth_error _ _ _ _ _ j HF) as Hj.
    destruct (nth_error done i) as [[r1| |]|] eqn:Ei; destruct (nth_error sdone i) as [[R1|]|] eqn:Ei'; cbn [slot_ok] in Hi; try contradiction;
    destruct (nth_error done j) as [[r2| |]|] eqn:Ej; destruct (nth_error sdone j) as [[R2|]|] eqn:Ej'; cbn [slot_ok] in Hj; try contradiction;
    try (split; [apply extends_refl|]; apply Forall2_snoc; [exact HF | exact I]).
    destruct Hi as [Hco1 Hs1]. destruct Hj as [Hco2 Hs2].
    destruct (merge_ok c st r1 r2 Hc Hco1 Hco2) as (st' & rid' & Hm & Hext & Hco & Hsim). rewrite Hm.
    split; [exact Hext|]. apply Forall2_snoc.
    + eapply Forall2_impl2; [|exact HF]. intros a b. apply slot_ok_extends. exact Hext.
    + cbn [slot_ok]. split; [exact Hco|]. eapply srec_sim_trans; [exact Hsim|]. apply smerge_sim; assumption.
Qed.

Lemma irun_from_ok : forall c h st done sdone,
  faithful c -> lits_ok h -> Forall2 (slot_ok st) done sdone ->
  let (st', done') := irun_from c (st, done) h in
  extends st st' /\ Forall2 (slot_ok st') done' (srun_from sdone h).
Proof.
  intros c. induction h as [|s h IH]; intros st done sdone Hc Hl HF; cbn [irun_from fold_left srun_from].
  - split; [apply extends_refl | exact HF].
  - pose proof (istep_ok c st done sdone s Hc (fun l E => Hl l (or_introl E)) HF) as Hstep.
    destruct (istep c (st, done) s) as [st1 done1]. destruct Hstep as [Hext1 HF1].
    specialize (IH st1 done1 (sdone ++ [sstep sdone s]) Hc (fun l H => Hl l (or_intror H)) HF1).
    unfold irun_from in IH. destruct (fold_left (istep c) h (st1, done1)) as [st' done']. destruct IH as [Hext2 HF2].
    split; [eapply extends_trans; eassumption | exact HF2].
Qed.

(* every step of every history: coherent record instance, denoting the S-record of that step *)
Theorem history_refines : forall c h,
  faithful c -> lits_ok h ->
  let (st, slots) := irun c h in Forall2 (slot_ok st) slots (srun h).
Proof.
  intros c h Hc Hl. unfold irun, srun.
  pose proof (irun_from_ok c h empty_state [] [] Hc Hl (Forall2_nil _)) as H.
  destruct (irun_from c (empty_state, []) h) as [st slots]. exact (proj2 H).
Qed.

(* the sentence of the property: after the whole history, field [k] of step [i] -- a merge result or
   an operand that was merged into other records, once or several times -- read through the thunks
   of the mechanism, is field [k] of the single record [R] obtained by substituting the winning
   definitions, with the same error class when it has no value *)
Theorem history_fields : forall c h i,
  faithful c -> lits_ok h ->
  let (st, slots) := irun c h in
  match nth_error slots i, nth_error (srun h) i with
  | Some (Rid r), Some (Some R) => forall fuel k, ifield fuel st r k = sfield fuel R k
  | Some BadRef, Some None => True          (* a step that refers to a step that does not exist *)
  | None, None => True
  | _, _ => False                           (* in particular: no step panics *)
  end.
Proof.
  intros c h i Hc Hl. pose proof (history_refines c h Hc Hl) as H.
  destruct (irun c h) as [st slots]. pose proof (Forall2_nth_error _ _ _ _ _ i H) as Hi.
  destruct (nth_error slots i) as [[r| |]|]; destruct (nth_error (srun h) i) as [[R|]|]; cbn [slot_ok] in Hi; try contradiction; try exact I.
  destruct Hi as [Hco Hsim]. intros fuel k. rewrite (override_refines st r Hco). apply sfield_sim. exact Hsim.
Qed.

(* ------------------------------------------------------------------------- satisfiability *)
(* let s0 = {a | default = 1, b = a + 1} in let s1 = {a = 5} in let s2 = s0 & s1 in let s3 = s2 & s0 in .. *)
Definition example_history : history :=
  [ SLit [(0%N, {| fprio := PBot; fbody := Some (Num 1) |});
          (1%N, {| fprio := PNeut; fbody := Some (Add (Var 0%N) (Num 1)) |})];
    SLit [(0%N, {| fprio := PNeut; fbody := Some (Num 5) |})];
    SMerge 0 1;
    SMerge 2 0 ].

Example example_history_ok : lits_ok example_history.
Proof.
  intros l [H|[H|[H|[H|[]]]]]; inversion H; subst; cbn; repeat constructor; cbn; intuition discriminate.
Qed.

Example example_history_values :
  let (st, slots) := irun cfg_real example_history in
  map (fun sl => match sl with Rid r => ifields 5 st r | _ => [] end) slots
  = [ [(0%N, Ok 1); (1%N, Ok 2)];                 (* the operand keeps its own values *)
      [(0%N, Ok 5)];
      [(1%N, Ok 6); (0%N, Ok 5)];                 (* b recomputed from the overriding a *)
      [(1%N, Ok 6); (0%N, Ok 5)] ].
Proof. vm_compute. reflexivity. Qed.
