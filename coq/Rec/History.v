(* C07, part B -- override histories: for every history (literals, merges of any earlier steps,
   re-merging, an operand used several times) the mechanism never panics, every record instance it
   has built stays coherent, and reading ANY field of ANY step in the final state -- results and
   operands alike -- gives what the specification gives for the S-record of that step. *)
From Coq Require Import List NArith ZArith Bool Lia Arith.
Import ListNotations.
From NV Require Import Rec.Lang Rec.Spec Rec.Mech Rec.SpecProofs Rec.MechInv Rec.MechMerge.

(* both modes of the invariant: [u = false] known dependencies, [u = true] all unknown (hook H4) *)
Section Mode.
Variable u : bool.
Local Notation coherent := (coherent u).
Local Notation faithful := (faithful u).

(* operands stay usable with their own values: a merge changes no field of any existing record *)
Theorem operands_unchanged : forall c st rid1 rid2 st' rid',
  faithful c -> coherent st rid1 -> coherent st rid2 ->
  merge c st rid1 rid2 = Some (st', rid') ->
  forall r, coherent st r -> forall fuel k, ifield fuel st' r k = ifield fuel st r k.
Proof.
  intros c st rid1 rid2 st' rid' Hc H1 H2 Hm r Hr fuel k.
  destruct (merge_ok u c st rid1 rid2 Hc H1 H2) as (st2 & rid2' & Hm' & Hext & _).
  rewrite Hm in Hm'. inversion Hm'; subst st2 rid2'.
  destruct (extends_coherent u st st' r Hext Hr) as [Hr' Habs].
  rewrite (override_refines u st' r Hr'), (override_refines u st r Hr), Habs. reflexivity.
Qed.

(* the result of a merge, read through the mechanism, is the merge of the specification *)
Theorem merge_refines : forall c st rid1 rid2 st' rid',
  faithful c -> coherent st rid1 -> coherent st rid2 ->
  merge c st rid1 rid2 = Some (st', rid') ->
  forall fuel k, ifield fuel st' rid' k = sfield fuel (smerge (abs st rid1) (abs st rid2)) k.
Proof.
  intros c st rid1 rid2 st' rid' Hc H1 H2 Hm fuel k.
  destruct (merge_ok u c st rid1 rid2 Hc H1 H2) as (st2 & rid2' & Hm' & _ & Hco & Hsim).
  rewrite Hm in Hm'. inversion Hm'; subst st2 rid2'.
  rewrite (override_refines u st' rid' Hco). apply sfield_sim. exact Hsim.
Qed.

(* ------------------------------------------------------------------------- histories *)
(* the literals of the history: distinct field names; with unknown dependencies also closed (every
   variable is a statically named field of its literal -- what the typechecker enforces on source) *)
Definition lits_ok (h : history) : Prop :=
  forall l, In (SLit l) h -> NoDup (lit_names l) /\ (u = true -> lit_closed l).

Definition slot_ok (st : state) (sl : slot) (os : option srec) : Prop :=
  match sl, os with
  | Rid r, Some R => coherent st r /\ srec_sim (abs st r) R
  | BadRef, None => True
  | _, _ => False
  end.

Lemma slot_ok_extends : forall st st' sl os, extends st st' -> slot_ok st sl os -> slot_ok st' sl os.
Proof.
  intros st st' [r| |] [R|] Hext H; cbn [slot_ok] in *; try exact H.
  destruct H as [Hco Hsim]. destruct (extends_coherent u st st' r Hext Hco) as [Hco' Habs].
  split; [exact Hco'|]. rewrite Habs. exact Hsim.
Qed.

Lemma Forall2_nth_error : forall A B (P : A -> B -> Prop) l l' i,
  Forall2 P l l' ->
  match nth_error l i, nth_error l' i with
  | Some a, Some b => P a b
  | None, None => True
  | _, _ => False
  end.
Proof.
  intros A B P l l' i H. revert i. induction H as [|a b l l' Hab _ IH]; intros [|i]; cbn [nth_error]; auto.
  apply IH.
Qed.

Lemma Forall2_snoc : forall A B (P : A -> B -> Prop) l l' a b,
  Forall2 P l l' -> P a b -> Forall2 P (l ++ [a]) (l' ++ [b]).
Proof. intros A B P l l' a b H Hab. apply Forall2_app; [exact H|]. constructor; [exact Hab | constructor]. Qed.

Lemma Forall2_impl2 : forall A B (P Q : A -> B -> Prop) l l',
  (forall a b, P a b -> Q a b) -> Forall2 P l l' -> Forall2 Q l l'.
Proof. intros A B P Q l l' H HF. induction HF; constructor; auto. Qed.

Lemma istep_ok : forall c st done sdone s,
  faithful c -> (forall l, s = SLit l -> NoDup (lit_names l) /\ (u = true -> lit_closed l)) ->
  Forall2 (slot_ok st) done sdone ->
  let (st', done') := istep c (st, done) s in
  extends st st' /\ Forall2 (slot_ok st') done' (sdone ++ [sstep sdone s]).
Proof.
  intros c st done sdone s Hc Hl HF. unfold istep, sstep. destruct s as [l|i j].
  - destruct (eval_literal_ok u c st l Hc (proj1 (Hl l eq_refl)) (proj2 (Hl l eq_refl))) as (st' & He & Hext & Hco & Hsim). rewrite He.
    split; [exact Hext|]. apply Forall2_snoc.
    + eapply Forall2_impl2; [|exact HF]. intros a b. apply slot_ok_extends. exact Hext.
    + cbn [slot_ok]. split; assumption.
  - pose proof (Forall2_nth_error _ _ _ _ _ i HF) as Hi. pose proof (Forall2_nth_error _ _ _ _ _ j HF) as Hj.
    destruct (nth_error done i) as [[r1| |]|] eqn:Ei; destruct (nth_error sdone i) as [[R1|]|] eqn:Ei'; cbn [slot_ok] in Hi; try contradiction;
    destruct (nth_error done j) as [[r2| |]|] eqn:Ej; destruct (nth_error sdone j) as [[R2|]|] eqn:Ej'; cbn [slot_ok] in Hj; try contradiction;
    try (split; [apply extends_refl|]; apply Forall2_snoc; [exact HF | exact I]).
    destruct Hi as [Hco1 Hs1]. destruct Hj as [Hco2 Hs2].
    destruct (merge_ok u c st r1 r2 Hc Hco1 Hco2) as (st' & rid' & Hm & Hext & Hco & Hsim). rewrite Hm.
    split; [exact Hext|]. apply Forall2_snoc.
    + eapply Forall2_impl2; [|exact HF]. intros a b. apply slot_ok_extends. exact Hext.
    + cbn [slot_ok]. split; [exact Hco|]. eapply srec_sim_trans; [exact Hsim|]. apply smerge_sim; assumption.
Qed.

Lemma irun_from_ok : forall c h st done sdone,
  faithful c -> lits_ok h -> Forall2 (slot_ok st) done sdone ->
  let (st', done') := irun_from c (st, done) h in
  extends st st' /\ Forall2 (slot_ok st') done' (srun_from sdone h).
Proof.
  intros c. induction h as [|s h IH]; intros st done sdone Hc Hl HF; cbn [irun_from fold_left srun_from].
  - split; [apply extends_refl | exact HF].
  - pose proof (istep_ok c st done sdone s Hc (fun l E => Hl l (or_introl E)) HF) as Hstep.
    destruct (istep c (st, done) s) as [st1 done1]. destruct Hstep as [Hext1 HF1].
    specialize (IH st1 done1 (sdone ++ [sstep sdone s]) Hc (fun l H => Hl l (or_intror H)) HF1).
    unfold irun_from in IH. destruct (fold_left (istep c) h (st1, done1)) as [st' done']. destruct IH as [Hext2 HF2].
    split; [eapply extends_trans; eassumption | exact HF2].
Qed.

(* every step of every history: coherent record instance, denoting the S-record of that step *)
Theorem history_refines : forall c h,
  faithful c -> lits_ok h ->
  let (st, slots) := irun c h in Forall2 (slot_ok st) slots (srun h).
Proof.
  intros c h Hc Hl. unfold irun, srun.
  pose proof (irun_from_ok c h empty_state [] [] Hc Hl (Forall2_nil _)) as H.
  destruct (irun_from c (empty_state, []) h) as [st slots]. exact (proj2 H).
Qed.

(* the sentence of the property: after the whole history, field [k] of step [i] -- a merge result or
   an operand that was merged into other records, once or several times -- read through the thunks
   of the mechanism, is field [k] of the single record [R] obtained by substituting the winning
   definitions, with the same error class when it has no value *)
Theorem history_fields : forall c h i,
  faithful c -> lits_ok h ->
  let (st, slots) := irun c h in
  match nth_error slots i, nth_error (srun h) i with
  | Some (Rid r), Some (Some R) => forall fuel k, ifield fuel st r k = sfield fuel R k
  | Some BadRef, Some None => True          (* a step that refers to a step that does not exist *)
  | None, None => True
  | _, _ => False                           (* in particular: no step panics *)
  end.
Proof.
  intros c h i Hc Hl. pose proof (history_refines c h Hc Hl) as H.
  destruct (irun c h) as [st slots]. pose proof (Forall2_nth_error _ _ _ _ _ i H) as Hi.
  destruct (nth_error slots i) as [[r| |]|]; destruct (nth_error (srun h) i) as [[R|]|]; cbn [slot_ok] in Hi; try contradiction; try exact I.
  destruct Hi as [Hco Hsim]. intros fuel k. rewrite (override_refines u st r Hco). apply sfield_sim. exact Hsim.
Qed.

End Mode.

(* ------------------------------------------------------------------------- satisfiability *)
(* let s0 = {a | default = 1, b = a + 1} in let s1 = {a = 5} in let s2 = s0 & s1 in let s3 = s2 & s0 in .. *)
Definition example_history : history :=
  [ SLit [(0%N, {| fprio := PBot; fbody := Some (STm (Num 1)); fdyn := false; fctrs := [] |});
          (1%N, {| fprio := PNeut; fbody := Some (STm (Add (Var 0%N) (Num 1))); fdyn := false; fctrs := [] |})];
    SLit [(0%N, {| fprio := PNeut; fbody := Some (STm (Num 5)); fdyn := false; fctrs := [] |})];
    SMerge 0 1;
    SMerge 2 0 ].

Example example_history_ok : lits_ok false example_history.
Proof.
  intros l [H|[H|[H|[H|[]]]]]; inversion H; subst; (split; [|discriminate]); cbn; repeat constructor; cbn; intuition discriminate.
Qed.

Example example_history_values :
  let (st, slots) := irun cfg_fixed example_history in
  map (fun sl => match sl with Rid r => ifields 5 st r | _ => [] end) slots
  = [ [(0%N, Ok 1); (1%N, Ok 2)];                 (* the operand keeps its own values *)
      [(0%N, Ok 5)];
      [(1%N, Ok 6); (0%N, Ok 5)];                 (* b recomputed from the overriding a *)
      [(1%N, Ok 6); (0%N, Ok 5)] ].
Proof. vm_compute. reflexivity. Qed.

(* ------------------------------------------------------------------------- the code as it is
   The only difference between [cfg_current] (RecordInsert/closurize as they are) and [cfg_fixed] is the
   indirection put in front of the thunk of a dynamically named field: on histories without
   dynamically named fields the two configurations run identically, so every theorem above holds of
   the current code for such histories. *)
Definition set_wrap (b : bool) (c : cfg) : cfg :=
  {| c_an := c_an c; c_unknown := c_unknown c; c_revert := c_revert c; c_patch := c_patch c; c_wrap_dyn := b |}.

Definition lit_static (l : literal) : Prop := forall k d, In (k, d) l -> fdyn d = false.
Definition hist_static (h : history) : Prop := forall l, In (SLit l) h -> lit_static l.

Lemma insert_dyn_static : forall c l ths r, lit_static l -> insert_dyn c ths l r = (ths, r).
Proof.
  intros c. induction l as [|[k0 d] l IH]; intros ths r Hs; [destruct r; reflexivity|].
  destruct r as [|[k f] r]; [reflexivity|]. cbn [insert_dyn].
  rewrite (Hs k0 d (or_introl eq_refl)). rewrite (IH ths r (fun k' d' H => Hs k' d' (or_intror H))). reflexivity.
Qed.

Lemma alloc_lit_wrap : forall b c names ths l, alloc_lit (set_wrap b c) names ths l = alloc_lit c names ths l.
Proof.
  intros b c names ths l. revert ths. induction l as [|[k d] l IH]; intros ths; cbn [alloc_lit]; [reflexivity|].
  replace (alloc_fld (set_wrap b c) names ths d) with (alloc_fld c names ths d) by reflexivity.
  destruct (alloc_fld c names ths d) as [ths1 f]. rewrite IH. reflexivity.
Qed.

Lemma eval_literal_static : forall b c st l, lit_static l -> eval_literal (set_wrap b c) st l = eval_literal c st l.
Proof.
  intros b c st l Hs. unfold eval_literal. rewrite alloc_lit_wrap.
  destruct (alloc_lit c (lit_scope l) (thunks st) l) as [ths r]. cbn [c_patch set_wrap].
  destruct (patch_all (c_patch c) (length (recs st)) ths r) as [ths'|]; [|reflexivity].
  rewrite !insert_dyn_static by exact Hs. reflexivity.
Qed.

Lemma merge_all_wrap : forall b c names ths C, merge_all (set_wrap b c) names ths C = merge_all c names ths C.
Proof.
  intros b c names ths C. revert ths. induction C as [|[k [f1 f2]] C IH]; intros ths; cbn [merge_all]; [reflexivity|].
  replace (merge_fld (set_wrap b c) names ths f1 f2) with (merge_fld c names ths f1 f2) by reflexivity.
  destruct (merge_fld c names ths f1 f2) as [ths1 f]. rewrite IH. reflexivity.
Qed.

Lemma merge_wrap : forall b c st r1 r2, merge (set_wrap b c) st r1 r2 = merge c st r1 r2.
Proof.
  intros b c st r1 r2. unfold merge, merge_general. cbn [c_revert c_patch set_wrap].
  destruct (nth_error (recs st) r1) as [[|a l1]|]; destruct (nth_error (recs st) r2) as [[|b' l2]|]; try reflexivity.
  destruct (revert_all (c_revert c) (thunks st) (split_left (a :: l1) (b' :: l2))) as [ths1 L'].
  destruct (revert_all (c_revert c) ths1 (split_left (b' :: l2) (a :: l1))) as [ths2 R'].
  rewrite merge_all_wrap. reflexivity.
Qed.

Theorem static_history_same : forall b c h,
  hist_static h -> forall sd, irun_from (set_wrap b c) sd h = irun_from c sd h.
Proof.
  intros b c. induction h as [|s h IH]; intros Hs sd; cbn [irun_from fold_left]; [reflexivity|].
  assert (Hstep : istep (set_wrap b c) sd s = istep c sd s).
  { destruct sd as [st done]. destruct s as [l|i j]; cbn [istep].
    - rewrite (eval_literal_static b c st l (Hs l (or_introl eq_refl))). reflexivity.
    - destruct (nth_error done i) as [[r1| |]|]; destruct (nth_error done j) as [[r2| |]|]; try reflexivity.
      rewrite merge_wrap. reflexivity. }
  rewrite Hstep. apply IH. intros l H. apply Hs. right. exact H.
Qed.

(* the property's sentence for the code before fix 8192ce0, on histories without dynamically named fields *)
Theorem history_fields_current : forall h i,
  hist_static h -> lits_ok false h ->
  let (st, slots) := irun cfg_current h in
  match nth_error slots i, nth_error (srun h) i with
  | Some (Rid r), Some (Some R) => forall fuel k, ifield fuel st r k = sfield fuel R k
  | Some BadRef, Some None => True
  | None, None => True
  | _, _ => False
  end.
Proof.
  intros h i Hs Hl. unfold irun.
  change cfg_current with (set_wrap true cfg_fixed). rewrite (static_history_same true cfg_fixed h Hs).
  exact (history_fields false cfg_fixed h i cfg_fixed_faithful Hl).
Qed.

(* ------------------------------------------------------------------------- hook H4
   With every dependency unknown (FieldDeps::Unknown) a field read gives what the specification gives
   as well, provided the literals are closed; hence the same as with the computed dependencies. *)
Definition hist_closed (h : history) : Prop :=
  forall l, In (SLit l) h -> NoDup (lit_names l) /\ lit_closed l.

Theorem history_fields_unknown : forall h i,
  hist_closed h ->
  let (st, slots) := irun (with_unknown cfg_fixed) h in
  match nth_error slots i, nth_error (srun h) i with
  | Some (Rid r), Some (Some R) => forall fuel k, ifield fuel st r k = sfield fuel R k
  | Some BadRef, Some None => True
  | None, None => True
  | _, _ => False
  end.
Proof.
  intros h i Hc. apply (history_fields true (with_unknown cfg_fixed) h i cfg_fixed_unknown_faithful).
  intros l Hin. destruct (Hc l Hin) as [H1 H2]. split; [exact H1 | intros _; exact H2].
Qed.

Theorem depsunknown_equiv : forall h i,
  hist_closed h ->
  let (st, slots) := irun cfg_fixed h in
  let (stu, slotsu) := irun (with_unknown cfg_fixed) h in
  match nth_error slots i, nth_error slotsu i with
  | Some (Rid r), Some (Rid ru) => forall fuel k, ifield fuel stu ru k = ifield fuel st r k
  | Some BadRef, Some BadRef => True
  | None, None => True
  | _, _ => False
  end.
Proof.
  intros h i Hc.
  assert (Hl : lits_ok false h) by (intros l Hin; split; [exact (proj1 (Hc l Hin)) | discriminate]).
  pose proof (history_fields false cfg_fixed h i cfg_fixed_faithful Hl) as H1.
  pose proof (history_fields_unknown h i Hc) as H2.
  destruct (irun cfg_fixed h) as [st slots]. destruct (irun (with_unknown cfg_fixed) h) as [stu slotsu].
  destruct (nth_error slots i) as [[r| |]|]; destruct (nth_error slotsu i) as [[ru| |]|];
    destruct (nth_error (srun h) i) as [[R|]|]; try contradiction; try exact I.
  intros fuel k. rewrite H1, H2. reflexivity.
Qed.
