(* C07, part B -- nested records: reading into a record-valued field of a coherent record instance
   gives a coherent inner instance that denotes the record the specification assigns to that field
   of the final record: the literal with the names of the enclosing record bound late. *)
From Coq Require Import List NArith ZArith Bool Lia Arith.
Import ListNotations.
From NV Require Import Rec.Lang Rec.Spec Rec.Mech Rec.SpecProofs Rec.MechInv Rec.MechMerge Rec.History Rec.Nested.

Lemma nodup_names_NoDup : forall l, nodup_names l = true -> NoDup l.
Proof.
  induction l as [|x l IH]; intros H; [constructor|]. cbn [nodup_names] in H. apply andb_true_iff in H.
  destruct H as [H1 H2]. apply negb_true_iff, mem_false in H1. constructor; [exact H1 | apply IH; exact H2].
Qed.

Lemma lit_names_lift_subst : forall f l, lit_names (lift_lit (subst_ilit f l)) = map fst l.
Proof. intros f l. unfold lit_names, lift_lit, subst_ilit. rewrite !map_map. reflexivity. Qed.

(* ------------------------------------------------------------------------- substitution *)
Lemma subst_tm_ext : forall t f g, (forall x, In x (vars t) -> f x = g x) -> subst_tm f t = subst_tm g t.
Proof.
  induction t as [z|x|o|a IHa b IHb|a IHa b IHb|a IHa b IHb t IHt e IHe]; intros f g H; cbn [subst_tm vars] in *.
  - reflexivity.
  - rewrite (H x (or_introl eq_refl)). reflexivity.
  - reflexivity.
  - rewrite (IHa f g), (IHb f g); [reflexivity| |]; intros x Hx; apply H; rewrite !in_app_iff; tauto.
  - rewrite (IHa f g), (IHb f g); [reflexivity| |]; intros x Hx; apply H; rewrite !in_app_iff; tauto.
  - rewrite (IHa f g), (IHb f g), (IHt f g), (IHe f g); [reflexivity| | | |]; intros x Hx; apply H; rewrite !in_app_iff; tauto.
Qed.

Lemma subst_fdef0_ext : forall d f g, (forall x, In x (fdef0_vars d) -> f x = g x) -> subst_fdef0 f d = subst_fdef0 g d.
Proof.
  intros d f g H. unfold subst_fdef0. f_equal.
  - destruct (f0body d) as [t|] eqn:Eb; [|reflexivity]. cbn [option_map]. f_equal. apply subst_tm_ext.
    intros x Hx. apply H. unfold fdef0_vars. rewrite Eb. apply in_or_app. right. exact Hx.
  - apply map_ext_in. intros kc Hkc. f_equal. apply subst_tm_ext. intros x Hx. apply H.
    unfold fdef0_vars. apply in_or_app. left. apply in_flat_map. exists kc. split; assumption.
Qed.

(* only the variables that refer to the enclosing record matter *)
Lemma subst_ilit_ext : forall l f g, (forall x, In x (svars (SSub l)) -> f x = g x) -> subst_ilit f l = subst_ilit g l.
Proof.
  intros l f g H. unfold subst_ilit. apply map_ext_in. intros [k d] Hin. cbn [fst snd]. f_equal.
  apply subst_fdef0_ext. intros x Hx. destruct (mem x (ilit_scope l)) eqn:Em; [reflexivity|].
  apply H. cbn [svars]. unfold minus. apply filter_In. split.
  - apply in_flat_map. exists (k, d). split; [exact Hin | exact Hx].
  - rewrite Em. reflexivity.
Qed.

(* ------------------------------------------------------------------------- aliases *)
Lemma alias_tm_ext : forall t look look',
  (forall x, In x (vars t) -> look x = look' x) -> alias_tm look t = alias_tm look' t.
Proof.
  induction t as [z|x|o|a IHa b IHb|a IHa b IHb|a _ b _ t IHt e IHe]; intros look look' H; cbn [alias_tm]; try reflexivity.
  cbn [vars] in H.
  rewrite (eval_tm_ext a look look'), (eval_tm_ext b look look'), (IHt look look'), (IHe look look'); [reflexivity| | | |];
    intros x Hx; apply H; rewrite !in_app_iff; tauto.
Qed.

Lemma alias_tm_In : forall t look x, alias_tm look t = Some x -> In x (vars t).
Proof.
  induction t as [z|y|o|a IHa b IHb|a IHa b IHb|a _ b _ t IHt e IHe]; intros look x H; cbn [alias_tm vars] in *; try discriminate.
  - inversion H; subst. left. reflexivity.
  - destruct (arith2 _ (eval_tm look a) (eval_tm look b)) as [[|[| |]|]| | | | |]; try discriminate.
    + apply IHe in H. rewrite !in_app_iff. tauto.
    + apply IHt in H. rewrite !in_app_iff. tauto.
Qed.

(* ------------------------------------------------------------------------- the specification respects sb_sim *)
Lemma sinst_body_sim : forall F R R' al al' b b',
  sb_sim b b' -> (forall x, sfield F R x = sfield F R' x) -> (forall x, al x = al' x) ->
  sinst_body F R al b = sinst_body F R' al' b'.
Proof.
  intros F R R' al al' b b' H HR Hal. induction H as [sc sc' s Hs|l l' r r' Hl IHl Hr IHr]; cbn [sinst_body].
  - destruct s as [t|l].
    + assert (Ha : alias_tm (fun x => if mem x sc then var_out (sfield F R x) else Err UnboundId) t
                   = alias_tm (fun x => if mem x sc' then var_out (sfield F R' x) else Err UnboundId) t).
      { apply alias_tm_ext. intros x Hx. rewrite (Hs x Hx), HR. reflexivity. }
      rewrite Ha.
      destruct (alias_tm (fun x => if mem x sc' then var_out (sfield F R' x) else Err UnboundId) t) as [x|] eqn:Ea; [|reflexivity].
      rewrite (Hs x (alias_tm_In _ _ _ Ea)), Hal. reflexivity.
    + destruct (nodup_names (map fst l)); [|reflexivity].
      f_equal. f_equal. f_equal. apply subst_ilit_ext. intros x Hx. unfold outer_S. rewrite (Hs x Hx), HR. reflexivity.
  - rewrite IHl, IHr. reflexivity.
Qed.

Lemma sinst_at_sim : forall fuel F R R' k, srec_sim R R' -> sinst_at fuel F R k = sinst_at fuel F R' k.
Proof.
  induction fuel as [|n IH]; intros F R R' k Hsim; cbn [sinst_at]; [reflexivity|].
  pose proof (Hsim k) as Hk. rewrite (sfield_sim R R' Hsim F k).
  destruct (slookup k R) as [f|]; destruct (slookup k R') as [f'|]; cbn [opt_sim] in Hk; try contradiction; [|reflexivity].
  destruct (sfield F R' k); try reflexivity.
  destruct Hk as (_ & Hv & _). destruct (sval f) as [b|]; destruct (sval f') as [b'|]; cbn [osb_sim] in Hv; try contradiction; [|reflexivity].
  apply sinst_body_sim; [exact Hv | intros x; apply sfield_sim; exact Hsim | intros x; apply IH; exact Hsim].
Qed.

(* ------------------------------------------------------------------------- instantiation *)
Definition inst_rel (st : state) (oi : option (state * nat)) (os : option srec) : Prop :=
  match oi, os with
  | Some (st', ri), Some Ri => extends st st' /\ coherent false st' ri /\ srec_sim (abs st' ri) Ri
  | None, None => True
  | _, _ => False
  end.

Lemma mem_filter_incl : forall x d filt, incl d filt -> mem x (filter (fun y => mem y filt) d) = mem x d.
Proof.
  intros x d filt H. rewrite mem_filter. destruct (mem x d) eqn:E; [|reflexivity].
  apply mem_In in E. apply H in E. apply mem_In in E. rewrite E. reflexivity.
Qed.

Lemma inst_body_ok : forall c F st0 ro ai asp,
  faithful false c -> coherent false st0 ro ->
  (forall st x, extends st0 st -> inst_rel st (ai st x) (asp x)) ->
  forall b filt st, extends st0 st -> wf_body filt b ->
  inst_rel st (inst_body c F st0 ro ai filt st b) (sinst_body F (abs st0 ro) asp (abs_body filt b)).
Proof.
  intros c F st0 ro ai asp Hc Hco Hal. induction b as [s|b1 IH1 d1 b2 IH2 d2|tid]; intros filt st Hext Hwf; cbn [inst_body abs_body sinst_body].
  - destruct s as [t|l].
    + assert (Ha : alias_tm (fun x => if mem x filt then var_out (ifield F st0 ro x) else Err UnboundId) t
                   = alias_tm (fun x => if mem x filt then var_out (sfield F (abs st0 ro) x) else Err UnboundId) t).
      { apply alias_tm_ext. intros x _. rewrite (override_refines false st0 ro Hco). reflexivity. }
      rewrite Ha.
      destruct (alias_tm (fun x => if mem x filt then var_out (sfield F (abs st0 ro) x) else Err UnboundId) t) as [x|]; [|exact I].
      destruct (mem x filt); [|exact I]. apply Hal. exact Hext.
    + destruct (nodup_names (map fst l)) eqn:En; [|exact I].
      assert (Hsub : subst_ilit (outer_I F st0 ro filt) l = subst_ilit (outer_S F (abs st0 ro) filt) l).
      { apply subst_ilit_ext. intros x _. unfold outer_I, outer_S. rewrite (override_refines false st0 ro Hco). reflexivity. }
      rewrite Hsub.
      destruct (eval_literal_ok false c st (lift_lit (subst_ilit (outer_S F (abs st0 ro) filt) l)) Hc)
        as (st' & He & Hext' & Hco' & Hsim).
      * rewrite lit_names_lift_subst. apply nodup_names_NoDup. exact En.
      * intros H. discriminate.
      * rewrite He. cbn [inst_rel]. split; [exact Hext'|]. split; assumption.
  - cbn [wf_body] in Hwf. destruct Hwf as (Hi1 & Hi2 & Hw1 & Hw2).
    set (f1 := filter (fun x => mem x filt) d1). set (f2 := filter (fun x => mem x filt) d2).
    assert (Hs1 : sinst_body F (abs st0 ro) asp (abs_body d1 b1) = sinst_body F (abs st0 ro) asp (abs_body f1 b1)).
    { apply sinst_body_sim; [|reflexivity|reflexivity]. apply abs_body_sim. intros x. unfold f1. symmetry. apply mem_filter_incl. exact Hi1. }
    assert (Hs2 : sinst_body F (abs st0 ro) asp (abs_body d2 b2) = sinst_body F (abs st0 ro) asp (abs_body f2 b2)).
    { apply sinst_body_sim; [|reflexivity|reflexivity]. apply abs_body_sim. intros x. unfold f2. symmetry. apply mem_filter_incl. exact Hi2. }
    rewrite Hs1, Hs2.
    assert (Hw1' : wf_body f1 b1).
    { eapply wf_body_mono; [|exact Hw1]. intros x Hx. unfold f1. apply filter_In. split; [exact Hx | apply mem_In, Hi1, Hx]. }
    assert (Hw2' : wf_body f2 b2).
    { eapply wf_body_mono; [|exact Hw2]. intros x Hx. unfold f2. apply filter_In. split; [exact Hx | apply mem_In, Hi2, Hx]. }
    pose proof (IH1 f1 st Hext Hw1') as H1.
    destruct (inst_body c F st0 ro ai f1 st b1) as [[st1 r1]|]; destruct (sinst_body F (abs st0 ro) asp (abs_body f1 b1)) as [R1|];
      cbn [inst_rel] in H1; try contradiction.
    + destruct H1 as (He1 & Hco1 & Hsim1).
      pose proof (IH2 f2 st1 (extends_trans _ _ _ Hext He1) Hw2') as H2.
      destruct (inst_body c F st0 ro ai f2 st1 b2) as [[st2 r2]|]; destruct (sinst_body F (abs st0 ro) asp (abs_body f2 b2)) as [R2|];
        cbn [inst_rel] in H2; try contradiction; [|exact I].
      destruct H2 as (He2 & Hco2 & Hsim2).
      destruct (extends_coherent false st1 st2 r1 He2 Hco1) as [Hco1' Habs1].
      destruct (merge_ok false c st2 r1 r2 Hc Hco1' Hco2) as (st3 & r3 & Hm & He3 & Hco3 & Hsim3).
      rewrite Hm. cbn [inst_rel]. split; [|split].
      * eapply extends_trans; [exact He1|]. eapply extends_trans; eassumption.
      * exact Hco3.
      * eapply srec_sim_trans; [exact Hsim3|]. apply smerge_sim; [rewrite Habs1; exact Hsim1 | exact Hsim2].
    + destruct (sinst_body F (abs st0 ro) asp (abs_body f2 b2)); exact I.
  - destruct Hwf.
Qed.

(* reading into field [k] of a coherent record instance (through any chain of aliases) *)
Lemma inst_at_ok : forall fuel c F st0 ro,
  faithful false c -> coherent false st0 ro ->
  forall st k, extends st0 st ->
  inst_rel st (inst_at fuel c F st0 ro st k) (sinst_at fuel F (abs st0 ro) k).
Proof.
  induction fuel as [|n IH]; intros c F st0 ro Hc Hco st k Hext; cbn [inst_at sinst_at]; [exact I|].
  pose proof Hco as (r & Hr & Hnd & Hok). rewrite Hr.
  rewrite <- (override_refines false st0 ro Hco F k).
  unfold abs at 1. rewrite Hr, slookup_abs_rec.
  destruct (ilookup k r) as [f|] eqn:El; cbn [option_map]; [|exact I].
  destruct (ifield F st0 ro k); try exact I.
  cbn [abs_fld sval]. destruct (ival f) as [tid|] eqn:Ev; cbn [option_map]; [|exact I].
  destruct (fld_ok_val false _ _ _ _ _ (Hok k f (ilookup_In _ _ _ El)) Ev) as (th & Hth & Htok).
  unfold abs_tid. rewrite Hth.
  assert (Hal : forall st' x, extends st0 st' -> inst_rel st' (inst_at n c F st0 ro st' x) (sinst_at n F (abs st0 ro) x)).
  { intros st' x He. apply IH; assumption. }
  destruct th as [b|o [d|] [c0|]]; cbn [thunk_ok] in Htok; try contradiction; cbn [abs_thunk].
  - apply (inst_body_ok c F st0 ro _ _ Hc Hco Hal b [] st Hext (proj1 Htok)).
  - destruct Htok as (_ & -> & Hwf & _). apply (inst_body_ok c F st0 ro _ _ Hc Hco Hal o d st Hext Hwf).
  - destruct Htok as (Hu & _). discriminate.
Qed.

Theorem inst_ok : forall c F st ro k,
  faithful false c -> coherent false st ro ->
  inst_rel st (inst c F st ro k) (sinst F (abs st ro) k).
Proof. intros c F st ro k Hc Hco. apply inst_at_ok; [exact Hc | exact Hco | apply extends_refl]. Qed.

(* ------------------------------------------------------------------------- histories
   the property's sentence for a nested field: after the whole history, field [p] of the record that
   field [k] of step [i] holds, read through the mechanism, is field [p] of the record that the
   specification assigns to field [k] of the single S-record of that step *)
Theorem nested_history_fields : forall c h i k F,
  faithful false c -> lits_ok false h ->
  let (st, slots) := irun c h in
  match nth_error slots i, nth_error (srun h) i with
  | Some (Rid r), Some (Some R) =>
      ifield F st r k = sfield F R k /\
      match inst c F st r k, sinst F R k with
      | Some (st', ri), Some Ri => forall fuel p, ifield fuel st' ri p = sfield fuel Ri p
      | None, None => True
      | _, _ => False
      end
  | Some BadRef, Some None => True
  | None, None => True
  | _, _ => False
  end.
Proof.
  intros c h i k F Hc Hl. pose proof (history_refines false c h Hc Hl) as H.
  destruct (irun c h) as [st slots]. pose proof (Forall2_nth_error _ _ _ _ _ i H) as Hi.
  destruct (nth_error slots i) as [[r| |]|]; destruct (nth_error (srun h) i) as [[R|]|]; cbn [slot_ok] in Hi; try contradiction; try exact I.
  destruct Hi as [Hco Hsim]. split.
  - rewrite (override_refines false st r Hco). apply sfield_sim. exact Hsim.
  - pose proof (inst_ok c F st r k Hc Hco) as Hin.
    unfold sinst in *. rewrite (sinst_at_sim F F (abs st r) R k Hsim) in Hin.
    destruct (inst c F st r k) as [[st' ri]|]; destruct (sinst_at F F R k) as [Ri|]; cbn [inst_rel] in Hin; try contradiction; [|exact I].
    destruct Hin as (_ & Hco' & Hsim'). intros fuel p.
    rewrite (override_refines false st' ri Hco'). apply sfield_sim. exact Hsim'.
Qed.

(* ------------------------------------------------------------------------- satisfiability
   let s0 = {a | default = 1, c = {d = a + 1, e = d * 2}} in let s1 = {a = 5} in let s2 = s0 & s1 in
   let s3 = {c = {d | force = 10}} in let s4 = s2 & s3 in ...        (a = 0, c = 2, d = 3, e = 4) *)
Definition h_nested : history :=
  [ SLit [(0%N, {| fprio := PBot; fbody := Some (STm (Num 1)); fdyn := false; fctrs := [] |});
          (2%N, {| fprio := PNeut; fdyn := false; fctrs := [];
                   fbody := Some (SSub [(3%N, {| f0prio := PNeut; f0body := Some (Add (Var 0%N) (Num 1)); f0dyn := false; f0ctrs := [] |});
                                        (4%N, {| f0prio := PNeut; f0body := Some (Mul (Var 3%N) (Num 2)); f0dyn := false; f0ctrs := [] |})]) |})];
    SLit [(0%N, {| fprio := PNeut; fbody := Some (STm (Num 5)); fdyn := false; fctrs := [] |})];
    SMerge 0 1;
    SLit [(2%N, {| fprio := PNeut; fdyn := false; fctrs := [];
                   fbody := Some (SSub [(3%N, {| f0prio := PTop; f0body := Some (Num 10); f0dyn := false; f0ctrs := [] |})]) |})];
    SMerge 2 3 ].

Definition inner_fields (c : cfg) (h : history) (i : nat) (k : N) : list (N * outcome) :=
  let (st, slots) := irun c h in
  match nth_error slots i with
  | Some (Rid r) => match inst c 6 st r k with Some (st', ri) => ifields 6 st' ri | None => [] end
  | _ => []
  end.

Example nested_fields_recomputed :
  inner_fields cfg_fixed h_nested 0 2%N = [(3%N, Ok 2); (4%N, Ok 4)] /\       (* the operand: a = 1 *)
  inner_fields cfg_fixed h_nested 2 2%N = [(3%N, Ok 6); (4%N, Ok 12)] /\      (* a overridden: d = a + 1 = 6 *)
  inner_fields cfg_fixed h_nested 4 2%N = [(4%N, Ok 20); (3%N, Ok 10)].       (* d overridden inside: e = d * 2 *)
Proof. repeat split; vm_compute; reflexivity. Qed.
