(* C07 -- the two parts meet: the bodies of part B are terms of part A, their variables are the
   free variables of part A's specification, and the dependency table that the model of
   free_vars.rs computes for a literal of part B is (as a set) what the mechanism of part B uses.
   Hence the analysis of part A is a faithful configuration of the mechanism. *)
From Coq Require Import List NArith ZArith Bool.
Import ListNotations.
From NV Require Import Rec.FreeVars Rec.FreeVarsProofs Rec.Lang Rec.Mech Rec.MechInv.

(* n | x | a + b | a * b | if a <= b then t else e, as the parser builds them *)
Fixpoint emb (t : Lang.tm) : FreeVars.tm :=
  match t with
  | Num _ => Leaf
  | Lang.Var x => FreeVars.Var x
  | Add a b | Mul a b => Op2 (emb a) (emb b)
  | IfLe a b t e => App (App (Op1 (Op2 (emb a) (emb b))) (emb t)) (emb e)
  end.

Definition emb_field (d : fdef) : field := Fld [] (option_map emb (fbody d)).
Definition emb_lit (l : literal) : FreeVars.tm := RecRec (map (fun kd => (fst kd, emb_field (snd kd))) l) [] [].

Lemma vars_collect : forall t x, In x (vars t) <-> In x (collect false (emb t)).
Proof.
  induction t as [z|y|a IHa b IHb|a IHa b IHb|a IHa b IHb t IHt e IHe]; intros x; cbn [vars emb collect].
  - reflexivity.
  - reflexivity.
  - rewrite !in_app_iff, IHa, IHb. reflexivity.
  - rewrite !in_app_iff, IHa, IHb. reflexivity.
  - rewrite !in_app_iff, IHa, IHb, IHt, IHe. tauto.
Qed.

(* the variables of a body are its free variables in the sense of part A's specification *)
Theorem vars_free : forall t x, In x (vars t) <-> free x (emb t).
Proof. intros t x. rewrite vars_collect. apply collect_sound_complete. Qed.

(* the mechanism configured with the model of free_vars.rs *)
Definition cfg_partA : cfg :=
  {| c_an := fun t => collect false (emb t); c_unknown := false; c_revert := RevFresh; c_patch := PAssert |}.

Theorem cfg_partA_faithful : faithful cfg_partA.
Proof. repeat split; try reflexivity; intros H; apply vars_collect; exact H. Qed.

(* the table [deps_stat] of the literal seen as a term of part A has, for every defined field, the
   members of the filter the mechanism allocates its thunk with *)
Theorem literal_deps_agree : forall (l : literal) k d t x,
  In (k, d) l -> fbody d = Some t ->
  exists ds, In (k, ds) (deps_stat false (map (fun kd => (fst kd, emb_field (snd kd))) l) []) /\
             (In x ds <-> In x (filter (fun y => Lang.mem y (lit_names l)) (c_an cfg_partA t))).
Proof.
  intros l k d t x Hin Hb.
  exists (inter (collect_field false (emb_field d)) (rec_fields (map (fun kd => (fst kd, emb_field (snd kd))) l) [])).
  split.
  - unfold deps_stat. cbn [map app]. apply in_map_iff. exists (k, emb_field d). split; [reflexivity|].
    apply in_map_iff. exists (k, d). split; [reflexivity | exact Hin].
  - rewrite In_inter, filter_In. unfold emb_field. rewrite Hb. cbn [option_map collect_field flat_map app c_an cfg_partA].
    unfold rec_fields. cbn [map]. rewrite app_nil_r, map_map. cbn [fst].
    change (map (fun x0 : N * fdef => fst x0) l) with (lit_names l).
    rewrite <- (FreeVarsProofs.mem_In x (lit_names l)). unfold FreeVars.mem, Lang.mem. reflexivity.
Qed.
