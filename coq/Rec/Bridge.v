(* C07 -- the two parts meet: the bodies of part B are terms of part A, their variables are the
   free variables of part A's specification, and the dependency table that the model of
   free_vars.rs computes for a literal of part B is (as a set) what the mechanism of part B uses.
   Hence the analysis of part A is a faithful configuration of the mechanism. *)
From Coq Require Import List NArith ZArith Bool.
Import ListNotations.
From NV Require Import Rec.FreeVars Rec.FreeVarsProofs Rec.Lang Rec.Mech Rec.MechInv.

(* n | x | a + b | a * b | if a <= b then t else e, as the parser builds them ([Const] does not occur
   in source programs; it has no variable) *)
Fixpoint emb (t : Lang.tm) : FreeVars.tm :=
  match t with
  | Num _ | Const _ => Leaf
  | Lang.Var x => FreeVars.Var x
  | Add a b | Mul a b => Op2 (emb a) (emb b)
  | IfLe a b t e => App (App (Op1 (Op2 (emb a) (emb b))) (emb t)) (emb e)
  end.

(* the contract annotation `| Ge e` / `| Ne e`, where Ge = fun lo => std.contract.from_predicate
   (fun v => v >= lo) is a closed combinator bound outside of the record (a leaf here) *)
Definition emb_ctr (kc : ctr) : ty := TContract (App Leaf (emb (snd kc))).

(* a nested record literal: statically named fields, and dynamically named fields whose name is a
   string with an interpolated constant *)
Definition emb_fdef0 (d : fdef0) : field := Fld (map emb_ctr (f0ctrs d)) (option_map emb (f0body d)).
Definition emb_ilit (l : ilit) : FreeVars.tm :=
  RecRec (map (fun kd => (fst kd, emb_fdef0 (snd kd))) (filter (fun kd => negb (f0dyn (snd kd))) l))
         []
         (map (fun kd => (Chunks [Some Leaf], emb_fdef0 (snd kd))) (filter (fun kd => f0dyn (snd kd)) l)).

Definition emb_src (s : src) : FreeVars.tm :=
  match s with
  | STm t => emb t
  | SSub l => emb_ilit l
  end.

Definition emb_field (d : fdef) : field := Fld (map emb_ctr (fctrs d)) (option_map emb_src (fbody d)).

(* the literal as the parser builds it *)
Definition emb_stat (l : literal) : list (N * field) :=
  map (fun kd => (fst kd, emb_field (snd kd))) (filter (fun kd => negb (fdyn (snd kd))) l).
Definition emb_dyn (l : literal) : list (FreeVars.tm * field) :=
  map (fun kd => (Chunks [Some Leaf], emb_field (snd kd))) (filter (fun kd => fdyn (snd kd)) l).
Definition emb_lit (l : literal) : FreeVars.tm := RecRec (emb_stat l) [] (emb_dyn l).

Lemma vars_collect : forall t x, In x (vars t) <-> In x (collect false (emb t)).
Proof.
  induction t as [z|y|o|a IHa b IHb|a IHa b IHb|a IHa b IHb t IHt e IHe]; intros x; cbn [vars emb collect].
  - reflexivity.
  - reflexivity.
  - reflexivity.
  - rewrite !in_app_iff, IHa, IHb. reflexivity.
  - rewrite !in_app_iff, IHa, IHb. reflexivity.
  - rewrite !in_app_iff, IHa, IHb, IHt, IHe. tauto.
Qed.

Lemma ctrs_collect : forall (cs : list ctr) x,
  In x (flat_map (collect_ty false) (map emb_ctr cs)) <-> In x (flat_map (fun kc => vars (snd kc)) cs).
Proof.
  intros cs x. rewrite !in_flat_map. split.
  - intros [t [Ht Hx]]. apply in_map_iff in Ht. destruct Ht as [kc [E Hkc]]. subst t. exists kc. split; [exact Hkc|].
    cbn [emb_ctr collect_ty collect app] in Hx. apply vars_collect. exact Hx.
  - intros [kc [Hkc Hx]]. exists (emb_ctr kc). split; [apply in_map; exact Hkc|].
    cbn [emb_ctr collect_ty collect app]. apply vars_collect. exact Hx.
Qed.

Lemma fdef0_collect : forall d x, In x (collect_field false (emb_fdef0 d)) <-> In x (fdef0_vars d).
Proof.
  intros d x. unfold emb_fdef0, fdef0_vars. cbn [collect_field]. rewrite !in_app_iff, ctrs_collect.
  destruct (f0body d) as [t|]; cbn [option_map]; [rewrite <- vars_collect|]; reflexivity.
Qed.

Lemma lmem_In : forall x l, Lang.mem x l = true <-> In x l.
Proof. intros x l. exact (FreeVarsProofs.mem_In x l). Qed.

(* the variables of a definition are the free variables of the term the parser builds for it; for a
   nested record literal: the variables of its fields that the literal does not bind itself *)
Lemma svars_collect : forall s x, In x (svars s) <-> In x (collect false (emb_src s)).
Proof.
  intros [t|l] x; cbn [svars emb_src]; [apply vars_collect|].
  unfold emb_ilit. cbn [collect]. cbv zeta. cbn [flat_map app]. rewrite app_nil_r.
  assert (Hsc : map fst (map (fun kd : N * fdef0 => (fst kd, emb_fdef0 (snd kd))) (filter (fun kd => negb (f0dyn (snd kd))) l))
                = ilit_scope l).
  { unfold ilit_scope. rewrite map_map. reflexivity. }
  rewrite Hsc. unfold Lang.minus. rewrite filter_In, in_app_iff, !in_flat_map.
  assert (Hneg : negb (Lang.mem x (ilit_scope l)) = true <-> ~ In x (ilit_scope l)).
  { rewrite negb_true_iff. split.
    - intros H Hin. apply lmem_In in Hin. congruence.
    - intros H. destruct (Lang.mem x (ilit_scope l)) eqn:E; [|reflexivity]. exfalso. apply H. apply lmem_In. exact E. }
  rewrite Hneg. split.
  - intros [[[k d] [Hin Hx]] Hn]. cbn [snd] in Hx. destruct (f0dyn d) eqn:Ed.
    + right. exists (Chunks [Some Leaf], emb_fdef0 d). split.
      * apply in_map_iff. exists (k, d). split; [reflexivity|]. apply filter_In. split; [exact Hin | exact Ed].
      * cbn [fst snd collect flat_map app]. apply In_minus. split; [apply fdef0_collect; exact Hx | exact Hn].
    + left. exists (k, emb_fdef0 d). split.
      * apply in_map_iff. exists (k, d). split; [reflexivity|]. apply filter_In. split; [exact Hin|]. cbn [snd]. rewrite Ed. reflexivity.
      * cbn [snd]. apply In_minus. split; [apply fdef0_collect; exact Hx | exact Hn].
  - intros [[[k f] [Hin Hx]]|[[nm f] [Hin Hx]]].
    + apply in_map_iff in Hin. destruct Hin as [[k' d] [E Hin]]. cbn [fst snd] in E. inversion E; subst k f. apply filter_In in Hin.
      cbn [snd] in Hx. apply In_minus in Hx. split; [|tauto]. exists (k', d). split; [tauto|]. cbn [snd]. apply fdef0_collect. tauto.
    + apply in_map_iff in Hin. destruct Hin as [[k' d] [E Hin]]. cbn [fst snd] in E. inversion E; subst nm f. apply filter_In in Hin.
      cbn [fst snd collect flat_map app] in Hx. apply In_minus in Hx. split; [|tauto]. exists (k', d). split; [tauto|]. cbn [snd]. apply fdef0_collect. tauto.
Qed.

(* the variables of a definition are its free variables in the sense of part A's specification *)
Theorem vars_free : forall t x, In x (vars t) <-> free x (emb t).
Proof. intros t x. rewrite vars_collect. apply collect_sound_complete. Qed.

Theorem svars_free : forall s x, In x (svars s) <-> free x (emb_src s).
Proof. intros s x. rewrite svars_collect. apply collect_sound_complete. Qed.

(* the mechanism configured with the model of free_vars.rs *)
Definition cfg_partA : cfg :=
  {| c_an := fun s => collect false (emb_src s); c_unknown := false; c_revert := RevFresh; c_patch := PAssert; c_wrap_dyn := false |}.

Theorem cfg_partA_faithful : faithful false cfg_partA.
Proof.
  unfold faithful. cbn. split; [reflexivity|]. split; [reflexivity|]. split; [reflexivity|]. split; [reflexivity|].
  intros _ t x. split; intros Hx; apply svars_collect; exact Hx.
Qed.

Lemma rec_fields_scope : forall l, rec_fields (emb_stat l) [] = lit_scope l.
Proof.
  intros l. unfold rec_fields, emb_stat, lit_scope. cbn [map]. rewrite app_nil_r, map_map. reflexivity.
Qed.

Lemma collect_field_emb : forall d x,
  In x (collect_field false (emb_field d))
  <-> In x (flat_map (fun kc => c_an cfg_partA (STm (snd kc))) (fctrs d)
            ++ match fbody d with Some t => c_an cfg_partA t | None => [] end).
Proof.
  intros d x. unfold emb_field. cbn [collect_field]. rewrite !in_app_iff.
  assert (H1 : In x (flat_map (collect_ty false) (map emb_ctr (fctrs d)))
               <-> In x (flat_map (fun kc => c_an cfg_partA (STm (snd kc))) (fctrs d))).
  { rewrite !in_flat_map. split.
    - intros [t [Ht Hx]]. apply in_map_iff in Ht. destruct Ht as [kc [E Hkc]]. subst t. exists kc. split; [exact Hkc|].
      cbn [emb_ctr collect_ty collect app] in Hx. exact Hx.
    - intros [kc [Hkc Hx]]. exists (emb_ctr kc). split; [apply in_map; exact Hkc|].
      cbn [emb_ctr collect_ty collect app]. exact Hx. }
  rewrite H1. destruct (fbody d) as [t|]; cbn [option_map]; reflexivity.
Qed.

Lemma field_deps_agree : forall l d x,
  In x (inter (collect_field false (emb_field d)) (rec_fields (emb_stat l) []))
  <-> (exists ds, field_deps cfg_partA (lit_scope l) d = Some ds /\ In x ds).
Proof.
  intros l d x. rewrite In_inter, rec_fields_scope, collect_field_emb. unfold field_deps. cbn [c_unknown cfg_partA].
  split.
  - intros [H1 H2]. eexists. split; [reflexivity|]. apply filter_In. split; [exact H1|].
    apply (proj2 (FreeVarsProofs.mem_In x (lit_scope l))) in H2. exact H2.
  - intros [ds [E Hx]]. inversion E; subst ds. apply filter_In in Hx. destruct Hx as [H1 H2]. split; [exact H1|].
    apply (proj1 (FreeVarsProofs.mem_In x (lit_scope l))). exact H2.
Qed.

(* the tables [deps_stat] / [deps_dyn] of the literal seen as a term of part A have, for every
   field, the members of the dependency set the mechanism gives to the thunks of that field (value
   and contracts) *)
Theorem literal_deps_agree_stat : forall (l : literal) k d x,
  In (k, d) l -> fdyn d = false ->
  exists ds, In (k, ds) (deps_stat false (emb_stat l) []) /\
             (In x ds <-> exists ds', field_deps cfg_partA (lit_scope l) d = Some ds' /\ In x ds').
Proof.
  intros l k d x Hin Hdyn.
  exists (inter (collect_field false (emb_field d)) (rec_fields (emb_stat l) [])). split.
  - unfold deps_stat. cbn [map app]. apply in_map_iff. exists (k, emb_field d). split; [reflexivity|].
    unfold emb_stat. apply in_map_iff. exists (k, d). split; [reflexivity|]. apply filter_In. split; [exact Hin|].
    cbn [snd]. rewrite Hdyn. reflexivity.
  - apply field_deps_agree.
Qed.

Theorem literal_deps_agree_dyn : forall (l : literal) k d x,
  In (k, d) l -> fdyn d = true ->
  exists ds, In ds (deps_dyn false (emb_stat l) [] (emb_dyn l)) /\
             (In x ds <-> exists ds', field_deps cfg_partA (lit_scope l) d = Some ds' /\ In x ds').
Proof.
  intros l k d x Hin Hdyn.
  exists (inter (collect_field false (emb_field d)) (rec_fields (emb_stat l) [])). split.
  - unfold deps_dyn. apply in_map_iff.
    exists (Chunks [Some Leaf], emb_field d). split; [reflexivity|].
    unfold emb_dyn. apply in_map_iff. exists (k, d). split; [reflexivity|]. apply filter_In. split; [exact Hin | exact Hdyn].
  - apply field_deps_agree.
Qed.
