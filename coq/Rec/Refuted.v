(* C07, part B -- the theorems have teeth: each deliberately broken variant of the mechanism
   (the realistic wrong edits of lazy.rs / merge.rs / free_vars.rs) violates them on a concrete
   history.  All proofs are computations. *)
From Coq Require Import List NArith ZArith Bool.
Import ListNotations.
From NV Require Import Rec.Lang Rec.Spec Rec.Mech Rec.MechInv.

(* let s0 = {a | default = 1, b = a + 1} in let s1 = {a = 5} in let s2 = s0 & s1 in ... *)
Definition h_override : history :=
  [ SLit [(0%N, {| fprio := PBot; fbody := Some (STm (Num 1)); fdyn := false; fctrs := [] |});
          (1%N, {| fprio := PNeut; fbody := Some (STm (Add (Var 0%N) (Num 1))); fdyn := false; fctrs := [] |})];
    SLit [(0%N, {| fprio := PNeut; fbody := Some (STm (Num 5)); fdyn := false; fctrs := [] |})];
    SMerge 0 1 ].

(* what the specification says about that history: s0.b = 2, s2.b = 6 *)
Example h_override_spec :
  map (fun o => match o with Some R => map (fun k => (k, sfield 5 R k)) (skeys R) | None => [] end) (srun h_override)
  = [ [(0%N, Ok 1); (1%N, Ok 2)]; [(0%N, Ok 5)]; [(0%N, Ok 5); (1%N, Ok 6)] ].
Proof. vm_compute. reflexivity. Qed.

Definition field_of (c : cfg) (h : history) (i : nat) (k : N) : outcome :=
  let (st, slots) := irun c h in
  match nth_error slots i with
  | Some (Rid r) => ifield 5 st r k
  | Some Panicked => Panic
  | _ => Err FieldMissing
  end.

Definition spec_field_of (h : history) (i : nat) (k : N) : outcome :=
  match nth_error (srun h) i with
  | Some (Some R) => sfield 5 R k
  | _ => Err FieldMissing
  end.

(* ---- revert = clone: the merged record gets the operand's thunk with its cached environment *)
Definition cfg_share_assert : cfg := {| c_an := svars; c_unknown := false; c_revert := RevShare; c_patch := PAssert; c_wrap_dyn := false |}.
Definition cfg_share_skip : cfg := {| c_an := svars; c_unknown := false; c_revert := RevShare; c_patch := PSkip; c_wrap_dyn := false |}.
Definition cfg_share_overwrite : cfg := {| c_an := svars; c_unknown := false; c_revert := RevShare; c_patch := POverwrite; c_wrap_dyn := false |}.

(* with the assertion of init_cached in place the evaluation of the merged record panics *)
Theorem revert_keeps_cache_panics :
  exists h, (forall l, In (SLit l) h -> NoDup (lit_names l)) /\ exists i, nth_error (snd (irun cfg_share_assert h)) i = Some Panicked.
Proof.
  exists h_override. split.
  - intros l [H|[H|[H|[]]]]; inversion H; subst; cbn; repeat constructor; cbn; intuition discriminate.
  - exists 2. vm_compute. reflexivity.
Qed.

(* without it the dependent field of the merge result shows the operand's old value *)
Theorem revert_keeps_cache_refuted :
  exists h i k, field_of cfg_share_skip h i k = Ok 2 /\ spec_field_of h i k = Ok 6.
Proof. exists h_override, 2, 1%N. split; vm_compute; reflexivity. Qed.

(* and if init_cached rebuilds the cached value of the shared thunk, the operand sees the new record *)
Theorem revert_keeps_cache_overwrite_refuted :
  exists h i k, field_of cfg_share_overwrite h i k = Ok 6 /\ spec_field_of h i k = Ok 2.
Proof. exists h_override, 0, 1%N. split; vm_compute; reflexivity. Qed.

(* ---- revert resets the operand's own thunk: the operand is no longer usable with its own values *)
Definition cfg_inplace : cfg := {| c_an := svars; c_unknown := false; c_revert := RevInPlace; c_patch := PAssert; c_wrap_dyn := false |}.

Theorem inplace_revert_refuted :
  exists h i k, field_of cfg_inplace h i k = Ok 6 /\ spec_field_of h i k = Ok 2
                /\ field_of cfg_fixed h i k = Ok 2.
Proof. exists h_override, 0, 1%N. repeat split; vm_compute; reflexivity. Qed.

(* ---- an analysis that skips a syntactic position (here: the else-branch of a conditional) *)
Fixpoint vars_skip_else (t : tm) : list N :=
  match t with
  | Num _ | Const _ => []
  | Var x => [x]
  | Add a b | Mul a b => vars_skip_else a ++ vars_skip_else b
  | IfLe a b t e => vars_skip_else a ++ vars_skip_else b ++ vars_skip_else t
  end.

Definition svars_skip_else (s : src) : list N :=
  match s with STm t => vars_skip_else t | SSub _ => svars s end.

Definition cfg_incomplete : cfg :=
  {| c_an := svars_skip_else; c_unknown := false; c_revert := RevFresh; c_patch := PAssert; c_wrap_dyn := false |}.

(* { a = 1, b = if 1 <= 0 then 0 else a } : b gets a standard thunk, a is unbound in it *)
Definition h_incomplete : history :=
  [ SLit [(0%N, {| fprio := PNeut; fbody := Some (STm (Num 1)); fdyn := false; fctrs := [] |});
          (1%N, {| fprio := PNeut; fbody := Some (STm (IfLe (Num 1) (Num 0) (Num 0) (Var 0%N))); fdyn := false; fctrs := [] |})] ].

Theorem deps_incomplete_refuted :
  exists h i k, field_of cfg_incomplete h i k = Err UnboundId /\ spec_field_of h i k = Ok 1.
Proof. exists h_incomplete, 0, 1%N. split; vm_compute; reflexivity. Qed.

(* a missed dependency that only bites after an override: the field is a revertible thunk because of
   another dependency, but the filter of init_cached leaves the missed one out.
   { a = 1, c = 0, b = if c <= 0 then c else a } *)
Definition h_incomplete2 : history :=
  [ SLit [(0%N, {| fprio := PNeut; fbody := Some (STm (Num 1)); fdyn := false; fctrs := [] |});
          (2%N, {| fprio := PBot; fbody := Some (STm (Num 0)); fdyn := false; fctrs := [] |});
          (1%N, {| fprio := PNeut; fbody := Some (STm (IfLe (Var 2%N) (Num 0) (Var 2%N) (Var 0%N))); fdyn := false; fctrs := [] |})];
    SLit [(2%N, {| fprio := PNeut; fbody := Some (STm (Num 7)); fdyn := false; fctrs := [] |})];
    SMerge 0 1 ].

Theorem deps_incomplete_after_override_refuted :
  field_of cfg_incomplete h_incomplete2 0 1%N = Ok 0 /\ spec_field_of h_incomplete2 0 1%N = Ok 0 /\
  field_of cfg_incomplete h_incomplete2 2 1%N = Err UnboundId /\ spec_field_of h_incomplete2 2 1%N = Ok 1.
Proof. repeat split; vm_compute; reflexivity. Qed.

(* the faithful configuration on the same histories *)
Example real_on_witnesses :
  field_of cfg_fixed h_override 2 1%N = Ok 6 /\ field_of cfg_fixed h_override 0 1%N = Ok 2 /\
  field_of cfg_fixed h_incomplete 0 1%N = Ok 1 /\ field_of cfg_fixed h_incomplete2 2 1%N = Ok 1.
Proof. repeat split; vm_compute; reflexivity. Qed.

(* ---- the code as it is: the thunk of a dynamically named field is hidden behind a standard thunk,
   which merge does not revert.   let n = "y" in {b | default = 10, "%{n}" = b + 1} & {b = 5}
   (b = 0, y = 1): y = 11 in the merge result instead of 6; the real interpreter prints 11 too *)
Definition h_dynamic : history :=
  [ SLit [(0%N, {| fprio := PBot; fbody := Some (STm (Num 10)); fdyn := false; fctrs := [] |});
          (1%N, {| fprio := PNeut; fbody := Some (STm (Add (Var 0%N) (Num 1))); fdyn := true; fctrs := [] |})];
    SLit [(0%N, {| fprio := PNeut; fbody := Some (STm (Num 5)); fdyn := false; fctrs := [] |})];
    SMerge 0 1 ].

Theorem dynamic_field_indirection_refuted :
  exists h i k, (forall l, In (SLit l) h -> NoDup (lit_names l)) /\
                field_of cfg_current h i k = Ok 11 /\ spec_field_of h i k = Ok 6 /\
                field_of cfg_fixed h i k = Ok 6.
Proof.
  exists h_dynamic, 2, 1%N. split.
  - intros l [H|[H|[H|[]]]]; inversion H; subst; cbn; repeat constructor; cbn; intuition discriminate.
  - repeat split; vm_compute; reflexivity.
Qed.

(* ---- contracts that depend on fields are recomputed as well (faithful configuration):
   { lo | default = 0, x | from_predicate (fun v => v >= lo) = 3 } & { lo = 5 }
   x = 3 in the operand, a contract violation in the merge result *)
Definition h_contract : history :=
  [ SLit [(0%N, {| fprio := PBot; fbody := Some (STm (Num 0)); fdyn := false; fctrs := [] |});
          (1%N, {| fprio := PNeut; fbody := Some (STm (Num 3)); fdyn := false; fctrs := [(CGe, Var 0%N)] |})];
    SLit [(0%N, {| fprio := PNeut; fbody := Some (STm (Num 5)); fdyn := false; fctrs := [] |})];
    SMerge 0 1 ].

Example contract_on_field_recomputed :
  field_of cfg_fixed h_contract 0 1%N = Ok 3 /\ spec_field_of h_contract 0 1%N = Ok 3 /\
  field_of cfg_fixed h_contract 2 1%N = Err Blame /\ spec_field_of h_contract 2 1%N = Err Blame.
Proof. repeat split; vm_compute; reflexivity. Qed.
