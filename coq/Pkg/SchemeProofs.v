(* C20, T1 relock_stable: with a lock file that is a complete valid solution, every run of the
   decide/propagate scheme only ever decides the locked versions, never meets a conflict and
   never gets stuck; a finished run is the part of the lock reachable from the root. *)
From Coq Require Import List NArith Bool String.
Import ListNotations.
From NV Require Import Pkg.Version Pkg.VersionProofs Pkg.Resolve Pkg.ResolveProofs Pkg.Scheme.
Local Open Scope N_scope.

Section Relock.
  Variables (idx : index) (man : manifest) (locked : assignment).
  Hypothesis locked_valid : valid_solution idx man locked = true.

  Definition follows_lock (P : assignment) : Prop :=
    forall k v, In (k, v) P -> alookup k locked = Some v.

  Lemma imposed_holds_in_lock P k rg :
    follows_lock P -> imposes idx man P k rg ->
    exists w, alookup k locked = Some w /\ range_contains rg w = true.
  Proof.
    intros HP. destruct (valid_parts _ _ _ locked_valid) as (Hnd & Hroot & Hent).
    intros [(d & Hd & <- & <-)|(k' & v' & ds & d & Hin & Hds & Hd & <- & <-)].
    - apply dep_ok_parts. auto.
    - apply dep_ok_parts. pose proof (alookup_In _ _ _ (HP _ _ Hin)) as Hl.
      destruct (entry_ok_parts _ _ _ _ (Hent _ Hl)) as (_ & _ & ds' & Hds' & Hall).
      rewrite Hds in Hds'. injection Hds' as <-. auto.
  Qed.

  Lemma choose_locked P k rgs :
    follows_lock P -> needed idx man P k ->
    (forall rg, In rg rgs -> imposes idx man P k rg) ->
    exists w, alookup k locked = Some w /\ choose_version idx locked k rgs = Some w.
  Proof.
    intros HP [rg0 H0] Hall. destruct (imposed_holds_in_lock _ _ _ HP H0) as (w & Hl & _).
    exists w. split; [exact Hl|]. unfold choose_version. rewrite Hl.
    assert (ranges_contain rgs w = true) as ->; [|reflexivity].
    unfold ranges_contain. apply forallb_forall. intros rg Hrg.
    destruct (imposed_holds_in_lock _ _ _ HP (Hall _ Hrg)) as (w' & Hl' & Hc). congruence.
  Qed.

  Lemma run_follows_lock P : run idx locked man P -> follows_lock P.
  Proof.
    induction 1 as [|P k rgs v Hrun IH Hneed Hfresh Hrgs Hch]; [intros k v []|].
    intros k' v' [[= <- <-]|Hin]; [|auto].
    destruct (choose_locked _ _ _ IH Hneed Hrgs) as (w & Hl & Hc). congruence.
  Qed.

  (* T1 relock_stable *)
  Theorem relock_stable P :
    run idx locked man P ->
    (* every decision is the locked version *)
    (forall k v, In (k, v) P -> alookup k locked = Some v)
    (* no decided version ever violates a constraint: no backtracking *)
    /\ ~ conflict idx man P
    (* the run is never stuck: choose_version answers, with the locked version *)
    /\ (forall k rgs, needed idx man P k -> (forall rg, In rg rgs -> imposes idx man P k rg) ->
          exists w, alookup k locked = Some w /\ choose_version idx locked k rgs = Some w).
  Proof.
    intros Hrun. pose proof (run_follows_lock _ Hrun) as HP. split; [exact HP|]. split.
    - intros (k & v & rg & Hin & Himp & Hc).
      destruct (imposed_holds_in_lock _ _ _ HP Himp) as (w & Hl & Hc'). rewrite (HP _ _ Hin) in Hl.
      congruence.
    - intros k rgs Hn Hall. eapply choose_locked; eauto.
  Qed.

  (* a finished run satisfies every edge reachable from the root with the locked versions *)
  Theorem relock_complete_run P d :
    run idx locked man P -> complete idx man P ->
    (In d man \/ exists k v ds, In (k, v) P /\ deps_of idx (fst k) v = Some ds /\ In d ds) ->
    exists w, alookup (dep_key d) P = Some w /\ alookup (dep_key d) locked = Some w
           /\ satisfies (dreq d) w = true.
  Proof.
    intros Hrun Hcomp He. pose proof (run_follows_lock _ Hrun) as HP.
    assert (Himp : imposes idx man P (dep_key d) (range_of_req (dreq d))).
    { destruct He as [Hd|(k & v & ds & Hin & Hds & Hd)]; [left; eauto|right].
      exists k, v, ds, d. auto. }
    destruct (alookup (dep_key d) P) as [w|] eqn:El.
    2:{ exfalso. apply (Hcomp (dep_key d)); [eexists; eauto|exact El]. }
    exists w. pose proof (HP _ _ (alookup_In _ _ _ El)) as Hl. repeat split; auto.
    destruct (imposed_holds_in_lock _ _ _ HP Himp) as (w' & Hl' & Hc).
    rewrite Hl in Hl'. injection Hl' as <-.
    destruct (valid_parts _ _ _ locked_valid) as (_ & _ & Hent).
    destruct (entry_ok_parts _ _ _ _ (Hent _ (alookup_In _ _ _ Hl))) as (_ & Hbc & _).
    rewrite <- solver_view_is_satisfies. unfold solver_view. cbn in Hbc. now rewrite Hbc, Hc.
  Qed.
End Relock.

(* non-vacuity: a lock with a non-minimal version, a run that reproduces it *)
Example relock_example :
  let idx := [PV 0 (V 1 0 0 EmptyString) []; PV 0 (V 1 1 0 EmptyString) []; PV 0 (V 1 2 0 EmptyString) []] in
  let man := [Dep "a" 0 (RCompat 1 None None)] in
  let locked := locked_of [(0, V 1 1 0 EmptyString)] in
  valid_solution idx man locked = true
  /\ run idx locked man [((0, BMajor 1), V 1 1 0 EmptyString)]
  /\ choose_version idx [] (0, BMajor 1) [RgHigher (V 1 0 0 EmptyString)] = Some (V 1 0 0 EmptyString).
Proof.
  cbn zeta. split; [vm_compute; reflexivity|]. split; [|vm_compute; reflexivity].
  eapply (run_decide _ _ _ [] (0, BMajor 1) [RgHigher (V 1 0 0 EmptyString)]).
  - constructor.
  - exists (RgHigher (V 1 0 0 EmptyString)). left. eexists. split; [now left|]. split; reflexivity.
  - reflexivity.
  - intros rg [<-|[]]. left. eexists. split; [now left|]. split; reflexivity.
  - vm_compute. reflexivity.
Qed.
