(* C20, T1: a generic decide/propagate solver scheme (pubgrub without conflict learning: which
   package is decided next and which of the currently known constraints are taken into account
   is left open), used to state that a complete valid lock file is reproduced.  Definitions only. *)
From Coq Require Import List NArith Bool String.
Import ListNotations.
From NV Require Import Pkg.Version Pkg.Resolve.
Local Open Scope N_scope.

(* the constraint [rg] is imposed on package [k] by the root manifest or by a decided version *)
Definition imposes (idx : index) (man : manifest) (P : assignment) (k : key) (rg : range) : Prop :=
  (exists d, In d man /\ dep_key d = k /\ range_of_req (dreq d) = rg)
  \/ (exists k' v' ds d, In (k', v') P /\ deps_of idx (fst k') v' = Some ds /\ In d ds
                      /\ dep_key d = k /\ range_of_req (dreq d) = rg).

Definition needed (idx : index) (man : manifest) (P : assignment) (k : key) : Prop :=
  exists rg, imposes idx man P k rg.

(* states reachable by deciding, one at a time, a needed undecided package with the version
   that `choose_version` returns for (any part of) the constraints known so far *)
Inductive run (idx : index) (locked : assignment) (man : manifest) : assignment -> Prop :=
| run_init : run idx locked man []
| run_decide P k rgs v :
    run idx locked man P ->
    needed idx man P k -> alookup k P = None ->
    (forall rg, In rg rgs -> imposes idx man P k rg) ->
    choose_version idx locked k rgs = Some v ->
    run idx locked man ((k, v) :: P).

(* a decided version violates a known constraint (pubgrub would have to backtrack) *)
Definition conflict (idx : index) (man : manifest) (P : assignment) : Prop :=
  exists k v rg, In (k, v) P /\ imposes idx man P k rg /\ range_contains rg v = false.

(* nothing is left to decide *)
Definition complete (idx : index) (man : manifest) (P : assignment) : Prop :=
  forall k, needed idx man P k -> alookup k P <> None.
