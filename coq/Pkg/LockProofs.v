(* C20: LockFile::new and package_map never panic on a valid resolution; the lock-file namer gives
   distinct precise packages distinct entry names (and one package always the same name). *)
From Coq Require Import List NArith Bool String Lia.
Import ListNotations.
From NV Require Import Pkg.Version Pkg.VersionProofs Pkg.Resolve Pkg.ResolveProofs Pkg.Lock.
Local Open Scope N_scope.

(* ------------------------------------------------------------------ the namer *)

Lemma ppkg_eqb_eq a b : ppkg_eqb a b = true <-> a = b.
Proof.
  destruct a as [i v], b as [j w]. unfold ppkg_eqb; cbn.
  rewrite andb_true_iff, N.eqb_eq, ver_eqb_eq. split; [intros [-> ->]; reflexivity|intros [= -> ->]; auto].
Qed.

Lemma lookup_set_str s s' n l :
  lookup_str s (set_str s' n l) = if String.eqb s s' then Some n else lookup_str s l.
Proof.
  induction l as [|[t m] r IH]; cbn.
  - destruct (String.eqb s s'); reflexivity.
  - destruct (String.eqb s' t) eqn:E1; cbn.
    + apply String.eqb_eq in E1; subst t. destruct (String.eqb s s'); reflexivity.
    + destruct (String.eqb s t) eqn:E2.
      * apply String.eqb_eq in E2; subst t. rewrite String.eqb_sym in E1. now rewrite E1.
      * exact IH.
Qed.

(* invariant of the namer state *)
Definition namer_inv (nm : namer) : Prop :=
  (forall p q e, lookup_ppkg p (assigned nm) = Some e -> lookup_ppkg q (assigned nm) = Some e -> p = q)
  /\ (forall p e, lookup_ppkg p (assigned nm) = Some e ->
        exists c, lookup_str (fst e) (counts nm) = Some c /\ snd e <= c).

Lemma namer_inv_empty : namer_inv namer_empty.
Proof. split; cbn; intros; discriminate. Qed.

Lemma namer_name_spec nm name p :
  let r := namer_name nm name p in
  lookup_ppkg p (assigned (snd r)) = Some (fst r)
  /\ (forall q e, lookup_ppkg q (assigned nm) = Some e -> lookup_ppkg q (assigned (snd r)) = Some e).
Proof.
  unfold namer_name. destruct (lookup_ppkg p (assigned nm)) as [e|] eqn:E; cbn.
  - auto.
  - split.
    + assert (ppkg_eqb p p = true) as -> by now apply ppkg_eqb_eq. reflexivity.
    + intros q e Hq. destruct (ppkg_eqb q p) eqn:Eq; [|exact Hq].
      apply ppkg_eqb_eq in Eq; subst. congruence.
Qed.

Lemma namer_name_inv nm name p : namer_inv nm -> namer_inv (snd (namer_name nm name p)).
Proof.
  intros [Hinj Hbnd]. unfold namer_name.
  destruct (lookup_ppkg p (assigned nm)) as [e|] eqn:E; cbn; [split; assumption|].
  set (c := match lookup_str name (counts nm) with Some i => i + 1 | None => 0 end).
  assert (Hfresh : forall q, lookup_ppkg q (assigned nm) <> Some (name, c)).
  { intros q Hq. destruct (Hbnd _ _ Hq) as (c0 & Hc0 & Hle). cbn in Hc0, Hle.
    unfold c in Hle. rewrite Hc0 in Hle. lia. }
  split.
  - intros a b e. cbn.
    destruct (ppkg_eqb a p) eqn:Ea; destruct (ppkg_eqb b p) eqn:Eb.
    + apply ppkg_eqb_eq in Ea, Eb. congruence.
    + intros [= <-] Hb. exfalso. eapply Hfresh; eauto.
    + intros Ha [= <-]. exfalso. eapply Hfresh; eauto.
    + apply Hinj.
  - intros a e. cbn. destruct (ppkg_eqb a p) eqn:Ea.
    + intros [= <-]. cbn. rewrite lookup_set_str, String.eqb_refl. exists c. split; [reflexivity|lia].
    + intros Ha. destruct (Hbnd _ _ Ha) as (c0 & Hc0 & Hle). rewrite lookup_set_str.
      destruct (String.eqb (fst e) name) eqn:En.
      * apply String.eqb_eq in En. exists c. split; [reflexivity|]. unfold c. rewrite <- En, Hc0. lia.
      * exists c0. auto.
Qed.

(* any sequence of LockFileNamer::name calls *)
Definition namer_run (calls : list (string * ppkg)) (nm : namer) : namer :=
  fold_left (fun nm c => snd (namer_name nm (fst c) (snd c))) calls nm.

Lemma namer_run_inv calls nm : namer_inv nm -> namer_inv (namer_run calls nm).
Proof.
  revert nm. induction calls as [|c t IH]; cbn; intros nm H; [exact H|].
  apply IH. now apply namer_name_inv.
Qed.

Lemma namer_run_stable calls nm q e :
  lookup_ppkg q (assigned nm) = Some e -> lookup_ppkg q (assigned (namer_run calls nm)) = Some e.
Proof.
  revert nm. induction calls as [|c t IH]; cbn; intros nm H; [exact H|].
  apply IH. now apply namer_name_spec.
Qed.

(* T0 namer_injective: in every state reachable by LockFileNamer::name calls, a name is given to
   at most one precise package; a package keeps its name for ever. *)
Theorem namer_injective calls p q e :
  let nm := namer_run calls namer_empty in
  lookup_ppkg p (assigned nm) = Some e -> lookup_ppkg q (assigned nm) = Some e -> p = q.
Proof. intros nm. exact (proj1 (namer_run_inv calls _ namer_inv_empty) p q e). Qed.

Theorem namer_name_stable calls nm name p :
  let r := namer_name nm name p in
  forall n', fst (namer_name (namer_run calls (snd r)) n' p) = fst r.
Proof.
  intros r n'. destruct (namer_name_spec nm name p) as [H _]. fold r in H.
  pose proof (namer_run_stable calls _ _ _ H) as H'.
  unfold namer_name at 1. now rewrite H'.
Qed.

(* two calls, any distance apart, return the same entry name only for the same package *)
Theorem namer_names_distinct calls0 calls n1 p1 n2 p2 :
  let nm := namer_run calls0 namer_empty in
  let r1 := namer_name nm n1 p1 in
  let r2 := namer_name (namer_run calls (snd r1)) n2 p2 in
  fst r1 = fst r2 -> p1 = p2.
Proof.
  intros nm r1 r2 Heq.
  assert (Hinv : namer_inv (snd r2)).
  { unfold r2. apply namer_name_inv, namer_run_inv. unfold r1. apply namer_name_inv.
    unfold nm. apply namer_run_inv, namer_inv_empty. }
  destruct (namer_name_spec nm n1 p1) as [H1 _]. fold r1 in H1.
  pose proof (namer_run_stable calls _ _ _ H1) as H1'.
  destruct (namer_name_spec (namer_run calls (snd r1)) n2 p2) as [H2 Hkeep]. fold r2 in H2, Hkeep.
  apply Hkeep in H1'. rewrite Heq in H1'. exact (proj1 Hinv _ _ _ H1' H2).
Qed.

(* ------------------------------------------------------------------ no crash *)

Definition crashes {A : Type} (x : res A) : Prop := x = Panic \/ x = Err.

(* every package of the resolution has its dependencies bound inside the resolution *)
Definition closed (mt : vreq -> ver -> bool) (r : resolution) : Prop :=
  forall p, In p (all_packages r) ->
    exists l, sorted_dependencies mt r p = Ok l
           /\ forall e, In e l -> In (snd (snd e)) (all_packages r).

Lemma collect_list_no_crash rec ds st (P : ppkg -> Prop) :
  (forall n q st, P q -> ~ crashes (rec n q st)) ->
  (forall e, In e ds -> P (snd (snd e))) ->
  ~ crashes (collect_list rec ds st).
Proof.
  intros Hrec. revert st. induction ds as [|e t IH]; cbn; intros st Hall.
  - intros [H|H]; discriminate.
  - pose proof (Hrec (fst e) (snd (snd e)) st (Hall _ (or_introl eq_refl))) as Hc.
    destruct (rec (fst e) (snd (snd e)) st) as [r| | |].
    + apply IH. intros e' He'. apply Hall. now right.
    + exfalso. apply Hc. now left.
    + exfalso. apply Hc. now right.
    + intros [H|H]; discriminate.
Qed.

Lemma collect_no_crash mt r : closed mt r ->
  forall fuel name p st, In p (all_packages r) -> ~ crashes (collect fuel mt r name p st).
Proof.
  intros Hcl. induction fuel as [|f IH]; intros name p st Hp; cbn.
  - intros [H|H]; discriminate.
  - destruct (Hcl _ Hp) as (l & Hl & Hall). rewrite Hl.
    destruct (acc_mem _ _); [intros [H|H]; discriminate|].
    pose proof (collect_list_no_crash (collect f mt r) l
                  (acc_insert (fst (namer_name (snd st) name p))
                     (p, fst (name_children (snd (namer_name (snd st) name p)) l)) (fst st),
                   snd (name_children (snd (namer_name (snd st) name p)) l))
                  (fun q => In q (all_packages r))) as Hc.
    destruct (collect_list _ _ _) as [x| | |].
    + intros [H|H]; discriminate.
    + exfalso. apply Hc; [intros; now apply IH|exact Hall|now left].
    + exfalso. apply Hc; [intros; now apply IH|exact Hall|now right].
    + intros [H|H]; discriminate.
Qed.

Lemma lock_roots_no_crash mt r : closed mt r ->
  forall fuel roots deps st,
  (forall e, In e roots -> exists p, precise mt r (snd e) = Ok p /\ In p (all_packages r)) ->
  ~ crashes (lock_roots fuel mt r roots deps st).
Proof.
  intros Hcl fuel roots. induction roots as [|[id d] t IH]; cbn; intros deps st Hall.
  - intros [H|H]; discriminate.
  - destruct (Hall (id, d) (or_introl eq_refl)) as (p & Hp & Hin). cbn in Hp. rewrite Hp.
    pose proof (collect_no_crash mt r Hcl fuel id p st Hin) as Hc.
    destruct (collect fuel mt r id p st) as [[en st']| | |].
    + apply IH. intros e He. apply Hall. now right.
    + exfalso. apply Hc. now left.
    + exfalso. apply Hc. now right.
    + intros [H|H]; discriminate.
Qed.

(* sort_by_name is a permutation *)
Lemma insert_by_name_In {X} (e x : string * X) l : In x (insert_by_name e l) <-> x = e \/ In x l.
Proof.
  induction l as [|y t IH]; cbn; [intuition congruence|].
  destruct (String.leb (fst e) (fst y)); cbn; rewrite ?IH; intuition congruence.
Qed.

Lemma sort_by_name_In {X} (x : string * X) l : In x (sort_by_name l) <-> In x l.
Proof.
  induction l as [|y t IH]; cbn; [tauto|]. rewrite insert_by_name_In, IH. intuition congruence.
Qed.

Lemma map_res_ok {A B} (f : A -> res B) l :
  (forall x, In x l -> exists y, f x = Ok y) ->
  exists ys, map_res f l = Ok ys /\ forall y, In y ys -> exists x, In x l /\ f x = Ok y.
Proof.
  induction l as [|x t IH]; cbn; intros H.
  - exists []. split; [reflexivity|intros y []].
  - destruct (H x (or_introl eq_refl)) as (y & Hy). rewrite Hy.
    destruct IH as (ys & Hys & Hall); [intros z Hz; apply H; now right|]. rewrite Hys.
    exists (y :: ys). split; [reflexivity|]. intros y' [<-|Hin]; [exists x; auto|].
    destruct (Hall _ Hin) as (x' & Hx' & Hf). exists x'. auto.
Qed.

Lemma all_packages_In a idx id v :
  In (id, v) (all_packages (Res idx (index_packages a))) <-> In v (vers_of a id).
Proof.
  unfold all_packages, index_packages. cbn. rewrite in_flat_map. split.
  - intros ([i vs] & Hin & Hv). apply in_map_iff in Hin as (j & [= <- <-] & _).
    cbn in Hv. apply in_map_iff in Hv as (w & [= <- <-] & Hw). exact Hw.
  - intros Hv. exists (id, vers_of a id). split.
    + apply in_map_iff. exists id. split; [reflexivity|]. apply ids_of_In.
      apply vers_of_In in Hv as (b & Hin). eauto.
    + cbn. apply in_map_iff. eauto.
Qed.

Arguments all_packages : simpl never.

(* a resolution is closed as soon as every edge's lookup returns the assigned version *)
Lemma closed_of_lookups mt idx man a :
  valid_solution idx man a = true ->
  (forall d, edge idx man a d ->
     exists w, index_dep_version mt (index_packages a) d = Some w /\ alookup (dep_key d) a = Some w) ->
  closed mt (Res idx (index_packages a)).
Proof.
  intros Hv Hlk [id v] Hp. apply all_packages_In in Hp.
  pose proof (vers_of_key _ _ _ _ _ Hv Hp) as Hin.
  destruct (valid_parts _ _ _ Hv) as (_ & _ & Hent).
  destruct (entry_ok_parts _ _ _ _ (Hent _ Hin)) as (_ & _ & ds & Hds & _). cbn in Hds.
  unfold sorted_dependencies. cbn [r_idx r_ip fst snd]. rewrite Hds.
  destruct (map_res_ok (fun d => match index_dep_version mt (index_packages a) d with
                                 | Some w => Ok (dname d, (d, (dpkg d, w)))
                                 | None => Panic
                                 end) ds) as (l & Hl & Hall).
  { intros d Hd. destruct (Hlk d) as (w & Hw & _).
    - right. exists (id, bucket_of_ver v), v, ds. auto.
    - rewrite Hw. eauto. }
  rewrite Hl. exists (sort_by_name l). split; [reflexivity|].
  intros e He. rewrite sort_by_name_In in He. destruct (Hall _ He) as (d & Hd & Hf).
  destruct (Hlk d) as (w & Hw & Hlw).
  { right. exists (id, bucket_of_ver v), v, ds. auto. }
  rewrite Hw in Hf. injection Hf as <-. cbn. apply all_packages_In, vers_of_In.
  exists (bucket_of_req (dreq d)). now apply alookup_In.
Qed.

Lemma roots_precise mt idx man a :
  (forall d, edge idx man a d ->
     exists w, index_dep_version mt (index_packages a) d = Some w /\ alookup (dep_key d) a = Some w) ->
  forall e, In e (sorted_root_deps man) ->
    exists p, precise mt (Res idx (index_packages a)) (snd e) = Ok p
           /\ In p (all_packages (Res idx (index_packages a))).
Proof.
  intros Hlk e He. unfold sorted_root_deps in He. rewrite sort_by_name_In in He.
  apply in_map_iff in He as (d & <- & Hd).
  destruct (Hlk d (or_introl Hd)) as (w & Hw & Hlw). cbn. unfold precise. cbn. rewrite Hw.
  eexists. split; [reflexivity|]. apply all_packages_In, vers_of_In.
  exists (bucket_of_req (dreq d)). now apply alookup_In.
Qed.

(* T0 lock_no_crash, generic in the matcher *)
Theorem lock_no_crash_gen mt idx man a fuel :
  valid_solution idx man a = true ->
  (forall d, edge idx man a d ->
     exists w, index_dep_version mt (index_packages a) d = Some w /\ alookup (dep_key d) a = Some w) ->
  ~ crashes (lock_new fuel mt (Res idx (index_packages a)) man).
Proof.
  intros Hv Hlk. unfold lock_new. apply lock_roots_no_crash.
  - eapply closed_of_lookups; eauto.
  - now apply roots_precise.
Qed.

(* repaired matcher: unconditional *)
Theorem lock_no_crash_fix idx man a fuel :
  valid_solution idx man a = true ->
  ~ crashes (lock_new fuel matches_fix (Res idx (index_packages a)) man).
Proof.
  intros Hv. apply lock_no_crash_gen; [exact Hv|]. intros d He.
  destruct (lookup_fix_right _ _ _ _ Hv He) as (w & H1 & H2 & _). eauto.
Qed.

(* unchanged matcher: outside the known class *)
Theorem lock_no_crash_cur idx man a fuel :
  valid_solution idx man a = true ->
  (forall d w, edge idx man a d -> alookup (dep_key d) a = Some w ->
               known_class (index_packages a) d w = false) ->
  ~ crashes (lock_new fuel matches_cur (Res idx (index_packages a)) man).
Proof.
  intros Hv Hk. apply lock_no_crash_gen; [exact Hv|]. intros d He.
  destruct (edge_assigned _ _ _ _ Hv He) as (w & Hl & _).
  exists w. split; [|exact Hl]. apply (lookup_cur_iff _ _ _ _ _ Hv He Hl). eauto.
Qed.

(* package_map *)
Theorem package_map_no_crash_gen mt idx man a :
  valid_solution idx man a = true ->
  (forall d, edge idx man a d ->
     exists w, index_dep_version mt (index_packages a) d = Some w /\ alookup (dep_key d) a = Some w) ->
  exists m, package_map mt (Res idx (index_packages a)) man = Ok m.
Proof.
  intros Hv Hlk. set (r := Res idx (index_packages a)).
  pose proof (closed_of_lookups _ _ _ _ Hv Hlk) as Hcl. fold r in Hcl.
  assert (Hpath : forall p, In p (all_packages r) -> local_path r p = Ok p).
  { intros [id v] Hp. apply all_packages_In in Hp. pose proof (vers_of_key _ _ _ _ _ Hv Hp) as Hin.
    destruct (valid_parts _ _ _ Hv) as (_ & _ & Hent).
    destruct (entry_ok_parts _ _ _ _ (Hent _ Hin)) as (_ & _ & ds & Hds & _). cbn in Hds.
    unfold local_path. cbn. now rewrite Hds. }
  unfold package_map.
  destruct (map_res_ok (pm_entries_of mt r) (all_packages r)) as (pk & Hpk & _).
  { intros p Hp. unfold pm_entries_of. rewrite (Hpath _ Hp).
    destruct (Hcl _ Hp) as (l & Hl & Hall). rewrite Hl.
    destruct (map_res_ok (fun e => match local_path r (snd (snd e)) with
                                   | Ok q => Ok (p, fst e, q)
                                   | Panic => Panic | Err => Err | OutOfFuel => OutOfFuel
                                   end) l) as (ys & Hys & _).
    { intros e He. rewrite (Hpath _ (Hall _ He)). eauto. }
    eauto. }
  rewrite Hpk.
  destruct (map_res_ok (fun d => match precise mt r d with
                                 | Ok p => match local_path r p with
                                           | Ok q => Ok (dname d, q)
                                           | Panic => Panic | Err => Err | OutOfFuel => OutOfFuel
                                           end
                                 | Panic => Panic | Err => Err | OutOfFuel => OutOfFuel
                                 end) man) as (top & Htop & _).
  { intros d Hd. destruct (Hlk d (or_introl Hd)) as (w & Hw & Hlw).
    unfold precise. cbn [r r_ip]. rewrite Hw.
    rewrite Hpath; [eauto|]. apply all_packages_In, vers_of_In.
    exists (bucket_of_req (dreq d)). now apply alookup_In. }
  rewrite Htop. eauto.
Qed.

Theorem package_map_no_crash_fix idx man a :
  valid_solution idx man a = true ->
  exists m, package_map matches_fix (Res idx (index_packages a)) man = Ok m.
Proof.
  intros Hv. apply package_map_no_crash_gen; [exact Hv|]. intros d He.
  destruct (lookup_fix_right _ _ _ _ Hv He) as (w & H1 & H2 & _). eauto.
Qed.

(* The unchanged tree does crash: the witness of the known finding, on the model. *)
Definition w_idx : index := [PV 0 (V 1 3 0 EmptyString) []].
Definition w_man : manifest := [Dep "a" 0 (RCompat 1 (Some 2) (Some 3))].
Definition w_sol : assignment := [((0, BMajor 1), V 1 3 0 EmptyString)].

Lemma lock_crash_cur_witness :
  valid_solution w_idx w_man w_sol = true
  /\ exists_solution w_idx w_man = Some w_sol
  /\ lock_new 10 matches_cur (Res w_idx (index_packages w_sol)) w_man = Panic
  /\ package_map matches_cur (Res w_idx (index_packages w_sol)) w_man = Panic
  /\ (exists l, lock_new 10 matches_fix (Res w_idx (index_packages w_sol)) w_man = Ok l).
Proof. vm_compute. repeat split. eexists. reflexivity. Qed.

(* second class: a wrong version instead of a crash *)
Definition w2_idx : index := [PV 0 (V 1 0 0 "alpha") []; PV 0 (V 1 2 0 EmptyString) []].
Definition w2_man : manifest := [Dep "a" 0 (RCompat 1 None None); Dep "b" 0 (RExact (V 1 0 0 "alpha"))].
Definition w2_sol : assignment := [((0, BMajor 1), V 1 2 0 EmptyString); ((0, BPre (V 1 0 0 "alpha")), V 1 0 0 "alpha")].

Lemma lookup_wrong_cur_witness :
  valid_solution w2_idx w2_man w2_sol = true
  /\ index_dep_version matches_cur (index_packages w2_sol) (Dep "a" 0 (RCompat 1 None None)) = Some (V 1 0 0 "alpha")
  /\ satisfies (RCompat 1 None None) (V 1 0 0 "alpha") = false
  /\ index_dep_version matches_fix (index_packages w2_sol) (Dep "a" 0 (RCompat 1 None None)) = Some (V 1 2 0 EmptyString).
Proof. vm_compute. repeat split. Qed.

(* third finding (pubgrub self-dependency): for this universe no assignment exists, yet the
   real resolver answers Ok with p0 left out; the checker rejects that answer. *)
Definition w3_idx : index :=
  [PV 0 (V 1 1 0 EmptyString) [Dep "x" 0 (RCompat 1 (Some 2) None)];
   PV 0 (V 1 2 0 EmptyString) [Dep "x" 0 (RCompat 1 (Some 3) None)]].
Definition w3_man : manifest := [Dep "a" 0 (RCompat 1 None None)].

Lemma self_dependency_witness :
  exists_solution w3_idx w3_man = None /\ valid_solution w3_idx w3_man [] = false.
Proof. vm_compute. split; reflexivity. Qed.

(* ------------------------------------------------------------------ termination of LockFile::new *)

(* The `acc.insert(..).is_none()` guard makes collect_packages terminate (also on cyclic
   indices): every call that recurses adds a new entry name, and names are in bijection with
   the packages met so far.  Fuel above the number of resolved packages is never exhausted. *)

Definition lstate := (lockacc * namer)%type.

Definition acc_inv (st : lstate) : Prop :=
  namer_inv (snd st)
  /\ forall en e, In (en, e) (fst st) -> lookup_ppkg (fst e) (assigned (snd st)) = Some en.

Definition done_b (st : lstate) (p : ppkg) : bool :=
  match lookup_ppkg p (assigned (snd st)) with
  | Some en => acc_mem en (fst st)
  | None => false
  end.

Definition nm_ext (nm nm' : namer) : Prop :=
  forall q e, lookup_ppkg q (assigned nm) = Some e -> lookup_ppkg q (assigned nm') = Some e.

Definition ext (st st' : lstate) : Prop :=
  nm_ext (snd st) (snd st')
  /\ forall en, acc_mem en (fst st) = true -> acc_mem en (fst st') = true.

Lemma ext_refl st : ext st st.
Proof. split; [intros q e H; exact H|auto]. Qed.

Lemma ext_trans a b c : ext a b -> ext b c -> ext a c.
Proof. intros [H1 H2] [H3 H4]. split; [intros q e H; auto|auto]. Qed.

Lemma done_ext st st' p : ext st st' -> done_b st p = true -> done_b st' p = true.
Proof.
  intros [H1 H2]. unfold done_b. destruct (lookup_ppkg p (assigned (snd st))) as [en|] eqn:E; [|discriminate].
  rewrite (H1 _ _ E). apply H2.
Qed.

Definition mu (r : resolution) (st : lstate) : nat :=
  List.length (filter (fun p => negb (done_b st p)) (all_packages r)).

Lemma filter_length_le {A} (f g : A -> bool) l :
  (forall x, f x = true -> g x = true) ->
  (List.length (filter f l) <= List.length (filter g l))%nat.
Proof.
  intros H. induction l as [|x t IH]; cbn; [lia|].
  destruct (f x) eqn:E; [rewrite (H _ E); cbn; lia|]. destruct (g x); cbn; lia.
Qed.

Lemma filter_length_lt {A} (f g : A -> bool) l x :
  (forall y, f y = true -> g y = true) -> In x l -> f x = false -> g x = true ->
  (List.length (filter f l) < List.length (filter g l))%nat.
Proof.
  intros H Hin Hf Hg. induction l as [|y t IH]; [destruct Hin|]. cbn.
  destruct Hin as [->|Hin].
  - rewrite Hf, Hg. cbn. pose proof (filter_length_le f g t H). lia.
  - specialize (IH Hin). destruct (f y) eqn:E; [rewrite (H _ E); cbn; lia|].
    destruct (g y); cbn; lia.
Qed.

Lemma mu_le r st st' : ext st st' -> (mu r st' <= mu r st)%nat.
Proof.
  intros He. unfold mu. apply filter_length_le. intros p Hp.
  apply negb_true_iff in Hp. apply negb_true_iff.
  destruct (done_b st p) eqn:E; [|reflexivity]. rewrite (done_ext _ _ _ He E) in Hp. discriminate.
Qed.

Lemma mu_lt r st st' p :
  ext st st' -> In p (all_packages r) -> done_b st p = false -> done_b st' p = true ->
  (mu r st' < mu r st)%nat.
Proof.
  intros He Hin H1 H2. unfold mu. eapply filter_length_lt with (x := p); auto.
  - intros q Hq. apply negb_true_iff in Hq. apply negb_true_iff.
    destruct (done_b st q) eqn:E; [|reflexivity]. rewrite (done_ext _ _ _ He E) in Hq. discriminate.
  - now rewrite H2.
  - now rewrite H1.
Qed.

Lemma mu_bound r st : (mu r st <= List.length (all_packages r))%nat.
Proof.
  unfold mu. induction (all_packages r) as [|x t IH]; cbn; [lia|].
  destruct (negb (done_b st x)); cbn; lia.
Qed.

Lemma entryname_eqb_eq a b : entryname_eqb a b = true <-> a = b.
Proof.
  destruct a as [s i], b as [t j]. unfold entryname_eqb; cbn.
  rewrite andb_true_iff, String.eqb_eq, N.eqb_eq. split; [intros [-> ->]; reflexivity|intros [= -> ->]; auto].
Qed.

Lemma acc_mem_In en acc : acc_mem en acc = true <-> exists e, In (en, e) acc.
Proof.
  unfold acc_mem. rewrite existsb_exists. split.
  - intros ([en' e] & Hin & H). cbn in H. apply entryname_eqb_eq in H. subst. eauto.
  - intros (e & Hin). exists (en, e). split; [exact Hin|]. now apply entryname_eqb_eq.
Qed.

Lemma acc_insert_In en e acc en' e' :
  In (en', e') (acc_insert en e acc) -> (en' = en /\ e' = e) \/ In (en', e') acc.
Proof.
  induction acc as [|[x y] t IH]; cbn.
  - intros [[= <- <-]|[]]. now left.
  - destruct (entryname_eqb en x) eqn:E.
    + apply entryname_eqb_eq in E. subst x. intros [[= <- <-]|H]; [now left|right; now right].
    + intros [[= <- <-]|H]; [right; now left|]. destruct (IH H); [now left|right; now right].
Qed.

Lemma acc_insert_mem en e acc en' :
  acc_mem en' (acc_insert en e acc) = true <-> en' = en \/ acc_mem en' acc = true.
Proof.
  induction acc as [|[x y] t IH]; cbn.
  - rewrite orb_false_r, entryname_eqb_eq. intuition congruence.
  - destruct (entryname_eqb en x) eqn:E; cbn.
    + apply entryname_eqb_eq in E. subst x. rewrite orb_true_iff, entryname_eqb_eq.
      unfold acc_mem. intuition.
    + rewrite !orb_true_iff. unfold acc_mem in IH. rewrite IH. intuition.
Qed.

Lemma name_children_props nm deps :
  namer_inv nm ->
  namer_inv (snd (name_children nm deps)) /\ nm_ext nm (snd (name_children nm deps)).
Proof.
  revert nm. induction deps as [|[n [d q]] t IH]; cbn; intros nm Hinv.
  - split; [exact Hinv|intros x e H; exact H].
  - destruct (namer_name nm n q) as [e nm1] eqn:E1.
    assert (Hnm1 : nm1 = snd (namer_name nm n q)) by now rewrite E1.
    destruct (name_children nm1 t) as [rest nm2] eqn:E2. cbn.
    assert (Hinv1 : namer_inv nm1) by (rewrite Hnm1; now apply namer_name_inv).
    destruct (IH nm1 Hinv1) as [H1 H2]. rewrite E2 in H1, H2. cbn in H1, H2.
    split; [exact H1|]. intros x y Hx. apply H2. rewrite Hnm1. now apply namer_name_spec.
Qed.

Lemma collect_list_terminates mt r f :
  (forall name p st, In p (all_packages r) -> acc_inv st -> (mu r st < f)%nat ->
     exists en st', collect f mt r name p st = Ok (en, st') /\ acc_inv st' /\ ext st st' /\ done_b st' p = true) ->
  forall ds st, (forall e, In e ds -> In (snd (snd e)) (all_packages r)) ->
    acc_inv st -> (mu r st < f)%nat ->
    exists st', collect_list (collect f mt r) ds st = Ok st' /\ acc_inv st' /\ ext st st'.
Proof.
  intros Hrec. induction ds as [|e t IH]; intros st Hall Hinv Hmu; cbn.
  - exists st. split; [reflexivity|]. split; [exact Hinv|apply ext_refl].
  - destruct (Hrec (fst e) (snd (snd e)) st (Hall _ (or_introl eq_refl)) Hinv Hmu)
      as (en & st1 & Hc & Hinv1 & Hext1 & _).
    rewrite Hc. cbn.
    destruct (IH st1) as (st2 & Hc2 & Hinv2 & Hext2).
    + intros e' He'. apply Hall. now right.
    + exact Hinv1.
    + pose proof (mu_le r _ _ Hext1). lia.
    + exists st2. split; [exact Hc2|]. split; [exact Hinv2|eapply ext_trans; eauto].
Qed.

Lemma collect_terminates mt r : closed mt r ->
  forall fuel name p st, In p (all_packages r) -> acc_inv st -> (mu r st < fuel)%nat ->
    exists en st', collect fuel mt r name p st = Ok (en, st')
                /\ acc_inv st' /\ ext st st' /\ done_b st' p = true.
Proof.
  intros Hcl. induction fuel as [|f IH]; intros name p st Hp Hinv Hmu; [lia|].
  cbn. destruct (Hcl _ Hp) as (deps & Hdeps & Hall). rewrite Hdeps.
  destruct Hinv as [Hninv Hacc].
  set (en := fst (namer_name (snd st) name p)).
  set (nm1 := snd (namer_name (snd st) name p)).
  set (edeps := fst (name_children nm1 deps)).
  set (nm2 := snd (name_children nm1 deps)).
  destruct (namer_name_spec (snd st) name p) as [Hen Hext0]. fold en nm1 in Hen, Hext0.
  assert (Hinv1 : namer_inv nm1) by (unfold nm1; now apply namer_name_inv).
  destruct (name_children_props nm1 deps Hinv1) as [Hinv2 Hext12]. fold nm2 in Hinv2, Hext12.
  assert (Hext02 : nm_ext (snd st) nm2) by (intros q e Hq; apply Hext12, Hext0, Hq).
  assert (Hen2 : lookup_ppkg p (assigned nm2) = Some en) by (apply Hext12, Hen).
  set (acc' := acc_insert en (p, edeps) (fst st)).
  set (s1 := (acc', nm2) : lstate).
  assert (Hinv_s1 : acc_inv s1).
  { split; [exact Hinv2|]. intros en' e' Hin. cbn in Hin.
    apply acc_insert_In in Hin as [[-> ->]|Hin]; [exact Hen2|]. cbn. apply Hext02. now apply Hacc. }
  assert (Hext_s1 : ext st s1).
  { split; [exact Hext02|]. intros en' Hm. cbn. apply acc_insert_mem. now right. }
  assert (Hdone_s1 : done_b s1 p = true).
  { unfold done_b. cbn. rewrite Hen2. apply acc_insert_mem. now left. }
  destruct (acc_mem en (fst st)) eqn:Hex.
  - exists en, s1. repeat split; auto; try apply Hinv_s1; try apply Hext_s1.
  - assert (Hnd : done_b st p = false).
    { unfold done_b. destruct (lookup_ppkg p (assigned (snd st))) as [e|] eqn:E; [|reflexivity].
      assert (e = en) as ->; [|exact Hex].
      unfold en, namer_name. now rewrite E. }
    pose proof (mu_lt r st s1 p Hext_s1 Hp Hnd Hdone_s1) as Hlt.
    destruct (collect_list_terminates mt r f IH deps s1 Hall Hinv_s1) as (st' & Hc & Hinv' & Hext').
    { lia. }
    fold en nm1 edeps nm2 acc'. fold s1. rewrite Hc.
    exists en, st'. split; [reflexivity|]. split; [exact Hinv'|]. split; [eapply ext_trans; eauto|].
    eapply done_ext; eauto.
Qed.

Lemma lock_roots_terminates mt r : closed mt r ->
  forall fuel roots deps st,
  (forall e, In e roots -> exists p, precise mt r (snd e) = Ok p /\ In p (all_packages r)) ->
  acc_inv st -> (List.length (all_packages r) < fuel)%nat ->
  exists l, lock_roots fuel mt r roots deps st = Ok l.
Proof.
  intros Hcl fuel roots. induction roots as [|[id d] t IH]; cbn; intros deps st Hall Hinv Hfuel.
  - eauto.
  - destruct (Hall (id, d) (or_introl eq_refl)) as (p & Hp & Hin). cbn in Hp. rewrite Hp.
    destruct (collect_terminates mt r Hcl fuel id p st Hin Hinv) as (en & st' & Hc & Hinv' & _).
    { pose proof (mu_bound r st). lia. }
    rewrite Hc. apply IH; [|exact Hinv'|exact Hfuel]. intros e He. apply Hall. now right.
Qed.

(* T0 lock_no_crash, strong form: LockFile::new returns a lock file *)
Theorem lock_new_terminates_gen mt idx man a fuel :
  valid_solution idx man a = true ->
  (forall d, edge idx man a d ->
     exists w, index_dep_version mt (index_packages a) d = Some w /\ alookup (dep_key d) a = Some w) ->
  (List.length (all_packages (Res idx (index_packages a))) < fuel)%nat ->
  exists l, lock_new fuel mt (Res idx (index_packages a)) man = Ok l.
Proof.
  intros Hv Hlk Hfuel. unfold lock_new. apply lock_roots_terminates; auto.
  - eapply closed_of_lookups; eauto.
  - now apply roots_precise.
  - split; [apply namer_inv_empty|intros en e []].
Qed.

Theorem lock_new_ok_fix idx man a fuel :
  valid_solution idx man a = true ->
  (List.length (all_packages (Res idx (index_packages a))) < fuel)%nat ->
  exists l, lock_new fuel matches_fix (Res idx (index_packages a)) man = Ok l.
Proof.
  intros Hv. apply lock_new_terminates_gen; [exact Hv|]. intros d He.
  destruct (lookup_fix_right _ _ _ _ Hv He) as (w & H1 & H2 & _). eauto.
Qed.

(* ------------------------------------------------------------------ keeping a lock file *)

Lemma lookup_entry_In en acc e : lookup_entry en acc = Some e -> In (en, e) acc.
Proof.
  induction acc as [|[x y] t IH]; cbn; [discriminate|].
  destruct (entryname_eqb en x) eqn:E.
  - apply entryname_eqb_eq in E. subst. intros [= ->]. now left.
  - intros H. right. auto.
Qed.

(* If the lock file's entries are a valid solution for the manifest it was made for, and the
   (edited) manifest finds the lock up to date, then they are a valid solution for the edited
   manifest too: `copy_from_lock` may be used instead of resolving.  (Needs the repaired matcher:
   the old one also accepted e.g. a locked 0.3.0 for the requirement 0.2.) *)
Theorem up_to_date_sound idx man1 man2 (l : lockfile) :
  valid_solution idx man1 (locked_of (lock_entries l)) = true ->
  up_to_date matches_fix l man2 = true ->
  valid_solution idx man2 (locked_of (lock_entries l)) = true.
Proof.
  intros Hv Hup. destruct (valid_parts _ _ _ Hv) as (Hnd & _ & Hent).
  unfold valid_solution. rewrite Hnd. cbn.
  apply andb_true_iff. split; [|apply forallb_forall; exact Hent].
  apply forallb_forall. intros d Hd. unfold up_to_date in Hup. rewrite forallb_forall in Hup.
  specialize (Hup _ Hd). cbn in Hup.
  destruct (lookup_name (dname d) (fst l)) as [en|]; [|discriminate].
  destruct (lookup_entry en (snd l)) as [[p ds]|] eqn:Ee; [|discriminate].
  cbn in Hup. apply andb_true_iff in Hup as [Hid Hm]. apply N.eqb_eq in Hid.
  apply lookup_entry_In in Ee.
  assert (Hin : In ((fst p, bucket_of_ver (snd p)), snd p) (locked_of (lock_entries l))).
  { unfold locked_of, lock_entries. apply in_map_iff. exists p. split; [reflexivity|].
    apply in_map_iff. exists (en, (p, ds)). auto. }
  assert (Hsat : satisfies (dreq d) (snd p) = true).
  { rewrite <- solver_view_is_satisfies, solver_view_is_matches_fix. exact Hm. }
  unfold dep_ok, dep_key.
  assert (Hb : bucket_of_req (dreq d) = bucket_of_ver (snd p)).
  { rewrite <- solver_view_is_satisfies in Hsat. unfold solver_view in Hsat.
    apply andb_true_iff in Hsat as [Hb _]. exact (bucket_contains_unique _ _ (bucket_of_req_wf _) Hb). }
  rewrite Hb, Hid, (alookup_nodup _ _ _ Hnd Hin).
  rewrite <- solver_view_is_satisfies in Hsat. unfold solver_view in Hsat.
  now apply andb_true_iff in Hsat as [_ Hr].
Qed.

(* hence every edge of the edited manifest's graph is bound correctly by the copied resolution *)
Corollary copy_from_lock_right idx man1 man2 (l : lockfile) d :
  valid_solution idx man1 (locked_of (lock_entries l)) = true ->
  up_to_date matches_fix l man2 = true ->
  edge idx man2 (locked_of (lock_entries l)) d ->
  exists w, index_dep_version matches_fix (copy_from_lock l) d = Some w
         /\ alookup (dep_key d) (locked_of (lock_entries l)) = Some w
         /\ satisfies (dreq d) w = true.
Proof.
  intros Hv Hup He. unfold copy_from_lock.
  apply (lookup_fix_right idx man2); [|exact He]. eapply up_to_date_sound; eauto.
Qed.

(* the old matcher's up-to-date test is refuted: a locked 0.3.0 is "up to date" for 0.2 *)
Lemma up_to_date_cur_refuted :
  exists idx man1 man2 (l : lockfile),
    valid_solution idx man1 (locked_of (lock_entries l)) = true
    /\ up_to_date matches_cur l man2 = true
    /\ valid_solution idx man2 (locked_of (lock_entries l)) = false
    /\ exists_solution idx man2 <> None.
Proof.
  exists [PV 0 (V 0 2 0 EmptyString) []; PV 0 (V 0 3 0 EmptyString) []],
         [Dep "a" 0 (RCompat 0 (Some 3) None)], [Dep "a" 0 (RCompat 0 (Some 2) None)],
         ([("a"%string, ("a"%string, 0))], [(("a"%string, 0), ((0, V 0 3 0 EmptyString), []))]).
  vm_compute. repeat split; discriminate.
Qed.
