(* C20 model, part 2: package index, manifests, the dependency provider handed to pubgrub,
   the Resolution built from pubgrub's answer and its post-resolution lookups, and the
   executable validity checker + brute-force solver used to validate every pubgrub answer.
   Mirrors /repo/package/src/resolve.rs and the parts of index/mod.rs it calls.
   Definitions only (proofs are in ResolveProofs.v). *)
From Coq Require Import List NArith Bool String.
Import ListNotations.
From NV Require Import Pkg.Version.
Local Open Scope N_scope.

(* ------------------------------------------------------------------ index and manifest *)

(* IndexDependency together with the local name it has in the depending manifest *)
Record dep := Dep { dname : string; dpkg : N; dreq : vreq }.

(* one line of an index file: index::Package (only what resolution reads) *)
Record pkgver := PV { pid : N; pver : ver; pdeps : list dep }.

Definition index := list pkgver.
(* the root manifest: only index dependencies are modelled (git/path packages are not resolved) *)
Definition manifest := list dep.

Fixpoint insert_ver (v : ver) (l : list ver) : list ver :=
  match l with
  | [] => [v]
  | x :: t => if ver_leb v x then v :: l else x :: insert_ver v t
  end.

(* `sort()` on a Vec<SemVer> (any sorting algorithm: the result is the sorted permutation) *)
Definition sort_vers (l : list ver) : list ver := fold_right insert_ver [] l.

(* `dedup()`: removes consecutive duplicates *)
Fixpoint dedup_vers (l : list ver) : list ver :=
  match l with
  | [] => []
  | x :: t =>
      match t with
      | [] => [x]
      | y :: _ => if ver_eqb x y then dedup_vers t else x :: dedup_vers t
      end
  end.

(* PackageIndex::available_versions: keys of a BTreeMap<SemVer, _>, increasing *)
Definition versions (idx : index) (id : N) : list ver :=
  sort_vers (map pver (filter (fun p => N.eqb (pid p) id) idx)).

Definition has_version (idx : index) (id : N) (v : ver) : bool :=
  existsb (fun p => N.eqb (pid p) id && ver_eqb (pver p) v) idx.

(* PackageIndex::package(id, v).dependencies; None = Err(UnknownIndexPackage[Version]) *)
Definition deps_of (idx : index) (id : N) (v : ver) : option (list dep) :=
  match find (fun p => N.eqb (pid p) id && ver_eqb (pver p) v) idx with
  | Some p => Some (pdeps p)
  | None => None
  end.

(* ------------------------------------------------------------------ pubgrub packages *)

(* resolve.rs: Package::Index(Bucket { id, version }) *)
Definition key := (N * bucket)%type.

Definition key_eqb (a b : key) : bool := N.eqb (fst a) (fst b) && bucket_eqb (snd a) (snd b).

Definition dep_key (d : dep) : key := (dpkg d, bucket_of_req (dreq d)).

(* pubgrub's SelectedDependencies restricted to index packages *)
Definition assignment := list (key * ver).

Fixpoint alookup (k : key) (a : assignment) : option ver :=
  match a with
  | [] => None
  | (k', v) :: t => if key_eqb k k' then Some v else alookup k t
  end.

(* ------------------------------------------------------------------ the dependency provider *)

Definition ranges_contain (rgs : list range) (v : ver) : bool :=
  forallb (fun rg => range_contains rg v) rgs.

(* resolve_with_lock: `previously_locked` built from the lock file's index entries *)
Definition locked_of (entries : list (N * ver)) : assignment :=
  map (fun e => ((fst e, bucket_of_ver (snd e)), snd e)) entries.

(* DependencyProvider::choose_version for Package::Index *)
Definition choose_version (idx : index) (locked : assignment) (k : key) (rgs : list range) : option ver :=
  let fallback :=
    match snd k with
    | BPre v => if has_version idx (fst k) v then Some v else None
    | b => find (fun v => bucket_contains b v && ranges_contain rgs v) (versions idx (fst k))
    end in
  match alookup k locked with
  | Some lv => if ranges_contain rgs lv then Some lv else fallback
  | None => fallback
  end.

(* index_dep_package_and_range *)
Definition dep_key_range (d : dep) : key * range := (dep_key d, range_of_req (dreq d)).

(* collect_intersections: one entry per package, ranges intersected (kept as a conjunction) *)
Fixpoint add_range (k : key) (rg : range) (m : list (key * list range)) : list (key * list range) :=
  match m with
  | [] => [(k, [rg])]
  | (k', rs) :: t => if key_eqb k k' then (k', rg :: rs) :: t else (k', rs) :: add_range k rg t
  end.

Definition collect_intersections (l : list (key * range)) : list (key * list range) :=
  fold_left (fun m kr => add_range (fst kr) (snd kr) m) l [].

(* pubgrub::Dependencies, or the `?`-propagated error of `index.package` *)
Inductive deps_result :=
| DAvailable (ds : list (key * list range))
| DUnavailable            (* this version can never be part of a solution *)
| DErr.

(* DependencyProvider::get_dependencies for Package::Index.  A dependency of a version on its own
   bucket is, for pubgrub, a dependency of a package on itself, which pubgrub 0.3 does not
   support: the provider resolves it itself (`deps.remove(package)`: the map has at most one
   entry per package, the model filters).  Either the version meets the requirement itself and
   the entry is dropped, or the version is unavailable. *)
Definition get_dependencies (idx : index) (k : key) (v : ver) : deps_result :=
  match deps_of idx (fst k) v with
  | Some ds =>
      let m := collect_intersections (map dep_key_range ds) in
      let self := filter (fun e => key_eqb (fst e) k) m in
      let others := filter (fun e => negb (key_eqb (fst e) k)) m in
      if forallb (fun e => ranges_contain (snd e) v) self then DAvailable others else DUnavailable
  | None => DErr
  end.

(* snapshot_dependencies for the root package (index dependencies only) *)
Definition root_dependencies (man : manifest) : list (key * list range) :=
  collect_intersections (map dep_key_range man).

(* ------------------------------------------------------------------ Resolution *)

Definition ids_of (a : assignment) : list N := nodup N.eq_dec (map (fun kv => fst (fst kv)) a).

(* resolve_with_lock: index_packages : HashMap<Id, Vec<SemVer>>, every list sorted and dedup'ed *)
Definition index_packages (a : assignment) : list (N * list ver) :=
  map (fun id => (id, dedup_vers (sort_vers (map snd (filter (fun kv => N.eqb (fst (fst kv)) id) a)))))
      (ids_of a).

Definition ip_lookup (id : N) (ip : list (N * list ver)) : option (list ver) :=
  match find (fun e => N.eqb (fst e) id) ip with
  | Some e => Some (snd e)
  | None => None
  end.

(* Resolution::index_dep_version, parametrised by the requirement matcher.
   None = panic (`unwrap` on a missing id or on `find` returning None). *)
Definition index_dep_version (mt : vreq -> ver -> bool) (ip : list (N * list ver)) (d : dep) : option ver :=
  match ip_lookup (dpkg d) ip with
  | None => None
  | Some vs => find (mt (dreq d)) vs
  end.

(* The Resolution only keeps versions per id; the pubgrub package of a version is recovered by
   BucketVersion::from (this is also how resolve_with_lock keys `previously_locked`). *)
Definition assignment_of_ip (ip : list (N * list ver)) : assignment :=
  flat_map (fun e => map (fun v => ((fst e, bucket_of_ver v), v)) (snd e)) ip.

(* ------------------------------------------------------------------ validity checker *)

Definition dep_ok (a : assignment) (d : dep) : bool :=
  match alookup (dep_key d) a with
  | Some w => range_contains (range_of_req (dreq d)) w
  | None => false
  end.

Definition entry_ok (idx : index) (a : assignment) (kv : key * ver) : bool :=
  bucket_wf (snd (fst kv))
  && bucket_contains (snd (fst kv)) (snd kv)
  && match deps_of idx (fst (fst kv)) (snd kv) with
     | Some ds => forallb (dep_ok a) ds
     | None => false
     end.

Fixpoint keys_nodup (a : assignment) : bool :=
  match a with
  | [] => true
  | (k, _) :: t => negb (existsb (fun kv => key_eqb k (fst kv)) t) && keys_nodup t
  end.

Definition valid_solution (idx : index) (man : manifest) (a : assignment) : bool :=
  keys_nodup a && forallb (dep_ok a) man && forallb (entry_ok idx a) a.

(* ------------------------------------------------------------------ brute-force solver *)

Definition all_deps (idx : index) (man : manifest) : list dep := man ++ flat_map pdeps idx.

Fixpoint nodup_keys (l : list key) : list key :=
  match l with
  | [] => []
  | k :: t => if existsb (key_eqb k) t then nodup_keys t else k :: nodup_keys t
  end.

Definition cand_keys (idx : index) (man : manifest) : list key :=
  nodup_keys (map dep_key (all_deps idx man)).

Definition cand_versions (idx : index) (k : key) : list ver :=
  filter (bucket_contains (snd k)) (versions idx (fst k)).

(* every way of leaving a candidate package out or giving it one of its versions *)
Fixpoint enum (idx : index) (ks : list key) : list assignment :=
  match ks with
  | [] => [[]]
  | k :: t =>
      let rest := enum idx t in
      rest ++ flat_map (fun v => map (cons (k, v)) rest) (cand_versions idx k)
  end.

Definition exists_solution (idx : index) (man : manifest) : option assignment :=
  find (valid_solution idx man) (enum idx (cand_keys idx man)).

(* size of the brute-force search space (the driver skips the search above a cap) *)
Definition enum_size (idx : index) (ks : list key) : N :=
  fold_right (fun k acc => (1 + N.of_nat (List.length (cand_versions idx k))) * acc) 1 ks.

(* the part of an assignment reachable from the root (what a lock file can contain) *)
Fixpoint reach (fuel : nat) (idx : index) (a : assignment) (todo : list key) (seen : list key) : list key :=
  match fuel with
  | O => seen
  | S f =>
      match todo with
      | [] => seen
      | k :: t =>
          if existsb (key_eqb k) seen then reach f idx a t seen
          else match alookup k a with
               | None => reach f idx a t seen
               | Some v =>
                   let ds := match deps_of idx (fst k) v with Some ds => ds | None => [] end in
                   reach f idx a (t ++ map dep_key ds) (k :: seen)
               end
      end
  end.

Definition reachable_part (idx : index) (man : manifest) (a : assignment) : assignment :=
  let fuel := S (List.length a + List.length (all_deps idx man) * S (List.length a)) in
  let ks := reach fuel idx a (map dep_key man) [] in
  filter (fun kv => existsb (key_eqb (fst kv)) ks) a.

(* known class of the unchanged tree's lookup failures (see ResolveProofs.lookup_cur_iff):
   A. `major.minor.patch` requirement, major >= 1, bound version has another minor;
   B. a prerelease of the same package sorts before the bound version and passes `matches`. *)
Definition known_class (ip : list (N * list ver)) (d : dep) (w : ver) : bool :=
  minor_gap (dreq d) w
  || match ip_lookup (dpkg d) ip with
     | Some vs => existsb (fun v' => negb (is_release v') && matches_cur (dreq d) v' && ver_ltb v' w) vs
     | None => false
     end.
