(* C20: proofs about the resolver glue: sorted/dedup'ed version lists, the validity checker,
   the post-resolution lookup (repaired matcher: always right; unchanged matcher: right exactly
   outside the known class). *)
From Coq Require Import List NArith Bool String Lia ZifyBool ZifyN Sorted.
Import ListNotations.
From NV Require Import Pkg.Version Pkg.VersionProofs Pkg.Resolve.
Local Open Scope N_scope.

(* ------------------------------------------------------------------ keys and association lists *)

Lemma key_eqb_eq a b : key_eqb a b = true <-> a = b.
Proof.
  destruct a as [i x], b as [j y]. unfold key_eqb; cbn.
  rewrite andb_true_iff, N.eqb_eq, bucket_eqb_eq. split; [intros [-> ->]; reflexivity | intros [= -> ->]; auto].
Qed.

Lemma key_eqb_refl a : key_eqb a a = true.
Proof. now apply key_eqb_eq. Qed.

Lemma key_eqb_neq a b : key_eqb a b = false <-> a <> b.
Proof.
  split.
  - intros H E. apply key_eqb_eq in E. congruence.
  - intros H. destruct (key_eqb a b) eqn:E; [|reflexivity]. apply key_eqb_eq in E. contradiction.
Qed.

Lemma alookup_In k v a : alookup k a = Some v -> In (k, v) a.
Proof.
  induction a as [|[k' v'] t IH]; cbn; [discriminate|].
  destruct (key_eqb k k') eqn:E.
  - apply key_eqb_eq in E; subst. intros [= ->]. now left.
  - intros H. right. auto.
Qed.

Lemma alookup_None k a : alookup k a = None <-> forall v, ~ In (k, v) a.
Proof.
  induction a as [|[k' v'] t IH]; cbn.
  - split; auto.
  - destruct (key_eqb k k') eqn:E.
    + apply key_eqb_eq in E; subst. split; [discriminate|]. intros H. exfalso. apply (H v'). now left.
    + apply key_eqb_neq in E. rewrite IH. split.
      * intros H v [[= <- <-]|Hin]; [congruence|]. eapply H; eauto.
      * intros H v Hin. apply (H v). now right.
Qed.

Lemma keys_nodup_cons k v t :
  keys_nodup ((k, v) :: t) = true <-> (forall w, ~ In (k, w) t) /\ keys_nodup t = true.
Proof.
  cbn. rewrite andb_true_iff, negb_true_iff. split; intros [H1 H2]; split; auto.
  - intros w Hin. assert (existsb (fun kv => key_eqb k (fst kv)) t = true).
    { apply existsb_exists. exists (k, w). split; auto. apply key_eqb_refl. }
    congruence.
  - destruct (existsb _ t) eqn:E; [|reflexivity].
    apply existsb_exists in E as [[k' w] [Hin Hk]]. cbn in Hk. apply key_eqb_eq in Hk; subst.
    exfalso. eapply H1; eauto.
Qed.

Lemma alookup_nodup k v a : keys_nodup a = true -> In (k, v) a -> alookup k a = Some v.
Proof.
  induction a as [|[k' v'] t IH]; [intros _ []|].
  intros Hnd Hin. apply keys_nodup_cons in Hnd as [Hfresh Hnd]. cbn.
  destruct Hin as [[= -> ->]|Hin].
  - now rewrite key_eqb_refl.
  - destruct (key_eqb k k') eqn:E.
    + apply key_eqb_eq in E; subst. exfalso. eapply Hfresh; eauto.
    + auto.
Qed.

Lemma keys_nodup_inj a k v w : keys_nodup a = true -> In (k, v) a -> In (k, w) a -> v = w.
Proof.
  intros Hnd H1 H2. apply (alookup_nodup _ _ _ Hnd) in H1, H2. congruence.
Qed.

(* ------------------------------------------------------------------ sort and dedup *)

Definition ver_le (a b : ver) : Prop := ver_leb a b = true.

Lemma insert_ver_In x v l : In x (insert_ver v l) <-> x = v \/ In x l.
Proof.
  induction l as [|y t IH]; cbn.
  - intuition congruence.
  - destruct (ver_leb v y); cbn; rewrite ?IH; intuition congruence.
Qed.

Lemma sort_vers_In x l : In x (sort_vers l) <-> In x l.
Proof.
  induction l as [|y t IH]; cbn; [tauto|].
  rewrite insert_ver_In, IH. intuition congruence.
Qed.

Lemma insert_ver_sorted v l : StronglySorted ver_le l -> StronglySorted ver_le (insert_ver v l).
Proof.
  induction 1 as [|y t Hs IH Hall]; cbn.
  - constructor; constructor.
  - destruct (ver_leb v y) eqn:E.
    + constructor; [constructor; auto|]. constructor; [exact E|].
      rewrite Forall_forall in *. intros z Hz. eapply ver_leb_trans; [exact E|]. now apply Hall.
    + constructor; [exact IH|]. rewrite Forall_forall in *. intros z Hz.
      apply insert_ver_In in Hz as [->|Hz]; [|now apply Hall].
      destruct (ver_leb_total v y) as [H|H]; [congruence|exact H].
Qed.

Lemma sort_vers_sorted l : StronglySorted ver_le (sort_vers l).
Proof.
  induction l as [|y t IH]; cbn; [constructor|]. now apply insert_ver_sorted.
Qed.

Lemma dedup_vers_In x l : In x (dedup_vers l) <-> In x l.
Proof.
  induction l as [|y t IH]; [tauto|].
  destruct t as [|z t'].
  - cbn. tauto.
  - change (dedup_vers (y :: z :: t')) with (if ver_eqb y z then dedup_vers (z :: t') else y :: dedup_vers (z :: t')).
    destruct (ver_eqb y z) eqn:E.
    + apply ver_eqb_eq in E; subst z. rewrite IH. cbn. tauto.
    + cbn [In]. rewrite IH. cbn. tauto.
Qed.

Lemma dedup_vers_sorted l : StronglySorted ver_le l -> StronglySorted ver_le (dedup_vers l).
Proof.
  induction 1 as [|y t Hs IH Hall]; [constructor|].
  destruct t as [|z t'].
  - cbn. constructor; constructor.
  - change (dedup_vers (y :: z :: t')) with (if ver_eqb y z then dedup_vers (z :: t') else y :: dedup_vers (z :: t')).
    destruct (ver_eqb y z); [exact IH|].
    constructor; [exact IH|]. rewrite Forall_forall in *. intros w Hw.
    rewrite dedup_vers_In in Hw. now apply Hall.
Qed.

(* first match in a sorted list *)
Lemma find_sorted_first (f : ver -> bool) l w :
  StronglySorted ver_le l -> In w l -> f w = true ->
  (forall x, In x l -> f x = true -> x = w \/ ver_ltb w x = true) ->
  find f l = Some w.
Proof.
  induction 1 as [|y t Hs IH Hall]; [intros []|].
  intros Hin Hfw Hothers. cbn.
  destruct (f y) eqn:Hfy.
  - destruct (Hothers y (or_introl eq_refl) Hfy) as [->|Hlt]; [reflexivity|].
    destruct Hin as [->|Hin]; [reflexivity|].
    rewrite Forall_forall in Hall. specialize (Hall _ Hin). unfold ver_le in Hall.
    apply ver_ltb_not_leb in Hlt. congruence.
  - destruct Hin as [->|Hin]; [congruence|].
    apply IH; auto. intros x Hx. apply Hothers. now right.
Qed.

Lemma find_sorted_least (f : ver -> bool) l x y :
  StronglySorted ver_le l -> find f l = Some x -> In y l -> f y = true -> ver_leb x y = true.
Proof.
  induction 1 as [|z t Hs IH Hall]; [discriminate|]. cbn.
  destruct (f z) eqn:Hfz.
  - intros [= ->] [->|Hin] _; [apply ver_leb_refl|].
    rewrite Forall_forall in Hall. now apply Hall.
  - intros Hfind [->|Hin] Hfy; [congruence|]. auto.
Qed.

(* ------------------------------------------------------------------ index_packages *)

Definition vers_of (a : assignment) (id : N) : list ver :=
  dedup_vers (sort_vers (map snd (filter (fun kv => N.eqb (fst (fst kv)) id) a))).

Lemma vers_of_In a id v : In v (vers_of a id) <-> exists b, In ((id, b), v) a.
Proof.
  unfold vers_of. rewrite dedup_vers_In, sort_vers_In, in_map_iff. split.
  - intros [[[i b] w] [Hw Hin]]. cbn in Hw; subst w. apply filter_In in Hin as [Hin Hid].
    cbn in Hid. apply N.eqb_eq in Hid; subst. eauto.
  - intros [b Hin]. exists ((id, b), v). split; [reflexivity|]. apply filter_In. split; auto.
    cbn. apply N.eqb_refl.
Qed.

Lemma vers_of_sorted a id : StronglySorted ver_le (vers_of a id).
Proof. unfold vers_of. apply dedup_vers_sorted, sort_vers_sorted. Qed.

Lemma find_map_key_in (g : N -> list ver) ids id :
  In id ids -> find (fun e => N.eqb (fst e) id) (map (fun i => (i, g i)) ids) = Some (id, g id).
Proof.
  induction ids as [|j t IH]; cbn; [intros []|].
  destruct (N.eqb j id) eqn:E.
  - apply N.eqb_eq in E; subst. reflexivity.
  - apply N.eqb_neq in E. intros [H|H]; [contradiction|auto].
Qed.

Lemma find_map_key_notin (g : N -> list ver) ids id :
  ~ In id ids -> find (fun e => N.eqb (fst e) id) (map (fun i => (i, g i)) ids) = None.
Proof.
  induction ids as [|j t IH]; cbn; [reflexivity|].
  intros H. destruct (N.eqb j id) eqn:E.
  - apply N.eqb_eq in E; subst. exfalso. apply H. now left.
  - apply IH. intros Hin. apply H. now right.
Qed.

Lemma ids_of_In a id : In id (ids_of a) <-> exists b v, In ((id, b), v) a.
Proof.
  unfold ids_of. rewrite nodup_In, in_map_iff. split.
  - intros [[[i b] v] [Hi Hin]]. cbn in Hi; subst. eauto.
  - intros [b [v Hin]]. exists ((id, b), v). auto.
Qed.

Lemma ip_lookup_none a id :
  (forall b v, ~ In ((id, b), v) a) -> ip_lookup id (index_packages a) = None.
Proof.
  intros H. unfold ip_lookup, index_packages.
  rewrite (find_map_key_notin (vers_of a)); [reflexivity|].
  intros Hin. apply ids_of_In in Hin as (b & v & Hin). eapply H; eauto.
Qed.

Lemma ip_lookup_some a id b v :
  In ((id, b), v) a -> ip_lookup id (index_packages a) = Some (vers_of a id).
Proof.
  intros Hin. unfold ip_lookup, index_packages.
  rewrite (find_map_key_in (vers_of a)); [reflexivity|].
  apply ids_of_In. eauto.
Qed.

(* ------------------------------------------------------------------ consequences of validity *)

Lemma valid_parts idx man a :
  valid_solution idx man a = true ->
  keys_nodup a = true
  /\ (forall d, In d man -> dep_ok a d = true)
  /\ (forall kv, In kv a -> entry_ok idx a kv = true).
Proof.
  unfold valid_solution. rewrite !andb_true_iff, !forallb_forall. tauto.
Qed.

Lemma entry_ok_parts idx a k v :
  entry_ok idx a (k, v) = true ->
  bucket_wf (snd k) = true /\ bucket_contains (snd k) v = true
  /\ exists ds, deps_of idx (fst k) v = Some ds /\ forall d, In d ds -> dep_ok a d = true.
Proof.
  unfold entry_ok; cbn. rewrite !andb_true_iff. intros [[H1 H2] H3].
  destruct (deps_of idx (fst k) v) as [ds|]; [|discriminate].
  rewrite forallb_forall in H3. eauto.
Qed.

Lemma dep_ok_parts a d :
  dep_ok a d = true ->
  exists w, alookup (dep_key d) a = Some w /\ range_contains (range_of_req (dreq d)) w = true.
Proof.
  unfold dep_ok. destruct (alookup (dep_key d) a) as [w|]; [eauto|discriminate].
Qed.

(* a dependency edge of the resolved graph: from the root manifest, or from a resolved version *)
Definition edge (idx : index) (man : manifest) (a : assignment) (d : dep) : Prop :=
  In d man \/ exists k v ds, In (k, v) a /\ deps_of idx (fst k) v = Some ds /\ In d ds.

Lemma edge_dep_ok idx man a d :
  valid_solution idx man a = true -> edge idx man a d -> dep_ok a d = true.
Proof.
  intros Hv. destruct (valid_parts _ _ _ Hv) as (Hnd & Hroot & Hent).
  intros [Hin|(k & v & ds & Hin & Hds & Hd)]; [auto|].
  destruct (entry_ok_parts _ _ _ _ (Hent _ Hin)) as (_ & _ & ds' & Hds' & Hall).
  rewrite Hds in Hds'. injection Hds' as <-. auto.
Qed.

(* the version assigned to an edge's bucket, with everything known about it *)
Lemma edge_assigned idx man a d :
  valid_solution idx man a = true -> edge idx man a d ->
  exists w, alookup (dep_key d) a = Some w
         /\ In (dep_key d, w) a
         /\ satisfies (dreq d) w = true
         /\ In w (vers_of a (dpkg d))
         /\ ip_lookup (dpkg d) (index_packages a) = Some (vers_of a (dpkg d)).
Proof.
  intros Hv He. pose proof (edge_dep_ok _ _ _ _ Hv He) as Hok.
  destruct (dep_ok_parts _ _ Hok) as (w & Hl & Hr). exists w.
  pose proof (alookup_In _ _ _ Hl) as Hin.
  destruct (valid_parts _ _ _ Hv) as (Hnd & _ & Hent).
  destruct (entry_ok_parts _ _ _ _ (Hent _ Hin)) as (_ & Hbc & _).
  repeat split; auto.
  - rewrite <- solver_view_is_satisfies. unfold solver_view. cbn in Hbc. now rewrite Hbc, Hr.
  - apply vers_of_In. exists (bucket_of_req (dreq d)). exact Hin.
  - eapply ip_lookup_some. exact Hin.
Qed.

(* every version listed for a package is the one of its own bucket's key *)
Lemma vers_of_key idx man a id x :
  valid_solution idx man a = true -> In x (vers_of a id) -> In ((id, bucket_of_ver x), x) a.
Proof.
  intros Hv Hx. apply vers_of_In in Hx as [b Hin].
  destruct (valid_parts _ _ _ Hv) as (_ & _ & Hent).
  destruct (entry_ok_parts _ _ _ _ (Hent _ Hin)) as (Hwf & Hbc & _). cbn in Hwf, Hbc.
  now rewrite <- (bucket_contains_unique _ _ Hwf Hbc).
Qed.

(* one version per (package, compatibility class) *)
Lemma one_version_per_class idx man a id x y :
  valid_solution idx man a = true ->
  In x (vers_of a id) -> In y (vers_of a id) -> bucket_of_ver x = bucket_of_ver y -> x = y.
Proof.
  intros Hv Hx Hy Hb. pose proof (vers_of_key _ _ _ _ _ Hv Hx) as H1.
  pose proof (vers_of_key _ _ _ _ _ Hv Hy) as H2. rewrite Hb in H1.
  destruct (valid_parts _ _ _ Hv) as (Hnd & _). eapply keys_nodup_inj; eauto.
Qed.

(* ------------------------------------------------------------------ the lookup, repaired matcher *)

Theorem lookup_fix_right idx man a d :
  valid_solution idx man a = true -> edge idx man a d ->
  exists w, index_dep_version matches_fix (index_packages a) d = Some w
         /\ alookup (dep_key d) a = Some w
         /\ satisfies (dreq d) w = true.
Proof.
  intros Hv He. destruct (edge_assigned _ _ _ _ Hv He) as (w & Hl & Hin & Hsat & Hvs & Hip).
  exists w. repeat split; auto.
  unfold index_dep_version. rewrite Hip.
  assert (Hmw : matches_fix (dreq d) w = true).
  { rewrite <- solver_view_is_matches_fix, solver_view_is_satisfies. exact Hsat. }
  destruct (find (matches_fix (dreq d)) (vers_of a (dpkg d))) as [x|] eqn:Hf.
  - apply find_some in Hf as [Hx Hmx]. f_equal.
    eapply one_version_per_class; eauto.
    rewrite <- solver_view_is_matches_fix in Hmx, Hmw. unfold solver_view in *.
    apply andb_true_iff in Hmx as [Hbx _]. apply andb_true_iff in Hmw as [Hbw _].
    rewrite <- (bucket_contains_unique _ _ (bucket_of_req_wf _) Hbx).
    now rewrite <- (bucket_contains_unique _ _ (bucket_of_req_wf _) Hbw).
  - exfalso. pose proof (find_none _ _ Hf _ Hvs). congruence.
Qed.

(* With the repaired matcher the order (and duplication) of the stored version list is
   irrelevant: any list with the same elements gives the same answer.  (This is why the check does
   not insist on `sort(); dedup()` for the repaired tree.) *)
Theorem lookup_fix_any_order idx man a d vs' :
  valid_solution idx man a = true -> edge idx man a d ->
  (forall x, In x vs' <-> In x (vers_of a (dpkg d))) ->
  exists w, find (matches_fix (dreq d)) vs' = Some w
         /\ alookup (dep_key d) a = Some w /\ satisfies (dreq d) w = true.
Proof.
  intros Hv He Hsame. destruct (edge_assigned _ _ _ _ Hv He) as (w & Hl & Hin & Hsat & Hvs & Hip).
  exists w. repeat split; auto.
  assert (Hmw : matches_fix (dreq d) w = true).
  { rewrite <- solver_view_is_matches_fix, solver_view_is_satisfies. exact Hsat. }
  destruct (find (matches_fix (dreq d)) vs') as [x|] eqn:Hf.
  - apply find_some in Hf as [Hx Hmx]. apply Hsame in Hx. f_equal.
    eapply one_version_per_class; eauto.
    rewrite <- solver_view_is_matches_fix in Hmx, Hmw. unfold solver_view in *.
    apply andb_true_iff in Hmx as [Hbx _]. apply andb_true_iff in Hmw as [Hbw _].
    rewrite <- (bucket_contains_unique _ _ (bucket_of_req_wf _) Hbx).
    now rewrite <- (bucket_contains_unique _ _ (bucket_of_req_wf _) Hbw).
  - exfalso. apply Hsame in Hvs. pose proof (find_none _ _ Hf _ Hvs). congruence.
Qed.

(* ------------------------------------------------------------------ the lookup, unchanged matcher *)

(* A release of the same package in ANOTHER bucket that passes the unchanged matcher sorts after
   the bound version; so only prereleases (and the minor gap) can break the lookup. *)
Lemma ver_ltb_release a b c a' b' c' :
  ver_ltb (V a b c EmptyString) (V a' b' c' EmptyString) =
  (N.ltb a a' || (N.eqb a a' && (N.ltb b b' || (N.eqb b b' && N.ltb c c')))).
Proof.
  unfold ver_ltb, ver_compare; cbn.
  destruct (N.compare_spec a a'); destruct (N.compare_spec b b'); destruct (N.compare_spec c c');
    subst; cbn; lia.
Qed.

Lemma cur_other_release_after r w x :
  satisfies r w = true -> matches_cur r x = true -> is_release x = true ->
  bucket_of_ver x <> bucket_of_ver w -> ver_ltb w x = true.
Proof.
  intros Hsat Hm Hrel Hb.
  destruct r as [M mi pa|u].
  2:{ cbn in Hsat, Hm. apply ver_eqb_eq in Hsat, Hm. congruence. }
  cbn in Hsat. apply andb_true_iff in Hsat as [Hsat Hle]. apply andb_true_iff in Hsat as [Hrw Hcl].
  destruct w as [a b c s], x as [a' b' c' s']. unfold is_release in Hrw, Hrel; cbn in Hrw, Hrel.
  destruct s; [|discriminate]. destruct s'; [|discriminate].
  rewrite ver_ltb_release.
  unfold lower_bound in Hle, Hcl. rewrite (ver_leb_release_lb _ _ _ (V a b c EmptyString) eq_refl) in Hle.
  unfold compat_class, class_eqb, pair_leb in *; cbn [vmaj vmin vpat fst snd] in *.
  unfold bucket_of_ver, major_minor, is_release in Hb; cbn [vmaj vmin vpre] in Hb.
  cbn [matches_cur vmaj vmin vpat] in Hm.
  destruct (N.eqb a 0) eqn:E1; destruct (N.eqb a' 0) eqn:E2;
    [ assert (b' <> b) by (intros ->; apply Hb; reflexivity)
    | | | assert (a' <> a) by (intros ->; apply Hb; reflexivity) ];
    clear Hb; destruct (N.eqb M 0) eqn:E0; destruct mi as [m|], pa as [p|];
    cbn [dflt fst snd] in *; lia.
Qed.

Theorem lookup_cur_iff idx man a d w :
  valid_solution idx man a = true -> edge idx man a d -> alookup (dep_key d) a = Some w ->
  (index_dep_version matches_cur (index_packages a) d = Some w
   <-> known_class (index_packages a) d w = false).
Proof.
  intros Hv He Hlw.
  destruct (edge_assigned _ _ _ _ Hv He) as (w' & Hl & Hin & Hsat & Hvs & Hip).
  rewrite Hlw in Hl. injection Hl as <-.
  unfold index_dep_version, known_class. rewrite Hip.
  pose proof (matches_cur_on_satisfies _ _ Hsat) as Hcur.
  pose proof (vers_of_sorted a (dpkg d)) as Hsorted.
  split.
  - intros Hf. apply orb_false_iff. split.
    + apply find_some in Hf as [_ Hm]. rewrite Hcur in Hm. now apply negb_true_iff in Hm.
    + destruct (existsb _ (vers_of a (dpkg d))) eqn:Hex; [|reflexivity].
      apply existsb_exists in Hex as (x & Hx & Hc).
      apply andb_true_iff in Hc as [Hc Hlt]. apply andb_true_iff in Hc as [_ Hm].
      pose proof (find_sorted_least _ _ _ _ Hsorted Hf Hx Hm) as Hle.
      apply ver_ltb_not_leb in Hlt. congruence.
  - intros Hk. apply orb_false_iff in Hk as [Hgap Hpre].
    apply find_sorted_first; auto.
    + rewrite Hcur, Hgap. reflexivity.
    + intros x Hx Hm.
      destruct (ver_eqb x w) eqn:Exw; [left; now apply ver_eqb_eq|right].
      assert (Hne : x <> w) by (intros ->; rewrite ver_eqb_refl in Exw; discriminate).
      destruct (is_release x) eqn:Hrel.
      * eapply cur_other_release_after; eauto.
        intros Hb. apply Hne. eapply one_version_per_class; eauto.
      * (* a prerelease passing the matcher: not before w, by the hypothesis; so after *)
        destruct (ver_ltb w x) eqn:Hlt; [reflexivity|exfalso].
        assert (Hxw : ver_ltb x w = true).
        { destruct (ver_leb_total x w) as [H|H].
          - destruct (ver_leb_cases _ _ H) as [->|H']; [contradiction|exact H'].
          - destruct (ver_leb_cases _ _ H) as [->|H']; [contradiction|congruence]. }
        assert (Hex : existsb (fun v' => negb (is_release v') && matches_cur (dreq d) v' && ver_ltb v' w)
                             (vers_of a (dpkg d)) = true).
        { apply existsb_exists. exists x. split; [exact Hx|]. now rewrite Hrel, Hm, Hxw. }
        congruence.
Qed.

(* When the lookup of the unchanged tree does not return the assigned version it panics or
   returns a version that does not satisfy the requirement: nothing else satisfies it. *)
Lemma lookup_cur_wrong_is_unsatisfied idx man a d w x :
  valid_solution idx man a = true -> edge idx man a d -> alookup (dep_key d) a = Some w ->
  index_dep_version matches_cur (index_packages a) d = Some x -> x <> w ->
  satisfies (dreq d) x = false.
Proof.
  intros Hv He Hlw Hf Hne.
  destruct (edge_assigned _ _ _ _ Hv He) as (w' & Hl & Hin & Hsat & Hvs & Hip).
  rewrite Hlw in Hl. injection Hl as <-.
  unfold index_dep_version in Hf. rewrite Hip in Hf. apply find_some in Hf as [Hx _].
  destruct (satisfies (dreq d) x) eqn:Hsx; [exfalso|reflexivity]. apply Hne.
  eapply one_version_per_class; eauto.
  rewrite <- solver_view_is_satisfies in Hsx, Hsat. unfold solver_view in *.
  apply andb_true_iff in Hsx as [Hbx _]. apply andb_true_iff in Hsat as [Hbw _].
  rewrite <- (bucket_contains_unique _ _ (bucket_of_req_wf _) Hbx).
  now rewrite <- (bucket_contains_unique _ _ (bucket_of_req_wf _) Hbw).
Qed.

(* ------------------------------------------------------------------ non-vacuity *)

(* The hypotheses [valid_solution .. = true] and [edge ..] of the lookup theorems are met by a
   non-trivial universe: a 0.x package, an exact prerelease next to a release of the same
   package, a cycle in the index, two classes of one package selected at once. *)
Example valid_example :
  let idx := [ PV 0 (V 1 2 0 EmptyString) [Dep "x" 1 (RCompat 0 (Some 2) None)];
               PV 0 (V 1 0 0 "alpha") [];
               PV 0 (V 2 0 0 EmptyString) [Dep "old" 0 (RCompat 1 (Some 1) (Some 3))];
               PV 1 (V 0 2 4 EmptyString) [Dep "back" 0 (RCompat 1 None None)];
               PV 1 (V 0 3 0 EmptyString) [] ] in
  let man := [ Dep "a" 0 (RCompat 2 None None); Dep "b" 0 (RExact (V 1 0 0 "alpha")) ] in
  let a := [ ((0, BMajor 2), V 2 0 0 EmptyString); ((0, BMajor 1), V 1 2 0 EmptyString);
             ((0, BPre (V 1 0 0 "alpha")), V 1 0 0 "alpha"); ((1, BMinor 2), V 0 2 4 EmptyString) ] in
  valid_solution idx man a = true
  /\ edge idx man a (Dep "old" 0 (RCompat 1 (Some 1) (Some 3)))
  /\ index_dep_version matches_fix (index_packages a) (Dep "old" 0 (RCompat 1 (Some 1) (Some 3))) = Some (V 1 2 0 EmptyString)
  /\ index_dep_version matches_cur (index_packages a) (Dep "old" 0 (RCompat 1 (Some 1) (Some 3))) = None
  /\ index_dep_version matches_cur (index_packages a) (Dep "back" 0 (RCompat 1 None None)) = Some (V 1 0 0 "alpha").
Proof.
  cbn zeta. split; [vm_compute; reflexivity|]. split.
  - right. exists (0, BMajor 2), (V 2 0 0 EmptyString), [Dep "old" 0 (RCompat 1 (Some 1) (Some 3))].
    split; [now left|]. split; [vm_compute; reflexivity|now left].
  - vm_compute. repeat split.
Qed.
