(* C20: the declarative specification of a resolution (the property's words), and the contract
   under which pubgrub is used.  Definitions only. *)
From Coq Require Import List NArith Bool String.
Import ListNotations.
From NV Require Import Pkg.Version Pkg.Resolve.
Local Open Scope N_scope.

(* An assignment, abstractly: at most one version per (package, compatibility class). *)
Definition amap := key -> option ver.

(* "the dependency edge is bound to a version that satisfies its requirement": some version [w]
   of the required package is selected in w's own compatibility class and satisfies the
   requirement in the property's words. *)
Definition dep_sat (A : amap) (d : dep) : Prop :=
  exists w, A (dpkg d, bucket_of_ver w) = Some w /\ satisfies (dreq d) w = true.

Record Valid (idx : index) (man : manifest) (A : amap) : Prop := {
  (* a selected version sits in its own class (so "one version per package and class" is the
     functionality of A) *)
  V_class : forall k v, A k = Some v -> snd k = bucket_of_ver v;
  (* it exists in the index *)
  V_index : forall k v, A k = Some v -> exists ds, deps_of idx (fst k) v = Some ds;
  (* every edge from the root manifest is bound *)
  V_root : forall d, In d man -> dep_sat A d;
  (* every edge from a selected version is bound *)
  V_deps : forall k v ds d, A k = Some v -> deps_of idx (fst k) v = Some ds -> In d ds -> dep_sat A d
}.

(* ------------------------------------------------------------------ pubgrub as an oracle *)

Inductive solve_result :=
| Solved (sol : assignment)
| NoSolution
| SolveError.          (* ErrorRetrievingDependencies / ErrorChoosingVersion *)

(* The contract of `pubgrub::resolve(&registry, Package::Root, version)` for the provider of
   Resolve.v, restricted to index packages (cf. pubgrub's documentation of `resolve` and of
   `DependencyProvider`): the answer is a map; it only contains packages that some dependency
   mentioned; every decided version was returned by `choose_version` for that package; the
   constraints reported by `get_dependencies` for the root and for every decided version are met
   by the decided versions.  `NoSolution` is returned only if no assignment exists.
   This is a hypothesis of theorems (a Section variable), never an axiom; and each concrete answer
   of the real pubgrub is re-validated at check time by [valid_solution] / [exists_solution].
   pubgrub 0.3.0 does NOT meet it when `get_dependencies` reports a dependency of a package on
   itself (finding `self-dependency`, fixed in 3edc943 by never reporting one). *)
Definition pubgrub_sound (solve : index -> assignment -> manifest -> solve_result) : Prop :=
  forall idx locked man sol, solve idx locked man = Solved sol ->
    keys_nodup sol = true
    /\ (forall k v, In (k, v) sol -> exists d, In d (all_deps idx man) /\ k = dep_key d)
    /\ (forall k v, In (k, v) sol -> exists rgs, choose_version idx locked k rgs = Some v)
    /\ (forall k rgs, In (k, rgs) (root_dependencies man) ->
          exists w, alookup k sol = Some w /\ ranges_contain rgs w = true)
    /\ (forall k v, In (k, v) sol ->
          exists ds, get_dependencies idx k v = DAvailable ds
                  /\ forall k' rgs, In (k', rgs) ds ->
                       exists w, alookup k' sol = Some w /\ ranges_contain rgs w = true).

Definition pubgrub_complete (solve : index -> assignment -> manifest -> solve_result) : Prop :=
  forall idx locked man, solve idx locked man = NoSolution ->
    forall a, valid_solution idx man a = false.

(* a lock file's entries are keyed by their own bucket (resolve_with_lock builds them so) *)
Definition locked_wf (locked : assignment) : Prop :=
  forall k v, In (k, v) locked -> snd k = bucket_of_ver v.

(* the brute-force solver, as an instance of the oracle *)
Definition brute_solver (idx : index) (locked : assignment) (man : manifest) : solve_result :=
  match exists_solution idx man with
  | Some a => Solved a
  | None => NoSolution
  end.

(* restriction of an assignment to a list of keys (used by the completeness proof) *)
Fixpoint restrict (a : assignment) (ks : list key) : assignment :=
  match ks with
  | [] => []
  | k :: t =>
      match alookup k a with
      | Some v => (k, v) :: restrict a t
      | None => restrict a t
      end
  end.
