(* C20: facts about versions, buckets, ranges and the requirement matchers. *)
From Coq Require Import List NArith Bool String Ascii Lia ZifyBool ZifyN.
Import ListNotations.
From NV Require Import Pkg.Version.
Local Open Scope N_scope.

(* ------------------------------------------------------------------ order on strings *)

Lemma ascii_compare_N a b : Ascii.compare a b = N.compare (N_of_ascii a) (N_of_ascii b).
Proof. reflexivity. Qed.

Lemma ascii_compare_refl a : Ascii.compare a a = Eq.
Proof. rewrite ascii_compare_N. apply N.compare_refl. Qed.

Lemma ascii_compare_eq a b : Ascii.compare a b = Eq -> a = b.
Proof. apply Ascii.compare_eq_iff. Qed.

Lemma ascii_compare_lt_trans a b c :
  Ascii.compare a b = Lt -> Ascii.compare b c = Lt -> Ascii.compare a c = Lt.
Proof.
  rewrite !ascii_compare_N, !N.compare_lt_iff. lia.
Qed.

Lemma str_compare_refl s : String.compare s s = Eq.
Proof.
  induction s as [|a s IH]; cbn; [reflexivity|].
  rewrite ascii_compare_refl. exact IH.
Qed.

Lemma str_compare_eq s t : String.compare s t = Eq -> s = t.
Proof. apply String.compare_eq_iff. Qed.

Lemma str_compare_lt_trans : forall s t u,
  String.compare s t = Lt -> String.compare t u = Lt -> String.compare s u = Lt.
Proof.
  induction s as [|a s IH]; intros [|b t] [|c u]; cbn; try discriminate; try reflexivity.
  destruct (Ascii.compare a b) eqn:Hab; try discriminate.
  - apply ascii_compare_eq in Hab; subst b.
    destruct (Ascii.compare a c) eqn:Hac; try discriminate; try reflexivity.
    intros H1 H2. eapply IH; eauto.
  - intros _.
    destruct (Ascii.compare b c) eqn:Hbc; try discriminate.
    + apply ascii_compare_eq in Hbc; subst c. rewrite Hab. reflexivity.
    + intros _. rewrite (ascii_compare_lt_trans _ _ _ Hab Hbc). reflexivity.
Qed.

Lemma str_compare_antisym s t : String.compare t s = CompOpp (String.compare s t).
Proof. apply String.compare_antisym. Qed.

(* ------------------------------------------------------------------ order on versions *)

Lemma ver_compare_refl a : ver_compare a a = Eq.
Proof.
  unfold ver_compare. rewrite !N.compare_refl. apply str_compare_refl.
Qed.

Lemma ver_compare_eq a b : ver_compare a b = Eq -> a = b.
Proof.
  destruct a as [a1 a2 a3 a4], b as [b1 b2 b3 b4]. unfold ver_compare; cbn.
  destruct (N.compare a1 b1) eqn:H1; try discriminate.
  destruct (N.compare a2 b2) eqn:H2; try discriminate.
  destruct (N.compare a3 b3) eqn:H3; try discriminate.
  intros H4. apply N.compare_eq in H1, H2, H3. apply str_compare_eq in H4. congruence.
Qed.

Lemma ver_compare_antisym a b : ver_compare b a = CompOpp (ver_compare a b).
Proof.
  destruct a as [a1 a2 a3 a4], b as [b1 b2 b3 b4]. unfold ver_compare; cbn.
  rewrite (N.compare_antisym a1 b1), (N.compare_antisym a2 b2), (N.compare_antisym a3 b3),
    (str_compare_antisym a4 b4).
  destruct (N.compare a1 b1), (N.compare a2 b2), (N.compare a3 b3); reflexivity.
Qed.

Lemma ver_compare_lt_trans a b c :
  ver_compare a b = Lt -> ver_compare b c = Lt -> ver_compare a c = Lt.
Proof.
  destruct a as [a1 a2 a3 a4], b as [b1 b2 b3 b4], c as [c1 c2 c3 c4]. unfold ver_compare; cbn.
  destruct (N.compare a1 b1) eqn:H1; try discriminate.
  2:{ intros _. destruct (N.compare b1 c1) eqn:G1; try discriminate.
      - apply N.compare_eq in G1; subst. rewrite H1. reflexivity.
      - intros _. rewrite N.compare_lt_iff in *. assert (a1 < c1) by lia.
        rewrite <- N.compare_lt_iff in H. rewrite H. reflexivity. }
  apply N.compare_eq in H1; subst b1.
  destruct (N.compare a1 c1) eqn:G1; try discriminate; try reflexivity.
  destruct (N.compare a2 b2) eqn:H2; try discriminate.
  2:{ intros _. destruct (N.compare b2 c2) eqn:G2; try discriminate.
      - apply N.compare_eq in G2; subst. rewrite H2. reflexivity.
      - intros _. rewrite N.compare_lt_iff in *. assert (a2 < c2) by lia.
        rewrite <- N.compare_lt_iff in H. rewrite H. reflexivity. }
  apply N.compare_eq in H2; subst b2.
  destruct (N.compare a2 c2) eqn:G2; try discriminate; try reflexivity.
  destruct (N.compare a3 b3) eqn:H3; try discriminate.
  2:{ intros _. destruct (N.compare b3 c3) eqn:G3; try discriminate.
      - apply N.compare_eq in G3; subst. rewrite H3. reflexivity.
      - intros _. rewrite N.compare_lt_iff in *. assert (a3 < c3) by lia.
        rewrite <- N.compare_lt_iff in H. rewrite H. reflexivity. }
  apply N.compare_eq in H3; subst b3.
  destruct (N.compare a3 c3) eqn:G3; try discriminate; try reflexivity.
  apply str_compare_lt_trans.
Qed.

Lemma ver_eqb_eq a b : ver_eqb a b = true <-> a = b.
Proof.
  unfold ver_eqb. split.
  - destruct (ver_compare a b) eqn:H; try discriminate. intros _. now apply ver_compare_eq.
  - intros ->. now rewrite ver_compare_refl.
Qed.

Lemma ver_eqb_refl a : ver_eqb a a = true.
Proof. now apply ver_eqb_eq. Qed.

Lemma ver_eqb_sym a b : ver_eqb a b = ver_eqb b a.
Proof.
  destruct (ver_eqb a b) eqn:H.
  - apply ver_eqb_eq in H; subst. now rewrite ver_eqb_refl.
  - destruct (ver_eqb b a) eqn:G; [|reflexivity].
    apply ver_eqb_eq in G; subst. now rewrite ver_eqb_refl in H.
Qed.

Lemma ver_leb_refl a : ver_leb a a = true.
Proof. unfold ver_leb. now rewrite ver_compare_refl. Qed.

Lemma ver_leb_trans a b c : ver_leb a b = true -> ver_leb b c = true -> ver_leb a c = true.
Proof.
  unfold ver_leb.
  destruct (ver_compare a b) eqn:H1; try discriminate; intros _.
  - apply ver_compare_eq in H1; subst. tauto.
  - destruct (ver_compare b c) eqn:H2; try discriminate; intros _.
    + apply ver_compare_eq in H2; subst. now rewrite H1.
    + now rewrite (ver_compare_lt_trans _ _ _ H1 H2).
Qed.

Lemma ver_leb_antisym a b : ver_leb a b = true -> ver_leb b a = true -> a = b.
Proof.
  unfold ver_leb. rewrite (ver_compare_antisym a b).
  destruct (ver_compare a b) eqn:H; cbn; try discriminate.
  intros _ _. now apply ver_compare_eq.
Qed.

Lemma ver_leb_total a b : ver_leb a b = true \/ ver_leb b a = true.
Proof.
  unfold ver_leb. rewrite (ver_compare_antisym a b).
  destruct (ver_compare a b); cbn; auto.
Qed.

Lemma ver_ltb_leb a b : ver_ltb a b = true -> ver_leb a b = true.
Proof. unfold ver_ltb, ver_leb. destruct (ver_compare a b); congruence. Qed.

Lemma ver_ltb_not_leb a b : ver_ltb a b = true -> ver_leb b a = false.
Proof.
  unfold ver_ltb, ver_leb. rewrite (ver_compare_antisym a b).
  destruct (ver_compare a b); cbn; congruence.
Qed.

Lemma ver_ltb_irrefl a : ver_ltb a a = false.
Proof. unfold ver_ltb. now rewrite ver_compare_refl. Qed.

Lemma ver_leb_cases a b : ver_leb a b = true -> a = b \/ ver_ltb a b = true.
Proof.
  unfold ver_leb, ver_ltb. destruct (ver_compare a b) eqn:H; try discriminate; intros _.
  - left. now apply ver_compare_eq.
  - now right.
Qed.

(* ------------------------------------------------------------------ buckets *)

Lemma major_minor_wf M m : bucket_wf (major_minor M m) = true.
Proof. unfold major_minor. destruct (N.eqb M 0) eqn:E; cbn; [reflexivity|now rewrite E]. Qed.

Lemma bucket_of_ver_wf v : bucket_wf (bucket_of_ver v) = true.
Proof.
  unfold bucket_of_ver. destruct (is_release v) eqn:E; [apply major_minor_wf|].
  cbn. now rewrite E.
Qed.

Lemma bucket_of_req_wf r : bucket_wf (bucket_of_req r) = true.
Proof. destruct r; cbn; [apply major_minor_wf|apply bucket_of_ver_wf]. Qed.

Lemma bucket_of_ver_contains v : bucket_contains (bucket_of_ver v) v = true.
Proof.
  unfold bucket_of_ver, major_minor. destruct (is_release v) eqn:E.
  - destruct (N.eqb (vmaj v) 0) eqn:E0; cbn; rewrite ?E, ?E0, ?N.eqb_refl; reflexivity.
  - cbn. apply ver_eqb_refl.
Qed.

(* A version lies in exactly one constructible bucket: buckets partition the versions.  This is
   "one compatibility class per version", the fact that makes "one version per (package, bucket)"
   meaningful. *)
Lemma bucket_contains_unique b v :
  bucket_wf b = true -> bucket_contains b v = true -> b = bucket_of_ver v.
Proof.
  unfold bucket_of_ver, major_minor. destruct b as [m|m|w]; cbn; intros Hwf H.
  - apply andb_true_iff in H as [H1 H2]. rewrite H2. apply N.eqb_eq in H1; subst m.
    apply negb_true_iff in Hwf. now rewrite Hwf.
  - apply andb_true_iff in H as [H H3]. apply andb_true_iff in H as [H1 H2]. rewrite H3, H1.
    apply N.eqb_eq in H2. now subst.
  - apply ver_eqb_eq in H; subst w. apply negb_true_iff in Hwf. now rewrite Hwf.
Qed.

Lemma bucket_eqb_eq a b : bucket_eqb a b = true <-> a = b.
Proof.
  destruct a, b; cbn; try (split; [discriminate|congruence]).
  - rewrite N.eqb_eq. split; congruence.
  - rewrite N.eqb_eq. split; congruence.
  - rewrite ver_eqb_eq. split; congruence.
Qed.

Lemma bucket_eqb_refl a : bucket_eqb a a = true.
Proof. now apply bucket_eqb_eq. Qed.

(* ------------------------------------------------------------------ the views of a requirement *)

Definition solver_view (r : vreq) (v : ver) : bool :=
  bucket_contains (bucket_of_req r) v && range_contains (range_of_req r) v.

Lemma ver_leb_release_lb M m p v :
  is_release v = true ->
  ver_leb (V M m p EmptyString) v =
  (N.ltb M (vmaj v) || (N.eqb M (vmaj v) && pair_leb (m, p) (vmin v, vpat v))).
Proof.
  destruct v as [a b c s]; unfold is_release; cbn. destruct s; try discriminate. intros _.
  unfold ver_leb, ver_compare, pair_leb; cbn.
  destruct (N.compare M a) eqn:H1.
  - apply N.compare_eq in H1; subst. rewrite N.ltb_irrefl, N.eqb_refl. cbn.
    destruct (N.compare m b) eqn:H2.
    + apply N.compare_eq in H2; subst. rewrite N.ltb_irrefl, N.eqb_refl. cbn.
      destruct (N.compare p c) eqn:H3.
      * apply N.compare_eq in H3; subst. now rewrite N.leb_refl.
      * rewrite N.compare_lt_iff in H3. symmetry. apply N.leb_le. lia.
      * rewrite N.compare_gt_iff in H3. symmetry. apply N.leb_gt. lia.
    + rewrite N.compare_lt_iff in H2. assert (E: N.ltb m b = true) by (apply N.ltb_lt; lia).
      now rewrite E.
    + rewrite N.compare_gt_iff in H2.
      assert (E: N.ltb m b = false) by (apply N.ltb_ge; lia).
      assert (E': N.eqb m b = false) by (apply N.eqb_neq; lia). now rewrite E, E'.
  - rewrite N.compare_lt_iff in H1. assert (E: N.ltb M a = true) by (apply N.ltb_lt; lia).
    now rewrite E.
  - rewrite N.compare_gt_iff in H1.
    assert (E: N.ltb M a = false) by (apply N.ltb_ge; lia).
    assert (E': N.eqb M a = false) by (apply N.eqb_neq; lia). now rewrite E, E'.
Qed.

(* The solver's view (bucket + range) is exactly the repaired matcher ... *)
Lemma solver_view_is_matches_fix r v : solver_view r v = matches_fix r v.
Proof.
  unfold solver_view. destruct r as [M mi pa|w]; cbn.
  - unfold major_minor. destruct (is_release v) eqn:Hrel.
    2:{ destruct (N.eqb M 0); cbn; rewrite Hrel, ?andb_false_r; reflexivity. }
    rewrite (ver_leb_release_lb _ _ _ _ Hrel). unfold pair_leb; cbn [fst snd].
    destruct (N.eqb M 0) eqn:E0; cbn; rewrite Hrel; lia.
  - unfold bucket_of_ver. rewrite (ver_eqb_sym v w).
    destruct (ver_eqb w v) eqn:E; [|now rewrite andb_false_r].
    apply ver_eqb_eq in E; subst w. rewrite andb_true_r.
    fold (bucket_of_ver v). apply bucket_of_ver_contains.
Qed.

(* ... and exactly the property's words. *)
Lemma solver_view_is_satisfies r v : solver_view r v = satisfies r v.
Proof.
  rewrite solver_view_is_matches_fix.
  destruct r as [M mi pa|w]; cbn; [|reflexivity].
  destruct (is_release v) eqn:Hrel; cbn; [|reflexivity].
  unfold lower_bound. rewrite (ver_leb_release_lb _ _ _ _ Hrel).
  unfold compat_class, class_eqb, pair_leb; cbn [vmaj vmin vpat fst snd].
  destruct (N.eqb M 0) eqn:E0; destruct (N.eqb (vmaj v) 0) eqn:E1; cbn [fst snd negb orb]; lia.
Qed.

(* The matcher of the unchanged tree accepts every version of the solver's view EXCEPT in the
   `major.minor.patch` form with a different minor (class A of the known finding) ... *)
Lemma matches_cur_of_solver_view r v :
  solver_view r v = true -> matches_cur r v = negb (minor_gap r v).
Proof.
  rewrite solver_view_is_matches_fix.
  destruct r as [M mi pa|w]; cbn; [|now intros ->].
  unfold pair_leb; cbn [fst snd].
  destruct mi as [m|], pa as [p|]; cbn [dflt]; lia.
Qed.

(* ... and it ignores `pre`, so it also accepts versions outside the solver's view (class B). *)

(* Non-vacuity / witnesses *)
Definition v_ (a b c : N) : ver := V a b c EmptyString.
Definition vp (a b c : N) (s : string) : ver := V a b c s.

Example views_example_0x : solver_view (RCompat 0 (Some 2) None) (v_ 0 2 7) = true
  /\ solver_view (RCompat 0 (Some 2) None) (v_ 0 3 0) = false
  /\ solver_view (RCompat 0 None None) (v_ 0 0 9) = true
  /\ solver_view (RCompat 0 None None) (v_ 0 1 0) = false
  /\ solver_view (RCompat 1 (Some 2) (Some 3)) (v_ 1 3 0) = true
  /\ solver_view (RCompat 1 None None) (vp 1 0 0 "alpha") = false
  /\ solver_view (RExact (vp 1 0 0 "alpha")) (vp 1 0 0 "alpha") = true.
Proof. vm_compute. repeat split. Qed.

(* The suspected defect, on the model of the unchanged code: requirement 1.2.3, version 1.3.0 is
   in the bucket and in the solver range (the manual: "if you specify 1.2.3, you could end up with
   1.2.5 or 1.3.0"), yet the post-resolution matcher rejects it. *)
Lemma req_views_agree_cur_refuted :
  exists r v, bucket_contains (bucket_of_req r) v = true
           /\ range_contains (range_of_req r) v = true
           /\ satisfies r v = true
           /\ matches_cur r v = false.
Proof. exists (RCompat 1 (Some 2) (Some 3)), (v_ 1 3 0). vm_compute. repeat split. Qed.

(* Second class: the matcher of the unchanged code accepts a prerelease for a compatible
   requirement although neither the bucket nor the property's words allow it. *)
Lemma req_views_agree_cur_pre_refuted :
  exists r v, matches_cur r v = true
           /\ bucket_contains (bucket_of_req r) v = false
           /\ satisfies r v = false.
Proof. exists (RCompat 1 None None), (vp 1 0 0 "alpha"). vm_compute. repeat split. Qed.

(* Documentation remark, not a claimed violation: under Cargo's 0.0.x convention (quoted by the
   manual's footnote) 0.0.3 and 0.0.4 are incompatible, while all three views of the code accept
   0.0.4 for the requirement 0.0.3. *)
Lemma cargo_00x_differs :
  exists r v, solver_view r v = true /\ matches_cur r v = true
           /\ cargo_class (lower_bound 0 (Some 0) (Some 3)) <> cargo_class v /\ r = RCompat 0 (Some 0) (Some 3).
Proof.
  exists (RCompat 0 (Some 0) (Some 3)), (v_ 0 0 4). vm_compute. repeat split. discriminate.
Qed.

(* ------------------------------------------------------------------ statements used by Props/C20.v *)

Lemma req_views_agree r v :
  (bucket_contains (bucket_of_req r) v && range_contains (range_of_req r) v) = satisfies r v
  /\ satisfies r v = matches_fix r v.
Proof.
  split.
  - apply solver_view_is_satisfies.
  - rewrite <- solver_view_is_satisfies. apply solver_view_is_matches_fix.
Qed.

Lemma matches_cur_on_satisfies r v :
  satisfies r v = true -> matches_cur r v = negb (minor_gap r v).
Proof. rewrite <- solver_view_is_satisfies. apply matches_cur_of_solver_view. Qed.
