(* C20: the executable checker is equivalent to the declarative spec; the brute-force solver is
   sound and complete; an oracle meeting the pubgrub contract only returns valid assignments;
   hence the lookup theorems apply to every answer of such an oracle. *)
From Coq Require Import List NArith Bool String Lia Sorted.
Import ListNotations.
From NV Require Import Pkg.Version Pkg.VersionProofs Pkg.Resolve Pkg.ResolveProofs Pkg.Spec.
Local Open Scope N_scope.

(* ------------------------------------------------------------------ small facts *)

Lemma req_bucket_of_sat r w : satisfies r w = true -> bucket_of_req r = bucket_of_ver w.
Proof.
  rewrite <- solver_view_is_satisfies. unfold solver_view. intros H.
  apply andb_true_iff in H as [H _]. exact (bucket_contains_unique _ _ (bucket_of_req_wf r) H).
Qed.

Lemma sat_range r w : satisfies r w = true -> range_contains (range_of_req r) w = true.
Proof.
  rewrite <- solver_view_is_satisfies. unfold solver_view. intros H.
  now apply andb_true_iff in H as [_ H].
Qed.

Lemma sat_of_bucket_range r w :
  bucket_contains (bucket_of_req r) w = true -> range_contains (range_of_req r) w = true ->
  satisfies r w = true.
Proof.
  intros H1 H2. rewrite <- solver_view_is_satisfies. unfold solver_view. now rewrite H1, H2.
Qed.

Lemma deps_of_some idx id v ds :
  deps_of idx id v = Some ds -> exists p, In p idx /\ pid p = id /\ pver p = v /\ pdeps p = ds.
Proof.
  unfold deps_of. destruct (find _ idx) as [p|] eqn:Hf; [|discriminate].
  intros [= <-]. apply find_some in Hf as [Hin Hc]. apply andb_true_iff in Hc as [H1 H2].
  apply N.eqb_eq in H1. apply ver_eqb_eq in H2. eauto.
Qed.

Lemma deps_of_versions idx id v ds : deps_of idx id v = Some ds -> In v (versions idx id).
Proof.
  intros H. apply deps_of_some in H as (p & Hin & Hid & Hv & _). unfold versions.
  apply sort_vers_In, in_map_iff. exists p. split; auto. apply filter_In. split; auto.
  now apply N.eqb_eq.
Qed.

Lemma deps_of_all_deps idx man id v ds d :
  deps_of idx id v = Some ds -> In d ds -> In d (all_deps idx man).
Proof.
  intros H Hd. apply deps_of_some in H as (p & Hin & _ & _ & Hds). subst ds.
  unfold all_deps. apply in_or_app. right. apply in_flat_map. eauto.
Qed.

(* ------------------------------------------------------------------ checker <-> spec *)

Theorem checker_correct idx man a :
  valid_solution idx man a = true
  <-> keys_nodup a = true /\ Valid idx man (fun k => alookup k a).
Proof.
  split.
  - intros Hv. destruct (valid_parts _ _ _ Hv) as (Hnd & Hroot & Hent). split; [exact Hnd|].
    assert (Hsat : forall d, dep_ok a d = true -> dep_sat (fun k => alookup k a) d).
    { intros d Hok. destruct (dep_ok_parts _ _ Hok) as (w & Hl & Hr). exists w.
      destruct (entry_ok_parts _ _ _ _ (Hent _ (alookup_In _ _ _ Hl))) as (_ & Hbc & _).
      cbn in Hbc. pose proof (sat_of_bucket_range _ _ Hbc Hr) as Hs. split; [|exact Hs].
      rewrite <- (req_bucket_of_sat _ _ Hs). exact Hl. }
    constructor.
    + intros k v Hl. destruct (entry_ok_parts _ _ _ _ (Hent _ (alookup_In _ _ _ Hl))) as (Hwf & Hbc & _).
      now apply bucket_contains_unique.
    + intros k v Hl. destruct (entry_ok_parts _ _ _ _ (Hent _ (alookup_In _ _ _ Hl))) as (_ & _ & ds & Hds & _).
      eauto.
    + intros d Hd. apply Hsat. auto.
    + intros k v ds d Hl Hds Hd.
      destruct (entry_ok_parts _ _ _ _ (Hent _ (alookup_In _ _ _ Hl))) as (_ & _ & ds' & Hds' & Hall).
      rewrite Hds in Hds'. injection Hds' as <-. apply Hsat. auto.
  - intros [Hnd [Hcl Hix Hroot Hdeps]].
    assert (Hok : forall d, dep_sat (fun k => alookup k a) d -> dep_ok a d = true).
    { intros d (w & Hl & Hs). unfold dep_ok, dep_key. rewrite (req_bucket_of_sat _ _ Hs), Hl.
      now apply sat_range. }
    unfold valid_solution. rewrite Hnd. cbn. apply andb_true_iff. split.
    + apply forallb_forall. intros d Hd. apply Hok. auto.
    + apply forallb_forall. intros [k v] Hin. pose proof (alookup_nodup _ _ _ Hnd Hin) as Hl.
      unfold entry_ok. cbn. rewrite (Hcl _ _ Hl), bucket_of_ver_wf, bucket_of_ver_contains. cbn.
      destruct (Hix _ _ Hl) as (ds & Hds). rewrite Hds. apply forallb_forall. intros d Hd.
      apply Hok. eapply Hdeps; eauto.
Qed.

(* the property's conclusion, read off the spec: one version per package and class *)
Lemma Valid_one_per_class idx man A id x y :
  Valid idx man A -> A (id, bucket_of_ver x) = Some x -> A (id, bucket_of_ver y) = Some y ->
  bucket_of_ver x = bucket_of_ver y -> x = y.
Proof. intros _ Hx Hy Hb. rewrite Hb in Hx. congruence. Qed.

(* ------------------------------------------------------------------ brute force *)

Lemma nodup_keys_In k l : In k (nodup_keys l) <-> In k l.
Proof.
  induction l as [|x t IH]; cbn; [tauto|].
  destruct (existsb (key_eqb x) t) eqn:E.
  - rewrite IH. split; [auto|]. intros [->|H]; [|exact H].
    apply existsb_exists in E as (y & Hy & Hxy). apply key_eqb_eq in Hxy. now subst.
  - cbn. rewrite IH. tauto.
Qed.

Lemma nodup_keys_NoDup l : NoDup (nodup_keys l).
Proof.
  induction l as [|x t IH]; cbn; [constructor|].
  destruct (existsb (key_eqb x) t) eqn:E; [exact IH|].
  constructor; [|exact IH]. rewrite nodup_keys_In. intros Hin.
  assert (existsb (key_eqb x) t = true) by (apply existsb_exists; exists x; split; auto; apply key_eqb_refl).
  congruence.
Qed.

Lemma restrict_In a ks k v : In (k, v) (restrict a ks) -> In k ks /\ alookup k a = Some v.
Proof.
  induction ks as [|x t IH]; cbn; [intros []|].
  destruct (alookup x a) as [w|] eqn:E.
  - intros [[= -> ->]|H]; [split; auto|]. destruct (IH H). auto.
  - intros H. destruct (IH H). auto.
Qed.

Lemma alookup_restrict_in a ks k : In k ks -> alookup k (restrict a ks) = alookup k a.
Proof.
  induction ks as [|x t IH]; [intros []|]. cbn.
  destruct (key_eqb k x) eqn:E.
  - apply key_eqb_eq in E; subst x. intros _.
    destruct (alookup k a) as [w|] eqn:El.
    + cbn. now rewrite key_eqb_refl.
    + destruct (alookup k (restrict a t)) as [w|] eqn:Er; [|reflexivity].
      apply alookup_In, restrict_In in Er as [_ Er]. congruence.
  - intros [->|Hin]; [rewrite key_eqb_refl in E; discriminate|].
    destruct (alookup x a) as [w|]; cbn; [rewrite E|]; auto.
Qed.

Lemma alookup_restrict_notin a ks k : ~ In k ks -> alookup k (restrict a ks) = None.
Proof.
  intros Hn. apply alookup_None. intros v Hin. apply restrict_In in Hin as [Hin _]. contradiction.
Qed.

Lemma restrict_nodup a ks : NoDup ks -> keys_nodup (restrict a ks) = true.
Proof.
  induction 1 as [|x t Hx Hnd IH]; cbn; [reflexivity|].
  destruct (alookup x a) as [w|]; [|exact IH].
  apply keys_nodup_cons. split; [|exact IH].
  intros v Hin. apply restrict_In in Hin as [Hin _]. contradiction.
Qed.

Lemma restrict_in_enum idx a ks :
  (forall k v, alookup k a = Some v -> In v (cand_versions idx k)) ->
  In (restrict a ks) (enum idx ks).
Proof.
  intros Hc. induction ks as [|k t IH]; cbn; [now left|].
  apply in_or_app. destruct (alookup k a) as [v|] eqn:E; [right|now left].
  apply in_flat_map. exists v. split; [now apply Hc|]. now apply in_map.
Qed.

Lemma valid_restrict idx man a :
  valid_solution idx man a = true ->
  valid_solution idx man (restrict a (cand_keys idx man)) = true.
Proof.
  intros Hv. destruct (valid_parts _ _ _ Hv) as (Hnd & Hroot & Hent).
  set (ks := cand_keys idx man).
  assert (Hkey : forall d, In d (all_deps idx man) -> In (dep_key d) ks).
  { intros d Hd. unfold ks, cand_keys. apply nodup_keys_In, in_map. exact Hd. }
  assert (Hdep : forall d, In d (all_deps idx man) -> dep_ok a d = true -> dep_ok (restrict a ks) d = true).
  { intros d Hd Hok. unfold dep_ok in *. now rewrite (alookup_restrict_in _ _ _ (Hkey _ Hd)). }
  unfold valid_solution. rewrite (restrict_nodup a ks (nodup_keys_NoDup _)). cbn.
  apply andb_true_iff. split; apply forallb_forall.
  - intros d Hd. apply Hdep; [|auto]. unfold all_deps. apply in_or_app. now left.
  - intros [k v] Hin. apply restrict_In in Hin as [Hk Hl].
    destruct (entry_ok_parts _ _ _ _ (Hent _ (alookup_In _ _ _ Hl))) as (Hwf & Hbc & ds & Hds & Hall).
    unfold entry_ok. cbn. rewrite Hwf, Hbc, Hds. cbn. apply forallb_forall. intros d Hd.
    apply Hdep; [|auto]. eapply deps_of_all_deps; eauto.
Qed.

Theorem exists_solution_sound idx man a :
  exists_solution idx man = Some a -> valid_solution idx man a = true.
Proof. unfold exists_solution. intros H. now apply find_some in H. Qed.

Theorem exists_solution_complete idx man :
  exists_solution idx man = None -> forall a, valid_solution idx man a = false.
Proof.
  unfold exists_solution. intros Hnone a.
  destruct (valid_solution idx man a) eqn:Hv; [exfalso|reflexivity].
  pose proof (valid_restrict _ _ _ Hv) as Hv'.
  assert (Hin : In (restrict a (cand_keys idx man)) (enum idx (cand_keys idx man))).
  { apply restrict_in_enum. intros k v Hl.
    destruct (valid_parts _ _ _ Hv) as (_ & _ & Hent).
    destruct (entry_ok_parts _ _ _ _ (Hent _ (alookup_In _ _ _ Hl))) as (_ & Hbc & ds & Hds & _).
    unfold cand_versions. apply filter_In. split; [|exact Hbc]. eapply deps_of_versions; eauto. }
  pose proof (find_none _ _ Hnone _ Hin). congruence.
Qed.

Corollary exists_solution_iff idx man :
  exists_solution idx man = None <-> forall a, valid_solution idx man a = false.
Proof.
  split; [apply exists_solution_complete|].
  intros H. destruct (exists_solution idx man) as [a|] eqn:E; [|reflexivity].
  apply exists_solution_sound in E. rewrite H in E. discriminate.
Qed.

(* in terms of the declarative spec *)
Corollary no_solution_spec idx man :
  exists_solution idx man = None ->
  forall a, keys_nodup a = true -> ~ Valid idx man (fun k => alookup k a).
Proof.
  intros H a Hnd HV. pose proof (exists_solution_complete _ _ H a) as Hf.
  assert (valid_solution idx man a = true) by (apply checker_correct; auto). congruence.
Qed.

(* ------------------------------------------------------------------ the provider *)

Lemma has_version_deps idx id v : has_version idx id v = true -> exists ds, deps_of idx id v = Some ds.
Proof.
  unfold has_version, deps_of. intros H. apply existsb_exists in H as (p & Hin & Hp).
  destruct (find _ idx) as [q|] eqn:Hf; [eauto|]. pose proof (find_none _ _ Hf _ Hin). congruence.
Qed.

(* what choose_version returns lies in the package's bucket *)
Lemma choose_version_bucket idx locked k rgs v :
  locked_wf locked -> bucket_wf (snd k) = true ->
  choose_version idx locked k rgs = Some v -> bucket_contains (snd k) v = true.
Proof.
  intros Hlw Hwf. unfold choose_version.
  assert (Hfb : match snd k with
                | BPre u => if has_version idx (fst k) u then Some u else None
                | b => find (fun x => bucket_contains b x && ranges_contain rgs x) (versions idx (fst k))
                end = Some v -> bucket_contains (snd k) v = true).
  { destruct (snd k) as [m|m|u] eqn:Eb.
    - intros H. apply find_some in H as [_ H]. now apply andb_true_iff in H as [H _].
    - intros H. apply find_some in H as [_ H]. now apply andb_true_iff in H as [H _].
    - destruct (has_version idx (fst k) u); [|discriminate]. intros [= <-]. cbn. apply ver_eqb_refl. }
  destruct (alookup k locked) as [lv|] eqn:El; [|exact Hfb].
  destruct (ranges_contain rgs lv); [|exact Hfb].
  intros [= <-]. apply alookup_In in El. rewrite (Hlw _ _ El). apply bucket_of_ver_contains.
Qed.

Lemma locked_of_wf entries : locked_wf (locked_of entries).
Proof.
  unfold locked_wf, locked_of. intros k v Hin. apply in_map_iff in Hin as (e & [= <- <-] & _).
  reflexivity.
Qed.

(* collect_intersections keeps every constraint *)
Definition covers (m : list (key * list range)) (k : key) (rg : range) : Prop :=
  exists rgs, In (k, rgs) m /\ In rg rgs.

Lemma add_range_covers_new k rg m : covers (add_range k rg m) k rg.
Proof.
  induction m as [|[k' rs] t IH]; cbn.
  - exists [rg]. split; now left.
  - destruct (key_eqb k k') eqn:E.
    + apply key_eqb_eq in E; subst. exists (rg :: rs). split; now left.
    + destruct IH as (rgs & H1 & H2). exists rgs. split; [now right|exact H2].
Qed.

Lemma add_range_covers_old k rg m k0 rg0 : covers m k0 rg0 -> covers (add_range k rg m) k0 rg0.
Proof.
  induction m as [|[k' rs] t IH]; cbn; intros (rgs & H1 & H2); [destruct H1|].
  destruct (key_eqb k k') eqn:E.
  - destruct H1 as [[= <- <-]|H1].
    + exists (rg :: rs). split; [now left|now right].
    + exists rgs. split; [now right|exact H2].
  - destruct H1 as [[= <- <-]|H1].
    + exists rs. split; [now left|exact H2].
    + destruct IH as (rgs' & H1' & H2'); [exists rgs; auto|]. exists rgs'. split; [now right|exact H2'].
Qed.

Lemma collect_intersections_covers l k rg : In (k, rg) l -> covers (collect_intersections l) k rg.
Proof.
  unfold collect_intersections.
  assert (G : forall m, (In (k, rg) l \/ covers m k rg) ->
                        covers (fold_left (fun m kr => add_range (fst kr) (snd kr) m) l m) k rg).
  { induction l as [|[k' rg'] t IH]; cbn; intros m [H|H]; try tauto.
    - destruct H as [[= -> ->]|H].
      + apply IH. right. apply add_range_covers_new.
      + apply IH. now left.
    - apply IH. right. now apply add_range_covers_old. }
  intros H. apply G. now left.
Qed.

(* ------------------------------------------------------------------ oracle answers are valid *)

Section Oracle.
  Variable solve : index -> assignment -> manifest -> solve_result.
  Hypothesis solve_sound : pubgrub_sound solve.

  Lemma oracle_answer_valid idx entries man sol :
    solve idx (locked_of entries) man = Solved sol -> valid_solution idx man sol = true.
  Proof.
    intros Hs. destruct (solve_sound _ _ _ _ Hs) as (Hnd & Hintro & Hchoose & Hroot & Hdeps).
    assert (Hdep : forall (l : list dep) d,
               (forall k rgs, In (k, rgs) (collect_intersections (map dep_key_range l)) ->
                              exists w, alookup k sol = Some w /\ ranges_contain rgs w = true) ->
               In d l -> dep_ok sol d = true).
    { intros l d H Hd.
      destruct (collect_intersections_covers (map dep_key_range l) (dep_key d) (range_of_req (dreq d)))
        as (rgs & Hin & Hrg).
      { apply in_map_iff. exists d. split; [reflexivity|exact Hd]. }
      destruct (H _ _ Hin) as (w & Hl & Hc). unfold dep_ok. rewrite Hl.
      unfold ranges_contain in Hc. rewrite forallb_forall in Hc. now apply Hc. }
    unfold valid_solution. rewrite Hnd. cbn. apply andb_true_iff. split; apply forallb_forall.
    - intros d Hd. eapply Hdep; [|exact Hd]. exact Hroot.
    - intros [k v] Hin. unfold entry_ok. cbn.
      destruct (Hintro _ _ Hin) as (d0 & _ & ->).
      destruct (Hchoose _ _ Hin) as (rgs & Hc).
      pose proof (choose_version_bucket idx _ (dep_key d0) rgs v (locked_of_wf entries)
                    (bucket_of_req_wf (dreq d0)) Hc) as Hbc.
      unfold dep_key in *. cbn [fst snd] in *.
      rewrite bucket_of_req_wf, Hbc. cbn [andb].
      destruct (Hdeps _ _ Hin) as (ds & Hg & Hall). unfold get_dependencies in Hg. cbn [fst snd] in Hg.
      destruct (deps_of idx (dpkg d0) v) as [dl|]; [|discriminate].
      set (k0 := (dpkg d0, bucket_of_req (dreq d0))) in *.
      destruct (forallb _ (filter (fun e => key_eqb (fst e) k0) _)) eqn:Hself; [|discriminate].
      injection Hg as <-.
      apply forallb_forall. intros d Hd. eapply Hdep; [|exact Hd].
      intros k rgs' Hk. destruct (key_eqb k k0) eqn:Ek.
      + (* a dependency on the version's own bucket: met by the version itself *)
        apply key_eqb_eq in Ek. subst k. exists v. split; [now apply alookup_nodup|].
        rewrite forallb_forall in Hself. apply (Hself (k0, rgs')).
        apply filter_In. split; [exact Hk|]. apply key_eqb_refl.
      + apply Hall. apply filter_In. split; [exact Hk|]. cbn. now rewrite Ek.
  Qed.

  (* T0 lookup_total_and_right, repaired matcher *)
  Theorem oracle_lookup_fix idx entries man sol d :
    solve idx (locked_of entries) man = Solved sol -> edge idx man sol d ->
    exists w, index_dep_version matches_fix (index_packages sol) d = Some w
           /\ alookup (dep_key d) sol = Some w
           /\ satisfies (dreq d) w = true.
  Proof. intros Hs. apply lookup_fix_right. eapply oracle_answer_valid; eauto. Qed.

  (* T0 lookup_total_and_right, unchanged matcher: exactly outside the known class *)
  Theorem oracle_lookup_cur idx entries man sol d :
    solve idx (locked_of entries) man = Solved sol -> edge idx man sol d ->
    exists w, alookup (dep_key d) sol = Some w
           /\ satisfies (dreq d) w = true
           /\ (index_dep_version matches_cur (index_packages sol) d = Some w
               <-> known_class (index_packages sol) d w = false).
  Proof.
    intros Hs He. pose proof (oracle_answer_valid _ _ _ _ Hs) as Hv.
    destruct (edge_assigned _ _ _ _ Hv He) as (w & Hl & _ & Hsat & _).
    exists w. repeat split; auto; now apply (lookup_cur_iff _ _ _ _ _ Hv He Hl).
  Qed.

  Theorem oracle_one_version_per_class idx entries man sol id x y :
    solve idx (locked_of entries) man = Solved sol ->
    In x (vers_of sol id) -> In y (vers_of sol id) -> bucket_of_ver x = bucket_of_ver y -> x = y.
  Proof. intros Hs. eapply one_version_per_class. eapply oracle_answer_valid; eauto. Qed.
End Oracle.

(* ------------------------------------------------------------------ the contract is satisfiable *)

Lemma choose_version_single idx locked k v :
  In v (versions idx (fst k)) -> bucket_contains (snd k) v = true ->
  choose_version idx locked k [RgSingle v] = Some v.
Proof.
  intros Hin Hbc. unfold choose_version.
  assert (Hfb : match snd k with
                | BPre u => if has_version idx (fst k) u then Some u else None
                | b => find (fun x => bucket_contains b x && ranges_contain [RgSingle v] x) (versions idx (fst k))
                end = Some v).
  { assert (Hfind : forall b, bucket_contains b v = true ->
        find (fun x => bucket_contains b x && ranges_contain [RgSingle v] x) (versions idx (fst k)) = Some v).
    { intros b Hb. destruct (find _ (versions idx (fst k))) as [x|] eqn:Hf.
      - apply find_some in Hf as [_ Hx]. apply andb_true_iff in Hx as [_ Hx]. cbn in Hx.
        rewrite andb_true_r in Hx. apply ver_eqb_eq in Hx. now subst.
      - pose proof (find_none _ _ Hf _ Hin) as Hn. cbn in Hn. rewrite Hb, ver_eqb_refl in Hn. discriminate. }
    destruct (snd k) as [m|m|u] eqn:Eb; [now apply Hfind|now apply Hfind|].
    cbn in Hbc. apply ver_eqb_eq in Hbc; subst u.
    assert (has_version idx (fst k) v = true) as ->; [|reflexivity].
    unfold has_version. unfold versions in Hin. apply sort_vers_In, in_map_iff in Hin as (p & Hp & Hin).
    apply filter_In in Hin as [Hin Hid]. apply existsb_exists. exists p. split; [exact Hin|].
    now rewrite Hid, Hp, ver_eqb_refl. }
  destruct (alookup k locked) as [lv|]; [|exact Hfb].
  cbn. rewrite andb_true_r. destruct (ver_eqb v lv) eqn:E; [|exact Hfb].
  apply ver_eqb_eq in E. now subst.
Qed.

Lemma enum_keys idx ks a k v : In a (enum idx ks) -> In (k, v) a -> In k ks.
Proof.
  revert a. induction ks as [|x t IH]; cbn; intros a Ha Hin.
  - destruct Ha as [<-|[]]. destruct Hin.
  - apply in_app_or in Ha as [Ha|Ha]; [right; eauto|].
    apply in_flat_map in Ha as (w & _ & Ha). apply in_map_iff in Ha as (r & <- & Hr).
    destruct Hin as [[= <- <-]|Hin]; [now left|right; eauto].
Qed.

Lemma add_range_sound k rg m k0 rgs0 rg0 :
  In (k0, rgs0) (add_range k rg m) -> In rg0 rgs0 ->
  (k0 = k /\ rg0 = rg) \/ exists rgs', In (k0, rgs') m /\ In rg0 rgs'.
Proof.
  induction m as [|[k2 rs] t IH]; cbn.
  - intros [[= <- <-]|[]] [<-|[]]. now left.
  - destruct (key_eqb k k2) eqn:E.
    + apply key_eqb_eq in E; subst k2. intros [[= <- <-]|Hin] Hrg.
      * destruct Hrg as [<-|Hrg]; [now left|]. right. exists rs. split; [now left|exact Hrg].
      * right. exists rgs0. split; [now right|exact Hrg].
    + intros [[= <- <-]|Hin] Hrg.
      * right. exists rs. split; [now left|exact Hrg].
      * destruct (IH Hin Hrg) as [H|(r & H1 & H2)]; [now left|].
        right. exists r. split; [now right|exact H2].
Qed.

Lemma collect_intersections_sound l k rgs rg :
  In (k, rgs) (collect_intersections l) -> In rg rgs -> In (k, rg) l.
Proof.
  unfold collect_intersections.
  assert (G : forall m, In (k, rgs) (fold_left (fun m kr => add_range (fst kr) (snd kr) m) l m) ->
                        In rg rgs -> In (k, rg) l \/ exists rgs', In (k, rgs') m /\ In rg rgs').
  { induction l as [|[k' rg'] t IH]; cbn; intros m Hin Hrg.
    - right. eauto.
    - destruct (IH _ Hin Hrg) as [H|(r & H1 & H2)]; [left; now right|].
      destruct (add_range_sound _ _ _ _ _ _ H1 H2) as [[-> ->]|H]; [left; now left|now right]. }
  intros Hin Hrg. destruct (G [] Hin Hrg) as [H|(r & [] & _)]. exact H.
Qed.

(* The contract has a model: the brute-force solver meets it (so the theorems of the Oracle
   section are not vacuous), for every lock file. *)
Theorem brute_solver_meets_contract : pubgrub_sound brute_solver /\ pubgrub_complete brute_solver.
Proof.
  split.
  - intros idx locked man sol Hs. unfold brute_solver in Hs.
    destruct (exists_solution idx man) as [a|] eqn:E; [|discriminate]. injection Hs as <-.
    pose proof (exists_solution_sound _ _ _ E) as Hv.
    destruct (valid_parts _ _ _ Hv) as (Hnd & Hroot & Hent).
    assert (Hranges : forall (l : list dep) k rgs,
               (forall d, In d l -> dep_ok a d = true) ->
               In (k, rgs) (collect_intersections (map dep_key_range l)) -> rgs <> [] ->
               exists w, alookup k a = Some w /\ ranges_contain rgs w = true).
    { intros l k rgs Hall Hin Hne. destruct rgs as [|rg0 rest]; [congruence|].
      pose proof (collect_intersections_sound _ _ _ rg0 Hin (or_introl eq_refl)) as H0.
      apply in_map_iff in H0 as (d0 & [= <- <-] & Hd0).
      destruct (dep_ok_parts _ _ (Hall _ Hd0)) as (w & Hl & _). exists w. split; [exact Hl|].
      unfold ranges_contain. apply forallb_forall. intros rg Hrg.
      pose proof (collect_intersections_sound _ _ _ rg Hin Hrg) as H1.
      apply in_map_iff in H1 as (d1 & Heq & Hd1). unfold dep_key_range in Heq.
      assert (Hk : dep_key d1 = dep_key d0) by congruence.
      assert (Hr : range_of_req (dreq d1) = rg) by congruence.
      pose proof (Hall _ Hd1) as Hok. unfold dep_ok in Hok. rewrite Hk, Hl, Hr in Hok. exact Hok. }
    assert (Hnonempty : forall l k rgs, In (k, rgs) (collect_intersections l) -> rgs <> []).
    { unfold collect_intersections. intros l.
      assert (G : forall m, (forall k rgs, In (k, rgs) m -> rgs <> []) ->
                 forall k rgs, In (k, rgs) (fold_left (fun m kr => add_range (fst kr) (snd kr) m) l m) -> rgs <> []).
      { induction l as [|[k' rg'] t IH]; cbn; intros m Hm; [exact Hm|].
        apply IH. clear IH. induction m as [|[k2 rs] t2 IHm]; cbn.
        - intros k rgs [[= <- <-]|[]]. discriminate.
        - destruct (key_eqb k' k2).
          + intros k rgs [[= <- <-]|H]; [discriminate|]. eapply Hm. right. exact H.
          + intros k rgs [[= <- <-]|H]; [eapply Hm; now left|].
            eapply IHm; [|exact H]. intros k0 r0 H0. eapply Hm. right. exact H0. }
      apply G. intros k rgs []. }
    repeat split.
    + exact Hnd.
    + intros k v Hin. unfold exists_solution in E. apply find_some in E as [E _].
      pose proof (enum_keys _ _ _ _ _ E Hin) as Hk. unfold cand_keys in Hk.
      apply nodup_keys_In, in_map_iff in Hk as (d & <- & Hd). eauto.
    + intros k v Hin. exists [RgSingle v].
      destruct (entry_ok_parts _ _ _ _ (Hent _ Hin)) as (_ & Hbc & ds & Hds & _).
      apply choose_version_single; [eapply deps_of_versions; eauto|exact Hbc].
    + intros k rgs Hin. eapply Hranges; eauto.
    + intros k v Hin. destruct (entry_ok_parts _ _ _ _ (Hent _ Hin)) as (_ & _ & ds & Hds & Hall).
      exists (filter (fun e => negb (key_eqb (fst e) k)) (collect_intersections (map dep_key_range ds))).
      split.
      * unfold get_dependencies. rewrite Hds.
        assert (forallb (fun e => ranges_contain (snd e) v)
                  (filter (fun e => key_eqb (fst e) k) (collect_intersections (map dep_key_range ds))) = true)
          as ->; [|reflexivity].
        apply forallb_forall. intros [k' rgs] Hf. apply filter_In in Hf as [Hf Hk]. cbn in Hk.
        apply key_eqb_eq in Hk. subst k'. cbn.
        destruct (Hranges ds k rgs Hall Hf (Hnonempty _ _ _ Hf)) as (w & Hl & Hc).
        rewrite (alookup_nodup _ _ _ Hnd Hin) in Hl. now injection Hl as <-.
      * intros k' rgs Hin'. apply filter_In in Hin' as [Hin' _]. eapply Hranges; eauto.
  - intros idx locked man Hs a. unfold brute_solver in Hs.
    destruct (exists_solution idx man) as [a'|] eqn:E; [discriminate|].
    now apply exists_solution_complete.
Qed.
