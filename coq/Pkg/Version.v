(* C20 model, part 1: versions, requirements, buckets, ranges, the two requirement matchers.
   Mirrors /repo/package/src/version.rs and the bucket/range part of resolve.rs.
   Definitions only (proofs are in VersionProofs.v). *)
From Coq Require Import List NArith Bool String Ascii.
Import ListNotations.
Local Open Scope N_scope.

(* ---- version.rs: SemVer.  `#[derive(Ord)]` = lexicographic on (major, minor, patch, pre) with
   `pre : String` compared byte-wise; note that the empty prerelease is the SMALLEST one, so
   1.0.0 < 1.0.0-alpha in this order (the opposite of semver.org precedence). *)
Record ver := V { vmaj : N; vmin : N; vpat : N; vpre : string }.

Definition ver_compare (a b : ver) : comparison :=
  match N.compare (vmaj a) (vmaj b) with
  | Eq => match N.compare (vmin a) (vmin b) with
          | Eq => match N.compare (vpat a) (vpat b) with
                  | Eq => String.compare (vpre a) (vpre b)
                  | c => c
                  end
          | c => c
          end
  | c => c
  end.

Definition ver_eqb (a b : ver) : bool := match ver_compare a b with Eq => true | _ => false end.
Definition ver_leb (a b : ver) : bool := match ver_compare a b with Gt => false | _ => true end.
Definition ver_ltb (a b : ver) : bool := match ver_compare a b with Lt => true | _ => false end.

Definition is_release (v : ver) : bool := match vpre v with EmptyString => true | _ => false end.

(* ---- version.rs: SemVerPrefix / VersionReq.  The struct allows `minor = None, patch = Some _`
   (not produced by the parser, but by deserialisation), so the model keeps both options. *)
Inductive vreq :=
| RCompat (maj : N) (mi : option N) (pa : option N)
| RExact (v : ver).

Definition dflt (o : option N) : N := match o with Some n => n | None => 0 end.

(* SemVerPrefix::matches / VersionReq::matches, as written on the unchanged tree. *)
Definition matches_cur (r : vreq) (v : ver) : bool :=
  match r with
  | RCompat M mi pa =>
      match mi, pa with
      | None, _ => N.eqb (vmaj v) M
      | Some m, None => N.eqb (vmaj v) M && N.leb m (vmin v)
      | Some m, Some p => N.eqb (vmaj v) M && N.eqb (vmin v) m && N.leb p (vpat v)
      end
  | RExact w => ver_eqb v w
  end.

(* ---- resolve.rs: BucketVersion *)
Inductive bucket := BMajor (m : N) | BMinor (m : N) | BPre (v : ver).

Definition major_minor (major minor : N) : bucket :=
  if N.eqb major 0 then BMinor minor else BMajor major.

(* From<SemVer> for BucketVersion *)
Definition bucket_of_ver (v : ver) : bucket :=
  if is_release v then major_minor (vmaj v) (vmin v) else BPre v.

(* From<VersionReq> for BucketVersion *)
Definition bucket_of_req (r : vreq) : bucket :=
  match r with
  | RCompat M mi _ => major_minor M (dflt mi)
  | RExact v => bucket_of_ver v
  end.

(* BucketVersion::contains *)
Definition bucket_contains (b : bucket) (v : ver) : bool :=
  match b with
  | BMajor m => N.eqb m (vmaj v) && is_release v
  | BMinor m => N.eqb (vmaj v) 0 && N.eqb (vmin v) m && is_release v
  | BPre w => ver_eqb w v
  end.

Definition bucket_eqb (a b : bucket) : bool :=
  match a, b with
  | BMajor x, BMajor y => N.eqb x y
  | BMinor x, BMinor y => N.eqb x y
  | BPre x, BPre y => ver_eqb x y
  | _, _ => false
  end.

(* Buckets that the code can build (BucketVersion::from / major_minor): never `Major(0)`, and a
   `Prerelease` bucket carries a version with a non-empty prerelease. *)
Definition bucket_wf (b : bucket) : bool :=
  match b with
  | BMajor m => negb (N.eqb m 0)
  | BMinor _ => true
  | BPre v => negb (is_release v)
  end.

(* ---- resolve.rs: index_dep_package_and_range.  Only two shapes of pubgrub::Ranges are built
   by the provider: `higher_than(lo)` (v >= lo) and `singleton(v)`; intersections are kept as
   lists (see Resolve.v). *)
Inductive range := RgHigher (lo : ver) | RgSingle (v : ver).

Definition range_of_req (r : vreq) : range :=
  match r with
  | RCompat M mi pa => RgHigher (V M (dflt mi) (dflt pa) EmptyString)
  | RExact v => RgSingle v
  end.

Definition range_contains (rg : range) (v : ver) : bool :=
  match rg with
  | RgHigher lo => ver_leb lo v
  | RgSingle w => ver_eqb w v
  end.

(* ---- the property's words, written independently of the code's three views:
   "the exact version, or one of the same compatibility class that is not lower" (and, as the
   buckets say, never a prerelease unless it was asked for exactly).  The compatibility class
   of a release is its major number, or (0, minor) below 1.0. *)
Definition compat_class (v : ver) : N * N :=
  if N.eqb (vmaj v) 0 then (0, vmin v) else (vmaj v, 0).

Definition class_eqb (a b : N * N) : bool := N.eqb (fst a) (fst b) && N.eqb (snd a) (snd b).

Definition lower_bound (M : N) (mi pa : option N) : ver := V M (dflt mi) (dflt pa) EmptyString.

Definition satisfies (r : vreq) (v : ver) : bool :=
  match r with
  | RExact w => ver_eqb v w
  | RCompat M mi pa =>
      is_release v
      && class_eqb (compat_class (lower_bound M mi pa)) (compat_class v)
      && ver_leb (lower_bound M mi pa) v
  end.

(* Cargo's convention quoted by the manual's footnote ("the left-most non-zero number determines
   compatibility") additionally separates 0.0.x versions from each other; the code does not. *)
Definition cargo_class (v : ver) : N * N * N :=
  if N.eqb (vmaj v) 0 then (if N.eqb (vmin v) 0 then (0, 0, vpat v) else (0, vmin v, 0)) else (vmaj v, 0, 0).

(* ---- the repaired matcher (proposed/C20-matches.diff): release only, same class, not lower. *)
Definition pair_leb (a b : N * N) : bool :=
  N.ltb (fst a) (fst b) || (N.eqb (fst a) (fst b) && N.leb (snd a) (snd b)).

Definition matches_fix (r : vreq) (v : ver) : bool :=
  match r with
  | RCompat M mi pa =>
      is_release v
      && N.eqb (vmaj v) M
      && (negb (N.eqb M 0) || N.eqb (vmin v) (dflt mi))
      && pair_leb (dflt mi, dflt pa) (vmin v, vpat v)
  | RExact w => ver_eqb v w
  end.

(* Where the matcher of the unchanged tree is narrower than the solver's bucket + range: the
   `major.minor.patch` form (major >= 1) demands the same minor (class A of the known finding). *)
Definition minor_gap (r : vreq) (v : ver) : bool :=
  match r with
  | RCompat M (Some m) (Some _) => negb (N.eqb M 0) && negb (N.eqb (vmin v) m)
  | _ => false
  end.
