(* C20 model, part 3: LockFile::new (lock.rs) with its LockFileNamer, and the skeleton of
   Resolution::{precise, sorted_dependencies, package_map} (resolve.rs) for index packages.
   Panics (`unwrap` on None, indexing a missing key) and `?`-propagated errors are explicit.
   Definitions only (proofs are in LockProofs.v). *)
From Coq Require Import List NArith Bool String.
Import ListNotations.
From NV Require Import Pkg.Version Pkg.Resolve.
Local Open Scope N_scope.

Inductive res (A : Type) : Type :=
| Ok (a : A)
| Panic          (* a Rust panic *)
| Err            (* Err(_) returned through `?` *)
| OutOfFuel.     (* artefact of the fuel-indexed recursion; never observed *)
Arguments Ok {A} _.
Arguments Panic {A}.
Arguments Err {A}.
Arguments OutOfFuel {A}.

(* Resolution { index, index_packages } *)
Record resolution := Res { r_idx : index; r_ip : list (N * list ver) }.

(* PrecisePkg::Index(PreciseIndexPkg { id, version }) *)
Definition ppkg := (N * ver)%type.
Definition ppkg_eqb (a b : ppkg) : bool := N.eqb (fst a) (fst b) && ver_eqb (snd a) (snd b).

(* Resolution::precise for Dependency::Index *)
Definition precise (mt : vreq -> ver -> bool) (r : resolution) (d : dep) : res ppkg :=
  match index_dep_version mt (r_ip r) d with
  | Some v => Ok (dpkg d, v)
  | None => Panic
  end.

Fixpoint map_res {A B : Type} (f : A -> res B) (l : list A) : res (list B) :=
  match l with
  | [] => Ok []
  | x :: t =>
      match f x with
      | Ok y => match map_res f t with Ok ys => Ok (y :: ys) | Panic => Panic | Err => Err | OutOfFuel => OutOfFuel end
      | Panic => Panic | Err => Err | OutOfFuel => OutOfFuel
      end
  end.

(* sort_by(|a, b| a.label().cmp(b.label())) — stable insertion sort on the name *)
Fixpoint insert_by_name {X : Type} (e : string * X) (l : list (string * X)) : list (string * X) :=
  match l with
  | [] => [e]
  | x :: t => if String.leb (fst e) (fst x) then e :: l else x :: insert_by_name e t
  end.

Definition sort_by_name {X : Type} (l : list (string * X)) : list (string * X) :=
  fold_right insert_by_name [] l.

(* Resolution::sorted_dependencies for an index package: (local name, (dependency, bound package)) *)
Definition sorted_dependencies (mt : vreq -> ver -> bool) (r : resolution) (p : ppkg)
  : res (list (string * (dep * ppkg))) :=
  match deps_of (r_idx r) (fst p) (snd p) with
  | None => Err
  | Some ds =>
      match map_res (fun d => match index_dep_version mt (r_ip r) d with
                              | Some w => Ok (dname d, (d, (dpkg d, w)))
                              | None => Panic
                              end) ds with
      | Ok l => Ok (sort_by_name l)
      | Panic => Panic | Err => Err | OutOfFuel => OutOfFuel
      end
  end.

(* ------------------------------------------------------------------ LockFileNamer *)

Definition entryname := (string * N)%type.
Definition entryname_eqb (a b : entryname) : bool := String.eqb (fst a) (fst b) && N.eqb (snd a) (snd b).

Record namer := Namer { counts : list (string * N); assigned : list (ppkg * entryname) }.

Definition namer_empty : namer := Namer [] [].

Fixpoint lookup_ppkg (p : ppkg) (l : list (ppkg * entryname)) : option entryname :=
  match l with
  | [] => None
  | (q, e) :: t => if ppkg_eqb p q then Some e else lookup_ppkg p t
  end.

Fixpoint lookup_str (s : string) (l : list (string * N)) : option N :=
  match l with
  | [] => None
  | (s', n) :: t => if String.eqb s s' then Some n else lookup_str s t
  end.

Fixpoint set_str (s : string) (n : N) (l : list (string * N)) : list (string * N) :=
  match l with
  | [] => [(s, n)]
  | (s', m) :: t => if String.eqb s s' then (s', n) :: t else (s', m) :: set_str s n t
  end.

(* LockFileNamer::name *)
Definition namer_name (nm : namer) (name : string) (p : ppkg) : entryname * namer :=
  match lookup_ppkg p (assigned nm) with
  | Some e => (e, nm)
  | None =>
      let c := match lookup_str name (counts nm) with Some i => i + 1 | None => 0 end in
      ((name, c), Namer (set_str name c (counts nm)) ((p, (name, c)) :: assigned nm))
  end.

(* ------------------------------------------------------------------ LockFile::new *)

(* LockFileEntry { precise, dependencies } *)
Definition lockentry := (ppkg * list (string * entryname))%type.
Definition lockacc := list (entryname * lockentry).

Definition acc_mem (en : entryname) (acc : lockacc) : bool :=
  existsb (fun e => entryname_eqb en (fst e)) acc.

(* BTreeMap::insert (replaces an existing entry) *)
Fixpoint acc_insert (en : entryname) (e : lockentry) (acc : lockacc) : lockacc :=
  match acc with
  | [] => [(en, e)]
  | (en', e') :: t => if entryname_eqb en en' then (en', e) :: t else (en', e') :: acc_insert en e t
  end.

Fixpoint name_children (nm : namer) (deps : list (string * (dep * ppkg)))
  : list (string * entryname) * namer :=
  match deps with
  | [] => ([], nm)
  | (n, (_, q)) :: t =>
      let '(e, nm1) := namer_name nm n q in
      let '(rest, nm2) := name_children nm1 t in
      ((n, e) :: rest, nm2)
  end.

(* the `for (id, _dep, precise) in sorted_dependencies(pkg)? { collect_packages(..)?; }` loop,
   parametrised by the recursive call *)
Fixpoint collect_list (rec : string -> ppkg -> lockacc * namer -> res (entryname * (lockacc * namer)))
         (ds : list (string * (dep * ppkg))) (st : lockacc * namer) : res (lockacc * namer) :=
  match ds with
  | [] => Ok st
  | e :: t =>
      match rec (fst e) (snd (snd e)) st with
      | Ok r => collect_list rec t (snd r)
      | Panic => Panic | Err => Err | OutOfFuel => OutOfFuel
      end
  end.

(* collect_packages *)
Fixpoint collect (fuel : nat) (mt : vreq -> ver -> bool) (r : resolution) (name : string) (p : ppkg)
         (st : lockacc * namer) : res (entryname * (lockacc * namer)) :=
  match fuel with
  | O => OutOfFuel
  | S f =>
      let en_nm := namer_name (snd st) name p in
      match sorted_dependencies mt r p with
      | Ok deps =>
          let ed_nm := name_children (snd en_nm) deps in
          let existed := acc_mem (fst en_nm) (fst st) in
          let acc' := acc_insert (fst en_nm) (p, fst ed_nm) (fst st) in
          (* "Only recurse if this is the first time we've encountered this precise package."
             (sorted_dependencies is called a second time by the code; same result) *)
          if existed then Ok (fst en_nm, (acc', snd ed_nm))
          else
            match collect_list (collect f mt r) deps (acc', snd ed_nm) with
            | Ok st' => Ok (fst en_nm, st')
            | Panic => Panic | Err => Err | OutOfFuel => OutOfFuel
            end
      | Panic => Panic | Err => Err | OutOfFuel => OutOfFuel
      end
  end.

(* LockFile { dependencies, packages } *)
Definition lockfile := (list (string * entryname) * lockacc)%type.

Fixpoint lock_roots (fuel : nat) (mt : vreq -> ver -> bool) (r : resolution)
         (roots : list (string * dep)) (deps : list (string * entryname)) (st : lockacc * namer)
  : res lockfile :=
  match roots with
  | [] => Ok (deps, fst st)
  | (id, d) :: t =>
      match precise mt r d with
      | Ok p =>
          match collect fuel mt r id p st with
          | Ok (en, st') => lock_roots fuel mt r t (deps ++ [(id, en)]) st'
          | Panic => Panic | Err => Err | OutOfFuel => OutOfFuel
          end
      | Panic => Panic | Err => Err | OutOfFuel => OutOfFuel
      end
  end.

(* manifest.sorted_dependencies() *)
Definition sorted_root_deps (man : manifest) : list (string * dep) :=
  sort_by_name (map (fun d => (dname d, d)) man).

Definition lock_new (fuel : nat) (mt : vreq -> ver -> bool) (r : resolution) (man : manifest) : res lockfile :=
  lock_roots fuel mt r (sorted_root_deps man) [] ([], namer_empty).

(* the index entries of a lock file, as read back by resolve_with_lock *)
Definition lock_entries (l : lockfile) : list (N * ver) := map (fun e => fst (snd e)) (snd l).

(* ------------------------------------------------------------------ Resolution::package_map *)

(* all index packages of the resolution *)
Definition all_packages (r : resolution) : list ppkg :=
  flat_map (fun e => map (fun v => (fst e, v)) (snd e)) (r_ip r).

(* local_path of an index package: Err when the index has no such version.  The path is
   determined by the version's commit id; the harness gives every (id, version) its own. *)
Definition local_path (r : resolution) (p : ppkg) : res ppkg :=
  match deps_of (r_idx r) (fst p) (snd p) with Some _ => Ok p | None => Err end.

Definition pm_entries_of (mt : vreq -> ver -> bool) (r : resolution) (p : ppkg)
  : res (list (ppkg * string * ppkg)) :=
  match local_path r p with
  | Ok pp =>
      match sorted_dependencies mt r p with
      | Ok deps =>
          map_res (fun e => match local_path r (snd (snd e)) with
                            | Ok q => Ok (pp, fst e, q)
                            | Panic => Panic | Err => Err | OutOfFuel => OutOfFuel
                            end) deps
      | Panic => Panic | Err => Err | OutOfFuel => OutOfFuel
      end
  | Panic => Panic | Err => Err | OutOfFuel => OutOfFuel
  end.

(* PackageMap { top_level, packages } *)
Definition package_map (mt : vreq -> ver -> bool) (r : resolution) (man : manifest)
  : res (list (string * ppkg) * list (ppkg * string * ppkg)) :=
  match map_res (pm_entries_of mt r) (all_packages r) with
  | Ok pk =>
      match map_res (fun d => match precise mt r d with
                              | Ok p => match local_path r p with
                                        | Ok q => Ok (dname d, q)
                                        | Panic => Panic | Err => Err | OutOfFuel => OutOfFuel
                                        end
                              | Panic => Panic | Err => Err | OutOfFuel => OutOfFuel
                              end) man with
      | Ok top => Ok (top, List.concat pk)
      | Panic => Panic | Err => Err | OutOfFuel => OutOfFuel
      end
  | Panic => Panic | Err => Err | OutOfFuel => OutOfFuel
  end.

(* ------------------------------------------------------------------ keeping a lock file *)

Fixpoint lookup_name (n : string) (l : list (string * entryname)) : option entryname :=
  match l with
  | [] => None
  | (m, e) :: t => if String.eqb n m then Some e else lookup_name n t
  end.

Fixpoint lookup_entry (en : entryname) (acc : lockacc) : option lockentry :=
  match acc with
  | [] => None
  | (en', e) :: t => if entryname_eqb en en' then Some e else lookup_entry en t
  end.

(* ManifestFile::is_lock_file_up_to_date for index dependencies: every dependency of the manifest
   has a lock entry under its name, for the same package id, with a version accepted by
   Dependency::matches (= VersionReq::matches) *)
Definition up_to_date (mt : vreq -> ver -> bool) (l : lockfile) (man : manifest) : bool :=
  forallb (fun d =>
             match lookup_name (dname d) (fst l) with
             | None => false
             | Some en =>
                 match lookup_entry en (snd l) with
                 | None => false
                 | Some e => N.eqb (dpkg d) (fst (fst e)) && mt (dreq d) (snd (fst e))
                 end
             end) man.

(* resolve::copy_from_lock: the versions of all index entries of the lock file *)
Definition copy_from_lock (l : lockfile) : list (N * list ver) :=
  index_packages (locked_of (lock_entries l)).
